"""Common machinery for the numbat verification checks.

Every check is `bin/check <id> --tier quick|thorough`; it
  1. rebuilds the harness (and, where needed, the CLI) from /repo's working tree,
  2. runs TLC on the specification (MC) and collects the cases TLC printed (G),
  3. replays them on the real code and/or validates recorded traces with TLC (J),
  4. classifies mismatches against known_findings.json, writes evidence, sets the exit status.
Exit status: 0 held, 1 violation (with VIOLATION line and replay file), 2 tool error.
"""
import fcntl
import json
import os
import re
import subprocess
import sys
import time

ROOT = os.path.dirname(os.path.dirname(os.path.abspath(__file__)))
SPEC = os.path.join(ROOT, "spec")
WORK = os.path.join(ROOT, "work")
HARNESS_DIR = os.path.join(ROOT, "harness")
BIN_DIR = os.path.join(WORK, "target", "debug")
REPLAYS = os.path.join(ROOT, "replays")
EVIDENCE = os.path.join(ROOT, "evidence")
REPO = os.environ.get("NV_REPO", "/repo")
NCPU = os.cpu_count() or 4


class ToolError(Exception):
    pass


def log(*a):
    print("[nv]", *a, file=sys.stderr, flush=True)


def _env():
    e = dict(os.environ)
    e["CARGO_NET_OFFLINE"] = "true"
    return e


def build_harness(bins=None):
    """cargo build of the harness binaries (all, or the named ones) against /repo's current working tree
    (hooks on)."""
    os.makedirs(WORK, exist_ok=True)
    lock = open(os.path.join(WORK, ".build.lock"), "w")
    fcntl.flock(lock, fcntl.LOCK_EX)
    try:
        t = time.time()
        p = subprocess.run(
            ["cargo", "build", "--offline", "-q"] + [x for b in (bins or []) for x in ("--bin", b)],
            cwd=HARNESS_DIR, env=_env(),
            stdout=subprocess.PIPE, stderr=subprocess.STDOUT, text=True)
        if p.returncode != 0:
            raise ToolError("harness build failed:\n" + p.stdout[-4000:])
        log("harness built in %.1fs" % (time.time() - t))
    finally:
        fcntl.flock(lock, fcntl.LOCK_UN)
        lock.close()
    return BIN_DIR


def build_cli():
    """cargo build of the numbat CLI from /repo's working tree into /verif/work/cli-target."""
    os.makedirs(WORK, exist_ok=True)
    lock = open(os.path.join(WORK, ".build-cli.lock"), "w")
    fcntl.flock(lock, fcntl.LOCK_EX)
    try:
        t = time.time()
        tgt = os.path.join(WORK, "cli-target")
        p = subprocess.run(
            ["cargo", "build", "--offline", "-q", "-p", "numbat-cli", "--no-default-features",
             "--target-dir", tgt],
            cwd=REPO, env=_env(), stdout=subprocess.PIPE, stderr=subprocess.STDOUT, text=True)
        if p.returncode != 0:
            raise ToolError("cli build failed:\n" + p.stdout[-4000:])
        log("cli built in %.1fs" % (time.time() - t))
        return os.path.join(tgt, "debug", "numbat")
    finally:
        fcntl.flock(lock, fcntl.LOCK_UN)
        lock.close()


def harness(binary, args, stdin=None, timeout=3600, check=True):
    """run harness binary `binary` (e.g. "nv-list") with args"""
    p = subprocess.run([os.path.join(BIN_DIR, binary)] + list(args), input=stdin, stdout=subprocess.PIPE,
                       stderr=subprocess.PIPE, text=True, timeout=timeout, encoding="utf-8", errors="replace")
    if check and p.returncode != 0:
        raise ToolError("harness %s failed (%d):\n%s" % (args, p.returncode, p.stderr[-4000:]))
    return p


UESC_RE = re.compile(r"\{u([0-9a-f]{4})\}")
CASE_RE = re.compile(r'^<<"([A-Z]+)", "(.*)">>$')


class TLCResult:
    def __init__(self):
        self.stdout = ""
        self.generated = 0
        self.distinct = 0
        self.depth = 0
        self.cases = {}      # tag -> list of decoded json objects
        self.violated = None  # name of violated invariant / property
        self.error = None
        self.wall = 0.0
        self.coverage = {}


def tlc(module, cfg=None, workers=8, timeout=1800, simulate=None, depth=None, seed=None,
        env=None, jvm=None, coverage=False, want_tags=("CASE",), extra=(), cwd=SPEC, keep_lines=False):
    """Run TLC on spec/<module>.tla with spec/<cfg>. Returns TLCResult. Raises ToolError on
    parse/semantic errors and time-outs. An invariant violation is reported in .violated."""
    cfg = cfg or (module + ".cfg")
    import uuid
    meta = os.path.join(WORK, "tlc", "%s_%d_%s" % (module, os.getpid(), uuid.uuid4().hex[:12]))
    os.makedirs(meta, exist_ok=True)
    cmd = ["timeout", str(timeout), "tlc", "-workers", str(workers), "-metadir", meta, "-cleanup",
           "-noGenerateSpecTE", "-config", cfg]
    if simulate:
        cmd += ["-simulate", "num=%d" % simulate]
        if depth:
            cmd += ["-depth", str(depth)]
    if seed is not None:
        cmd += ["-seed", str(seed)]
    if coverage:
        cmd += ["-coverage", "1"]
    cmd += list(extra)
    cmd.append(module + ".tla")
    e = _env()
    if env:
        e.update(env)
    jopts = (jvm or "-Xss512m") + " -Dfile.encoding=UTF-8 -Dstdout.encoding=UTF-8 -Dsun.jnu.encoding=UTF-8"
    e["JAVA_TOOL_OPTIONS"] = (e.get("JAVA_TOOL_OPTIONS", "") + " " + jopts).strip()
    e.setdefault("LC_ALL", "C.UTF-8")
    t = time.time()
    res = TLCResult()
    proc = subprocess.Popen(cmd, cwd=cwd, env=e, stdout=subprocess.PIPE, stderr=subprocess.STDOUT, text=True,
                            encoding="utf-8", errors="replace")
    other = []
    for line in proc.stdout:
        line = line.rstrip("\n")
        m = CASE_RE.match(line)
        if m and m.group(1) in want_tags:
            try:
                inner = json.loads('"' + m.group(2) + '"')
                if "{u" in inner:
                    inner = UESC_RE.sub(lambda x: json.dumps(chr(int(x.group(1), 16)))[1:-1], inner)
                obj = json.loads(inner)
            except Exception as ex:  # pragma: no cover
                raise ToolError("cannot decode TLC case line: %s (%s)" % (line[:200], ex))
            res.cases.setdefault(m.group(1), []).append(obj)
        else:
            other.append(line)
    rc = proc.wait()
    res.wall = time.time() - t
    res.stdout = "\n".join(other)
    subprocess.run(["rm", "-rf", meta])
    for line in other:
        m = re.match(r"^(\d+) states generated, (\d+) distinct states found", line)
        if m:
            res.generated, res.distinct = int(m.group(1)), int(m.group(2))
        m = re.match(r"^The depth of the complete state graph search is (\d+)", line)
        if m:
            res.depth = int(m.group(1))
        m = re.match(r"^Error: Invariant (\S+) is violated", line)
        if m:
            res.violated = m.group(1)
        m = re.match(r"^Error: Action property (\S+) is violated", line)
        if m:
            res.violated = m.group(1)
        m = re.match(r"^Error: Temporal properties were violated", line)
        if m:
            res.violated = res.violated or "temporal"
        m = re.match(r"^Error: Postcondition (\S+)", line)
        if m:
            res.violated = res.violated or "postcondition"
        m = re.match(r"^The number of states generated: (\d+)", line)
        if m:
            res.generated = int(m.group(1))
    if rc == 124:
        raise ToolError("TLC timed out after %ds on %s/%s" % (timeout, module, cfg))
    if res.violated is None and rc != 0:
        # parse error, evaluation error, assertion failure, ...
        raise ToolError("TLC failed (rc=%d) on %s/%s:\n%s" % (rc, module, cfg, "\n".join(other[-60:])))
    return res


def sany_all():
    """parse every specification module with SANY; modules that EXTEND a data module generated at run time
    (spec/_gen_*.tla, written by the checks from the current tree) are skipped while that module is absent"""
    bad = []
    present = set(f[:-4] for f in os.listdir(SPEC) if f.endswith(".tla"))
    for f in sorted(os.listdir(SPEC)):
        if f.endswith(".tla"):
            text = open(os.path.join(SPEC, f), encoding="utf-8").read()
            m = re.search(r"^EXTENDS(.*?)$", text, re.M)
            deps = [d.strip() for d in m.group(1).split(",")] if m else []
            if any(d.startswith("_gen_") and d not in present for d in deps):
                continue
            p = subprocess.run(["tla-sany", f], cwd=SPEC, stdout=subprocess.PIPE, stderr=subprocess.STDOUT, text=True)
            if p.returncode != 0 or "Semantic errors" in p.stdout or "***Parse Error***" in p.stdout or "Fatal" in p.stdout:
                bad.append((f, p.stdout[-1500:]))
    return bad


def load_known(prop):
    path = os.path.join(ROOT, "known_findings.json")
    if not os.path.exists(path):
        return []
    with open(path) as f:
        data = json.load(f)
    return [e for e in data if e.get("property") == prop and e.get("status") == "known"]


class Report:
    """Collects what a run covered and found; writes evidence; decides the exit status."""

    def __init__(self, prop, tier, seed, level):
        self.prop, self.tier, self.seed, self.level = prop, tier, seed, level
        self.t0 = time.time()
        self.cov = {"evaluations": 0, "distinct_nontrivial": 0, "rule": "", "samples": []}
        self.assumptions = []
        self.violations = []   # dicts (unexplained)
        self.known_hits = {}   # finding id -> count
        self.known = load_known(prop)
        self.notes = {}

    # ---- coverage helpers
    def add(self, key, n=1):
        self.cov[key] = self.cov.get(key, 0) + n

    def set(self, key, v):
        self.cov[key] = v

    def sample(self, s, limit=6):
        if len(self.cov["samples"]) < limit:
            self.cov["samples"].append(s)

    def tlc_stats(self, res, label=None):
        self.add("states", res.distinct)
        self.add("transitions", res.generated)
        if label:
            self.cov.setdefault("tlc_runs", []).append(
                {"model": label, "distinct": res.distinct, "generated": res.generated, "wall_s": round(res.wall, 1)})

    # ---- findings
    def violation(self, v, matcher=None):
        """v: dict describing the failing case. matcher(v, known_entry) -> bool decides whether a
        known finding covers it."""
        for k in self.known:
            if matcher and matcher(v, k):
                kid = k.get("id", "?")
                self.known_hits.setdefault(kid, {"entry": k, "count": 0, "first": v})
                self.known_hits[kid]["count"] += 1
                return False
        self.violations.append(v)
        return True

    def finish(self):
        os.makedirs(EVIDENCE, exist_ok=True)
        wall = time.time() - self.t0
        for kid, h in sorted(self.known_hits.items()):
            print("KNOWN-FINDING: property=%s %s [%s, %d occurrence(s) this run]" %
                  (self.prop, h["entry"].get("what", ""), kid, h["count"]))
        rc = 0
        replay_path = None
        if self.violations:
            os.makedirs(REPLAYS, exist_ok=True)
            replay_path = os.path.join(REPLAYS, "%s_%s_%d.json" % (self.prop, self.tier, int(time.time())))
            with open(replay_path, "w") as f:
                json.dump({"property": self.prop, "tier": self.tier, "seed": self.seed,
                           "violations": self.violations[:200]}, f, indent=1, default=str)
            for v in self.violations[:5]:
                log("violation:", json.dumps(v, default=str)[:1500])
            print("VIOLATION property=%s replay=%s" % (self.prop, replay_path))
            rc = 1
        cov = dict(self.cov)
        cov["known_findings_hit"] = {k: v["count"] for k, v in self.known_hits.items()}
        if self.level == "model_checking":
            cov.setdefault("states", 0)
            cov.setdefault("transitions", 0)
            cov.setdefault("traces_validated_against_impl", 0)
        ev = {
            "property_id": self.prop, "tier": self.tier, "seed": self.seed, "level": self.level,
            "coverage": cov, "assumptions": self.assumptions, "wall_s": round(wall, 1),
            "violations": len(self.violations),
        }
        if self.notes:
            ev["notes"] = self.notes
        # checks beyond the listed properties (ids X_...) keep their evidence apart from the manifest's evidence files
        evdir = EVIDENCE if not self.prop.startswith("X_") else os.path.join(ROOT, "evidence_extra")
        os.makedirs(evdir, exist_ok=True)
        # NV_KEEP_EVIDENCE=1 (documentation runs of the thorough tier only): leave evidence/<id>.json of the last quick run alone
        if not (os.environ.get("NV_KEEP_EVIDENCE") == "1" and self.tier == "thorough"):
            with open(os.path.join(evdir, self.prop + ".json"), "w") as f:
                json.dump(ev, f, indent=1, default=str)
        if self.tier == "thorough":
            # evidence/<id>.json is rewritten by every run; the last thorough run is also kept on its own
            tdir = os.path.join(ROOT, "evidence_thorough")
            os.makedirs(tdir, exist_ok=True)
            with open(os.path.join(tdir, self.prop + ".json"), "w") as f:
                json.dump(ev, f, indent=1, default=str)
        log("%s %s: evaluations=%s nontrivial=%s violations=%d known=%d wall=%.1fs" % (
            self.prop, self.tier, cov.get("evaluations"), cov.get("distinct_nontrivial"),
            len(self.violations), sum(h["count"] for h in self.known_hits.values()), wall))
        return rc


def write_ndjson(path, rows):
    with open(path, "w", encoding="utf-8") as f:
        for r in rows:
            f.write(json.dumps(r, separators=(",", ":")) + "\n")


def read_ndjson_text(text):
    out = []
    for line in text.splitlines():
        line = line.strip()
        if line:
            out.append(json.loads(line))
    return out


def scratch(name):
    d = os.path.join(WORK, "scratch", "%s_%d" % (name, os.getpid()))
    os.makedirs(d, exist_ok=True)
    return d


# ---------------------------------------------------------------------------------------------
# TLC state-graph dump (dot) -> python values.  Used to turn TLC's state graph into replayable
# paths (one implementation run per spanning-tree leaf / non-tree edge).

class _P:
    def __init__(self, s):
        self.s, self.i = s, 0

    def ws(self):
        while self.i < len(self.s) and self.s[self.i] in " \n\t\r":
            self.i += 1

    def peek(self, k=1):
        return self.s[self.i:self.i + k]

    def eat(self, t):
        self.ws()
        if self.s.startswith(t, self.i):
            self.i += len(t)
            return True
        return False

    def expect(self, t):
        if not self.eat(t):
            raise ValueError("expected %r at %d: %r" % (t, self.i, self.s[self.i:self.i + 40]))

    def value(self):
        self.ws()
        c = self.peek()
        if c == '"':
            j = self.i + 1
            out = []
            while self.s[j] != '"':
                if self.s[j] == "\\":
                    j += 1
                    out.append({"n": "\n", "t": "\t"}.get(self.s[j], self.s[j]))
                else:
                    out.append(self.s[j])
                j += 1
            self.i = j + 1
            return "".join(out)
        if self.s.startswith("<<", self.i):
            self.i += 2
            items = []
            self.ws()
            if self.eat(">>"):
                return items
            while True:
                items.append(self.value())
                if self.eat(">>"):
                    return items
                self.expect(",")
        if c == "{":
            self.i += 1
            items = []
            if self.eat("}"):
                return {"$set": items}
            while True:
                items.append(self.value())
                if self.eat("}"):
                    return {"$set": items}
                self.expect(",")
        if c == "[":
            self.i += 1
            rec = {}
            if self.eat("]"):
                return rec
            while True:
                self.ws()
                m = re.compile(r"[A-Za-z_0-9]+").match(self.s, self.i)
                k = m.group(0)
                self.i = m.end()
                self.expect("|->")
                rec[k] = self.value()
                if self.eat("]"):
                    return rec
                self.expect(",")
        if c == "(":
            self.i += 1
            pairs = []
            while True:
                k = self.value()
                self.expect(":>")
                v = self.value()
                pairs.append((k, v))
                if self.eat(")"):
                    break
                self.expect("@@")
            if all(isinstance(k, str) for k, _ in pairs):
                return {k: v for k, v in pairs}
            return {"$fun": pairs}
        m = re.compile(r"-?\d+").match(self.s, self.i)
        if m:
            self.i = m.end()
            return int(m.group(0))
        m = re.compile(r"[A-Za-z_][A-Za-z_0-9]*").match(self.s, self.i)
        if m:
            self.i = m.end()
            w = m.group(0)
            return True if w == "TRUE" else False if w == "FALSE" else {"$mv": w}
        raise ValueError("cannot parse value at %d: %r" % (self.i, self.s[self.i:self.i + 40]))


def parse_tla_value(s):
    p = _P(s)
    v = p.value()
    return v


def parse_tla_state(label):
    """label: '/\\ x = 1\n/\\ y = <<>>' -> dict"""
    p = _P(label)
    st = {}
    while True:
        p.ws()
        if p.i >= len(p.s):
            break
        p.expect("/\\")
        p.ws()
        m = re.compile(r"[A-Za-z_][A-Za-z_0-9]*").match(p.s, p.i)
        p.i = m.end()
        p.expect("=")
        st[m.group(0)] = p.value()
    return st


def tlc_graph(module, cfg=None, workers=8, timeout=1800, env=None, jvm=None):
    """Run TLC with -dump dot and return (TLCResult, nodes {id: state}, edges [(src, dst, action)], init ids)."""
    dump = os.path.join(WORK, "tlc", "graph_%s_%d" % (module, os.getpid()))
    os.makedirs(os.path.dirname(dump), exist_ok=True)
    res = tlc(module, cfg, workers=workers, timeout=timeout, env=env, jvm=jvm,
              extra=["-dump", "dot,actionlabels", dump])
    path = dump + ".dot"
    nodes, edges, inits = {}, [], []
    node_re = re.compile(r'^(-?\d+) \[label="((?:[^"\\]|\\.)*)"(,style = filled)?')
    edge_re = re.compile(r'^(-?\d+) -> (-?\d+) \[label="((?:[^"\\]|\\.)*)"')
    with open(path) as f:
        for line in f:
            line = line.rstrip("\n")
            m = edge_re.match(line)
            if m:
                edges.append((m.group(1), m.group(2), m.group(3)))
                continue
            m = node_re.match(line)
            if m:
                label = m.group(2).replace("\\n", "\n").replace('\\"', '"').replace("\\\\", "\\")
                nodes[m.group(1)] = parse_tla_state(label)
                if m.group(3):
                    inits.append(m.group(1))
    os.remove(path)
    return res, nodes, edges, inits


def graph_paths(nodes, edges, inits):
    """Cover every edge of the graph at least once with paths from an initial state:
    BFS spanning tree; one path per tree leaf, plus one path per non-tree edge.
    Returns list of paths; a path is a list of node ids starting at an initial state."""
    from collections import deque
    succ = {}
    for s, d, _a in edges:
        succ.setdefault(s, []).append(d)
    parent = {i: None for i in inits}
    dq = deque(inits)
    tree_children = {}
    nontree = []
    seen_edge = set()
    while dq:
        u = dq.popleft()
        for v in succ.get(u, []):
            if (u, v) in seen_edge:
                continue
            seen_edge.add((u, v))
            if v not in parent:
                parent[v] = u
                tree_children.setdefault(u, []).append(v)
                dq.append(v)
            elif u != v or True:
                nontree.append((u, v))

    def path_to(n):
        p = []
        while n is not None:
            p.append(n)
            n = parent[n]
        return p[::-1]
    paths = []
    for n in parent:
        if n not in tree_children:
            paths.append(path_to(n))
    for u, v in nontree:
        paths.append(path_to(u) + [v])
    return paths


TRACE_JVM = "-Xss1g -Dtlc2.tool.queue.IStateQueue=StateDeque"


def validate_trace(module, trace_path, cfg=None, timeout=1800, extra_env=None):
    """J direction: TLC checks a recorded ndjson trace against spec/<module>.tla.
    Returns dict(accepted, matched, total, violated, res)."""
    env = {"TRACE": trace_path}
    if extra_env:
        env.update(extra_env)
    res = tlc(module, cfg, workers=1, timeout=timeout, env=env, jvm=TRACE_JVM + " -Xmx4g",
              want_tags=("REJECTED", "CASE", "BAD"))
    rej = res.cases.get("REJECTED", [])
    bad = [b["line"] for b in res.cases.get("BAD", [])]
    out = {"accepted": res.violated is None and not rej and not bad, "violated": res.violated, "res": res,
           "matched": None, "total": None, "bad_lines": bad}
    if rej:
        out["matched"], out["total"] = rej[0].get("matched"), rej[0].get("total")
    elif res.violated is None:
        out["matched"] = out["total"] = res.distinct - 1
    return out


def validate_traces_parallel(module, paths, cfg=None, timeout=1800, jobs=None, extra_env=None):
    from concurrent.futures import ThreadPoolExecutor
    jobs = jobs or max(1, NCPU // 2)
    with ThreadPoolExecutor(max_workers=jobs) as ex:
        return list(ex.map(lambda p: validate_trace(module, p, cfg, timeout, extra_env), paths))
