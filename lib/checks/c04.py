"""C04 - conversion yields exactly the requested unit and the same quantity.
Spec: Quantity.tla - `q -> U` has unit U as written and magnitude lit*F(q.unit)/F(U) (symbolic); the implementation's
stepwise procedure (cancellation of common factors with min/max exponents, then base units) is modelled too and TLC
checks on the real table that it denotes the same as the definition, that the round trip is the identity and
(symbolically) that conversions compose.  G: every ordered pair of same-dimension written forms of the dumped prelude
table (exhaustive over unprefixed canonical targets; prefixed targets in the thorough tier) plus compound units sharing
factors: result unit factors must be exactly U's, the value within rel 1e-9 of the symbolic expectation, the displayed
value must keep U (no simplification after an explicit conversion), converting back restores the magnitude and
converting through an intermediate unit agrees with converting directly.
"""
import json
import os
import re
import shutil
from fractions import Fraction
import nv
from checks import units_common as uc

PROP = "C04"
REL = 1e-9


def unit_key(fs):
    d = {}
    for f in fs:
        k = (f["unit"], f["pk"], f["pe"])
        d[k] = d.get(k, 0) + Fraction(int(f["n"]), int(f["d"]))
    return {k: v for k, v in d.items() if v != 0}


def spec_unit_key(us):
    return {(f["u"], f["pk"], f["pe"]): Fraction(int(f["e"][0]), int(f["e"][1])) for f in us}


def run(tier, seed):
    rep = nv.Report(PROP, tier, seed, "model_checking")
    nv.build_harness(["nv-units"])
    d = nv.scratch("c04")
    units = uc.dump_table()
    factors = {u["name"]: float(u["factor"]) for u in units}
    forms = uc.make_forms(units, tier)
    uc.write_table_module(units, forms, pair_all=(tier != "quick"))
    cfg = os.path.join(nv.SPEC, "_gen_Quantity_%d.cfg" % os.getpid())
    with open(cfg, "w") as f:
        f.write("SPECIFICATION Spec\nINVARIANTS StepwiseAgrees RoundTrip EmitCase\nCHECK_DEADLOCK FALSE\n")
    try:
        res = nv.tlc("MC_Quantity", os.path.basename(cfg), workers=8, timeout=3000, jvm="-Xss512m -Xmx12g")
    finally:
        os.remove(cfg)
    if res.violated:
        rep.violation({"kind": "spec-property", "property": res.violated, "tlc": res.stdout[-2000:]})
        return rep.finish()
    rep.tlc_stats(res, "MC_Quantity " + tier)
    cases = res.cases.get("CASE", [])
    rows = []
    for i, c in enumerate(cases):
        q, t, r = c["q"], c["t"], c["r"]
        rows.append({"id": i, "shown": True, "exprs": [
            "(3 %s) -> (%s)" % (q, t), "((3 %s) -> (%s)) -> (%s)" % (q, t, q),
            "((3 %s) -> (%s)) -> (%s)" % (q, t, r) if c["cls"] == "pair" else "1",
            "(3 %s) -> (%s)" % (q, r) if c["cls"] == "pair" else "1"]})
    # conversion targets with a magnitude other than 1: displayed as a multiple of the target
    multi = [("6 hours", "45 min"), ("1 km", "250 m"), ("10 kg", "2 lb"), ("90 deg", "0.5 rad"), ("1 MiB", "512 B")]
    for a, b in multi:
        rows.append({"id": len(rows), "shown": True, "exprs": ["%s -> %s" % (a, b), "%s -> (1 %s)" % (a, b.split()[1])]})
    chains = []
    for a, b in multi:
        unit = b.split()[1]
        for last in (unit, "(1 %s)" % unit):
            chains.append((a, b, last))
        chains.append(("0 " + a.split()[1], b, unit))
    for a, b, last in chains:
        rows.append({"id": len(rows), "shown": True, "exprs": ["(%s -> %s) -> %s" % (a, b, last), "%s -> %s" % (a, last)]})
    inp, out = os.path.join(d, "cases.ndjson"), os.path.join(d, "out.ndjson")
    nv.write_ndjson(inp, rows)
    nv.harness("nv-units", ["eval", "--cases", inp, "--out", out])
    results = nv.read_ndjson_text(open(out, encoding="utf-8").read())
    nontrivial = 0
    for c, r in zip(cases, results):
        rep.add("evaluations", 1)
        o = r["results"]
        label = "%s -> %s" % (c["q"], c["t"])
        if c["q"] != c["t"]:
            nontrivial += 1
        if o[0]["outcome"] != "ok":
            rep.violation({"kind": "conversion-failed", "case": label, "outcome": o[0]["outcome"], "msg": o[0].get("msg", "")[:200]})
            continue
        want = uc.eval_den({"terms": [{"coef": [1, 1], "mono": c["mono"]}], "vec": {}}, factors)[0]
        for which in ("raw", "shown"):
            got = o[0][which]
            if unit_key(got["unit"]) != spec_unit_key(c["unit"]):
                rep.violation({"kind": "result-unit-is-not-the-requested-unit", "case": label, "which": which,
                               "impl": [(f["unit"], f["pe"], f["n"] + "/" + f["d"]) for f in got["unit"]], "spec": c["unit"]})
            elif not uc.rel_close(float(got["value"]), want, REL):
                rep.violation({"kind": "converted-magnitude", "case": label, "which": which, "impl": float(got["value"]), "spec": want})
        if o[1]["outcome"] != "ok" or not uc.rel_close(float(o[1]["raw"]["value"]), 3.0, REL):
            rep.violation({"kind": "round-trip", "case": label, "back": o[1].get("raw", {}).get("value"), "outcome": o[1]["outcome"]})
        if c["cls"] == "pair":
            if o[2]["outcome"] != "ok" or o[3]["outcome"] != "ok" or not uc.rel_close(float(o[2]["raw"]["value"]), float(o[3]["raw"]["value"]), REL):
                rep.violation({"kind": "via-intermediate-differs", "case": label + " -> " + c["r"],
                               "via": o[2].get("raw", {}).get("value"), "direct": o[3].get("raw", {}).get("value")})
    # chains: the display target belongs to the last conversion only (Quantity.tla ChainDisplayTarget)
    chain_results = results[len(cases) + len(multi):]
    for (a, b, last), r in zip(chains, chain_results):
        rep.add("evaluations", 1)
        o = r["results"]
        if any(x["outcome"] != "ok" for x in o):
            rep.violation({"kind": "conversion-failed", "case": "(%s -> %s) -> %s" % (a, b, last)})
            continue
        chained, direct = o[0]["shown"]["text"], o[1]["shown"]["text"]
        if "×" in chained or chained != direct:
            rep.violation({"kind": "stale-multiple-of-target-display", "case": "(%s -> %s) -> %s" % (a, b, last),
                           "displayed": chained, "direct_conversion_displays": direct})
        nontrivial += 1
    for (a, b), r in zip(multi, results[len(cases):len(cases) + len(multi)]):
        rep.add("evaluations", 1)
        o = r["results"]
        if o[0]["outcome"] != "ok" or o[1]["outcome"] != "ok":
            rep.violation({"kind": "conversion-failed", "case": "%s -> %s" % (a, b)})
            continue
        text = o[0]["shown"]["text"]
        m = re.match(r"^(-?[0-9._e+-]+) × ([0-9._e+-]+) (.+)$", text)
        bval, bunit = float(b.split()[0]), b.split()[1]
        total = float(o[1]["raw"]["value"])   # same quantity expressed in 1 <unit of b>
        if not m or not uc.rel_close(float(m.group(1).replace("_", "")) * float(m.group(2).replace("_", "")), total, 1e-5) \
           or not uc.rel_close(float(m.group(2).replace("_", "")), bval, 1e-9):
            rep.violation({"kind": "multiple-of-target-display", "case": "%s -> %s" % (a, b), "text": text, "total_in_unit": total})
        nontrivial += 1
    rep.add("distinct_nontrivial", nontrivial)
    rep.add("traces_validated_against_impl", len(cases))
    rep.set("unit_table", {"units": len(units), "written_forms": len(forms)})
    for c in cases[7:: max(1, len(cases) // 5)][:5]:
        rep.sample({"conversion": "3 %s -> %s" % (c["q"], c["t"]), "class": c["cls"], "expected_unit": c["unit"], "expected_magnitude": c["mono"]})
    rep.set("rule", "every ordered pair (written form k, same-dimension target j) of the dumped table, j over all unprefixed canonical "
            "forms (thorough: all written forms), plus compound units sharing factors and 5 targets with magnitude != 1; "
            "non-trivial = source and target differ")
    rep.set("exhaustive", True)
    rep.assumptions += ["tolerance rel %.0e on magnitudes; result unit compared exactly as a multiset of (unit, prefix, exponent)" % REL,
                        "the magnitude 3 is used for all pairs (more magnitudes in C11/C12)"]
    if not rep.violations:
        shutil.rmtree(d, ignore_errors=True)
    return rep.finish()


def replay(path, seed):
    data = json.load(open(path))
    for v in data["violations"][:5]:
        print(json.dumps(v)[:2000])
    return 1 if data["violations"] else 0
