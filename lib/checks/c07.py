"""C07 - incremental, batched and replayed sessions agree; a copied session evolves independently.
MC: BatchEq and SaveReplayEq (invariants of MC_Session.tla) over all histories within the bounds.
G:  every history TLC explored is executed on the real code one input at a time, joined into one input, split at
    every cut point, saved with the `save` command (command::CommandRunner + SessionHistory, the REPL loop of the
    CLI) and replayed from the file in a fresh session, and continued on a clone after every prefix; the runs must
    agree with each other and with the spec's predicted output, last result and final observation.
"""
import json
import os
import shutil
import nv
from checks import session_common as sc

PROP = "C07"


def run_alphabet(rep, alphabet, depth, d, simulate=None, seed=None):
    res = sc.gen_histories(alphabet, depth, emit="final" if simulate else "all", simulate=simulate, seed=seed)
    if res.violated:
        rep.violation({"kind": "spec-property", "property": res.violated, "alphabet": alphabet, "tlc": res.stdout[-2500:]})
        return
    rep.tlc_stats(res, "MC_Session %s depth %d%s" % (alphabet, depth, " simulate" if simulate else ""))
    meta = res.cases["META"][0]
    cases = res.cases.get("CASE", [])
    inp = os.path.join(d, "cases_%s.ndjson" % alphabet)
    out = os.path.join(d, "out_%s.ndjson" % alphabet)
    nv.write_ndjson(inp, [{"id": i, "prelude": meta["prelude"], "modules": meta["modules"], "probes": meta["probes"],
                           "steps": [s["text"] for s in c["steps"]]} for i, c in enumerate(cases)])
    nv.harness("nv-session", ["session-c07", "--cases", inp, "--out", out, "--dir", d])
    results = nv.read_ndjson_text(open(out, encoding="utf-8").read())
    nontrivial = 0
    for c, r in zip(cases, results):
        rep.add("evaluations", 1)
        texts = [s["text"] for s in c["steps"]]
        if "error" in r:
            raise nv.ToolError("harness: " + r["error"])
        if len(texts) > 1 and r["all_ok"]:
            nontrivial += 1
        for p in r["problems"]:
            rep.violation({"kind": "runs-disagree", "alphabet": alphabet, "steps": texts, "problems": [p]})
        # against the spec's prediction
        probs = []
        if [s["outcome"] for s in c["steps"]] != r["outcomes"]:
            probs.append("outcomes impl %s spec %s" % (r["outcomes"], [s["outcome"] for s in c["steps"]]))
        else:
            exp_out = [str(x) for s in c["steps"] if s["outcome"] == "ok" for x in s["out"]]
            if exp_out != r["out"]:
                probs.append("output impl %s spec %s" % (r["out"], exp_out))
            exp_res = None
            for s in c["steps"]:
                if s["outcome"] == "ok" and s["res"] != 0:
                    exp_res = str(s["res"])
            if exp_res != r["res"]:
                probs.append("last result impl %s spec %s" % (r["res"], exp_res))
            fake = {"steps": [], "obs": c["obs"]}
            probs += sc.compare_case(fake, {"steps": [], "obs": r["obs"]})
        if probs:
            rep.violation({"kind": "replay-mismatch", "alphabet": alphabet, "steps": texts, "problems": probs[:6]})
    rep.add("histories", len(cases))
    rep.add("distinct_nontrivial", nontrivial)
    rep.add("traces_validated_against_impl", len(cases))
    for c in cases[len(cases) // 3: len(cases) // 3 + 2]:
        rep.sample({"history": [s["text"] for s in c["steps"]], "predicted": [s["outcome"] for s in c["steps"]]})


def run(tier, seed):
    rep = nv.Report(PROP, tier, seed, "model_checking")
    nv.build_harness(["nv-session"])
    d = nv.scratch("c07")
    if tier == "quick":
        plan = [("small", 2, None), ("okonly", 3, None), ("small", 10, 200)]
    else:
        plan = [("small", 2, None), ("okonly", 4, None), ("names", 2, None), ("imports", 2, None), ("small", 20, 1000),
                ("names", 20, 1000), ("imports", 20, 1000), ("okonly", 20, 1000)]
    for alphabet, depth, sim in plan:
        run_alphabet(rep, alphabet, depth, d, simulate=sim, seed=seed)
    # the real read-eval-print loop (numbat-cli, lines from a pipe) with `reset` and `save` between the inputs: the file
    # written by `save` is predicted by Repl.tla and replayed through the real binary
    if not rep.violations:
        from checks import x_repl
        x_repl.repl_conformance(rep, d, "c07", 3 if tier == "quick" else 4, label="repl")
    rep.set("rule", "all histories of <= Depth inputs over the statement-template alphabets plus TLC-simulated long "
            "histories; each executed incrementally, batched, split at every cut, saved+replayed, and continued on a "
            "clone after every prefix; non-trivial = all-successful histories with >= 2 inputs")
    rep.assumptions += ["prelude-free sessions with a 4-line mini prelude; module texts served by a harness ModuleImporter",
                        "the REPL loop of numbat-cli (try_run_command, interpret, push_to_history) is mirrored by the harness for the "
                        "template histories; the real loop (binary, piped lines) runs the Repl.tla scripts"]
    if not rep.violations:
        shutil.rmtree(d, ignore_errors=True)
    return rep.finish()


def replay(path, seed):
    data = json.load(open(path))
    for v in data["violations"][:5]:
        print(json.dumps(v)[:2000])
    return 1 if data["violations"] else 0
