"""C20 - HTML rendering never emits user-controlled markup.
MC: Html.tla - FormatSafe for every (format type, text <= MaxLen over {a < > & " '}), NoUserMarkup for every sequence of
    <= Depth writer actions (set_color / reset / write), under the rule the property demands (write escapes); the same
    model under the rule of the code as found (write copies verbatim) must violate NoUserMarkup (vacuity self-test).
G:  every case TLC explored is executed on the real HtmlFormatter / HtmlWriter; output compared exactly with the
    prediction; a difference is a violation iff the produced text is not a safe rendering by the spec's tag grammar
    (otherwise MODEL-DRIFT).
    End to end: TLC instantiates input templates of every error stage with metacharacter payloads in strings,
    comments, invalid tokens and identifier positions; results are rendered with HtmlFormatter, diagnostics with
    codespan term::emit into HtmlWriter (as numbat-wasm does); every rendering must be a safe rendering of its
    plain-text counterpart.
J:  every call codespan made on the real HtmlWriter is recorded and validated by Trace_Html.tla.
"""
import json
import os
import re
import shutil
import time
import nv

PROP = "C20"
META = set("<>&")

# ---------------------------------------------------------------------------------------------------------
# the tag grammar of Html.tla (Strip / Clean / Unescape / Safe), re-stated for whole strings; cross-checked against
# TLC's predictions on every G case (scanner_selftest)
TAG_RE = re.compile(r'<span class="numbat-[a-z-]+">|</span>')
ENTITIES = {"&amp;": "&", "&lt;": "<", "&gt;": ">", "&quot;": '"', "&apos;": "'", "&#39;": "'", "&#x27;": "'"}
ENT_RE = re.compile("|".join(re.escape(e) for e in ENTITIES))


def strip_tags(s):
    return TAG_RE.sub("", s)


def unclean(t):
    """offending positions of stripped text: [(index, char)]"""
    bad = []
    for i, c in enumerate(t):
        if c in "<>":
            bad.append((i, c))
        elif c == "&" and not ENT_RE.match(t, i):
            bad.append((i, c))
    return bad


def unescape(t):
    return ENT_RE.sub(lambda m: ENTITIES[m.group(0)], t)


def safe(out, txt):
    t = strip_tags(out)
    return not unclean(t) and unescape(t) == txt


def describe(out, txt):
    t = strip_tags(out)
    bad = unclean(t)
    d = {"markup_outside_renderer_tags": ["%s at %d: ...%s..." % (c, i, t[max(0, i - 12):i + 24]) for i, c in bad[:4]],
         "n_offending": len(bad)}
    if not bad and unescape(t) != txt:
        d["text_differs"] = {"decoded": unescape(t)[:300], "written": txt[:300]}
    return d


def known_matcher(v, k):
    sig = k.get("signature", {})
    if sig.get("kind") == "htmlwriter-copies-text-unescaped":
        # exactly: the real HtmlWriter behaves as the specification's writer with Escape replaced by the identity
        # in Write (its own spans intact) - decided per violation by comparison with the spec's verbatim-rule
        # prediction (G) or by TLC accepting the recorded writer calls under WriterEscapes = FALSE (J, end to end)
        return v.get("component") == "HtmlWriter" and v.get("verbatim_copy") is True
    return False


class Limiter:
    """report at most `cap` violations per (kind, verbatim copy or not) to the Report (the rest is counted)"""

    def __init__(self, rep, cap=40):
        self.rep, self.cap, self.n = rep, cap, {}

    def violation(self, v):
        k = (v["kind"], v.get("verbatim_copy"))
        self.n[k] = self.n.get(k, 0) + 1
        known = any(known_matcher(v, e) for e in self.rep.known)
        if known or self.n[k] <= self.cap:
            self.rep.violation(v, known_matcher)
        else:
            self.rep.add("violations_not_listed", 1)


# ---------------------------------------------------------------------------------------------------------

def run_tlc(maxlen, depth, level, emit, e2e, escapes=True, timeout=1500):
    cfg = os.path.join(nv.SPEC, "_gen_Html_%d.cfg" % os.getpid())
    with open(cfg, "w") as f:
        f.write("CONSTANTS WriterEscapes = %s\n          MaxLen = %d\n          Depth = %d\n          Emit = \"%s\"\n"
                "          EmitE2E = \"%s\"\n          Level = %d\n" % (
                    "TRUE" if escapes else "FALSE", maxlen, depth, emit, e2e, level))
        f.write("SPECIFICATION Spec\nINVARIANTS InvFormatSafe InvNoUserMarkup InvBalanced InvEscape EmitCase\n"
                "CHECK_DEADLOCK FALSE\n")
    try:
        return nv.tlc("MC_Html", os.path.basename(cfg), workers=8, timeout=timeout, want_tags=("CASE", "E"))
    finally:
        os.remove(cfg)


def J(chars):
    return "".join(chars)


def compact(c):
    """TLC case (texts as character sequences) -> the same with texts as strings"""
    if c["k"] == "fmt":
        return {"k": "fmt", "t": c["t"], "s": J(c["s"]), "out": J(c["out"])}
    return {"k": "wr", "acts": [{"op": a["op"], "fg": a["fg"], "bold": a["bold"], "s": J(a["s"])} for a in c["acts"]],
            "out": J(c["out"]), "raw": J(c["raw"]), "txt": J(c["txt"])}


def harness_case(c):
    return {k: c[k] for k in (("k", "t", "s") if c["k"] == "fmt" else ("k", "acts"))}


def case_text(c):
    return c["s"] if c["k"] == "fmt" else c["txt"]


def judge_g(c, o):
    """-> None (agrees) | ("drift", info) | ("violation", dict)"""
    exp = c["out"]
    txt = case_text(c)
    hc = harness_case(c)
    if "error" in o:
        return "violation", {"kind": "g-error", "component": "HtmlFormatter" if c["k"] == "fmt" else "HtmlWriter",
                             "case": hc, "error": o["error"]}
    if o["out"] == exp:
        return None
    if safe(o["out"], txt):
        return "drift", {"case": hc, "observed": o["out"], "expected": exp}
    if c["k"] == "fmt":
        return "violation", {"kind": "fmt-mismatch", "component": "HtmlFormatter", "case": hc, "text": txt,
                             "observed": o["out"], "expected": exp, **describe(o["out"], txt)}
    return "violation", {"kind": "writer-mismatch", "component": "HtmlWriter", "case": hc, "text": txt,
                         "observed": o["out"], "expected": exp, "verbatim_copy": o["out"] == c["raw"],
                         **describe(o["out"], txt)}


def scanner_selftest(cases):
    """the Python re-statement of the tag grammar must agree with TLC on every prediction"""
    for c in cases:
        txt = case_text(c)
        if not safe(c["out"], txt):
            raise nv.ToolError("scanner self-test: predicted output judged unsafe: %s" % json.dumps(harness_case(c)))
        if c["k"] == "wr" and safe(c["raw"], txt) != (c["raw"] == c["out"]):
            raise nv.ToolError("scanner self-test: verbatim prediction misjudged: %s" % json.dumps(harness_case(c)))


def g_cases(rep, lim, cases, d):
    inp, out = os.path.join(d, "cases.ndjson"), os.path.join(d, "out.ndjson")
    nv.write_ndjson(inp, [harness_case(c) for c in cases])
    nv.harness("nv-html", ["html-cases", "--cases", inp, "--out", out])
    outs = nv.read_ndjson_text(open(out, encoding="utf-8").read())
    if len(outs) != len(cases):
        raise nv.ToolError("harness returned %d results for %d cases" % (len(outs), len(cases)))
    drift = []
    nontrivial = set()
    for c, o in zip(cases, outs):
        txt = case_text(c)
        if META & set(txt):
            nontrivial.add((c["k"], c.get("t", ""), json.dumps(c.get("acts", "")), txt))
        j = judge_g(c, o)
        if j is None:
            continue
        if j[0] == "drift":
            drift.append(j[1])
        else:
            lim.violation(j[1])
    nf = sum(1 for c in cases if c["k"] == "fmt")
    rep.add("evaluations", len(cases))
    rep.add("g_formatter_cases", nf)
    rep.add("g_writer_cases", len(cases) - nf)
    rep.add("distinct_nontrivial", len(nontrivial))
    if drift:
        rep.add("model_drift_cases", len(drift))
        print("MODEL-DRIFT: property=C20 %d case(s) rendered differently from Html.tla's prediction but safely by its "
              "tag grammar (escaped text, renderer spans only); e.g. %s" % (len(drift), json.dumps(drift[0])[:600]))
    # binding self-test: a corrupted expectation must be noticed
    i = next((i for i, (c, o) in enumerate(zip(cases, outs))
              if c["k"] == "fmt" and "<" in c["s"] and judge_g(c, o) is None), None)
    if i is not None:
        bad = dict(cases[i], out=cases[i]["out"].replace("&", "<"))
        noticed = judge_g(bad, outs[i]) is not None
        rep.notes["selftest_G_corrupted_expectation_detected"] = noticed
        if not noticed:
            raise nv.ToolError("binding self-test failed: corrupted expectation not detected")
    return outs


STAGES = ("ok", "resolver", "nameres", "type", "runtime")


def e2e(rep, lim, ecases, d, tier):
    ecases = sorted(ecases, key=lambda e: (e["name"], e["payload"]))
    inp, out, trace = os.path.join(d, "e2e.ndjson"), os.path.join(d, "e2e_out.ndjson"), os.path.join(d, "e2e_trace.ndjson")
    for i, e in enumerate(ecases):
        e["_id"] = i
    nv.write_ndjson(inp, [{"id": e["_id"], "steps": e["steps"]} for e in ecases])
    nv.harness("nv-html", ["html-e2e", "--cases", inp, "--out", out, "--trace", trace])
    outs = nv.read_ndjson_text(open(out, encoding="utf-8").read())
    pending = []      # unsafe diagnostics, classified after J
    covered = {}      # (outcome, kind) -> renderings that carry user metacharacters
    stage_drift = []
    renderings = 0
    nontrivial = 0
    for e, o in zip(ecases, outs):
        steps = o["steps"]
        last = steps[-1]
        if last["outcome"] == "panic":
            rep.add("e2e_panics", 1)   # C08's business; nothing was rendered
        want = e["stage"]
        if want != "any" and (last["outcome"] != want or len(steps) != len(e["steps"])
                              or any(s["outcome"] != "ok" for s in steps[:-1])):
            stage_drift.append({"name": e["name"], "payload": e["payload"], "expected": want,
                                "observed": [(s["outcome"], s.get("kind")) for s in steps]})
        for k, s in enumerate(steps):
            rs = []
            if "diag" in s:
                if "error" in s["diag"]:
                    raise nv.ToolError("emit failed: %s" % s["diag"]["error"])
                rs.append(("diagnostic", s["diag"]["html"], s["diag"]["plain"]))
            for r in s.get("renders", []):
                rs.append((r["what"], r["html"], r["plain"]))
            for what, html, plain in rs:
                renderings += 1
                user_meta = bool(META & set(e["raw"])) and e["raw"] in plain
                if user_meta:
                    nontrivial += 1
                    key = (s["outcome"], s.get("kind") or what)
                    covered[key] = covered.get(key, 0) + 1
                if safe(html, plain):
                    continue
                comp = "HtmlWriter" if what == "diagnostic" else "HtmlFormatter"
                v = {"kind": "e2e-" + ("diagnostic" if what == "diagnostic" else "result"), "component": comp,
                     "template": e["name"], "payload": e["raw"], "steps": e["steps"], "step": k, "what": what,
                     "outcome": s["outcome"], "error_kind": s.get("kind"), "html": html[:1500], **describe(html, plain)}
                if comp == "HtmlWriter":
                    # whether this is the verbatim-copy deviation is decided by TLC on the recorded writer calls
                    v["trace_key"] = [e["_id"], k]
                    pending.append(v)
                else:
                    lim.violation(v)
    rep.add("evaluations", renderings)
    rep.add("e2e_inputs", len(ecases))
    rep.add("e2e_renderings", renderings)
    rep.add("e2e_renderings_with_user_metacharacters", nontrivial)
    rep.add("distinct_nontrivial", nontrivial)
    rep.set("e2e_kinds_rendered_with_user_metacharacters", {"%s/%s" % k: n for k, n in sorted(covered.items())})
    if stage_drift:
        rep.add("model_drift_e2e_stage", len(stage_drift))
        print("MODEL-DRIFT: property=C20 %d end-to-end template(s) did not end in the stage the template names (not "
              "a C20 matter; their renderings were still judged); e.g. %s" % (len(stage_drift), json.dumps(stage_drift[0])[:400]))
    # vacuity: every error stage must have been rendered with user metacharacters in the quoted text
    need = {"ok": lambda k: k[0] == "ok",
            "parse error": lambda k: k == ("resolver", "parse"),
            "unknown module": lambda k: k == ("resolver", "unknown_module"),
            "name clash": lambda k: k[0] == "nameres",
            "type error": lambda k: k[0] == "type",
            "runtime error": lambda k: k[0] == "runtime" and not k[1].startswith("Assert") and k[1] != "UserError",
            "assertion failure": lambda k: k[0] == "runtime" and k[1].startswith("Assert"),
            "user error": lambda k: k == ("runtime", "UserError")}
    missing = [n for n, p in need.items() if not any(p(k) for k in covered)]
    if missing:
        raise nv.ToolError("vacuity: no rendering with user metacharacters for: %s" % ", ".join(missing))
    for e, o in list(zip(ecases, outs))[:400]:
        if e["name"] in ("str_usererr", "cmt_type") and e["payload"] == "b":
            s = o["steps"][-1]
            rep.sample({"e2e_input": e["steps"], "outcome": s["outcome"], "kind": s.get("kind"),
                        "html_tail": s.get("diag", {}).get("html", "")[-220:]})
    return trace, pending


def split_trace(trace, d, maxev):
    """cut the recorded trace at `new` events into chunks of about maxev events"""
    chunks, cur = [], []
    for line in open(trace):
        if line.startswith('{"at"') and len(cur) >= maxev:
            chunks.append(cur)
            cur = []
        cur.append(line)
    if cur:
        chunks.append(cur)
    paths = []
    for i, c in enumerate(chunks):
        p = os.path.join(d, "trace_%02d.ndjson" % i)
        open(p, "w").writelines(c)
        paths.append(p)
    return paths, [len(c) for c in chunks]


def corrupt_trace(path, d):
    """binding self-test input: the first events of a chunk with one recorded field corrupted -> (path, line)"""
    lines = open(path).read().splitlines()[:400]
    k = max(i for i, x in enumerate(lines[:300]) if '"ev":"write"' in x and '"text":[]' not in x)
    e = json.loads(lines[k])
    e["app"] = e["app"][:-1] + ["X"]
    lines[k] = json.dumps(e, separators=(",", ":"))
    bad = os.path.join(d, "trace_corrupt.ndjson")
    open(bad, "w").write("\n".join(lines) + "\n")
    return bad, k


def j_traces(rep, lim, trace, d, pending):
    paths, sizes = split_trace(trace, d, 2500)
    bad, badline = corrupt_trace(paths[0], d)
    # pass 1: the rule C20 demands (plus the corrupted copy of the first events: must be rejected at that line)
    strict = nv.validate_traces_parallel("Trace_Html", paths + [bad], cfg="Trace_Html.cfg", timeout=1200)
    selftest = strict.pop()
    rejected = [(p, n, r) for p, n, r in zip(paths, sizes, strict) if not r["accepted"]]
    accepted_cfg = {p: "Trace_Html.cfg" for p, r in zip(paths, strict) if r["accepted"]}
    if rejected:
        # pass 2: which of the rejected chunks are exactly the verbatim-copy deviation?
        rp = [p for p, _, _ in rejected]
        verb = nv.validate_traces_parallel("Trace_Html", rp + ([bad] if paths[0] in rp else []),
                                           cfg="Trace_Html_verbatim.cfg", timeout=1200)
        if paths[0] in rp:
            selftest = verb.pop()
            if not verb[0]["accepted"]:
                selftest = None    # the first chunk is accepted by neither rule: nothing to corrupt
        for (p, n, r), r2 in zip(rejected, verb):
            lines = open(p).read().splitlines()
            m = r["matched"] if r["matched"] is not None else 0
            ev = json.loads(lines[m]) if m < len(lines) else None
            if ev and ev.get("ev") == "write":
                ev = {"ev": "write", "text": J(ev["text"]), "appended": J(ev["app"])}
            at = next((json.loads(x)["at"] for x in reversed(lines[:m + 1]) if x.startswith('{"at"')), None)
            if r2["accepted"]:
                accepted_cfg[p] = "Trace_Html_verbatim.cfg"
            lim.violation({"kind": "trace-rejected", "component": "HtmlWriter", "trace": os.path.basename(p),
                           "matched": m, "total": n, "violated": r["violated"], "event": ev, "e2e_case_step": at,
                           "verbatim_copy": bool(r2["accepted"]),
                           "verbatim_rule_matched": r2["matched"], "trace_file": p})
    if selftest is not None:
        rep.notes["selftest_J_corrupted_event_rejected_at_line"] = selftest["matched"]
        if selftest["accepted"] or selftest["matched"] != badline:
            raise nv.ToolError("binding self-test failed: corrupted trace accepted or rejected elsewhere (%s, expected %d)"
                               % (selftest["matched"], badline))
    # unsafe diagnostics found end to end: the verbatim-copy deviation iff TLC accepted the recorded writer calls of
    # that diagnostic under the verbatim rule
    rule_of = {}
    for p in paths:
        for x in open(p):
            if x.startswith('{"at"'):
                rule_of[tuple(json.loads(x)["at"])] = accepted_cfg.get(p)
    for v in pending:
        v["verbatim_copy"] = rule_of.get(tuple(v.pop("trace_key"))) == "Trace_Html_verbatim.cfg"
        lim.violation(v)
    rep.add("evaluations", sum(sizes))
    rep.add("j_events", sum(sizes))
    rep.add("traces_validated_against_impl", len(paths))
    rep.set("j_chunks_accepted_by_demanded_rule", len(paths) - len(rejected))
    for r in strict:
        rep.tlc_stats(r["res"])
    first = open(paths[0]).read().splitlines()
    rep.sample({"J_events": [json.loads(x) for x in first[1:3]]})


def run(tier, seed):
    rep = nv.Report(PROP, tier, seed, "model_checking")
    lim = Limiter(rep)
    nv.build_harness(["nv-html"])
    d = nv.scratch("c20")
    # (MaxLen, Depth, Level, end-to-end set)
    plan = [(4, 4, 0, "quick")] if tier == "quick" else [(5, 4, 2, "thorough"), (0, 5, 0, "none")]
    ecases = []
    for maxlen, depth, level, eset in plan:
        # MC + case generation
        res = run_tlc(maxlen, depth, level, "all", eset)
        rep.tlc_stats(res, "MC_Html MaxLen=%d Depth=%d Level=%d" % (maxlen, depth, level))
        if res.violated:
            rep.violation({"kind": "spec-invariant", "invariant": res.violated, "tlc": res.stdout[-3000:]})
            return rep.finish()
        raw = res.cases.pop("CASE", [])
        ecases += res.cases.get("E", [])
        if len(raw) < res.distinct:
            raise nv.ToolError("TLC printed %d cases for %d states" % (len(raw), res.distinct))
        nv.log("TLC: %d cases in %.1fs" % (len(raw), res.wall))
        raw.reverse()
        cases = []
        while raw:
            cases.append(compact(raw.pop()))
        scanner_selftest(cases)
        rep.notes["selftest_scanner_agrees_with_TLC_on_all_predictions"] = True
        # G
        g_cases(rep, lim, cases, d)
        nv.log("G replay done at %.1fs" % (time.time() - rep.t0))
        for c in (cases[len(cases) // 3], cases[-1]):
            rep.sample({"G_case": harness_case(c), "predicted": c["out"]})
        del cases
    if not ecases:
        raise nv.ToolError("TLC printed no end-to-end inputs")
    # vacuity: under the rule of the code as found the invariant must fail
    res0 = run_tlc(2, 2, 0, "none", "none", escapes=False)
    rep.notes["spec_with_verbatim_write_violates"] = res0.violated
    if res0.violated != "InvNoUserMarkup":
        raise nv.ToolError("vacuity self-test failed: NoUserMarkup not violated by the verbatim-write rule (%s)" % res0.violated)
    # end to end + J
    trace, pending = e2e(rep, lim, ecases, d, tier)
    nv.log("end to end done at %.1fs" % (time.time() - rep.t0))
    j_traces(rep, lim, trace, d, pending)
    nv.log("J done at %.1fs" % (time.time() - rep.t0))
    rep.set("rule", "G: every (format type, text of <= %d characters over {a < > & \" '}) on HtmlFormatter and every sequence "
            "of <= %d set_color/reset/write actions (13-20 action alphabet) on HtmlWriter, outputs compared exactly with Html.tla; end to end: "
            "input templates of every error stage x metacharacter payloads, every rendering judged by the tag grammar "
            "against its plain-text counterpart; J: every writer call of every diagnostic validated by Trace_Html. "
            "distinct_nontrivial = cases / renderings whose text contains one of < > & coming from the case or the "
            "user payload." % (plan[0][0], max(p[1] for p in plan)))
    rep.set("exhaustive", True)
    rep.assumptions += [
        "text content only: quotes need no escaping because the renderer never places text inside an attribute",
        "character references accepted as escaped forms: &amp; &lt; &gt; &quot; &apos; &#39; &#x27;",
        "end to end the plain-text counterpart of a diagnostic is the same diagnostic emitted into termcolor::NoColor",
        "span balance is not part of C20 (an unbalanced but otherwise safe output is reported as MODEL-DRIFT)"]
    if not rep.violations:
        shutil.rmtree(d, ignore_errors=True)
    return rep.finish()


def replay(path, seed):
    """re-execute the recorded violations on the current tree"""
    data = json.load(open(path))
    nv.build_harness(["nv-html"])
    d = nv.scratch("c20_replay")
    still = 0
    for v in data["violations"][:20]:
        if "case" in v:
            inp, out = os.path.join(d, "c.ndjson"), os.path.join(d, "o.ndjson")
            nv.write_ndjson(inp, [v["case"]])
            nv.harness("nv-html", ["html-cases", "--cases", inp, "--out", out])
            o = nv.read_ndjson_text(open(out, encoding="utf-8").read())[0]
            txt = v.get("text", "")
            ok = "out" in o and safe(o["out"], txt)
            print(json.dumps({"case": v["case"], "expected": v.get("expected"), "observed": o, "safe": ok})[:2000])
            still += 0 if ok else 1
        elif "steps" in v:
            inp, out, tr = os.path.join(d, "e.ndjson"), os.path.join(d, "eo.ndjson"), os.path.join(d, "et.ndjson")
            nv.write_ndjson(inp, [{"id": 0, "steps": v["steps"]}])
            nv.harness("nv-html", ["html-e2e", "--cases", inp, "--out", out, "--trace", tr])
            o = nv.read_ndjson_text(open(out, encoding="utf-8").read())[0]
            bad = []
            for s in o["steps"]:
                rs = [(s["diag"]["html"], s["diag"]["plain"])] if "diag" in s else []
                rs += [(r["html"], r["plain"]) for r in s.get("renders", [])]
                bad += [describe(h, p) for h, p in rs if not safe(h, p)]
            print(json.dumps({"steps": v["steps"], "unsafe_renderings": bad})[:2000])
            still += 1 if bad else 0
        else:
            print(json.dumps(v)[:2000])
            still += 1
    shutil.rmtree(d, ignore_errors=True)
    return 1 if still else 0
