"""C16 - inferred function signatures are valid, principal annotations.
Spec: Infer.tla - an unannotated body is typed with symbolic dimensions (affine forms in the parameters' unknown
exponent vectors); the definition is accepted iff the linear system of its equality constraints is solvable (Gaussian
elimination over the rationals, written independently of typechecker/constraints.rs); calls are typed by
instantiation at concrete argument dimensions.  TLC also checks that the two views agree (a body with a well-typed
call is solvable).  G: every generated body is defined unannotated in session A; the definition as printed by the
checker (inferred signature) is re-declared in session B (must be accepted); every call of the lattice is evaluated in
both: accept/reject and result type must agree between A and B (the property) and with the spec's prediction.
"""
import json
import os
import shutil
import nv
from checks import typing_common as tc

PROP = "C16"


def call_summary(x):
    if x is None:
        return None
    if x["outcome"] != "ok":
        return (x["outcome"],)
    st = x.get("static")
    if st and st["k"] == "dim":
        return ("ok", tuple(sorted(tc.impl_vec(st["dim"]).items())))
    return ("ok", json.dumps(st))


def known_matcher(v, k):
    if k.get("signature", {}).get("kind") == "dimension-alternatives-in-printed-signature":
        return v.get("kind") == "printed-signature-rejected" and v.get("alternatives")
    return False


def run(tier, seed):
    rep = nv.Report(PROP, tier, seed, "model_checking")
    nv.build_harness(["nv-typing"])
    d = nv.scratch("c16")
    cfg = os.path.join(nv.SPEC, "_gen_Infer_%d.cfg" % os.getpid())
    with open(cfg, "w") as f:
        f.write('CONSTANTS Tier = "%s"\nSPECIFICATION Spec\nINVARIANTS InstImpliesSolvable EmitCase\nCHECK_DEADLOCK FALSE\n' % tier)
    try:
        res = nv.tlc("MC_Infer", os.path.basename(cfg), workers=8, timeout=3000, want_tags=("CASE", "META"))
    finally:
        os.remove(cfg)
    if res.violated:
        rep.violation({"kind": "spec-property", "property": res.violated, "tlc": res.stdout[-2000:]})
        return rep.finish()
    rep.tlc_stats(res, "MC_Infer " + tier)
    meta = res.cases["META"][0]
    seen, cases = set(), []
    for c in res.cases["CASE"]:
        if c["body"] not in seen:
            seen.add(c["body"])
            cases.append(c)
    maxargs = 5 if tier == "quick" else 8
    inp, out = os.path.join(d, "cases.ndjson"), os.path.join(d, "out.ndjson")
    nv.write_ndjson(inp, [{"args": meta["args"], "setup": meta["setup"]}] + [{"id": i, "body": c["body"], "two": c["two"]} for i, c in enumerate(cases)])
    nv.harness("nv-typing", ["infer-run", "--cases", inp, "--out", out, "--maxargs", str(maxargs)])
    results = nv.read_ndjson_text(open(out, encoding="utf-8").read())
    ncalls = 0
    rejected_calls = 0
    for c, r in zip(cases, results):
        rep.add("evaluations", 1)
        problems = []
        impl_acc = r["a_outcome"] == "ok"
        if r["a_outcome"] not in ("ok", "type"):
            problems.append("definition outcome %s: %s" % (r["a_outcome"], r["a_msg"][:120]))
        elif impl_acc != c["accepted"]:
            problems.append("definition: impl %s spec %s [%s]" % ("accepts" if impl_acc else "rejects: " + r["a_msg"][:100],
                                                                "accepts" if c["accepted"] else "rejects", r["def"]))
        if impl_acc:
            if r["b_outcome"] != "ok":
                v = {"kind": "printed-signature-rejected", "body": c["body"], "echo": r["echo"], "msg": r["b_msg"][:150],
                     "alternatives": " or " in " ".join(r["echo"]) and r.get("b_retry_outcome") == "ok"}
                rep.violation(v, known_matcher)
            for i, row in enumerate(r["calls"]):
                for j, cell in enumerate(row):
                    ncalls += 1
                    a, b = call_summary(cell["a"]), call_summary(cell["b"])
                    if b is not None and a != b:
                        problems.append("call (%s, %s): unannotated %s vs annotated %s" % (meta["args"][i], meta["args"][j], a, b))
                    st = c["calls"][i][j]
                    if st["k"] == "err":
                        rejected_calls += 1
                        if a[0] == "ok":
                            problems.append("call (%s, %s): impl accepts, spec rejects (%s)" % (meta["args"][i], meta["args"][j], st["e"]))
                    elif st["k"] == "dim":
                        want = ("ok", tuple(sorted(tc.spec_vec(st).items())))
                        if a[0] == "ok" and a != want:
                            problems.append("call (%s, %s): impl type %s spec %s" % (meta["args"][i], meta["args"][j], a, want))
                        if a[0] == "type":
                            problems.append("call (%s, %s): impl rejects, spec accepts with %s" % (meta["args"][i], meta["args"][j], want))
                    elif st["k"] == "bool" and a[0] != "ok":
                        problems.append("call (%s, %s): impl %s, spec Bool" % (meta["args"][i], meta["args"][j], a))
        if problems:
            rep.violation({"kind": "inference-mismatch", "body": c["body"], "echo": r.get("echo"), "problems": problems[:6]})
    rep.add("calls_compared", ncalls)
    rep.add("distinct_nontrivial", sum(1 for c in cases if c["accepted"] and c["two"]))
    rep.add("rejected_calls_predicted", rejected_calls)
    rep.add("traces_validated_against_impl", len(cases))
    for c, r in list(zip(cases, results))[5:: max(1, len(cases) // 4)][:4]:
        rep.sample({"body": c["body"], "printed_definition": r.get("echo"), "spec_accepts": c["accepted"]})
    rep.set("rule", "all bodies of the generator of MC_Infer.tla (products, quotients, rational powers, sums, conditionals, "
            "sqrt/abs/max over parameters x, y and units m, s); non-trivial = accepted two-parameter bodies; each with "
            "%d x %d call sites of concrete dimensions" % (maxargs, maxargs))
    rep.set("exhaustive", True)
    rep.assumptions += ["result types compared through the checker's stored type (hook global_type) of `let v_r = f_u(...)`"]
    if not rep.violations:
        shutil.rmtree(d, ignore_errors=True)
    return rep.finish()


def replay(path, seed):
    data = json.load(open(path))
    for v in data["violations"][:5]:
        print(json.dumps(v)[:2000])
    return 1 if data["violations"] else 0
