"""C14 - displayed numbers read back as the value they show.

Spec: spec/NumFormat.tla on decimal DIGIT SEQUENCES (TLC has no reals): value = (sign, shortest round-trip digits,
      exponent of the first digit), options = (separator, grouping threshold, significant digits).  Integer branch
      (|x| < 2^53: all digits, groups of three from the threshold on) is predicted exactly; every other number only
      by the RELATION the property states: text minus separator is a numeric literal whose exact decimal value is the
      value rounded (half-up on the shortest digits; both neighbours at an exact decimal tie) to `sig` digits;
      NaN / inf / -inf are the keywords.  Notation class (positional / e-notation) is representation: MODEL-DRIFT only.
MC:   MC_NumFormat.tla: ReadBack(Format(x)) = RoundSig(x, sig) / = x for the spec's own reference formatter, Judge
      accepts it and rejects a corrupted text, rounding sanity - on every generated case.
G:    TLC generates the cases (all canonical digit strings up to a length x exponents -12..22 x option sets, boundary
      patterns of length 5..17 x 18 option sets, "extreme" settings) with the prediction; harness/nv-numfmt builds the
      f64 through the real pipeline, formats it with the real Value::pretty_print_with and reads the text back through
      the real tokenizer/parser; Python compares.  Cases whose f64 is not exactly the case's decimal (> 15 digits) are
      judged by TLC instead (Trace_NumFormat on the harness-reported shortest digits), like the J traces.
J:    seeded random f64 classes (bit patterns, subnormals, huge, around 10^k / 2^52..2^54 / the notation switch
      points, decimal ties, specials) x random options, judged line by line by spec/Trace_NumFormat.tla.
Level: exploration (the numeric part - decimal -> f64 and back - is done by Rust/Python correctly rounded parsing).
"""
import json
import os
import shutil
import struct
import threading
import time
import nv

PROP = "C14"
BIN = "nv-numfmt"


# ---------------------------------------------------------------------------------------------
# known findings (proposed entries, see the report): narrow signatures only

def known_matcher(v, k):
    sig = k.get("signature", {})
    kind = sig.get("kind")
    if kind == "sigdigits-u8-wrap":
        # `significant_digits as u8`: settings >= 256 are taken modulo 256 (0 -> garbage / panic)
        return v.get("sig", 0) >= 256 and v.get("kind") in ("float-readback", "panic", "trace-rejected")
    if kind == "separator-longer-than-8-bytes-panics":
        return v.get("kind") == "panic" and len(str(v.get("sep", "")).encode()) > 8
    return False


# ---------------------------------------------------------------------------------------------

def write_cfg(path, maxlen, elo, ehi, mode, optpick, emit, widemod=1):
    with open(path, "w") as f:
        f.write("CONSTANTS MaxLen = %d\n          ELo = %d\n          EHi = %d\n          Mode = \"%s\"\n"
                "          OptPick = \"%s\"\n          WideMod = %d\n          Emit = \"%s\"\n"
                % (maxlen, elo + 100, ehi + 100, mode, optpick, widemod, emit))
        f.write("SPECIFICATION Spec\nINVARIANTS InvAll\nCHECK_DEADLOCK FALSE\n")


def gen(rep, label, maxlen, elo, ehi, mode, optpick="all", emit="cases", widemod=1, timeout=1500):
    cfg = os.path.join(nv.SPEC, "_gen_NumFormat_%s_%d.cfg" % (label, os.getpid()))
    write_cfg(cfg, maxlen, elo, ehi, mode, optpick, emit, widemod)
    try:
        res = nv.tlc("MC_NumFormat", os.path.basename(cfg), workers=8, timeout=timeout, want_tags=("CASE", "META"))
    finally:
        os.remove(cfg)
    if res.violated:
        rep.violation({"kind": "spec-invariant", "invariant": res.violated, "model": label, "tlc": res.stdout[-3000:]})
        return res, None, []
    rep.tlc_stats(res, "MC_NumFormat " + label)
    meta = res.cases["META"][0]
    return res, meta, res.cases.get("CASE", [])


def fbits(s):
    """bits of the f64 a (correctly rounded) decimal literal / keyword denotes; all NaNs and both zeros identified"""
    t = s.strip()
    neg = t.startswith("-")
    body = t[1:] if neg else t
    if body == "NaN":
        return "nan"
    v = float("inf") if body == "inf" else float(body)
    if v == 0.0:
        return "zero"
    return struct.pack(">d", -v if neg else v)


def compare_case(c, o, r):
    """c: TLC's case with its prediction, o: its options, r: what the harness observed. -> (problem dict | None, drift)"""
    base = {"lit": r.get("lit"), "sep": o["sep"], "thr": o["thr"], "sig": o["sig"], "text": r.get("text"),
            "digits": c["d"], "exp": c["e"], "branch": c["k"]}
    if r.get("setup_error"):
        return dict(base, kind="setup", detail=r["setup_error"]), False
    if r.get("panic"):
        return dict(base, kind="panic", detail=r["panic"]), False
    if not r["exact"]:
        return None, False      # judged by TLC on the value the pipeline really computed
    if not r["lex"] or r["shape"] not in ("num", "neg"):
        return dict(base, kind="not-a-literal", detail=r.get("lex_err")), False
    if not r["lexeq"]:
        return dict(base, kind="literal-misread", readback=r["rb"]), False
    if not r["rawok"]:
        return dict(base, kind="underscore-text-not-a-literal"), False
    if c["k"] in ("I", "K"):
        if r["text"] != c["t"]:
            return dict(base, kind="int-text" if c["k"] == "I" else "keyword-text", expected=c["t"]), False
        if fbits(r["rb"]) != fbits(r["x"]):
            return dict(base, kind="int-readback", readback=r["rb"]), False
        return None, False
    if fbits(r["rb"]) not in [fbits(a) for a in c["a"]]:
        return dict(base, kind="float-readback", readback=r["rb"], expected=c["a"]), False
    has_e = "e" in r["text"] or "E" in r["text"]
    return None, has_e == bool(c["p"])


def nontrivial(c, o):
    if c["k"] == "F":
        return len(c["d"]) > o["sig"]                      # digits are dropped: rounding happens
    if c["k"] == "I":
        nd = max(c["e"] + 1, 1)
        return o["sep"] != "" and nd >= max(o["thr"], 4)   # a separator is inserted
    return True


def g_run(rep, cases, meta, sc, label, trace_every):
    opts = meta["opts"]
    inp = os.path.join(sc, "cases_%s.ndjson" % label)
    out = os.path.join(sc, "out_%s.ndjson" % label)
    trp = os.path.join(sc, "gtrace_%s.ndjson" % label)
    rows = []
    for c in cases:
        o = opts[c["o"] - 1]
        rows.append({"d": c["d"], "e": c["e"], "n": c["n"], "c": c["c"], "sep": o["sep"], "thr": o["thr"], "sig": o["sig"]})
    nv.write_ndjson(inp, rows)
    nv.harness(BIN, ["numfmt-run", "--cases", inp, "--out", out, "--trace", trp, "--trace-every", str(trace_every)])
    results = nv.read_ndjson_text(open(out, encoding="utf-8").read())
    if len(results) != len(cases):
        raise nv.ToolError("harness returned %d results for %d cases" % (len(results), len(cases)))
    drift = []
    nt = set()
    inexact = 0
    for c, r in zip(cases, results):
        o = opts[c["o"] - 1]
        prob, drifted = compare_case(c, o, r)
        rep.add("g_cases_" + {"I": "integer", "F": "float", "K": "keyword"}[c["k"]], 1)
        if prob is None and not r.get("exact", True):
            inexact += 1          # counted as an evaluation when TLC has judged it
        else:
            rep.add("evaluations", 1)
        if prob:
            rep.violation(dict(prob, model=label), known_matcher)
        elif drifted:
            drift.append({"lit": r["lit"], "sig": o["sig"], "text": r["text"], "spec_positional": bool(c["p"])})
        if nontrivial(c, o):
            nt.add((c["d"], c["e"], c["n"], c["o"]))
    rep.add("distinct_nontrivial", len(nt))
    rep.add("g_cases_judged_by_tlc_instead", inexact)
    if drift:
        rep.add("model_drift_notation", len(drift))
        print("MODEL-DRIFT: property=C14 the positional/e-notation choice differs from the rule NumFormat.tla mirrors "
              "(positional iff 1e-6 <= |rounded| < 1e6) on %d cases (read-back value still checked); e.g. %s"
              % (len(drift), json.dumps(drift[:2])))
    return trp, results


def chunk_trace(path, sc, label, size):
    lines = [x for x in open(path).read().splitlines() if x.strip()]
    paths = []
    for k in range(0, len(lines), size):
        p = os.path.join(sc, "%s_%d.ndjson" % (label, k // size))
        open(p, "w").write("\n".join(lines[k:k + size]) + "\n")
        paths.append(p)
    return paths


def describe_rejection(ev):
    """which conjunct of Trace_NumFormat!Accept is plainly false (diagnosis only; TLC decided)"""
    why = [k for k in ("lex", "lexeq", "rawok") if not ev.get(k, True)]
    if ev.get("panic"):
        why.append("panic")
    return why or ["Judge/ReadBackAgrees"]


_START = threading.Lock()


def _validate(path, cfg=None):
    """nv.validate_trace with the starts of concurrent runs kept >= 20 ms apart: nv.tlc names its metadir by pid and
    millisecond, so two runs started by threads of this process in the same millisecond would share (and delete)
    each other's directory"""
    out = {}

    def work():
        try:
            out["r"] = nv.validate_trace("Trace_NumFormat", path, cfg=cfg, timeout=1500)
        except Exception as ex:      # re-raised in the calling thread
            out["e"] = ex
    with _START:
        t = threading.Thread(target=work)
        t.start()
        time.sleep(0.02)
    t.join()
    if "e" in out:
        raise out["e"]
    return out["r"]


def _validate_parallel(paths, jobs=8):
    from concurrent.futures import ThreadPoolExecutor
    with ThreadPoolExecutor(max_workers=jobs) as ex:
        return list(ex.map(_validate, paths))


def _count(rep, what, lines):
    """judged lines; G cases that Python compared as well (exact decimals, sampled) are not counted twice"""
    n = sum(1 for x in lines if '"exact":true' not in x)
    rep.add("evaluations", n)
    rep.add(what + "_events", len(lines))


def judge_traces(rep, paths, what):
    """validate traces with Trace_NumFormat; a trace stops at its first rejected line: the line is reported, the rest
    of the trace is re-submitted so that every line gets judged"""
    todo = list(paths)
    rounds = 0
    while todo and rounds < 6:
        rounds += 1
        results = _validate_parallel(todo)
        nxt = []
        for p, r in zip(todo, results):
            lines = open(p).read().splitlines()
            if r["accepted"]:
                _count(rep, what, lines)
                rep.add("traces_validated_against_impl", 1)
                continue
            m = r["matched"] if r["matched"] is not None else 0
            _count(rep, what, lines[:m])
            bad = json.loads(lines[m]) if m < len(lines) else None
            one = p + ".one"
            open(one, "w").write(lines[m] + "\n")
            r2 = _validate(one, cfg="Trace_NumFormat_prop.cfg")
            if r2["accepted"]:
                rep.add("model_drift_notation", 1)
                print("MODEL-DRIFT: property=C14 notation class of %s differs from the rule NumFormat.tla mirrors "
                      "(accepted at the level of the property)" % json.dumps({k: bad[k] for k in ("lit", "sig") if k in bad}))
            else:
                v = {"kind": "trace-rejected", "source": what, "line": m, "why": describe_rejection(bad),
                     "lit": bad.get("lit"), "sep": "".join(bad["sep"]), "thr": bad["thr"], "sig": bad["sig"],
                     "text": "".join(bad["text"]), "shortest_digits": "".join(map(str, bad["ds"])), "exp": bad["e"],
                     "event": bad}
                rep.violation(v, known_matcher)
            rest = lines[m + 1:]
            if rest:
                q = p + ".r%d" % rounds
                open(q, "w").write("\n".join(rest) + "\n")
                nxt.append(q)
        todo = nxt
    if todo:
        rep.violation({"kind": "trace-rejected", "detail": "more than 6 rejected lines in one trace; not all lines judged"})


def selftests(rep, cases, meta, results, jpath, sc):
    opts = meta["opts"]
    # G: corrupt one expectation of each branch -> the comparator must notice
    seen = {}
    for c, r in zip(cases, results):
        if r.get("exact") and not r.get("panic") and c["k"] not in seen and (c["k"] != "F" or len(c["d"]) > opts[c["o"] - 1]["sig"]):
            seen[c["k"]] = (c, r)
    ok = True
    for k, (c, r) in seen.items():
        bad = dict(c)
        if k == "F":
            bad["a"] = [a.replace("e", "1e") for a in c["a"]]
        else:
            bad["t"] = c["t"] + "0"
        p, _ = compare_case(bad, opts[c["o"] - 1], r)
        ok = ok and p is not None
    rep.notes["selftest_G_corrupted_expectation_detected"] = ok and len(seen) >= 2
    if not (ok and len(seen) >= 2):
        raise nv.ToolError("binding self-test failed: corrupted expectation not detected (%s)" % list(seen))
    # J: corrupt one recorded text digit -> rejected at exactly that line
    lines = open(jpath).read().splitlines()[:400]
    k = None
    for i in range(len(lines) // 2, len(lines)):
        ev = json.loads(lines[i])
        digs = [j for j, ch in enumerate(ev["text"]) if ch in "123456789"]
        if ev["cls"] == "fin" and digs:
            j = digs[0]
            ev["text"][j] = str(int(ev["text"][j]) % 9 + 1)
            lines[i] = json.dumps(ev)
            k = i
            break
    bad = os.path.join(sc, "trace_corrupt.ndjson")
    open(bad, "w").write("\n".join(lines) + "\n")
    r = _validate(bad)
    rep.notes["selftest_J_corrupted_event_rejected_at_line"] = r["matched"]
    if r["accepted"] or r["matched"] != k:
        raise nv.ToolError("binding self-test failed: corrupted trace accepted or rejected elsewhere (%s vs %s)" % (r["matched"], k))


def run(tier, seed):
    rep = nv.Report(PROP, tier, seed, "exploration")
    nv.build_harness([BIN])
    sc = nv.scratch("c14")
    if tier == "quick":
        plan = [("main_len3", dict(maxlen=3, elo=-12, ehi=22, mode="main", widemod=3), 40)]
        jn, jev = 6, 2000
    else:
        plan = [("patterns", dict(maxlen=1, elo=-12, ehi=22, mode="patterns"), 25)]
        for lo, hi in ((-12, -6), (-5, 1), (2, 8), (9, 15), (16, 22)):
            plan.append(("short_len4_e%d_%d" % (lo, hi), dict(maxlen=4, elo=lo, ehi=hi, mode="short"), 150))
        for lo, hi in ((-7, -5), (-1, 1), (4, 6), (15, 16)):
            plan.append(("short_len5_hash_e%d_%d" % (lo, hi), dict(maxlen=5, elo=lo, ehi=hi, mode="short", optpick="hash"), 150))
        jn, jev = 16, 4000
    plan.append(("extreme", dict(maxlen=1, elo=-8, ehi=8, mode="extreme"), 0))   # all compared by Python
    first = None
    gtraces = []
    for label, kw, every in plan:
        res, meta, cases = gen(rep, label, **kw)
        if meta is None:
            continue
        trp, results = g_run(rep, cases, meta, sc, label, every)
        gtraces += chunk_trace(trp, sc, "gj_" + label, 2500)
        if first is None:
            first = (cases, meta, results)
            for c, r in list(zip(cases, results))[len(cases) // 3::max(1, len(cases) // 4)][:3]:
                rep.sample({"G_case": c, "options": meta["opts"][c["o"] - 1], "displayed": r.get("text"), "read_back": r.get("rb")})
        del res
    # judge the G cases TLC has to judge (inexact decimals, every n-th other case)
    judge_traces(rep, gtraces, "g_judged")
    # J
    jpaths = []
    for k in range(jn):
        p = os.path.join(sc, "jtrace_%d.ndjson" % k)
        nv.harness(BIN, ["numfmt-record", "--seed", str(seed * 1000 + k), "--events", str(jev), "--out", p])
        jpaths.append(p)
    judge_traces(rep, jpaths, "j")
    rep.sample({"J_event": json.loads(open(jpaths[0]).readline())})
    # binding self-tests (skipped only if the sane-settings part itself found something)
    if first and not [v for v in rep.violations if v.get("model") != "extreme"]:
        selftests(rep, first[0], first[1], first[2], jpaths[0], sc)
    rep.set("rule", "G: every canonical digit string up to the length bound x exponents -12..22 x 5 option sets, ~200 "
            "boundary patterns (9..9, 9..95, 10..01, ties, 2^52/2^53 +-1, 15-17 digit constants) x 35 exponents x 18 option "
            "sets, 6 values x 17 exponents x 5 extreme settings; J: random f64 classes x random options judged by "
            "Trace_NumFormat. non-trivial = float-branch cases in which digits are dropped (rounding happens) and "
            "integer-branch cases in which a separator is inserted")
    rep.set("exhaustive", True)
    rep.assumptions += [
        "separators are disjoint from the characters of numeric literals and keywords ([0-9.eE+-], letters of inf/NaN); "
        "'removing the configured separator' is ambiguous otherwise (e.g. '.')",
        "significant digits >= 1 (0 has no meaning in the property)",
        "rounding: half-up on the shortest round-trip digits; at an exact decimal tie of the shortest digits both "
        "neighbours are admissible (the binary value may lie on either side); nowhere else",
        "decimal -> f64 is Rust's / Python's correctly rounded parsing; the shortest digits are Rust's `{:e}`",
        "a rounded decimal beyond f64::MAX (e.g. 2.0e+308) reads back as inf in numbat as in Rust: judged on the digits",
        "the scalar value is produced by interpreting its shortest literal in a prelude-free Context (public API)"]
    if not rep.violations:
        shutil.rmtree(sc, ignore_errors=True)
    return rep.finish()


class _Collect:
    """minimal stand-in for nv.Report when re-judging a replay file"""
    def __init__(self):
        self.violations = []

    def add(self, *a):
        pass

    def violation(self, v, matcher=None):
        self.violations.append(v)


def replay(path, seed):
    """re-run the recorded violating inputs on the current tree and let Trace_NumFormat judge them again"""
    data = json.load(open(path))
    nv.build_harness([BIN])
    sc = nv.scratch("c14_replay")
    events, still = [], 0
    for v in data["violations"][:60]:
        if v.get("lit") is None:
            print("cannot re-run:", json.dumps(v)[:800])
            still += 1
            continue
        p = nv.harness(BIN, ["numfmt-probe", v["lit"], v["sep"], str(v["thr"]), str(v["sig"])], check=False)
        lines = p.stdout.splitlines()
        if p.returncode != 0 or len(lines) < 2:
            print("probe failed:", v["lit"], p.stderr[-300:])
            still += 1
            continue
        ev = json.loads(lines[1])
        ev["lit"] = v["lit"]
        events.append(ev)
    if events:
        tp = os.path.join(sc, "replay.ndjson")
        nv.write_ndjson(tp, events)
        col = _Collect()
        judge_traces(col, chunk_trace(tp, sc, "rp", 6), "replay")
        for v in col.violations:
            print("still violated:", json.dumps({k: v.get(k) for k in ("lit", "sep", "thr", "sig", "text", "why")}))
        still += len(col.violations)
        print("%d of %d recorded inputs re-run, %d still violate C14" % (len(events), len(data["violations"]), len(col.violations)))
    shutil.rmtree(sc, ignore_errors=True)
    return 1 if still else 0
