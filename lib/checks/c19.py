"""C19 - date and time arithmetic is consistent.

Spec: DateTime.tla - instants and durations as integer limbs, AddDur / SubDur / Diff with carry and borrow, the VM's
split of a duration (whole seconds + fraction rounded to nanoseconds = RoundDur), the supported range (jiff's
Timestamp::MIN..=MAX) with OutOfRange as an explicit outcome, time-zone conversion and full-precision format/parse as
the identity on the instant, the proleptic Gregorian calendar for the displayed fields.
MC: MC_DateTime.tla - the four laws, VM split = RoundDur, OutOfRange exactly beyond the range ends, over the grid.
G:  the grid's cases (instants x durations in every time unit x zones; differences; conversions; formats) are executed
    on a real prelude-loaded Context; results are compared with TLC's predictions (exactly where the f64 seconds of the
    duration are exact, 1 ns + 1e-15 relative otherwise) and every executed operation is judged by Trace_DateTime.tla
    from the f64 seconds the implementation really used.
J:  seeded random instants over the whole range, durations 1 ns .. 20 000 years in every time unit with both signs,
    all IANA zones of the tz database; one ndjson event per operation; judged by Trace_DateTime.tla.
Level: exploration (numeric closeness is applied by the judge; the calendar / tz rules themselves are jiff's).
"""
import json
import os
import re
import shutil
import time
from concurrent.futures import ThreadPoolExecutor
import nv

PROP = "C19"
BIN = "nv-datetime"
LOCAL_TZ = "Australia/Lord_Howe"      # what `-> local` means during the check (TZ of the harness process)
HERE = os.path.dirname(os.path.abspath(__file__))
PROPOSED = os.path.join(HERE, "c19_proposed_findings.json")
NS = 10 ** 9
SPD = 86400
ZERO_LITERAL = re.compile(r"^-?0(\.0*)? [A-Za-zµ_]+$")
G_OPS = ["add", "sub", "add_diff", "add_sub", "sub_add"]
PRED = {"add": "add", "sub": "sub", "add_diff": "adddiff", "add_sub": "addsub", "sub_add": "subadd"}


# ---------------------------------------------------------------------------------------------
# known findings (proposed entries, see c19_proposed_findings.json): narrow signatures only

def known_matcher(v, k):
    sig = k.get("signature", {})
    if sig.get("kind") == "documented-12h-format-with-fraction-not-parsed":
        # `%Y-%m-%d %I:%M:%S%.f %p`: a text with a non-empty fraction before AM/PM is rejected by datetime()
        return (v.get("op") == "fmt" and v.get("f") == "ymd-12h-z" and v.get("err") == "DateParsingError"
                and v.get("ns", 0) != 0)
    if sig.get("kind") == "literal-zero-duration-rejected-by-type-checker":
        # `t + 0 s`: the literal 0 is dimension-polymorphic, `0 s` is not accepted as a Time next to a DateTime
        dtext = v.get("dtext") or (v.get("case") or {}).get("dtext") or ""
        return (v.get("op") in ("add", "sub", "add_diff", "sub_diff", "add_sub", "sub_add")
                and v.get("err") == "type:IncompatibleTypesInOperator" and ZERO_LITERAL.match(dtext) is not None)
    return False


# ---------------------------------------------------------------------------------------------
# limb helpers of the comparator (python integers; the judging arithmetic proper is TLC's)

def inst_ns(t):
    return (t[0] * SPD + t[1]) * NS + t[2]


def dur_as(d):
    """signed attoseconds of a duration record {sg, m: [days, s, ns, as]}"""
    m = d["m"]
    return d["sg"] * ((((m[0] * SPD + m[1]) * NS) + m[2]) * NS + m[3])


def rel_tol_ns(as_):
    """1 ns + 1e-15 relative, in ns (rounded up)"""
    return 1 + abs(as_) // (10 ** 15 * NS) + 1


# ---------------------------------------------------------------------------------------------

def write_mc_cfg(path, zone_mode):
    with open(path, "w") as f:
        f.write('CONSTANTS ZoneMode = "%s"\n          Emit = TRUE\n' % zone_mode)
        f.write("SPECIFICATION Spec\nINVARIANTS TablesOk ArithLaws DiffLaws TzLaw FmtLaw EmitCase EmitMeta\nCHECK_DEADLOCK FALSE\n")


def judge(paths, cfg="Trace_DateTime.cfg"):
    """TLC judges each ndjson file; returns per file the sorted list of 0-based indices of events not accepted"""
    def one(p):
        n = sum(1 for _ in open(p))
        if n == 0:
            return [], None
        res = nv.tlc("Trace_DateTime", cfg, workers=1, timeout=1500, env={"TRACE": p}, jvm=nv.TRACE_JVM + " -Xmx3g",
                     want_tags=("BAD", "REJECTED"))
        if res.violated or res.cases.get("REJECTED") or res.distinct != n + 1:
            raise nv.ToolError("trace judging did not consume %s (%s, %d of %d)" % (p, res.violated, res.distinct - 1, n))
        return sorted(b["line"] - 1 for b in res.cases.get("BAD", [])), res
    with ThreadPoolExecutor(max_workers=8) as ex:
        return list(ex.map(one, paths))


JUDGED_FIELDS = ("op", "t", "u", "z", "to", "d", "fin", "cls", "err", "out", "oz", "x", "fok", "fields")


def slim(e):
    """what Trace_DateTime looks at (texts and messages stay in the python record)"""
    return {k: e[k] for k in JUDGED_FIELDS if k in e}


def split_events(events, sc, label, nchunks=8):
    size = max(1, -(-len(events) // nchunks))
    paths = []
    for k in range(0, len(events), size):
        p = os.path.join(sc, "%s_%d.ndjson" % (label, k // size))
        nv.write_ndjson(p, [slim(e) for e in events[k:k + size]])
        paths.append((p, k))
    return paths


def describe(e, source):
    """violation record of an event the specification does not accept"""
    v = {"kind": "trace-rejected", "source": source, "op": e.get("op"), "text": e.get("text"), "dtext": e.get("dtext"),
         "t": e.get("t"), "z": e.get("z"), "cls": e.get("cls"), "err": e.get("err"), "msg": e.get("msg", "")[:200],
         "event": e}
    if e.get("op") == "fmt":
        v["f"] = e.get("f")
        v["ns"] = e.get("t", [0, 0, 0])[2]
        v["shown"] = e.get("shown")
    return v


def judge_events(rep, events, sc, label, reported):
    """strict judging; rejected events are re-judged leniently (other f64 path for the seconds, other error kind /
    zone spelling): accepted there -> MODEL-DRIFT, else violation"""
    chunks = split_events(events, sc, label)
    t0 = time.time()
    results = judge([p for p, _ in chunks])
    nv.log("%s: %d events judged by Trace_DateTime in %.1fs" % (label, len(events), time.time() - t0))
    bad = []
    for (p, off), (idx, res) in zip(chunks, results):
        bad += [off + i for i in idx]
        if res is not None:
            rep.add("judged_events", res.distinct - 1)
    rep.add("traces_validated_against_impl", len(chunks))
    if not bad:
        return []
    all_bad = list(bad)
    # events with the signature of a known finding need no second reading
    for i in list(bad):
        e = events[i]
        v = describe(e, e.get("src", label))
        if any(known_matcher(v, k) for k in rep.known):
            bad.remove(i)
            key = (e.get("src", label), e.get("id"), e.get("op"))
            if key not in reported:
                reported.add(key)
                rep.violation(v, known_matcher)
    if not bad:
        return all_bad
    bp = os.path.join(sc, "%s_rejected.ndjson" % label)
    nv.write_ndjson(bp, [slim(events[i]) for i in bad])
    (idx2, _), = judge([bp], cfg="Trace_DateTime_lenient.cfg")
    still = {bad[i] for i in idx2}
    drift = [i for i in bad if i not in still]
    if drift:
        rep.add("model_drift_events", len(drift))
        print("MODEL-DRIFT: property=C19 %d %s event(s) are only accepted with the lenient reading (duration seconds "
              "computed along another f64 path, another error kind or zone spelling), e.g. %s"
              % (len(drift), label, json.dumps(events[drift[0]])[:500]))
    for i in sorted(still):
        e = events[i]
        key = (e.get("src", label), e.get("id"), e.get("op"))
        if key in reported:
            continue
        reported.add(key)
        rep.violation(describe(e, e.get("src", label)), known_matcher)
    return all_bad


# ---------------------------------------------------------------------------------------------
# G: comparison with TLC's predictions

def compare_case(rep, c, evs, meta, reported):
    """c: TLC case, evs: the events the harness produced for it"""
    def bad(kind, e, **kw):
        key = ("G", c["id"], e.get("op") if e else kind)
        reported.add(key)
        v = {"kind": kind, "source": "G", "case": {k: c[k] for k in ("kind", "tl", "t", "z", "dtext", "f", "how", "to") if k in c},
             "op": e.get("op") if e else None, "text": e.get("text") if e else None, "cls": e.get("cls") if e else None,
             "err": e.get("err") if e else None, "msg": (e.get("msg") or "")[:200] if e else None}
        v.update(kw)
        if e and e.get("op") == "fmt":
            v["f"] = e.get("f")
            v["ns"] = c["t"][2]
            v["shown"] = e.get("shown")
        rep.violation(v, known_matcher)

    by_op = {}
    for e in evs:
        by_op.setdefault(e["op"], []).append(e)
    for e in by_op.get("make", []):
        if e["cls"] != "ok" or e["out"] != e["t"]:
            bad("literal-not-the-instant", e, impl=e.get("out"), spec=e["t"])
            return
    for e in by_op.get("setup-failed", []):
        bad("duration-expression-failed", e)
        return
    kind = c["kind"]
    if kind == "arith":
        exact_as = dur_as(c["d"])
        tns, tol = inst_ns(c["t"]), 0
        first = next((e for e in evs if "d" in e), None)
        if first is None:
            bad("not-executed", None)
            return
        if c["cls"] == "exact":
            if not first["fin"] or dur_as(first["d"]) != exact_as:
                return "drift"
        else:
            tol = rel_tol_ns(exact_as)
            if not first["fin"] or abs(dur_as(first["d"]) - exact_as) > tol * NS:
                return "drift"
        lo, hi = inst_ns(meta["min"]), inst_ns(meta["max"])
        span_as = 7304484 * SPD * NS * NS
        for op in G_OPS:
            for e in by_op.get(op, []):
                p = c[PRED[op]]
                if e["cls"] not in ("ok", "runtime"):
                    bad("crash-or-unexpected", e)
                    continue
                sign = 1 if op in ("add", "add_diff", "add_sub") else -1
                target = tns + sign * (exact_as // NS)
                near_end = min(abs(target - lo), abs(target - hi)) <= tol + 1 or abs(abs(exact_as) - span_as) <= (tol + 1) * NS
                if (p["k"] == "ok") != (e["cls"] == "ok"):
                    if tol > 0 and near_end:
                        continue
                    bad("out-of-range-outcome", e, spec=p, impl=e.get("out", e.get("x")))
                    continue
                if p["k"] != "ok":
                    if e["err"] != p["k"]:
                        rep.add("error_kind_differs", 1)
                    continue
                if op == "add_diff":
                    dx = abs(dur_as(e["x"]) - dur_as(p["x"]))
                    if dx > (tol + rel_tol_ns(dur_as(p["x"]))) * NS:
                        bad("difference-is-not-the-duration", e, spec=p["x"], impl=e["x"], impl_f64=e.get("xf"))
                else:
                    if abs(inst_ns(e["out"]) - inst_ns(p["t"])) > tol:
                        bad("wrong-instant", e, spec=p["t"], impl=e["out"], tolerance_ns=tol, duration_f64=e.get("df"))
    elif kind == "diff":
        for e in by_op.get("diff", []):
            if e["cls"] != "ok":
                bad("difference-failed", e)
            elif abs(dur_as(e["x"]) - dur_as(c["x"])) > rel_tol_ns(dur_as(c["x"])) * NS:
                bad("wrong-difference", e, spec=c["x"], impl=e["x"], impl_f64=e.get("xf"))
            elif e.get("xunit") != "s" and dur_as(e["x"]) != 0:
                rep.add("difference_not_in_seconds", 1)
    elif kind == "tz":
        for e in by_op.get("tz", []):
            want_zone = LOCAL_TZ if c["how"] == "local" else c["to"]
            if e["cls"] != "ok":
                bad("conversion-failed", e)
            elif e["out"] != c["out"]:
                bad("conversion-changed-the-instant", e, spec=c["out"], impl=e["out"])
            elif e["oz"] != want_zone:
                # how the zone of the result is spelled is not part of the property (the instant is)
                rep.add("model_drift_zone_name", 1)
                if rep.cov["model_drift_zone_name"] == 1:
                    print("MODEL-DRIFT: property=C19 `%s` yields a value shown in zone %s, the specification says %s "
                          "(instant unchanged)" % (e["text"], e["oz"], want_zone))
    elif kind == "fmt":
        for e in by_op.get("fmt", []):
            if e["cls"] != "ok" or e["out"] != c["out"]:
                bad("format-parse-not-the-instant", e, spec=c["out"], impl=e.get("out"))
    return None


def g_direction(rep, tier, sc, reported):
    cfg = os.path.join(nv.SPEC, "_gen_c19_%d.cfg" % os.getpid())
    write_mc_cfg(cfg, "hash" if tier == "quick" else "all")
    try:
        res = nv.tlc("MC_DateTime", os.path.basename(cfg), workers=8, timeout=2400, want_tags=("CASE", "META"))
    finally:
        os.remove(cfg)
    if res.violated:
        rep.violation({"kind": "spec-invariant", "invariant": res.violated, "tlc": res.stdout[-3000:]})
        return None
    rep.tlc_stats(res, "MC_DateTime " + tier)
    meta = res.cases["META"][0]
    cases = res.cases.get("CASE", [])
    for i, c in enumerate(cases):
        c["id"] = i
    inp, outp = os.path.join(sc, "g_cases.ndjson"), os.path.join(sc, "g_events.ndjson")
    rows = []
    for c in cases:
        r = {"id": c["id"], "kind": c["kind"], "t": c["t"], "z": c["z"]}
        if c["kind"] == "arith":
            r.update(dtext=c["dtext"], ops=G_OPS)
        elif c["kind"] == "diff":
            r.update(u=c["u"], zu=c["zu"])
        elif c["kind"] == "tz":
            r.update(how=c["how"], to=c["to"])
        elif c["kind"] == "fmt":
            r.update(f=c["f"])
        rows.append(r)
    nv.write_ndjson(inp, rows)
    t0 = time.time()
    nv.harness(BIN, ["run", "--cases", inp, "--out", outp, "--local-tz", LOCAL_TZ])
    events = nv.read_ndjson_text(open(outp).read())
    nv.log("G: %d cases -> %d events executed in %.1fs (TLC %.1fs)" % (len(cases), len(events), time.time() - t0, res.wall))
    by_case = {}
    for e in events:
        by_case.setdefault(e["id"], []).append(e)
    drift, kinds, nontrivial = 0, {}, set()
    for c in cases:
        evs = by_case.get(c["id"], [])
        kinds[c["kind"]] = kinds.get(c["kind"], 0) + 1
        if compare_case(rep, c, evs, meta, reported) == "drift":
            drift += 1
            if drift == 1:
                print("MODEL-DRIFT: property=C19 the f64 seconds of `%s` (%s) are not the length MC_DateTime's unit table "
                      "gives (%s); predictions for such cases are skipped, the operations are still judged by "
                      "Trace_DateTime" % (c["dtext"], next((e.get("df") for e in evs if "df" in e), "?"), c["d"]))
        if c["kind"] != "arith" or c["d"]["m"] != [0, 0, 0, 0]:
            nontrivial.add((c["kind"], tuple(c["t"]), c.get("dtext", ""), c.get("f", ""), c.get("to", ""), c.get("how", ""),
                            tuple(c.get("u", []))))
    if drift:
        rep.add("model_drift_cases", drift)
    rep.add("evaluations", len(events))
    rep.add("g_cases", len(cases))
    rep.add("g_events", len(events))
    rep.set("g_case_kinds", kinds)
    rep.set("grid", {"instants": meta["ninst"], "durations": meta["ndur"], "zones": len(meta["zones"]),
                     "formats": len(meta["formats"])})
    rep.add("distinct_nontrivial", len(nontrivial))
    oor = sum(1 for c in cases if c["kind"] == "arith" and c["add"]["k"] != "ok")
    rep.set("g_cases_predicting_out_of_range_on_add", oor)
    for c in [c for c in cases if c["kind"] == "arith"][5::997][:3] + [c for c in cases if c["kind"] != "arith"][::1500][:2]:
        rep.sample({"G_case": {k: c[k] for k in ("kind", "tl", "t", "z", "dtext", "d", "add", "sub", "f", "how", "to", "x") if k in c}})
    return cases, events, meta


def j_direction(rep, tier, seed, sc, reported):
    ntr, nev = (8, 2500) if tier == "quick" else (16, 30000)
    paths = [os.path.join(sc, "j_%d.ndjson" % k) for k in range(ntr)]

    def rec(k):
        nv.harness(BIN, ["record", "--seed", str(seed * 1000 + k), "--events", str(nev), "--out", paths[k],
                         "--local-tz", LOCAL_TZ if k % 2 == 0 else "America/St_Johns"])
    t0 = time.time()
    with ThreadPoolExecutor(max_workers=8) as ex:
        list(ex.map(rec, range(ntr)))
    nv.log("J: %d traces recorded in %.1fs" % (ntr, time.time() - t0))
    events = []
    for p in paths:
        events += nv.read_ndjson_text(open(p).read())
    for e in events:
        if e["op"] == "setup-failed":
            raise nv.ToolError("J driver produced a duration expression that does not evaluate: %s" % json.dumps(e)[:400])
    rep.add("evaluations", len(events))
    rep.add("j_events", len(events))
    ops = {}
    for e in events:
        ops[e["op"]] = ops.get(e["op"], 0) + 1
        if e["op"] in ("add", "sub", "add_diff", "sub_diff", "add_sub", "sub_add", "diff", "tz", "fmt"):
            rep.add("distinct_nontrivial", 1)
    rep.set("j_ops", ops)
    rep.set("j_out_of_range_observed", sum(1 for e in events if e["cls"] == "runtime" and "OutOfRange" in e["err"]))
    rep.set("j_zones_used", len({e["z"] for e in events if "z" in e}))
    rep.sample({"J_event": {k: v for k, v in events[len(events) // 3].items() if k != "msg"}})
    return events


def self_tests(rep, g, jevents, sc, reported, bad_j):
    """binding self-tests: a corrupted prediction and corrupted recorded events must be noticed (and nothing else);
    bad_j: indices into jevents of the events that were not accepted in the real run"""
    cases, events, meta = g
    # G: shift one predicted instant by one nanosecond
    probe = nv.Report(PROP, "selftest", 0, "exploration")
    victim = next(c for c in cases if c["kind"] == "arith" and c["cls"] == "exact" and c["add"]["k"] == "ok"
                  and c["d"]["m"] != [0, 0, 0, 0] and ("G", c["id"], "add") not in reported)
    c2 = json.loads(json.dumps(victim))
    c2["add"]["t"][2] = (c2["add"]["t"][2] + 1) % NS
    compare_case(probe, c2, [e for e in events if e["id"] == victim["id"]], meta, set())
    rep.notes["selftest_G_corrupted_prediction_detected"] = len(probe.violations) > 0
    if not probe.violations:
        raise nv.ToolError("binding self-test failed: corrupted G prediction not detected")
    # J: corrupt one recorded result, one recorded difference and one converted instant -> exactly those lines are
    # rejected in addition to the ones rejected anyway
    sample = jevents[:4000]
    base = {i for i in bad_j if i < len(sample)}
    k1 = next(i for i, e in enumerate(sample) if e["op"] == "add" and e["cls"] == "ok" and i > len(sample) // 3 and i not in base)
    k2 = next(i for i, e in enumerate(sample) if e["op"] == "add_diff" and e["cls"] == "ok" and i > k1 and i not in base
              and dur_as(e["x"]) != 0 and abs(dur_as(e["d"])) < 10 ** 9 * NS * NS)
    k3 = next(i for i, e in enumerate(sample) if e["op"] == "tz" and e["cls"] == "ok" and i > k2 and i not in base)
    rows = json.loads(json.dumps(sample))
    rows[k1]["out"][2] = (rows[k1]["out"][2] + 1) % NS
    rows[k2]["x"]["m"][2] = (rows[k2]["x"]["m"][2] + 3) % NS
    rows[k3]["out"][1] = (rows[k3]["out"][1] + 3600) % SPD
    bp = os.path.join(sc, "selftest_corrupt.ndjson")
    nv.write_ndjson(bp, [slim(e) for e in rows])
    (idx, _), = judge([bp])
    got = set(idx) - base
    rep.notes["selftest_J_corrupted_events_rejected_at_lines"] = sorted(got)
    rep.notes["selftest_J_corrupted_lines"] = [k1, k2, k3]
    if got != {k1, k2, k3} or not base <= set(idx):
        raise nv.ToolError("binding self-test failed: corrupted events %s, rejected %s" % ([k1, k2, k3], sorted(got)))


def run(tier, seed):
    rep = nv.Report(PROP, tier, seed, "exploration")
    if os.environ.get("NV_C19_ASSUME_PROPOSED") and os.path.exists(PROPOSED):
        # mutation experiments only: treat the findings proposed by this check as known, so that the exit status tells
        # whether the mutant adds NEW violations
        rep.known += [e for e in json.load(open(PROPOSED)) if e.get("property") == PROP]
        rep.notes["assumed_proposed_findings"] = [e["id"] for e in rep.known]
    nv.build_harness([BIN])
    sc = nv.scratch("c19")
    reported = set()
    g = g_direction(rep, tier, sc, reported)
    if g is None:
        return rep.finish()
    jevents = j_direction(rep, tier, seed, sc, reported)
    # every executed operation (G and J) is judged by the specification from the f64 seconds really used
    for e in g[1]:
        e["src"] = "G"
    for e in jevents:
        e["src"] = "J"
    gjudged = [e for e in g[1] if e["op"] != "setup-failed"]
    bad = judge_events(rep, gjudged + jevents, sc, "GJ", reported)
    if len(bad) < 2000:
        self_tests(rep, g, jevents, sc, reported, {i - len(gjudged) for i in bad if i >= len(gjudged)})
    rep.set("rule", "G: every case of MC_DateTime's grid (instants at / next to the range ends, epoch, leap day, 2024 DST "
            "gaps and overlaps of Europe/Berlin and America/New_York, years 1, 0, -1, +-9999, ordinary ones; durations of "
            "both signs in ns us ms s min h day week month year with dyadic coefficients, ~1000 and ~19999..20000 years in "
            "every unit; zones) executed as add, sub, (t+d)-t, (t+d)-d, (t-d)+d, plus differences of all instant pairs, "
            "conversions to every zone / local / UTC and 5 full-precision formats; J: seeded random operations. "
            "distinct_nontrivial = distinct G cases other than adding a zero duration + J operations other than building "
            "a value")
    rep.assumptions += [
        "the f64 seconds of a duration are observed on the raw Quantity (to_base_unit_representation, the call the VM makes) "
        "and decomposed exactly into limbs; the expectation is t +- RoundDur(those seconds); a result that only fits "
        "seconds 2 ulp away is reported as MODEL-DRIFT",
        "tie tolerance of the nanosecond rounding: 121 attoseconds (f64 product fract * 1e9)",
        "durations returned as f64 seconds: abs 1 ns + rel 1e-15",
        "supported range = jiff 0.2.18 Timestamp::MIN..=MAX, Span seconds limit 631107417600 s (documented by jiff); "
        "which error kind is raised (DateTimeOutOfRange / DurationOutOfRange) is not part of the property",
        "unit lengths in MC_DateTime are taken from the prelude's definitions; a deviation of the real f64 seconds from them "
        "beyond 1 ns + 1e-15 is MODEL-DRIFT (unit conversion is C03/C04's subject)",
        "`-> local` is exercised with TZ=%s / America/St_Johns set for the harness process" % LOCAL_TZ,
        "time-zone rules and calendar arithmetic are jiff's (tz database of the machine); the spec only fixes the instant",
    ]
    if not rep.violations:
        shutil.rmtree(sc, ignore_errors=True)
    return rep.finish()


def case_of_event(e):
    """a G-style harness case that re-executes the operation of a recorded event"""
    op = e.get("op")
    c = {"id": 0, "t": e["t"], "z": e.get("z", "UTC")}
    if op in ("add", "sub", "add_diff", "sub_diff", "add_sub", "sub_add"):
        c.update(kind="arith", dtext=e["dtext"], ops=[op])
    elif op == "diff":
        c.update(kind="diff", u=e["u"], zu=e.get("zu", "UTC"))
    elif op == "tz":
        c.update(kind="tz", how=e.get("how", "tz"), to=e["to"])
    elif op == "fmt":
        c.update(kind="fmt", f=e["f"])
    else:
        c.update(kind="make")
    return c


def replay(path, seed):
    """re-executes the operations of the recorded violations on the current tree and judges them again"""
    data = json.load(open(path))
    nv.build_harness([BIN])
    sc = nv.scratch("c19_replay")
    rc = 0
    for n, v in enumerate(data["violations"][:10]):
        print(json.dumps({k: v[k] for k in v if k != "event"})[:1500])
        e = v.get("event")
        if not e and v.get("case") and v.get("op"):
            c = v["case"]
            e = dict(c, op=v["op"])
            if c.get("kind") == "tz" and c.get("how") != "tz":
                e["to"] = c["how"]
        if not e or "t" not in e:
            rc = 1
            continue
        inp, outp = os.path.join(sc, "case_%d.ndjson" % n), os.path.join(sc, "ev_%d.ndjson" % n)
        nv.write_ndjson(inp, [case_of_event(e)])
        nv.harness(BIN, ["run", "--cases", inp, "--out", outp, "--local-tz", LOCAL_TZ])
        evs = [x for x in nv.read_ndjson_text(open(outp).read())]
        nv.write_ndjson(outp, evs)
        (idx, _), = judge([outp])
        for i, x in enumerate(evs):
            print("  re-executed %-8s %-40s -> %s %s %s : %s" % (x["op"], x.get("text", "")[:40], x["cls"], x.get("err", ""),
                  x.get("out", x.get("x")), "NOT ACCEPTED by DateTime.tla" if i in idx else "accepted"))
        if idx:
            rc = 1
    shutil.rmtree(sc, ignore_errors=True)
    return rc
