"""X-COMMANDS (extra, not one of the listed properties): the REPL command layer.
Commands.tla classifies every line of <= 3 words over the command vocabulary under all 32 front-end configurations
(which commands are enabled): not a command (interpreted as code) / error / continue / return / reset; TLC checks
that a command with bad arguments is never treated as code and that enabling more commands never changes the
classification of a line that already was a command; every case is replayed on the real CommandRunner.
Run with `bin/check X_COMMANDS`; writes evidence/X_COMMANDS.json (not referenced by MANIFEST.json)."""
import json
import os
import shutil
import nv

PROP = "X_COMMANDS"


def run(tier, seed):
    rep = nv.Report(PROP, tier, seed, "model_checking")
    nv.build_harness(["nv-commands"])
    d = nv.scratch("xcmd")
    cfg = os.path.join(nv.SPEC, "_gen_Commands_%d.cfg" % os.getpid())
    with open(cfg, "w") as f:
        f.write("SPECIFICATION Spec\nINVARIANTS InvNeverBoth InvMonotone EmitCase\nCHECK_DEADLOCK FALSE\n")
    try:
        res = nv.tlc("MC_Commands", os.path.basename(cfg), workers=8, timeout=1800)
    finally:
        os.remove(cfg)
    if res.violated:
        rep.violation({"kind": "spec-property", "property": res.violated})
        return rep.finish()
    rep.tlc_stats(res, "MC_Commands")
    cases = res.cases.get("CASE", [])
    inp, out = os.path.join(d, "cases.ndjson"), os.path.join(d, "out.ndjson")
    nv.write_ndjson(inp, [{"id": i, "cfg": c["cfg"], "words": c["words"]} for i, c in enumerate(cases)])
    cwd = os.getcwd()
    os.chdir(d)   # `save` without argument writes history.nbt into the current directory
    try:
        nv.harness("nv-commands", ["run", "--cases", inp, "--out", out, "--dir", d])
    finally:
        os.chdir(cwd)
    results = nv.read_ndjson_text(open(out, encoding="utf-8").read())
    nontrivial = 0
    for c, r in zip(cases, results):
        rep.add("evaluations", 1)
        if c["cls"] != "not-a-command":
            nontrivial += 1
        if r["cls"] != c["cls"]:
            rep.violation({"kind": "command-classification", "cfg": c["cfg"], "words": c["words"], "impl": r["cls"], "spec": c["cls"], "what": c["what"]})
    rep.add("distinct_nontrivial", nontrivial)
    rep.add("traces_validated_against_impl", len(cases))
    for c in cases[100:: max(1, len(cases) // 4)][:4]:
        rep.sample({"cfg": c["cfg"], "line": " ".join(c["words"]), "expected": c["cls"]})
    rep.set("rule", "all lines of <= 3 words over 16 words x all 32 configurations; non-trivial = lines that are commands under the configuration")
    rep.set("exhaustive", True)
    if not rep.violations:
        shutil.rmtree(d, ignore_errors=True)
    return rep.finish()


def replay(path, seed):
    data = json.load(open(path))
    for v in data["violations"][:5]:
        print(json.dumps(v)[:2000])
    return 1 if data["violations"] else 0
