"""X_PIPELINE (extra, not one of the listed properties): the composed pipeline on tokens.
Pipeline.tla composes Grammar.tla, Typing.tla and Eval.tla (INSTANCEs): every token sequence up to MaxLen over three
alphabets gets a predicted outcome of `let v_a = <text>` - parse error / type error / accepted with its dimension and,
for unit-free integer expressions, its value.  TLC checks that the layers agree with each other; every sequence is run
through the real interpreter.  Run with `bin/check X_PIPELINE`; evidence in evidence_extra/."""
import json
import os
import shutil
import nv
from checks import typing_common as tc

PROP = "X_PIPELINE"


def run(tier, seed):
    rep = nv.Report(PROP, tier, seed, "model_checking")
    nv.build_harness(["nv-typing"])
    d = nv.scratch("xpipe")
    plan = [("core", 4), ("if", 5), ("arith", 5)] if tier == "quick" else [("core", 5), ("if", 5), ("arith", 5)]
    seen, cases = set(), []
    for alpha, maxlen in plan:
        cfg = os.path.join(nv.SPEC, "_gen_Pipeline_%d.cfg" % os.getpid())
        with open(cfg, "w") as f:
            f.write('CONSTANTS MaxLen = %d\n          Alphabet = "%s"\nSPECIFICATION Spec\nINVARIANTS LayersAgree EmitCase\nCHECK_DEADLOCK FALSE\n' % (maxlen, alpha))
        try:
            res = nv.tlc("Pipeline", os.path.basename(cfg), workers=8, timeout=3000)
        finally:
            os.remove(cfg)
        if res.violated:
            rep.violation({"kind": "spec-property", "property": res.violated, "alphabet": alpha})
            return rep.finish()
        rep.tlc_stats(res, "Pipeline %s <= %d" % (alpha, maxlen))
        for c in res.cases.get("CASE", []):
            if c["text"] not in seen:
                seen.add(c["text"])
                cases.append(c)
    inp, out = os.path.join(d, "cases.ndjson"), os.path.join(d, "out.ndjson")
    nv.write_ndjson(inp, [{"setup": []}] + [{"id": i, "s1": "let v_a = " + c["text"], "s2": ""} for i, c in enumerate(cases)])
    nv.harness("nv-typing", ["typing-run", "--cases", inp, "--out", out])
    results = nv.read_ndjson_text(open(out, encoding="utf-8").read())[1:]
    kinds = {}
    for c, r in zip(cases, results):
        rep.add("evaluations", 1)
        kinds[c["outcome"]] = kinds.get(c["outcome"], 0) + 1
        o = r["r1"]
        probs = []
        if o["outcome"] == "panic":
            probs.append("panic: " + o["msg"][:120])
        elif c["outcome"] == "resolver":
            if o["outcome"] != "resolver":
                probs.append("spec: parse error; impl %s" % o["outcome"])
        elif c["outcome"] == "type":
            if o["outcome"] != "type":
                probs.append("spec: type error (%s); impl %s" % (c["type"]["e"], o["outcome"]))
        else:
            if o["outcome"] == "runtime" and o["kind"] == "DivisionByZero":
                pass
            elif o["outcome"] != "ok":
                probs.append("spec: accepted; impl %s/%s %s" % (o["outcome"], o["kind"], o["msg"][:80]))
            else:
                st = o.get("static")
                if c["type"]["k"] == "dim":
                    if not st or st["k"] != "dim" or tc.impl_vec(st["dim"]) != tc.spec_vec(c["type"]):
                        probs.append("type: impl %s spec %s" % (st, tc.spec_vec(c["type"])))
                    if c["hasval"] and float(o["raw"]["value"]) != float(c["val"]):
                        probs.append("value: impl %s spec %s" % (o["raw"]["value"], c["val"]))
                elif c["type"]["k"] == "bool" and (not st or st.get("text") != "Bool"):
                    probs.append("type: impl %s spec Bool" % st)
        if probs:
            rep.violation({"kind": "pipeline-mismatch", "text": c["text"], "problems": probs})
    rep.add("distinct_nontrivial", kinds.get("ok", 0) + kinds.get("type", 0))
    rep.set("predicted_outcomes", kinds)
    rep.add("traces_validated_against_impl", len(cases))
    for c in cases[50:: max(1, len(cases) // 5)][:5]:
        rep.sample({"text": c["text"], "predicted": c["outcome"], "type": c["type"]["k"], "value": c["val"] if c["hasval"] else None})
    rep.set("rule", "all token sequences over alphabets %s; non-trivial = sequences the grammar accepts (typed or rejected by the type checker)" % (plan,))
    rep.set("exhaustive", True)
    if not rep.violations:
        shutil.rmtree(d, ignore_errors=True)
    return rep.finish()


def replay(path, seed):
    data = json.load(open(path))
    for v in data["violations"][:5]:
        print(json.dumps(v)[:2000])
    return 1 if data["violations"] else 0
