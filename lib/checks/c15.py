"""C15 - the echoed (pretty-printed) form of an input means the same as the input.

Spec: spec/Printer.tla (on top of Lexer.tla / Grammar.tla): the echo RULES as a function from typed trees to text -
      the parenthesisation TABLE Bare(variant, context) over (parent operator and side, class of the operand) in two
      variants ("pinned" = as implemented, "repaired" = minimal added parentheses), fused `2 metre`, operator
      spellings, `²`/`³`, temperature sugar, strings with escapes and interpolation, statement forms (let / fn with type
      parameters, where clauses / unit with decorators / dimension / struct, annotation printer and inferred-type
      printer) - and the READER (Grammar.tla's Parse for expressions, a statement and type-annotation grammar written
      from the grammar comment of parser.rs).
MC:   Read(Print(t)) = t (up to the re-association of products and sums that the echo makes on purpose) and the echo
      of what was read is the same text, for ALL well-sorted typed expression trees within the node bound
      (MC_Printer.tla) and for all statement templates (MC_PrinterStmts.tla).  Holds for the "repaired" table; TLC
      reports a counterexample for the "pinned" table (the rule defects; recorded in the evidence notes).
G:    TLC prints, per tree / template, the input text, the echo predicted by both tables, the predicted echo of the
      echo, the spec-level verdict and the table entries involved.  harness nv-printer interprets each input on a clone
      of a prelude session (rejected by the checker = skipped), takes the real echo, compares it with the prediction
      (binding; a difference in text alone is MODEL-DRIFT, not a violation), interprets the ECHO in a clone of the
      PRE-state and compares acceptance, static type (hook statement_scheme_text), value (bit for bit, unit factor by
      factor, and as displayed), names defined, probes, and the echo of the echo.
J:    seeded random deeper trees generated and executed by the harness, recorded as ndjson, judged line by line by
      spec/Trace_Printer.tla (the same Print / Read operators).
Findings are classified by the table entries the spec names for the case (signature kinds of the C15 entries of
known_findings.json), confirmed by executing the REPAIRED echo (it must be accepted with the same type and value).
"""
import json
import os
import re
import shutil
import time
import nv

PROP = "C15"
JVM = "-Xss512m -Dstdout.encoding=UTF-8 -Dfile.encoding=UTF-8"
HERE = os.path.dirname(os.path.abspath(__file__))
PROPOSED = os.path.join(HERE, "c15_proposed_findings.json")
REL_TOL = 1e-12      # value tolerance where the echo re-associates a product or a sum (Printer.tla: Reassociates)

# ---------------------------------------------------------------------------------------------
# rule defects: table entry / statement repair (as named by the spec) -> signature kind of the finding


def group_of(tag):
    """table entry / statement repair in which the pinned and the repaired rules of the spec differ -> signature kind.
    (The entries of the defects repaired in /repo - conversion operands ec9ff21, base of a call or field access 199d4b4,
    decorator strings cb8c768, fractional annotation exponents 30f8317, struct type parameters eb926bd - are gone from
    the spec's pinned rules: if one of them reappears the echo differs from the spec's text and the failing round trip
    carries no entry, i.e. it is a plain violation.)"""
    ctx, _, cls = tag.partition("/")
    if ctx == "stmt":
        return {"polymorphic-annotation": "echo-polymorphic-let-annotation",
                "dimension-alternatives": "echo-dimension-alternatives",
                "implicit-dimension": "echo-base-unit-implicit-dimension",
                "inferred-exponent-respelled": "echo-inferred-exponent-respelled"}.get(cls, "unknown:" + tag)
    if cls in ("tempjux", "tempconv"):
        return "echo-temperature-sugar-operand"
    return "unknown:" + tag


# ---------------------------------------------------------------------------------------------

class Ctx:
    def __init__(self, rep, sc, seed, tier):
        self.rep, self.sc, self.seed, self.tier = rep, sc, seed, tier
        self.pending = []            # violations, classified at the end
        self.nontrivial = set()
        self.binding = {"pinned": 0, "repaired": 0, "between": 0, "drift": 0}
        self.drift_samples = []
        self.skipped = {}
        self.rule_defects = {}       # group -> {count, example, entries}
        self.ok_samples = []         # (source, case, obs) of passing cases, for the self-tests


def gen_cfg(name, text):
    path = os.path.join(nv.SPEC, "_gen_c15_%s_%d.cfg" % (name, os.getpid()))
    with open(path, "w") as f:
        f.write(text)
    return path


def tlc_run(module, name, cfg_text, tags=("CASE", "META"), timeout=1500, workers=8):
    cfg = gen_cfg(name, cfg_text)
    try:
        res = nv.tlc(module, os.path.basename(cfg), workers=workers, timeout=timeout, want_tags=tags, jvm=JVM)
        nv.log("tlc %s %s: %d states, %.1fs%s" % (module, name, res.distinct, res.wall,
                                                   ", violated " + res.violated if res.violated else ""))
        return res
    finally:
        os.remove(cfg)


def run_harness(cx, label, setup, items):
    """items: [{input, probes}] -> observations, aligned"""
    inp = os.path.join(cx.sc, "cases_%s.ndjson" % label)
    out = os.path.join(cx.sc, "out_%s.ndjson" % label)
    nv.write_ndjson(inp, [{"setup": setup}] + [{"id": i, "input": x["input"], "probes": x.get("probes", [])} for i, x in enumerate(items)])
    t0 = time.time()
    nv.harness("nv-printer", ["rt-run", "--cases", inp, "--out", out])
    nv.log("harness rt-run %s: %d cases, %.1fs" % (label, len(items), time.time() - t0))
    rows = nv.read_ndjson_text(open(out, encoding="utf-8").read())
    if len(rows) != len(items) or any(r["id"] != i for i, r in enumerate(rows)):
        raise nv.ToolError("harness output does not line up with the cases (%s)" % label)
    os.remove(inp)
    os.remove(out)
    return rows


# ---------------------------------------------------------------------------------------------
# comparison of two observations of "the same" statement

def _q_close(a, b):
    if a["unit"] != b["unit"]:
        # another unit of the same dimension (a re-associated product may pick cm² instead of m²): the same quantity
        if sorted(a["siunit"]) != sorted(b["siunit"]):
            return False
        x, y = float(a["si"]), float(b["si"])
        return x == y or abs(x - y) <= REL_TOL * max(abs(x), abs(y))
    x, y = float(a["num"]), float(b["num"])
    if x == y or (x != x and y != y):
        return True
    return abs(x - y) <= REL_TOL * max(abs(x), abs(y))


def repr_same(a, b, close):
    if a is None or b is None:
        return a is b
    if a == b:
        return True
    if not close or a.get("k") != b.get("k"):
        return False
    if a["k"] == "q":
        return _q_close(a, b)
    if a["k"] == "l":
        return len(a["e"]) == len(b["e"]) and all(repr_same(x, y, close) for x, y in zip(a["e"], b["e"]))
    if a["k"] == "st":
        return a["name"] == b["name"] and len(a["f"]) == len(b["f"]) and all(
            x[0] == y[0] and repr_same(x[1], y[1], close) for x, y in zip(a["f"], b["f"]))
    return False


def value_same(a, b, close):
    """a, b: {"repr", "text"} or None"""
    if a is None or b is None:
        return a is b
    if a == b:
        return True
    return close and repr_same(a["repr"], b["repr"], True)


def defined_same(a, b, close):
    if a == b:
        return True
    if set(a) != set(b):
        return False
    return all(a[k]["type"] == b[k]["type"] and repr_same(a[k]["raw"], b[k]["raw"], close) for k in a)


def probes_same(a, b, close):
    if a == b:
        return True
    if a is None or b is None or len(a) != len(b):
        return False
    return all(x["outcome"] == y["outcome"] and x["kind"] == y["kind"] and x["types"] == y["types"]
               and value_same(x["value"], y["value"], close) for x, y in zip(a, b))


def semantic_difference(o, e, close):
    """o: observation of the input, e: observation of a text that should mean the same (read in the same pre-state)
    -> None or (kind, detail)"""
    if e["outcome"] != "ok":
        return "echo-rejected", "%s/%s: %s" % (e["outcome"], e["kind"], (e.get("msg") or "")[:300])
    if e["types"] != o["types"]:
        return "type-differs", "%s vs %s" % (o["types"], e["types"])
    if not value_same(o["value"], e["value"], close):
        return "value-differs", "%s vs %s" % (json.dumps(o["value"], ensure_ascii=False)[:300], json.dumps(e["value"], ensure_ascii=False)[:300])
    if o["printed"] != e["printed"]:
        return "value-differs", "printed %s vs %s" % (o["printed"], e["printed"])
    if o["names"] != e["names"]:
        return "names-differ", "%s vs %s" % (o["names"], e["names"])
    if not defined_same(o["defined"], e["defined"], close):
        return "value-differs", "defined %s vs %s" % (json.dumps(o["defined"])[:300], json.dumps(e["defined"])[:300])
    if not probes_same(o.get("probes"), e.get("probes"), close):
        return "probes-differ", "%s vs %s" % (json.dumps(o.get("probes"), ensure_ascii=False)[:400], json.dumps(e.get("probes"), ensure_ascii=False)[:400])
    return None


def second(c, which):
    """the echo of the echo the spec predicts for table `which` ('p' | 'r'), or None if the spec says the echo does not read back"""
    first = c["p"] if which == "p" or c["r"] == "=" else c["r"]
    t2 = c.get(which + "2", "=")
    return first if t2 == "=" else (None if t2 == "-" else t2)


def _noparens(text):
    """the text without what the repaired rules add: parentheses, and the quotes / escapes of decorator strings"""
    for a in "()\"\\":
        text = text.replace(a, "")
    return text.replace("{{", "{").replace("}}", "}")


_SUP = {"⁻": "-", "⁰": "0", "¹": "1", "²": "2", "³": "3", "⁴": "4", "⁵": "5", "⁶": "6", "⁷": "7", "⁸": "8", "⁹": "9"}


def _expnorm(text):
    """exponents in one spelling: A² -> A^2, A⁻² -> A^-2, A^(1/2) -> A^1/2"""
    text = re.sub("[%s]+" % "".join(_SUP), lambda m: "^" + "".join(_SUP[ch] for ch in m.group(0)), text)
    return re.sub(r"\^\(([-0-9/ ]+)\)", lambda m: "^" + m.group(1).replace(" ", ""), text)


def evaluate(cx, source, setup, c, o):
    """one G case / J line: spec prediction c, observation o.  Returns 'skipped' | 'ok' | 'violation'"""
    rep = cx.rep
    if o["outcome"] != "ok":
        key = "%s/%s" % (o["outcome"], o["kind"])
        cx.skipped[key] = cx.skipped.get(key, 0) + 1
        rep.add("skipped", 1)
        if o["outcome"] == "panic":
            rep.notes.setdefault("inputs_that_panic_(not_C15)", [])
            if len(rep.notes["inputs_that_panic_(not_C15)"]) < 5:
                rep.notes["inputs_that_panic_(not_C15)"].append({"input": c["i"], "message": o.get("msg", "")[:200]})
        return "skipped"
    rep.add("evaluations", 3)          # the input, its echo, (the probes / the echo of the echo inside the second run)
    echo = o["echo"]
    repaired_text = c["p"] if c["r"] == "=" else c["r"]
    if echo == c["p"]:
        binding = "pinned"
    elif echo == repaired_text:
        binding = "repaired"
    elif _noparens(echo) in (_noparens(c["p"]), _noparens(repaired_text)):
        # the rules up to parentheses / quoting: some of the repairs of the repaired table are there, others are not
        binding = "between"
    else:
        binding = "drift"
        if len(cx.drift_samples) < 8:
            cx.drift_samples.append({"source": source, "input": c["i"], "echo": echo, "spec_pinned": c["p"], "spec_repaired": repaired_text})
    cx.binding[binding] += 1
    if "(" in c["i"] or "\n" in c["i"] or source.startswith("G-statements"):
        cx.nontrivial.add(c["i"])
    close = bool(c.get("ra"))
    e = o["re"]
    diff = semantic_difference(o, e, close)
    predicted2 = None
    if diff is None:
        # fixpoint: the echo of the echo is the echo; where the echo re-associates (spec: ra) it is the echo of the
        # re-associated tree, which the spec predicts
        expected2 = echo
        if binding in ("pinned", "repaired"):
            predicted2 = second(c, "p" if binding == "pinned" else "r")
            if close and predicted2 is not None:
                expected2 = predicted2
        if e["echo"] != expected2:
            diff = ("not-a-fixpoint", "echo of the echo: %r" % e["echo"])
            if close and binding == "between":
                # a partially repaired printer and a re-associating echo: the predicted second text is known up to the
                # parentheses only
                loose = {_noparens(t) for t in (second(c, "p"), second(c, "r")) if t is not None}
                if _noparens(e["echo"]) in loose:
                    diff = None
    if diff is None:
        if len(cx.ok_samples) < 50 and "(" in c["i"]:
            cx.ok_samples.append((source, setup, c, o))
        return "ok"
    tags = list(c.get("d", []))
    if diff[0] == "not-a-fixpoint" and not tags and c.get("r2", "=") == "=" and (
            (predicted2 is not None and e["echo"] == predicted2) or _expnorm(e["echo"]) == _expnorm(echo)):
        # the two texts differ only in how exponents in types are spelled (the annotation printer spells them differently
        # from the inferred-type printer: the pinned rules predict this second text), and the repaired rules are a fixpoint
        tags = ["stmt/inferred-exponent-respelled"]
    v = {"kind": diff[0], "detail": diff[1], "source": source, "setup": setup, "input": c["i"], "probes": c.get("pr", []),
         "echo": echo, "reecho": e.get("echo"), "binding": binding, "tags": tags, "reassociated": close,
         "spec_pinned": c["p"], "spec_repaired": repaired_text, "spec_reads_back": c.get("ok"),
         "value": (o["value"] or {}).get("text"), "revalue": (e.get("value") or {}).get("text") if e["outcome"] == "ok" else None,
         "_obs": o}
    cx.pending.append(v)
    return "violation"


def confirm_by_repair(cx):
    """narrowness of the signatures: the text the REPAIRED rules give for the same tree is executed in the same pre-state;
    it must be accepted and mean what the input meant"""
    by_setup = {}
    for v in cx.pending:
        v["repair_confirmed"] = False
        if v["tags"] == ["stmt/inferred-exponent-respelled"]:
            v["repair_confirmed"] = True      # (nothing to repair in the first echo: see evaluate)
        elif v["tags"] and v["binding"] in ("pinned", "between") and v["spec_repaired"] != v["spec_pinned"]:
            by_setup.setdefault(json.dumps(v["setup"]), []).append(v)
    for n, (setup, vs) in enumerate(by_setup.items()):
        rows = run_harness(cx, "repair%d" % n, json.loads(setup), [{"input": v["spec_repaired"], "probes": v["probes"]} for v in vs])
        for v, r in zip(vs, rows):
            cx.rep.add("evaluations", 1)
            d = semantic_difference(v["_obs"], r, v["reassociated"])
            # ... and the repaired text itself round-trips (as far as the unchanged rules for its parts allow: its own
            # echo is again the pinned one, so only acceptance and meaning are required here)
            v["repair_confirmed"] = d is None
            if d is not None:
                v["repair_problem"] = "%s: %s" % d


def classify_and_report(cx):
    rep = cx.rep
    confirm_by_repair(cx)
    known_kinds = {k.get("signature", {}).get("kind") for k in rep.known}
    summary = {}
    for v in cx.pending:
        v.pop("_obs", None)
        groups = sorted({group_of(t) for t in v["tags"]})
        v["groups"] = groups
        v["sig"] = None
        # narrow signature: the echo is exactly the text of the pinned rules, every table entry in which that text differs
        # from the repaired one belongs to a known finding, and the repaired text is accepted and means the same.  If the
        # echo already has SOME of the repaired table's parentheses (binding "between": a partially repaired printer), the
        # entries that are still responsible cannot be told apart by text: one known group suffices.
        knowng = [g for g in groups if g in known_kinds]
        if groups and v["repair_confirmed"] and ((v["binding"] == "pinned" and len(knowng) == len(groups))
                                                 or (v["binding"] == "between" and knowng)):
            v["sig"] = knowng[0]
            v["groups"] = knowng if v["binding"] == "between" else groups
        key = "%s | %s | %s" % (v["kind"], ",".join(groups) or "-", v["source"].split("/")[0])
        summary[key] = summary.get(key, 0) + 1
        rep.violation(v, lambda x, k: x.get("sig") is not None and k.get("signature", {}).get("kind") in x["groups"])
    if summary:
        rep.notes["mismatch_summary"] = summary
        for k, n in sorted(summary.items()):
            nv.log("mismatches: %6d  %s" % (n, k))


# ---------------------------------------------------------------------------------------------

def note_rule_defects(cx, cases, label):
    """MC result on the pinned table, per group: how many trees / templates the spec says do not read back (TLC evaluates
    the round trip of BOTH tables for every tree in the run whose invariant is stated for the repaired one; the thorough
    tier also runs TLC with the invariant stated for the pinned table, which stops at the first counterexample)"""
    first = next((c for c in cases if not c.get("ok")), None)
    if first is not None:
        cx.rep.notes.setdefault("pinned_table_first_counterexample", {})[label] = {
            "input": first["i"], "echo": first["p"], "table_entries": first.get("d"), "repaired_echo": first["r"]}
    for c in cases:
        if c.get("ok") and c.get("p2", "=") == "=":
            continue
        tags = c.get("d") or (["stmt/inferred-exponent-respelled"] if c.get("ok") and not c.get("ra") else [])
        for g in sorted({group_of(t) for t in tags}) or ["unexplained"]:
            if g == "unexplained" and c.get("ra"):
                continue        # re-association only: allowed
            d = cx.rule_defects.setdefault(g, {"count": 0, "smallest_input": c["i"], "pinned_echo": c["p"],
                                               "repaired_echo": c["p"] if c["r"] == "=" else c["r"], "table_entries": set(), "from": label})
            d["count"] += 1
            d["table_entries"].update(tags)
            if len(c["i"]) < len(d["smallest_input"]):
                d["smallest_input"], d["pinned_echo"], d["repaired_echo"] = c["i"], c["p"], (c["p"] if c["r"] == "=" else c["r"])


def g_trees(cx, nodes, wide, label):
    rep = cx.rep
    body = "CONSTANTS MaxNodes = %d\n          Wide = %s\n          Variant = \"%%s\"\nSPECIFICATION Spec\nINVARIANTS CheckAndEmit\nCHECK_DEADLOCK FALSE\n" % (
        nodes, "TRUE" if wide else "FALSE")
    res = tlc_run("MC_Printer", "trees_" + label, body % "repaired")
    if res.violated:
        rep.violation({"kind": "spec-invariant", "invariant": res.violated, "model": "MC_Printer repaired " + label, "tlc": res.stdout[-2500:]})
        return
    rep.tlc_stats(res, "MC_Printer %s: repaired table, <= %d nodes (+1 with a conditional)%s" % (label, nodes, ", wide alphabet" if wide else ""))
    meta = res.cases["META"][0]
    rep.notes["table_entries_repaired"] = sorted(meta["tablediff"])
    cases = res.cases.get("CASE", [])
    if any(not c["okr"] for c in cases):
        raise nv.ToolError("MC_Printer: the repaired table does not read back although the invariant held")
    note_rule_defects(cx, cases, "MC_Printer " + label)
    rep.add("trees", len(cases))
    rep.add("traces_validated_against_impl", len(cases))
    rows = run_harness(cx, "trees_" + label, meta["setup"], [{"input": c["i"]} for c in cases])
    st = {"ok": 0, "skipped": 0, "violation": 0}
    for c, o in zip(cases, rows):
        st[evaluate(cx, "G-trees/" + label, meta["setup"], c, o)] += 1
    nv.log("G trees %s: %s" % (label, st))
    for c in cases[len(cases) // 2: len(cases) // 2 + 300]:
        if c["i"].count("(") >= 2:
            rep.sample({"input": c["i"], "echo_pinned": c["p"], "echo_repaired": c["r"], "reads_back": c["ok"], "entries": c["d"]}, limit=4)
            break


def mc_pinned(cx, module, name, body):
    """the DESIGN-level check: the implemented table violates the round trip; TLC's counterexample is recorded"""
    res = tlc_run(module, name, body, workers=1)
    cx.rep.tlc_stats(res, "%s: pinned table (expected to be violated)" % module)
    bad = [c for c in res.cases.get("CASE", []) if not c["ok"] or c.get("p2", "=") != "="]
    cx.rep.notes.setdefault("pinned_table_model_checking", {})[module] = {
        "invariant_violated": res.violated,
        "counterexample": ({"input": bad[0]["i"], "echo": bad[0]["p"], "entries": bad[0].get("d"), "echo_of_echo": bad[0].get("p2")} if bad else None)}
    if not res.violated:
        cx.rep.notes["pinned_table_model_checking"][module]["remark"] = "no counterexample within this bound"


def g_statements(cx, pinned_run=True):
    rep = cx.rep
    body = "CONSTANTS Variant = \"%s\"\nSPECIFICATION Spec\nINVARIANTS CheckAndEmit\nCHECK_DEADLOCK FALSE\n"
    res = tlc_run("MC_PrinterStmts", "stmts", body % "repaired", workers=1)
    if res.violated:
        rep.violation({"kind": "spec-invariant", "invariant": res.violated, "model": "MC_PrinterStmts repaired", "tlc": res.stdout[-2500:]})
        return
    rep.tlc_stats(res, "MC_PrinterStmts: repaired rules, all statement templates")
    cases = sorted(res.cases.get("CASE", []), key=lambda c: c["n"])
    note_rule_defects(cx, cases, "MC_PrinterStmts")
    rep.add("statements", len(cases))
    rep.add("traces_validated_against_impl", len(cases))
    rows = run_harness(cx, "stmts", [], [{"input": c["i"], "probes": c["pr"]} for c in cases])
    st = {"ok": 0, "skipped": 0, "violation": 0}
    for c, o in zip(cases, rows):
        r = evaluate(cx, "G-statements", [], c, o)
        st[r] += 1
        if r == "skipped":
            # a template whose input is rejected is a mistake in the template, not a skipped case
            raise nv.ToolError("statement template rejected by the real code: %r: %s" % (c["i"], o.get("msg")))
    nv.log("G statements: %s" % st)
    rep.sample({"input": cases[24]["i"], "echo_pinned": cases[24]["p"], "echo_repaired": cases[24]["r"], "entries": cases[24]["d"]}, limit=6)
    if pinned_run:
        mc_pinned(cx, "MC_PrinterStmts", "stmts_pinned", body % "pinned")


def trace_line(o):
    """what Trace_Printer judges"""
    if o["outcome"] != "ok":
        return {"outcome": o["outcome"], "tree": o["tree"], "echo": "", "reok": False, "reecho": ""}
    e = o["re"]
    return {"outcome": "ok", "tree": o["tree"], "echo": o["echo"], "reok": semantic_difference(o, e, True) is None,
            "reecho": e.get("echo", "") if e["outcome"] == "ok" else ""}


def j_traces(cx, ntraces, n, depth, setup):
    rep = cx.rep
    paths = []
    for k in range(ntraces):
        raw = os.path.join(cx.sc, "jraw_%d.ndjson" % k)
        nv.harness("nv-printer", ["j-record", "--seed", str(cx.seed * 1000 + k), "--n", str(n), "--depth", str(depth),
                                  "--setup", ";;".join(setup), "--out", raw])
        rows = nv.read_ndjson_text(open(raw, encoding="utf-8").read())
        os.remove(raw)
        for r in rows:
            if r["outcome"] == "ok" and not r["tree_is_parse"]:
                raise nv.ToolError("J: the generator's tree is not the parser's tree for %r: %s vs %s" % (r["input"], r.get("sexpr"), r.get("parsed")))
        p = os.path.join(cx.sc, "trace_%d.ndjson" % k)
        nv.write_ndjson(p, [trace_line(r) for r in rows])
        paths.append((p, rows))
    t0 = time.time()
    results = nv.validate_traces_parallel("Trace_Printer", [p for p, _ in paths], cfg="Trace_Printer_lenient.cfg", timeout=1500, jobs=4)
    nv.log("J: %d traces of %d lines validated by Trace_Printer in %.1fs" % (ntraces, n, time.time() - t0))
    cx.jresults = results
    for k, ((p, rows), r) in enumerate(zip(paths, results)):
        if r["res"].cases.get("REJECTED") or r["violated"]:
            raise nv.ToolError("trace validation did not consume all lines of %s (%s)" % (p, r["violated"]))
        rep.add("j_events", len(rows))
        rep.add("traces_validated_against_impl", 1)
        predicted_bad = {c["line"]: c for c in r["res"].cases.get("CASE", [])}
        disagree = {c["line"]: c for c in r["res"].cases.get("BAD", [])}
        for i, o in enumerate(rows):
            line = i + 1
            if line not in predicted_bad and line not in disagree:
                # the line agrees with the spec: the echo is the text the rules give, the rules say it reads back, it did,
                # and the echo of the echo is the predicted text
                if o["outcome"] != "ok":
                    key = "%s/%s" % (o["outcome"], o["kind"])
                    cx.skipped[key] = cx.skipped.get(key, 0) + 1
                    rep.add("skipped", 1)
                else:
                    rep.add("evaluations", 3)
                    cx.binding["agreed_J"] = cx.binding.get("agreed_J", 0) + 1
                    if "(" in o["input"]:
                        cx.nontrivial.add(o["input"])
                continue
            # lines the spec predicts not to read back (rule defects: CASE) and lines that disagree with the spec (BAD) are
            # evaluated with the same comparator as the G cases, against the texts the trace spec computed
            j = disagree.get(line) or predicted_bad[line]
            reads_back = line not in predicted_bad
            # (p2 / r2: the echo of the re-associated tree under either table - what the echo of the echo would be)
            c = {"i": o["input"], "p": j["p"], "r": j["r"] if j["r"] != j["p"] else "=", "ok": reads_back, "d": j.get("d", []),
                 "ra": j.get("ra", False),
                 "p2": "=" if j["p2"] == j["p"] else j["p2"], "r2": "=" if j["r2"] == j["r"] else j["r2"]}
            evaluate(cx, "J/trace%d" % k, setup, c, o)
    rows = paths[0][1]
    deep = max((x for x in rows if x["outcome"] == "ok"), key=lambda x: len(x["input"]))
    rep.sample({"J_input": deep["input"][:300], "echo": deep["echo"][:300]}, limit=8)
    return paths


def self_tests(cx, jpaths):
    rep = cx.rep
    if not cx.ok_samples:
        raise nv.ToolError("binding self-test: no passing sample")
    source, setup, c, o = next((s for s in cx.ok_samples if s[3]["value"] and s[3]["value"]["repr"].get("k") == "q"), cx.ok_samples[0])
    # (1) G: a corrupted expectation (another spelling of the first blank-separated piece) is noticed as drift
    probe = Ctx(nv.Report(PROP, "selftest", cx.seed, "model_checking"), cx.sc, cx.seed, cx.tier)
    c2 = dict(c, p=c["p"] + " ", r="=")
    evaluate(probe, "selftest", setup, c2, o)
    rep.notes["selftest_G_corrupted_expected_echo_detected"] = probe.binding["drift"] == 1
    # (2) G: a corrupted observation (one bit of the re-read value) is noticed as a value difference
    o2 = json.loads(json.dumps(o))
    if o2["re"]["value"] and o2["re"]["value"]["repr"].get("k") == "q":
        bits = int(o2["re"]["value"]["repr"]["bits"], 16) ^ 1
        o2["re"]["value"]["repr"]["bits"] = "%016x" % bits
        o2["re"]["value"]["repr"]["num"] = repr(float(o2["re"]["value"]["repr"]["num"]) * (1 + 1e-9))
    else:
        o2["re"]["types"] = ["corrupted"]
    probe2 = Ctx(nv.Report(PROP, "selftest", cx.seed, "model_checking"), cx.sc, cx.seed, cx.tier)
    r2 = evaluate(probe2, "selftest", setup, c, o2)
    rep.notes["selftest_G_corrupted_observation_detected"] = r2 == "violation"
    if probe.binding["drift"] != 1 or r2 != "violation":
        raise nv.ToolError("binding self-test failed (G)")
    # (3) J: a corrupted recorded echo is rejected at exactly that line (strict configuration)
    p, rows = jpaths[0]
    lines = nv.read_ndjson_text(open(p, encoding="utf-8").read())
    badlines = {b["line"] for b in cx.jresults[0]["res"].cases.get("BAD", [])}
    good = [l for i, l in enumerate(lines) if (i + 1) not in badlines]
    k = next(i for i in range(len(good) // 2, len(good)) if good[i]["outcome"] == "ok" and " " in good[i]["echo"])
    good = good[:k + 20]
    good[k] = dict(good[k], echo=good[k]["echo"].replace(" ", "  ", 1))
    bp = os.path.join(cx.sc, "trace_corrupt.ndjson")
    nv.write_ndjson(bp, good)
    r = nv.validate_trace("Trace_Printer", bp)
    rep.notes["selftest_J_corrupted_line_rejected_after_matching"] = r["matched"]
    rep.notes["selftest_J_corrupted_line_index"] = k
    if r["accepted"] or r["matched"] != k:
        raise nv.ToolError("binding self-test failed: corrupted trace line %d not rejected there (%s)" % (k, r["matched"]))


def run(tier, seed):
    rep = nv.Report(PROP, tier, seed, "model_checking")
    if os.environ.get("NV_C15_ASSUME_PROPOSED") and os.path.exists(PROPOSED):
        # fix experiments only (not needed for normal runs: known_findings.json carries the C15 entries): entries of
        # c15_proposed_findings.json with status "known" are added; NV_C15_EXCEPT=<ids> leaves some out, so that the exit
        # status tells whether a candidate fix removes that finding
        skip = set(filter(None, os.environ.get("NV_C15_EXCEPT", "").split(",")))
        have = {e.get("id") for e in rep.known}
        rep.known = [e for e in rep.known if e.get("id") not in skip]
        rep.known += [e for e in json.load(open(PROPOSED)) if e.get("property") == PROP and e.get("status") == "known"
                      and e["id"] not in have and e["id"] not in skip]
        rep.notes["assumed_proposed_findings"] = [e["id"] for e in rep.known]
    nv.build_harness(["nv-printer"])
    sc = nv.scratch("c15")
    cx = Ctx(rep, sc, seed, tier)
    pinned_body = "CONSTANTS MaxNodes = %d\n          Wide = FALSE\n          Variant = \"pinned\"\nSPECIFICATION Spec\nINVARIANTS CheckAndEmit\nCHECK_DEADLOCK FALSE\n"
    if tier == "quick":
        g_trees(cx, 5, False, "quick")
        g_statements(cx, pinned_run=False)
        jpaths = j_traces(cx, 2, 1200, 6, SETUP)
    else:
        g_trees(cx, 6, False, "6-nodes")
        g_trees(cx, 5, True, "wide")
        mc_pinned(cx, "MC_Printer", "trees_pinned", pinned_body % 5)
        g_statements(cx)
        jpaths = j_traces(cx, 8, 3000, 7, SETUP)
    if not rep.violations:
        self_tests(cx, jpaths)
    classify_and_report(cx)
    for g, d in cx.rule_defects.items():
        d["table_entries"] = sorted(d["table_entries"])
    rep.notes["pinned_rule_defects_found_by_TLC"] = cx.rule_defects
    rep.notes["echo_follows_table"] = cx.binding
    if cx.binding["drift"]:
        print("MODEL-DRIFT: property=%s the real echo differs in text from both tables of spec/Printer.tla in %d case(s) "
              "(not a violation by itself; the round trip of the real echo is checked regardless), e.g. %s" % (
                  PROP, cx.binding["drift"], json.dumps(cx.drift_samples[0], ensure_ascii=False)[:600]))
        rep.notes["model_drift_samples"] = cx.drift_samples
    rep.set("skipped_by_outcome", cx.skipped)
    rep.set("distinct_nontrivial", len(cx.nontrivial))
    rep.set("rule", "exhaustive: every well-sorted typed expression tree up to the node bound over all unary and binary operators, "
            "conditionals, calls, callable calls, field access, struct instantiation, lists, strings with interpolation, temperature "
            "sugar (leaves 2 5 m zql true zqs sqr \"a\"; thorough also 3 zqx cm and all comparison operators); every statement "
            "template; J: random trees of depth <= 6/7. non-trivial = distinct inputs that were accepted and contain a compound "
            "operand (so that the parenthesisation table decides the echo) or are a definition")
    rep.set("exhaustive", True)
    rep.assumptions += [
        "numeric literals of the generated inputs are exactly representable in the echo's 6 significant digits (2, 3, 5, 8, 200); "
        "the echo of other literals (1.23456789 -> 1.23457) changes the value and is outside the property as stated",
        "a × (b × c) and a + (b + c) are echoed as a × b × c and a + b + c on purpose (the repository's tests pin it): the round trip is "
        "stated up to this re-association; values of such cases are compared with relative tolerance %g (as quantities: the unit of a "
        "re-associated product may be another one of the same dimension), and the echo of the echo is compared with the echo of the "
        "re-associated tree" % REL_TOL,
        "decorators of let and fn definitions (@name, @description, @url, @example) are not echoed at all; this loss of metadata is "
        "not judged (type, value and behaviour of the definition are)",
        "date/time expressions, typed holes, `use`, and numbers in non-decimal notation are not generated"]
    if not rep.violations:
        shutil.rmtree(sc, ignore_errors=True)
    for f in os.listdir(nv.SPEC):
        if f.startswith("_gen_c15_") and f.endswith("_%d.cfg" % os.getpid()):
            os.remove(os.path.join(nv.SPEC, f))
    return rep.finish()


SETUP = ["struct Zqp { a: Length }", "let zqs = Zqp { a: 3 m }", "let zql = 4 m", "let zqx = 5"]


def replay(path, seed):
    """re-run the recorded violations on the current tree: input -> echo -> echo read in the pre-state"""
    data = json.load(open(path))
    nv.build_harness(["nv-printer"])
    sc = nv.scratch("c15r")
    cx = Ctx(nv.Report(PROP, "replay", seed, "model_checking"), sc, seed, "replay")
    still = 0
    vs = [v for v in data["violations"] if "input" in v]
    by_setup = {}
    for v in vs:
        by_setup.setdefault(json.dumps(v.get("setup", [])), []).append(v)
    for n, (setup, group) in enumerate(by_setup.items()):
        rows = run_harness(cx, "replay%d" % n, json.loads(setup), [{"input": v["input"], "probes": v.get("probes", [])} for v in group])
        for v, o in zip(group, rows):
            if o["outcome"] != "ok":
                bad, why = True, "input rejected now: %s" % o.get("msg")
            else:
                d = semantic_difference(o, o["re"], v.get("reassociated", False))
                if d is None and o["re"]["echo"] != o["echo"] and not v.get("reassociated"):
                    d = ("not-a-fixpoint", o["re"]["echo"])
                bad, why = d is not None, d
            still += bad
            print(json.dumps({"input": v["input"], "echo_now": o.get("echo"), "still_violated": bad, "why": why}, ensure_ascii=False)[:1500])
    for v in data["violations"]:
        if "input" not in v:
            print(json.dumps(v, ensure_ascii=False)[:1500])
            still += 1
    shutil.rmtree(sc, ignore_errors=True)
    return 1 if still else 0
