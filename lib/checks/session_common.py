"""Shared pieces of the Session-based checks: TLC history generation and comparison."""
import json
import os
import nv


def gen_histories(alphabet, depth, rollback=True, emit="all", workers=8, timeout=2400, simulate=None, seed=None, invariants="Bounded BatchEq SaveReplayEq TypeErrorSilent EmitCase"):
    cfg = os.path.join(nv.SPEC, "_gen_Session_%s_%d_%d.cfg" % (alphabet, depth, os.getpid()))
    with open(cfg, "w") as f:
        f.write("CONSTANTS RollbackImports = %s\n          Depth = %d\n          Alphabet = \"%s\"\n          Emit = %s\n" % (
            "TRUE" if rollback else "FALSE", depth, alphabet, '"%s"' % emit))
        f.write("SPECIFICATION %s\nINVARIANTS %s\nPROPERTY FailAtomic\nCHECK_DEADLOCK FALSE\n" % ("SimSpec" if simulate else "Spec", invariants))
    try:
        res = nv.tlc("MC_Session", os.path.basename(cfg), workers=(4 if simulate else workers), timeout=timeout,
                     want_tags=("CASE", "META"), simulate=(max(1, simulate // 4) if simulate else None), depth=(depth + 1) if simulate else None, seed=seed)
    finally:
        os.remove(cfg)
    return res


def fmt_val(v):
    return None if v == 0 else str(v)


def compare_case(spec, impl):
    """spec: CASE record from TLC; impl: harness result. Returns list of problems (strings)."""
    probs = []
    if "error" in impl:
        return ["harness error: " + impl["error"]]
    for i, (s, r) in enumerate(zip(spec["steps"], impl["steps"])):
        if s["outcome"] != r["outcome"]:
            probs.append("step %d outcome: impl %s(%s: %s) spec %s(%s)" % (i, r["outcome"], r["kind"], r["msg"][:80], s["outcome"], s["kind"]))
            return probs
        if [str(x) for x in s["out"]] != r["out"]:
            probs.append("step %d output: impl %s spec %s" % (i, r["out"], s["out"]))
        if fmt_val(s["res"]) != r["res"]:
            probs.append("step %d result: impl %s spec %s" % (i, r["res"], s["res"]))
    if len(spec["steps"]) != len(impl["steps"]):
        probs.append("step count")
    so, io = spec["obs"], impl["obs"]
    for k in ("vars", "fns", "units", "dims"):
        if sorted(so[k]) != sorted(io[k]):
            probs.append("final %s: impl %s spec %s" % (k, sorted(io[k]), sorted(so[k])))
    for sp, ip in zip(so["probes"], io["probes"]):
        if sp["outcome"] != ip["outcome"] or fmt_val(sp["res"]) != ip["res"] or sorted(sp["vars"]) != sorted(ip["vars"]):
            probs.append("probe %r: impl %s/%s/%s spec %s/%s/%s" % (sp["text"], ip["outcome"], ip["res"], sorted(ip["vars"]),
                                                                   sp["outcome"], sp["res"], sorted(sp["vars"])))
    return probs
