"""C22 - the command-line tool reports success and failure faithfully.
MC: ExitFaithful / StdoutFaithful / StderrFaithful / FileEqExpr / LoopIsOperator / Progress on spec/Cli.tla (the run
    loop of numbat-cli over Session!Submit) for every invocation within the bounds (MC_Cli.tla).
G:  every invocation TLC explored (program = every sequence of <= MaxLen statement templates, succeeding and failing at
    every stage; form = every split into FILE + -e arguments, -e part one statement per -e or one multi-line -e) is run
    through the real `numbat` binary built from /repo's working tree; exit status, standard-output lines and emptiness of
    standard error are compared with the spec's prediction.
    Independently of the spec: the file-only and -e-only forms of the same program must give the same exit status,
    standard output and standard-error emptiness on the real binary.
The Session mini prelude reaches the binary in two ways (both run): P = `--no-prelude` and the prelude text prepended to
the first input; M = a `prelude.nbt` holding the mini prelude in NUMBAT_MODULES_PATH (the CLI's own `use prelude`).
The synthetic modules ma..mg are files in NUMBAT_MODULES_PATH.
"""
import json
import os
import shutil
import subprocess
import tempfile
from concurrent.futures import ThreadPoolExecutor

import nv

PROP = "C22"
JOBS = 12
BASE_ARGS = ["--no-config", "--no-init"]
INVARIANTS = "Bounded MC_ExitFaithful MC_StdoutFaithful MC_StderrFaithful MC_FileEqExpr MC_LoopIsOperator Progress EmitCase"

# every failure class of the full alphabet must be generated as a failing FILE input and as a failing -e input
REQUIRED_FAILURES = [("resolver", "parse"), ("resolver", "unknown_module"), ("nameres", "clash"), ("nameres", "reserved"),
                     ("type", "dimension_mismatch"), ("type", "expr"),
                     ("runtime", "division_by_zero"), ("runtime", "assert_eq")]


def known_matcher(v, k):
    return False  # no known finding for C22


def gen_invocations(alphabet, maxlen, stop=True, emit="all", timeout=1500):
    cfg = os.path.join(nv.SPEC, "_gen_Cli_%s_%d_%d.cfg" % (alphabet, maxlen, os.getpid()))
    with open(cfg, "w") as f:
        f.write("CONSTANTS RollbackImports = TRUE\n          StopAtFailure = %s\n          MaxLen = %d\n"
                "          Alphabet = \"%s\"\n          Emit = \"%s\"\n" % ("TRUE" if stop else "FALSE", maxlen, alphabet, emit))
        f.write("SPECIFICATION Spec\nINVARIANTS %s\nCHECK_DEADLOCK FALSE\n" % INVARIANTS)
    try:
        return nv.tlc("MC_Cli", os.path.basename(cfg), workers=8, timeout=timeout, want_tags=("CASE", "META"))
    finally:
        os.remove(cfg)


# ------------------------------------------------------------------------------------------ the real binary
class Runner:
    def __init__(self, cli, d, meta):
        self.cli, self.d, self.meta = cli, d, meta
        self.mods = os.path.join(d, "modules")
        self.home = os.path.join(d, "home")
        os.makedirs(self.mods, exist_ok=True)
        os.makedirs(self.home, exist_ok=True)
        for m, text in meta["modules"].items():
            with open(os.path.join(self.mods, m + ".nbt"), "w") as f:
                f.write(text)
        with open(os.path.join(self.mods, "prelude.nbt"), "w") as f:
            f.write(meta["prelude"])
        self.env = {"PATH": os.environ.get("PATH", "/usr/bin:/bin"), "HOME": self.home,
                    "XDG_CONFIG_HOME": os.path.join(self.home, "config"), "XDG_DATA_HOME": os.path.join(self.home, "data"),
                    "NUMBAT_MODULES_PATH": self.mods, "NO_COLOR": "1", "TERM": "dumb"}
        self.n = 0

    def argv(self, case, variant, tag, extra=()):
        """variant P: --no-prelude, prelude text prepended to the first input; M: prelude served as module `prelude`"""
        args = list(BASE_ARGS) + list(extra)
        exprs = list(case["exprs"])
        ftext = case["file"]
        if variant == "P":
            args.append("--no-prelude")
            if case["hasfile"]:
                ftext = self.meta["prelude"] + "\n" + ftext
            else:
                exprs = self.meta["prelude"].split("\n") + exprs
        if case["hasfile"]:
            path = os.path.join(self.d, "in_%s.nbt" % tag)
            with open(path, "w") as f:
                f.write(ftext)
            args.append(path)
        for e in exprs:
            args += ["-e", e]
        return args

    def run(self, case, variant, tag, extra=()):
        args = self.argv(case, variant, tag, extra)
        try:
            p = subprocess.run([self.cli] + args, env=self.env, stdin=subprocess.DEVNULL, stdout=subprocess.PIPE,
                               stderr=subprocess.PIPE, timeout=60)
            out, err, rc = p.stdout.decode("utf-8", "replace"), p.stderr.decode("utf-8", "replace"), p.returncode
        except subprocess.TimeoutExpired:
            out, err, rc = "", "TIMEOUT", None
        if case["hasfile"]:
            try:
                os.remove(args[[i for i, a in enumerate(args) if a.endswith(".nbt")][0]])
            except OSError:
                pass
        return {"rc": rc, "stdout": out, "stderr": err, "args": args}

    def run_all(self, jobs):
        """jobs: list of (case, variant, extra) -> list of observations, in order"""
        base = self.n
        self.n += len(jobs)
        with ThreadPoolExecutor(max_workers=JOBS) as ex:
            return list(ex.map(lambda t: self.run(t[1][0], t[1][1], "%d" % (base + t[0]), t[1][2]), enumerate(jobs)))


def out_lines(text):
    lines = text.split("\n")
    if lines and lines[-1] == "":
        lines.pop()
    return lines


def headline(err):
    for line in err.split("\n"):
        if line.strip():
            return line.strip()
    return ""


DRIFT_DROPPED = "prints of a failing input appear on standard output (spec: dropped with the input)"
DRIFT_AFTER = "standard output continues with inputs after a failing one (spec: the run stops at the first failure)"


def adopted_rule_alternatives(case):
    """standard outputs that differ from the prediction ONLY in the rules the spec adopted from the code and that are
    not part of C22: whether the prints of a failing input are shown, whether inputs after a failing one are executed.
    Returns {tuple(lines): drift label}."""
    if case["status"] == 0:
        return {}
    alts = {tuple(str(x) for x in case["stdout"]): None}
    if case.get("dropped"):
        for k in list(alts):
            alts.setdefault(k + tuple(str(x) for x in case["dropped"]), DRIFT_DROPPED)
    for r in case.get("after", []):
        outs = [tuple(str(x) for x in r["out"]) + ((str(r["res"]),) if r["res"] != 0 else ())] if r["ok"] else \
               [(), tuple(str(x) for x in r["out"])]
        for k in list(alts):
            for o in outs:
                alts.setdefault(k + o, DRIFT_AFTER)
    return {k: v for k, v in alts.items() if v}


def compare(case, obs, drift=None):
    """spec prediction vs observation of the real binary; returns list of problem strings (violations of C22).
    Deviations that concern only the adopted rules are counted in `drift` and are not problems."""
    probs = []
    if obs["rc"] is None:
        return ["timeout"]
    if (obs["rc"] == 0) != (case["status"] == 0):
        probs.append("exit status: impl %s spec %s" % (obs["rc"], case["status"]))
    exp = [str(x) for x in case["stdout"]]
    got = out_lines(obs["stdout"])
    if exp != got:
        label = adopted_rule_alternatives(case).get(tuple(got))
        if label is None:
            probs.append("stdout: impl %r spec %r" % (got[:12], exp))
        elif drift is not None:
            drift[label] = drift.get(label, 0) + 1
    if bool(obs["stderr"].strip()) != bool(case["stderr"]):
        probs.append("stderr: impl %s spec %s" % ("non-empty" if obs["stderr"].strip() else "empty",
                                                  "non-empty" if case["stderr"] else "empty"))
    return probs


def viol(kind, case, variant, obs, probs, meta, alphabet=None):
    return {"kind": kind, "alphabet": alphabet, "variant": variant, "case": case,
            "observed": {"rc": obs["rc"], "stdout": obs["stdout"][:600], "stderr": obs["stderr"][:600]},
            "args": [a if not a.endswith(".nbt") else "<FILE>" for a in obs["args"]],
            "problems": probs, "meta": meta}


def mode_of(case):
    return "both" if (case["hasfile"] and case["exprs"]) else ("file" if case["hasfile"] else "exprs")


def fail_class(case):
    if case["status"] == 0:
        return None
    last = case["log"][-1]
    return (mode_of(case), last["src"], last["outcome"], last["kind"])


def direct_equivalence(rep, cases, obs, variant, meta, alphabet, drift):
    """(a) file only == (b) -e only, on the real outputs, independently of the spec"""
    groups = {}
    for c, o in zip(cases, obs):
        if mode_of(c) != "both":
            groups.setdefault(tuple(c["lines"]), []).append((c, o))
    n = 0
    for lines, members in groups.items():
        files = [m for m in members if mode_of(m[0]) == "file"]
        if not files:
            continue
        fc, fo = files[0]
        for c, o in members:
            if c is fc:
                continue
            n += 1
            a = (fo["rc"], fo["stdout"], bool(fo["stderr"].strip()))
            b = (o["rc"], o["stdout"], bool(o["stderr"].strip()))
            if a != b:
                rep.violation({"kind": "file-vs-e-differ", "alphabet": alphabet, "variant": variant, "case": fc, "case_b": c,
                               "observed": {"rc": fo["rc"], "stdout": fo["stdout"][:600], "stderr": fo["stderr"][:600]},
                               "observed_b": {"rc": o["rc"], "stdout": o["stdout"][:600], "stderr": o["stderr"][:600]},
                               "problems": ["file form %r vs -e form %r" % (a, b)], "meta": meta}, known_matcher)
            elif headline(fo["stderr"]) != headline(o["stderr"]):
                drift["diagnostic headline differs between file and -e form"] = drift.get("diagnostic headline differs between file and -e form", 0) + 1
    return n


def self_tests(rep, cases, obs):
    """binding self-tests: a corrupted expectation / a corrupted observation must be noticed by the comparison"""
    pick = [(c, o) for c, o in zip(cases, obs) if c["status"] == 0 and c["stdout"] and not compare(c, o)]
    pickf = [(c, o) for c, o in zip(cases, obs) if c["status"] == 1 and not compare(c, o)]
    if not pick or not pickf:
        raise nv.ToolError("self-test: no conforming successful case with output / failing case to corrupt")
    c, o = pick[len(pick) // 2]
    f, fo = pickf[len(pickf) // 2]
    res = {
        "expected_status_flipped": bool(compare(dict(c, status=1), o)),
        "expected_stdout_line_changed": bool(compare(dict(c, stdout=[c["stdout"][0] + 1] + c["stdout"][1:]), o)),
        "expected_stdout_line_dropped": bool(compare(dict(c, stdout=c["stdout"][1:]), o)),
        "expected_stderr_flag_flipped": bool(compare(dict(c, stderr=True), o)),
        "observed_rc_zero_on_failure": bool(compare(f, dict(fo, rc=0))),
        "observed_diagnostic_on_stdout": bool(compare(f, dict(fo, stdout=fo["stdout"] + fo["stderr"]))),
        "observed_stderr_emptied": bool(compare(f, dict(fo, stderr=""))),
        "observed_foreign_line_on_stdout": bool(compare(f, dict(fo, stdout=fo["stdout"] + "999\n"))),
        "observed_result_missing": bool(compare(c, dict(o, stdout="\n".join(out_lines(o["stdout"])[1:])))),
    }
    dr = [(c2, o2) for c2, o2 in zip(cases, obs) if c2.get("dropped") and not compare(c2, o2)]
    if dr:
        c2, o2 = dr[0]
        dd = {}
        shown = dict(o2, stdout=o2["stdout"] + "".join("%s\n" % x for x in c2["dropped"]))
        res["adopted_rule_deviation_is_drift_not_violation"] = (compare(c2, shown, dd) == [] and DRIFT_DROPPED in dd)
    fake = {"status": 1, "stdout": [1], "stderr": True, "dropped": [2], "after": [{"ok": True, "out": [3], "res": 4}]}
    dd = {}
    res["synthetic_adopted_rule_deviations_are_drift"] = (
        compare(fake, {"rc": 1, "stdout": "1\n2\n", "stderr": "e"}, dd) == []
        and compare(fake, {"rc": 1, "stdout": "1\n2\n3\n4\n", "stderr": "e"}, dd) == []
        and compare(fake, {"rc": 1, "stdout": "1\n3\n4\n", "stderr": "e"}, dd) == [] and len(dd) == 2)
    res["synthetic_other_stdout_deviation_is_violation"] = (
        bool(compare(fake, {"rc": 1, "stdout": "1\n4\n", "stderr": "e"}, {}))
        and bool(compare(fake, {"rc": 1, "stdout": "2\n", "stderr": "e"}, {}))
        and bool(compare(fake, {"rc": 0, "stdout": "1\n2\n", "stderr": "e"}, {})))
    rep.notes["binding_self_tests"] = res
    if not all(res.values()):
        raise nv.ToolError("binding self-test failed: %s" % res)


def pick_programs(cases, step, offset, minlen=1):
    """all forms of every step-th program (programs = distinct statement sequences of >= minlen statements)"""
    progs = sorted({tuple(c["lines"]) for c in cases if len(c["lines"]) >= minlen})
    chosen = set(progs[offset % step::step]) if step > 1 else set(progs)
    # always keep the programs that have a form with output before the failure (successful FILE, failing -e) ...
    chosen |= {tuple(c["lines"]) for c in cases if c["status"] == 1 and c["stdout"] and len(c["lines"]) >= minlen}
    # ... and those with a failing FILE followed by -e arguments that would, on their own, write to standard output
    alone = {tuple(c["lines"]): c for c in cases if not c["hasfile"]}
    for c in cases:
        if c["hasfile"] and c["exprs"] and c["log"][0]["outcome"] != "ok" and len(c["lines"]) >= minlen:
            rest = alone.get(tuple(c["lines"][c["log"][0]["n"]:]))
            if rest is not None and rest["status"] == 0 and rest["stdout"]:
                chosen.add(tuple(c["lines"]))
    return [c for c in cases if tuple(c["lines"]) in chosen]


def run_set(rep, runner_box, cli, d, alphabet, maxlen, variants, classes, drift, sample_step, seed, minlen=1):
    """variants: list of (variant, step): the variant is run on all forms of every step-th program"""
    res = gen_invocations(alphabet, maxlen)
    if res.violated:
        rep.violation({"kind": "spec-property", "property": res.violated, "alphabet": alphabet, "maxlen": maxlen,
                       "tlc": res.stdout[-2500:]})
        return
    rep.tlc_stats(res, "MC_Cli %s maxlen %d" % (alphabet, maxlen))
    meta = res.cases["META"][0]
    all_cases = res.cases.get("CASE", [])
    if not all_cases:
        raise nv.ToolError("TLC produced no invocations")
    rep.add("invocations_generated", len(all_cases))
    if runner_box[0] is None:
        runner_box[0] = Runner(cli, d, meta)
    runner = runner_box[0]
    first = None
    replayed = set()
    for variant, step in variants:
        cases = pick_programs(all_cases, step, seed, minlen)
        obs = runner.run_all([(c, variant, ()) for c in cases])
        if first is None:
            first = (cases, obs)
        for c, o in zip(cases, obs):
            rep.add("evaluations", 1)
            replayed.add(json.dumps([c["file"], c["hasfile"], c["exprs"]]))
            probs = compare(c, o, drift)
            if probs:
                rep.violation(viol("cli-mismatch", c, variant, o, probs, meta, alphabet), known_matcher)
            elif c["status"] != 0 and o["rc"] != 1:
                drift["non-zero exit status other than 1"] = drift.get("non-zero exit status other than 1", 0) + 1
        rep.add("file_vs_e_pairs_compared_directly", direct_equivalence(rep, cases, obs, variant, meta, alphabet, drift))
    cases = first[0]
    # --pretty-print: `never` is the default of non-interactive runs; `always` changes what is echoed, never the verdict
    sub = cases[::sample_step]
    for mode in ("never", "always"):
        obs = runner.run_all([(c, "P", ("--pretty-print", mode)) for c in sub])
        for c, o in zip(sub, obs):
            rep.add("evaluations", 1)
            probs = compare(c, o, drift) if mode == "never" else [p for p in compare(c, o) if not p.startswith("stdout")]
            if probs:
                rep.violation(viol("cli-mismatch-pretty-print-" + mode, c, "P", o, probs, meta, alphabet), known_matcher)
    rep.add("invocations", len(replayed))
    rep.add("traces_validated_against_impl", len(replayed))
    for c in cases:
        fc = fail_class(c)
        if fc:
            classes[fc + (c["log"][-1]["n"],)] = classes.get(fc + (c["log"][-1]["n"],), 0) + 1
            rep.add("distinct_nontrivial", 1)
            if c["stdout"]:
                rep.add("failing_invocations_with_partial_output", 1)
    interesting = [c for c in cases if c["status"] == 1 and c["stdout"]] or cases
    for c in interesting[len(interesting) // 2: len(interesting) // 2 + 2]:
        rep.sample({"file": c["file"] if c["hasfile"] else None, "e": c["exprs"],
                    "predicted": {"status": c["status"], "stdout": c["stdout"], "stderr_nonempty": c["stderr"]}})
    if "self_tested" not in rep.notes:
        self_tests(rep, first[0], first[1])
        rep.notes["self_tested"] = True
    return cases


def run(tier, seed):
    rep = nv.Report(PROP, tier, seed, "model_checking")
    cli = nv.build_cli()          # every run: the binary is rebuilt from /repo's current working tree
    d = tempfile.mkdtemp(prefix="nv-c22-")   # private: work/scratch is shared with (and cleaned by) other checks
    runner_box = [None]
    classes, drift = {}, {}
    # (alphabet, MaxLen, [(prelude variant, every n-th program)], pretty-print sample step, only programs of >= n statements)
    if tier == "quick":
        plan = [("full", 2, [("P", 1), ("M", 6)], 30, 1), ("core", 3, [("P", 8)], 20, 3)]
    else:
        plan = [("full", 2, [("P", 1), ("M", 1)], 10, 1), ("mid", 3, [("P", 1), ("M", 8)], 100, 3),
                ("full", 3, [("P", 8)], 100, 3), ("core", 4, [("P", 8)], 40, 4)]
    for alphabet, maxlen, variants, step, minlen in plan:
        run_set(rep, runner_box, cli, d, alphabet, maxlen, variants, classes, drift, step, seed, minlen)
    # sanity of the set-up: the mini prelude is what the binary sees in variant M (not the real prelude)
    if runner_box[0] is not None:
        r = runner_box[0]
        o1 = r.run({"hasfile": False, "file": "", "exprs": ["2 zu"]}, "M", "sanity1")
        o2 = r.run({"hasfile": False, "file": "", "exprs": ["meter"]}, "M", "sanity2")
        if o1["rc"] != 0 or out_lines(o1["stdout"]) != ["2 zu"] or o2["rc"] == 0:
            raise nv.ToolError("the mini prelude is not served to the CLI through NUMBAT_MODULES_PATH: %r %r" % (o1, o2))
    # vacuity: every failure class reached, as a failing file and as a failing -e input
    have = {(src, o, k) for (_m, src, o, k, _n) in classes}
    missing = [(src, o, k) for (o, k) in REQUIRED_FAILURES for src in ("file", "expr") if (src, o, k) not in have]
    if missing and not any(v.get("kind") == "spec-property" for v in rep.violations):
        raise nv.ToolError("vacuity: failure classes never generated: %s" % missing)
    rep.set("failure_classes", len(classes))
    rep.notes["failure_classes(mode,failing input,stage,kind)"] = sorted(
        {"%s/%s/%s:%s" % (m, src, o, k) for (m, src, o, k, _n) in classes})
    # design-level demonstration: a run loop that keeps going after a failing input violates the stdout property
    res = gen_invocations("core", 3, stop=False, emit="none")
    rep.notes["spec_with_continue_after_failure_violates"] = res.violated
    if res.violated != "MC_StdoutFaithful":
        raise nv.ToolError("vacuity self-test failed: StdoutFaithful not violated by the keep-going rule (%s)" % res.violated)
    for k, n in sorted(drift.items()):
        print("MODEL-DRIFT: property=%s %s (%d occurrence(s))" % (PROP, k, n))
    rep.notes["model_drift"] = drift
    rep.set("rule", "every program of <= MaxLen statement templates (full alphabet: 21 templates incl. one failure per "
            "stage; mid: 14 of them; core alphabet: 8 templates, one step longer) x every split into FILE / -e arguments x -e given per "
            "statement or as one multi-line argument; each run through the real binary (prelude delivered in two ways, "
            "plus --pretty-print never/always on a sample); non-trivial = invocations with a failing input "
            "(predicted exit status 1)")
    rep.set("exhaustive", True)
    rep.notes["sampling"] = ("plan in c22.py run(): (alphabet, MaxLen, [(prelude variant, every n-th program)], ..): n = 1 means every "
                             "generated invocation is run; n > 1: all forms of every n-th program plus every program with "
                             "output before a failure or with a failing FILE followed by -e arguments that would write output")
    rep.assumptions += [
        "numbat-cli built from /repo's working tree with --no-default-features; run with --no-config --no-init, "
        "HOME/XDG dirs pointing to an empty scratch directory, stdin closed, NO_COLOR",
        "mini prelude of Session.tla: (P) --no-prelude and prepended to the first input, (M) served as module `prelude` "
        "through NUMBAT_MODULES_PATH; synthetic modules ma..mg served through NUMBAT_MODULES_PATH",
        "exit status compared as zero / non-zero (spec: 1); a non-zero status other than 1 is reported as MODEL-DRIFT",
        "standard error compared for emptiness only; wording and source labels of diagnostics are not part of the property",
        "observed rules that the spec adopts from the code: a failing input writes nothing to standard output (prints of "
        "a failing input are dropped, they are buffered until the input succeeded); per input the prints come first, then "
        "the value of the input's last expression statement; the run stops at the first failing input. The first and the "
        "last of these are not demanded by C22: a deviation of the binary that concerns only them (prints of a failing "
        "input shown; output of inputs executed after a failing one) is reported as MODEL-DRIFT, not as a violation",
    ]
    if not rep.violations:
        shutil.rmtree(d, ignore_errors=True)
    return rep.finish()


def replay(path, seed):
    """re-run the recorded violating invocations on the binary built from the current tree"""
    data = json.load(open(path))
    cli = nv.build_cli()
    d = tempfile.mkdtemp(prefix="nv-c22-replay-")
    still = 0
    try:
        for i, v in enumerate(data["violations"][:50]):
            if "case" not in v:
                print(json.dumps(v)[:2000])
                still += 1
                continue
            r = Runner(cli, d, v["meta"])
            extra = ()
            if v["kind"].startswith("cli-mismatch-pretty-print-"):
                extra = ("--pretty-print", v["kind"].rsplit("-", 1)[1])
            o = r.run(v["case"], v["variant"], "r%d" % i, extra)
            if v["kind"] == "file-vs-e-differ":
                o2 = r.run(v["case_b"], v["variant"], "r%db" % i)
                a = (o["rc"], o["stdout"], bool(o["stderr"].strip()))
                b = (o2["rc"], o2["stdout"], bool(o2["stderr"].strip()))
                probs = [] if a == b else ["file form %r vs -e form %r" % (a, b)]
            else:
                probs = compare(v["case"], o)
                if v["kind"] == "cli-mismatch-pretty-print-always":
                    probs = [p for p in probs if not p.startswith("stdout")]
            print(json.dumps({"args": o["args"], "file": v["case"]["file"], "rc": o["rc"], "stdout": o["stdout"][:300],
                              "stderr_head": headline(o["stderr"]), "problems": probs}))
            if probs:
                still += 1
    finally:
        shutil.rmtree(d, ignore_errors=True)
    if still:
        print("VIOLATION property=%s replay=%s" % (PROP, path))
    return 1 if still else 0
