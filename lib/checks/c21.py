"""C21 - assertions decide exactly their documented predicate.
Spec: Assert.tla - assert(c), assert_eq(a, b) (a converted to b's unit equals b; NaN never equal; non-quantities
structurally), assert_eq(a, b, eps) (|a - b| <= eps in eps's unit) on integer multiples of units with integer ratios
(s/min/h, bit/byte/KiB, m/km/Mm), so the predicate is exact; a failing assertion aborts its input (the marker
statements after it do not run).  TLC checks consistency of the predicates (eps = 0 is equality; tolerance is
monotone) and enumerates all (a, ua, b, ub [, eps, ueps]) combinations; each is run on the real prelude-loaded Context
as one input followed by a marker print and a marker definition.
"""
import json
import os
import shutil
import nv

PROP = "C21"
KIND = {"ok": "ok", "AssertFailed": "AssertFailed", "AssertEq2Failed": "AssertEq2Failed", "AssertEq3Failed": "AssertEq3Failed"}


def run(tier, seed):
    rep = nv.Report(PROP, tier, seed, "model_checking")
    nv.build_harness(["nv-units"])
    d = nv.scratch("c21")
    cfg = os.path.join(nv.SPEC, "_gen_Assert_%d.cfg" % os.getpid())
    with open(cfg, "w") as f:
        f.write('CONSTANTS Tier = "%s"\nSPECIFICATION Spec\nINVARIANTS EpsZeroIsEq EpsMonotone EmitCase\nCHECK_DEADLOCK FALSE\n' % tier)
    try:
        res = nv.tlc("MC_Assert", os.path.basename(cfg), workers=8, timeout=3000)
    finally:
        os.remove(cfg)
    if res.violated:
        rep.violation({"kind": "spec-property", "property": res.violated, "tlc": res.stdout[-1500:]})
        return rep.finish()
    rep.tlc_stats(res, "MC_Assert " + tier)
    seen, cases = set(), []
    for c in res.cases.get("CASE", []):
        if c["text"] not in seen:
            seen.add(c["text"])
            cases.append(c)
    rows = [{"id": i, "marker": "v_mark_%d" % i, "code": '%s\nprint("zmark")\nlet v_mark_%d = 1' % (c["text"], i)} for i, c in enumerate(cases)]
    inp, out = os.path.join(d, "cases.ndjson"), os.path.join(d, "out.ndjson")
    nv.write_ndjson(inp, rows)
    nv.harness("nv-units", ["assert-run", "--cases", inp, "--out", out])
    results = nv.read_ndjson_text(open(out, encoding="utf-8").read())
    failing = 0
    for c, r in zip(cases, results):
        rep.add("evaluations", 1)
        got = "ok" if r["outcome"] == "ok" else (r["kind"] if r["outcome"] == "runtime" else r["outcome"] + ":" + r["kind"])
        probs = []
        if got != c["outcome"]:
            probs.append("outcome: impl %s spec %s [%s]" % (got, c["outcome"], r["msg"][:100]))
        else:
            if c["outcome"] != "ok":
                failing += 1
            if (r["out"] == ["zmark"]) != c["printed"] or (r["out"] and r["out"] != ["zmark"]):
                probs.append("marker print: impl %s spec printed=%s" % (r["out"], c["printed"]))
            if r["defined"] != c["defined"]:
                probs.append("marker definition: impl defined=%s spec %s" % (r["defined"], c["defined"]))
            if c["outcome"] != "ok" and r["new_names"]:
                probs.append("failing assertion defined names %s" % r["new_names"])
        if probs:
            rep.violation({"kind": "assertion-mismatch", "assertion": c["text"], "problems": probs})
    rep.add("distinct_nontrivial", failing)
    rep.add("traces_validated_against_impl", len(cases))
    for c in cases[:: max(1, len(cases) // 5)][:5]:
        rep.sample({"assertion": c["text"], "predicted": c["outcome"]})
    rep.set("rule", "all assert_eq(a, b) and assert_eq(a, b, eps) over values %s, three units per family (time, digital information, "
            "length), NaN, plus assert(c) and non-quantity assert_eq; non-trivial = assertions predicted to fail (marker must be absent)"
            % ("-1..2" if tier == "quick" else "-2..3"))
    rep.set("exhaustive", True)
    rep.assumptions += ["integer values and integer unit ratios, so the documented predicate is decided exactly (no tolerance)"]
    if not rep.violations:
        shutil.rmtree(d, ignore_errors=True)
    return rep.finish()


def replay(path, seed):
    data = json.load(open(path))
    for v in data["violations"][:5]:
        print(json.dumps(v)[:2000])
    return 1 if data["violations"] else 0
