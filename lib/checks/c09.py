"""C09 - compiled programs compute what their source means.
Spec: Eval.tla - a big-step reference evaluator written from the language chapters (lexical scoping, capture at
definition, early-bound direct calls, recursion, where chains, function values, |>, conditionals evaluating only the
taken branch, string interpolation, structs matched by field name, lists); Compile.tla - the bytecode compiler
(constants table, slot selection, jump patching, call resolution, reversed struct fields, JoinString part count);
VM.tla - the stack machine, one rule per opcode.
MC: MC_VM.tla - for every generated program RunVM(Compile(p)) = Run(p) (differences are printed and classified),
    all jumps patched/forward/on instruction boundaries, every Return in the root frame leaves exactly the globals
    defined so far, frames balanced, no opcode without a rule.
G:  TLC evaluates every generated program (MC_Eval.tla: a catalogue of definitions exercising captured/shadowed
    globals, argument order, recursion, where clauses, function values, permuted struct fields and lists; an optional
    redefinition; a generated final expression; MC_VM.tla adds tails with globals defined after calls, nested
    conditionals, three parameters, ...) and prints its value; the real compiler + VM must produce the same value
    (structural comparison: numbers exactly, field names and order, element order).
J:  every generated program (and, thorough tier, every example file) runs with the opcode trace hook on; Trace_VM.tla
    executes VM.tla on the bytecode DECODED from the real VM and must reproduce every executed opcode (chunk, ip,
    opcode, stack depth, frame depth, frame pointer, top of the stack), the final stack and the result.  A program
    the model does not reproduce is MODEL-DRIFT unless its final value differs from Eval's (then a violation).
    The decoded bytecode of the generated programs is compared with Compile(p) (drift report only).
"""
import json
import os
import shutil
from concurrent.futures import ThreadPoolExecutor
import nv

PROP = "C09"
LIST_FFI = ["head", "tail", "len", "cons", "cons_end"]          # Compile.tla: ListFnSeq (model numbering 0..4)


SELF_REF = "function-passes-itself-as-value-panics"
PROPOSED = os.path.join(os.path.dirname(os.path.abspath(__file__)), "c09_proposed_findings.json")


def known_matcher(v, k):
    sig = k.get("signature", {}).get("kind")
    if sig == "function-value-late-bound":
        return v.get("kind") in ("value-differs", "model-vm-differs-from-eval", "trace-rejected-and-value-differs") and v.get("late_bound")
    if sig == SELF_REF:
        return v.get("kind") in ("setup-failed", "trace-rejected-and-value-differs") and v.get("self_ref_panic")
    return False


def self_ref_panic(stmts, outcome_text):
    """the compiler's unreachable!("Unknown identifier 'f_self'") while compiling `fn f_self(..) = .. f_ap(f_self, ..)`"""
    return any(x.startswith("fn f_self(") and "f_ap(f_self" in x for x in stmts) and "panic" in outcome_text and "Unknown identifier 'f_self'" in outcome_text


def self_ref_enabled():
    """the programs in which a function passes itself as a value are generated once the finding they reproduce on the
    pinned tree has an entry in known_findings.json (any status: known -> classified, fixed -> must pass), or on request"""
    if os.environ.get("NV_C09_ASSUME_PROPOSED"):
        return True
    try:
        data = json.load(open(os.path.join(nv.ROOT, "known_findings.json")))
    except OSError:
        return False
    return any(e.get("property") == PROP and e.get("signature", {}).get("kind") == SELF_REF for e in data)


def is_late_bound(variant, final):
    # a function VALUE taken before its name was redefined, called afterwards
    return variant in (2, 4) and "w_h" in final


# ------------------------------------------------------------------------------------------------ J helpers
def run_trace_tlc(path, timeout=1500):
    """Trace_VM on one trace file -> (meta dict or None, list of BAD dicts)"""
    res = nv.tlc("Trace_VM", "Trace_VM.cfg", workers=1, timeout=timeout, env={"TRACE": path},
                 jvm=nv.TRACE_JVM + " -Xmx4g -XX:ParallelGCThreads=2 -XX:CICompilerCount=2", want_tags=("BAD", "META"))
    meta = res.cases.get("META", [None])[-1]
    return meta, res.cases.get("BAD", []), res


def normalise_real(code, base, ffi_names, main):
    """decoded real instructions -> the numbering Compile.tla uses with ZeroBase"""
    out = []
    for ins in code:
        op, a = ins["op"], list(ins["a"])
        o = ins["o"] - (base["ip0"] if main else 0)
        if op == "LoadConstant":
            a = [a[0] - base["c0"]]
        elif op == "GetUpvalue" or (op == "GetLocal" and main):
            a = [a[0] - base["g0"]]
        elif op == "Call":
            a = [a[0] - base["f0"] + 1, a[1]]
        elif op == "FFICallFunction":
            name = ffi_names.get(a[0], "?")
            a = [LIST_FFI.index(name) if name in LIST_FFI else name, a[1], a[2] - base["a0"]]
        elif op == "CallCallable":
            a = [a[0], a[1] - base["a0"]]
        elif op == "BuildStructInstance":
            a = [a[0] - base["s0"], a[1]]
        out.append([o, op, a])
    return out


def compare_bytecode(case, cat, summ, prefixes):
    """Compile(p) (from the CASE / CATCODE lines) against the decoded real bytecode; returns a list of differences"""
    dec, base = summ["decoded"], summ["base"]
    if "prefix" in dec:
        prefixes[dec["prefix_key"]] = dec["prefix"]
    ffi_names = {f["i"]: f["n"] for f in dec["ffi"]}
    model_chunks = [("<main>", case["main"])] + [(c["n"], c["code"]) for c in cat["chunks"][1:]] + [(c["n"], c["code"]) for c in case["extra"]]
    real_chunks = [("<main>", normalise_real(dec["main"], base, ffi_names, True))] + \
                  [(c["n"], normalise_real(c["code"], base, ffi_names, False)) for c in prefixes[dec["prefix_key"]] + dec["chunks"]]
    diffs = []
    if [n for n, _ in model_chunks] != [n for n, _ in real_chunks]:
        return [{"what": "chunks", "model": [n for n, _ in model_chunks], "real": [n for n, _ in real_chunks]}]
    mconst = {c["i"]: c["tx"] for c in list(cat["consts"]) + list(case["consts"])}
    rconst = {c["i"] - base["c0"]: c["tx"] for c in dec["consts"]}
    numbering_only = True
    for (name, mcode), (_, rcode) in zip(model_chunks, real_chunks):
        m = [[i["o"], i["op"], list(i["a"])] for i in mcode]
        if m == rcode:
            continue
        # modulo constant numbering: compare with the constants resolved to their text
        def resolved(code, table):
            return [[o, op, [table.get(a[0], "?")] if op == "LoadConstant" else a] for o, op, a in code]
        if resolved(m, mconst) != resolved(rcode, rconst):
            numbering_only = False
        k = next((j for j in range(min(len(m), len(rcode))) if m[j] != rcode[j]), min(len(m), len(rcode)))
        diffs.append({"what": "code", "chunk": name, "at": k, "model": m[k:k + 3], "real": rcode[k:k + 3]})
    if not diffs and mconst != rconst:
        diffs.append({"what": "constants", "model": sorted(mconst.items())[:6], "real": sorted(rconst.items())[:6]})
    for d in diffs:
        d["numbering_only"] = numbering_only
    return diffs


def j_stage(rep, tier, cases, cat_by_variant, d):
    inp = os.path.join(d, "cases.ndjson")
    tdir = os.path.join(d, "traces")
    shutil.rmtree(tdir, ignore_errors=True)
    nv.write_ndjson(inp, [{"id": i, "stmts": c["stmts"], "kp": len(cat_by_variant[c["variant"]]["chunks"]) - 1} for i, c in enumerate(cases)])
    nv.harness("nv-vm", ["vm-trace", "--cases", inp, "--out-dir", tdir, "--per-file", "16000" if tier == "quick" else "60000", "--limit", "4000"])
    summ = nv.read_ndjson_text(open(os.path.join(tdir, "gen_summary.ndjson")).read())
    if len(summ) != len(cases):
        raise nv.ToolError("nv-vm traced %d programs, expected %d" % (len(summ), len(cases)))
    files = sorted(set(s["file"] for s in summ))
    all_ops = json.loads(nv.harness("nv-vm", ["vm-ops"]).stdout)
    op_counts = {}

    # thorough: the example files
    ex_summ, ex_files = [], []
    if tier == "thorough":
        edir = os.path.join(d, "examples")
        shutil.rmtree(edir, ignore_errors=True)
        nv.harness("nv-vm", ["vm-examples", "--dir", os.path.join(nv.REPO, "examples"), "--out-dir", edir,
                             "--per-file", "12000", "--limit", "4000"])
        ex_summ = nv.read_ndjson_text(open(os.path.join(edir, "ex_summary.ndjson")).read())
        ex_files = sorted(set(s["file"] for s in ex_summ))

    # binding self-test: corrupt one recorded field of one event -> must be reported at exactly that line
    lines = open(files[0]).read().splitlines()
    cut = max(i for i, x in enumerate(lines[:600]) if '"t":"E"' in x) + 1
    lines = lines[:cut]
    rets = [i for i, x in enumerate(lines) if '"t":"O"' in x and '"op":"Return"' in x]
    victim = rets[min(len(rets) - 1, 11)]
    e = json.loads(lines[victim])
    e["d"] += 1
    lines[victim] = json.dumps(e)
    bad_path = os.path.join(d, "trace_corrupt.ndjson")
    open(bad_path, "w").write("\n".join(lines) + "\n")

    with ThreadPoolExecutor(max_workers=6) as ex:
        futs = [ex.submit(run_trace_tlc, p) for p in files + ex_files + [bad_path]]
        results = [f.result() for f in futs]
    st_meta, st_bad, _ = results[-1]
    # (lines of the uncorrupted prefix that are rejected anyway: real drift, reported below)
    base_bad = [b["line"] for b in results[0][1] if b["line"] <= cut]
    st_lines = [b["line"] for b in st_bad]
    hdr_of_victim = max(i for i, x in enumerate(lines[:victim]) if '"t":"H"' in x) + 1
    if any(hdr_of_victim <= b <= victim + 1 for b in base_bad):
        rep.notes["selftest_J"] = "inconclusive: the program holding the corrupted event is rejected without the corruption"
    else:
        ok = st_meta and st_meta["done"] and sorted(st_lines) == sorted(base_bad + [victim + 1])
        rep.notes["selftest_J_corrupted_event_reported_at_line"] = [x for x in st_lines if x not in base_bad]
        if not ok:
            raise nv.ToolError("binding self-test failed: corrupted trace event at line %d, Trace_VM reported %s (uncorrupted: %s)" % (
                victim + 1, st_lines[:5], base_bad[:5]))

    by_id = {s["id"]: s for s in summ}
    ops_validated = 0
    for path, (meta, bad, res) in zip(files + ex_files, results[:-1]):
        generated = path in files
        if not meta or not meta["done"] or res.violated:
            raise nv.ToolError("Trace_VM did not consume %s: %s\n%s" % (path, meta, res.stdout[-1500:]))
        ops_validated += meta["ops"]
        rep.add("traces_validated_against_impl", meta["progs"])
        rep.add("j_programs_traced", meta["progs"])
        rep.add("j_programs_not_decodable_after_rollback", meta["skipped"])
        rep.tlc_stats(res, "Trace_VM " + os.path.basename(path))
        for b in bad:
            if generated:
                s, c = by_id[b["id"]], cases[b["id"]]
                want = c["res"]
                impl_ok = s["outcome"] == "ok" and s["value"] == want
                info = {"final": c["stmts"][-1], "variant": c["variant"], "why": b["why"], "event_line": b["line"], "step": b["step"],
                        "model": b["want"], "impl": b["got"], "spec_value": want, "impl_value": s.get("value"), "trace_file": path}
                if impl_ok:
                    rep.add("model_drift_programs", 1)
                    if rep.cov.get("model_drift_programs", 0) <= 5:
                        print("MODEL-DRIFT: property=C09 VM.tla does not reproduce the opcode trace of `%s` (%s at step %s: model %s, "
                              "implementation %s); the final value agrees with Eval.tla" % (
                                  c["stmts"][-1], b["why"], b["step"], json.dumps(b["want"])[:300], json.dumps(b["got"])[:300]))
                else:
                    rep.violation(dict(info, kind="trace-rejected-and-value-differs", program_tail=c["stmts"][-3:],
                                       late_bound=is_late_bound(c["variant"], c["stmts"][-1]), impl_outcome=[s["outcome"], s["msg"][:200]],
                                       self_ref_panic=self_ref_panic(c["stmts"], s["outcome"] + " " + s["msg"])), known_matcher)
            else:
                rep.add("model_drift_programs", 1)
                print("MODEL-DRIFT: property=C09 VM.tla does not reproduce the opcode trace of example %s (%s at step %s: model %s, "
                      "implementation %s)" % (b.get("label"), b["why"], b["step"], json.dumps(b["want"])[:300], json.dumps(b["got"])[:300]))
    for s in summ + ex_summ:
        for op, n in s["ops"].items():
            op_counts[op] = op_counts.get(op, 0) + n
    rep.add("evaluations", ops_validated)
    rep.set("j_opcodes_validated", ops_validated)
    rep.set("j_opcodes_executed_by_traced_programs", sum(op_counts.values()))
    rep.set("op_variants_exercised", sorted(op_counts))
    rep.set("op_variants_never_exercised", [o for o in all_ops if o not in op_counts])
    if ex_summ:
        rep.set("j_example_files", {"traced": len(ex_summ), "ok": sum(1 for s in ex_summ if s["outcome"] == "ok"),
                                    "truncated_at_4000_opcodes": sorted(s["label"] for s in ex_summ if s["dropped"]),
                                    "not_runnable_offline": sorted(s["label"] for s in ex_summ if s["outcome"] != "ok")})
    ev = json.loads(open(files[0]).read().splitlines()[1])
    rep.sample({"J_event": {k: ev[k] for k in ("f", "ip", "op", "d", "fd", "fp", "top")}})

    # decoded bytecode of the generated programs against Compile(p)
    ndiff = nnum = 0
    prefixes = {}
    for c, s in zip(cases, summ):
        if s["outcome"] != "ok" or not s.get("decoded"):
            continue
        rep.add("bytecode_compared_with_Compile", 1)
        diffs = compare_bytecode(c, cat_by_variant[c["variant"]], s, prefixes)
        if diffs:
            ndiff += 1
            nnum += 1 if diffs[0]["numbering_only"] else 0
            if ndiff <= 3:
                print("MODEL-DRIFT: property=C09 the bytecode of `%s` differs from Compile.tla%s: %s" % (
                    c["stmts"][-1], " (constant numbering only)" if diffs[0]["numbering_only"] else "", json.dumps(diffs[0])[:500]))
    rep.set("bytecode_differs_from_Compile", ndiff)
    rep.set("bytecode_differs_in_constant_numbering_only", nnum)


# ------------------------------------------------------------------------------------------------------ run
def run(tier, seed):
    rep = nv.Report(PROP, tier, seed, "model_checking")
    if os.environ.get("NV_C09_ASSUME_PROPOSED") and os.path.exists(PROPOSED):
        # experiments only: treat the findings proposed by this check (c09_proposed_findings.json) as known
        rep.known += [e for e in json.load(open(PROPOSED)) if e.get("property") == PROP and e["id"] not in [k.get("id") for k in rep.known]]
        rep.notes["assumed_proposed_findings"] = [e["id"] for e in rep.known]
    nv.build_harness(["nv-eval", "nv-vm"])
    d = nv.scratch("c09")
    cfg = os.path.join(nv.SPEC, "_gen_VM_%d.cfg" % os.getpid())
    with open(cfg, "w") as f:
        f.write('CONSTANTS Tier = "%s"\n          SelfRef = %s\nSPECIFICATION VSpec\n'
                'INVARIANTS EvalTotalV JumpsAreForward RootReturnHeight FramesBalanced VmTotal VmAgrees EmitCaseV EmitCatCode\n'
                'CHECK_DEADLOCK FALSE\n' % (tier, "TRUE" if self_ref_enabled() else "FALSE"))
    try:
        res = nv.tlc("MC_VM", os.path.basename(cfg), workers=8, timeout=3000, want_tags=("CASE", "VMDIFF", "CATCODE"))
    finally:
        os.remove(cfg)
    if res.violated:
        rep.violation({"kind": "spec-property", "property": res.violated, "tlc": res.stdout[-1500:]})
        return rep.finish()
    rep.tlc_stats(res, "MC_VM " + tier)
    # MC: RunVM(Compile(p)) = Run(p) - the differences TLC found in the MODEL of the compiler + VM
    for v in res.cases.get("VMDIFF", []):
        rep.add("mc_model_vm_differs_from_eval", 1)
        rep.violation({"kind": "model-vm-differs-from-eval", "final": v["stmts"][-1], "variant": v["variant"], "eval": v["res"], "vm_model": v["vm"],
                       "halt": v["halt"], "program_tail": v["stmts"][-3:], "late_bound": is_late_bound(v["variant"], v["stmts"][-1])}, known_matcher)
    cat_by_variant = {c["variant"]: c for c in res.cases.get("CATCODE", [])}
    seen, cases = set(), []
    for c in res.cases.get("CASE", []):
        key = "\n".join(c["stmts"])
        if key not in seen:
            seen.add(key)
            cases.append(c)
    rep.set("mc_programs", len(cases))
    rep.set("mc_vm_steps", sum(c["steps"] for c in cases))

    # ---- G
    inp, out = os.path.join(d, "cases.ndjson"), os.path.join(d, "out.ndjson")
    nv.write_ndjson(inp, [{"id": i, "stmts": c["stmts"]} for i, c in enumerate(cases)])
    p = nv.harness("nv-eval", ["eval-run", "--cases", inp, "--out", out], check=False)
    if p.returncode != 0:
        if p.stderr.strip().startswith("prelude:"):
            # the standard library is itself a program of the language: it must compile and run
            rep.violation({"kind": "prelude-does-not-run", "msg": p.stderr.strip()[:600]})
            return rep.finish()
        raise nv.ToolError("harness nv-eval failed (%d):\n%s" % (p.returncode, p.stderr[-4000:]))
    results = nv.read_ndjson_text(open(out, encoding="utf-8").read())
    kinds = {}
    for c, r in zip(cases, results):
        rep.add("evaluations", 1)
        final = c["stmts"][-1]
        if "setup_error" in r:
            rep.violation({"kind": "setup-failed", "msg": r["setup_error"][:300], "self_ref_panic": self_ref_panic(c["stmts"], r["setup_error"])},
                          known_matcher)
            continue
        want = c["res"]
        kinds[want["k"]] = kinds.get(want["k"], 0) + 1
        if want["k"] == "err":
            if not (r["outcome"] == "runtime" and want["v"] == "empty list" and r["kind"] == "EmptyList"):
                rep.violation({"kind": "error-differs", "final": final, "variant": c["variant"], "spec": want, "impl": [r["outcome"], r["kind"], r.get("value")]})
            continue
        if r["outcome"] != "ok":
            rep.violation({"kind": "evaluation-failed", "final": final, "variant": c["variant"], "outcome": r["outcome"], "msg": r["msg"][:200], "spec": want})
            continue
        if r["value"] != want:
            rep.violation({"kind": "value-differs", "final": final, "variant": c["variant"], "spec": want, "impl": r["value"],
                           "program_tail": c["stmts"][-3:], "late_bound": is_late_bound(c["variant"], final)}, known_matcher)
    rep.add("distinct_nontrivial", len(cases) - kinds.get("int", 0) + sum(1 for c in cases if c["variant"] != 1 and c["res"]["k"] == "int"))
    rep.set("result_kinds", kinds)
    rep.add("traces_validated_against_impl", len(cases))
    for c in cases[5:: max(1, len(cases) // 5)][:4]:
        rep.sample({"final_expression": c["stmts"][-1], "variant": c["variant"], "expected": c["res"]})

    # ---- J (all programs; beyond 20000 programs every third one and everything that is not a plain integer)
    jcases = cases if len(cases) <= 20000 else [c for i, c in enumerate(cases) if i % 3 == seed % 3 or c["res"]["k"] != "int"]
    rep.set("j_programs_selected", "%d of %d" % (len(jcases), len(cases)))
    j_stage(rep, tier, jcases, cat_by_variant, d)

    rep.set("rule", "catalogue of 15 definitions x 4 redefinition variants x generated final expressions / tails of MC_Eval.tla and "
            "MC_VM.tla (%s tier); non-trivial = programs whose result is not a plain integer, or that run after a "
            "redefinition/shadowing variant. evaluations = programs evaluated (G) + opcodes validated by Trace_VM (J)" % tier)
    rep.set("exhaustive", True)
    rep.assumptions += ["scalar integer values (exact in f64); recursion depth <= 12",
                        "J: results of foreign functions, of arithmetic outside the integers below 10^4 and the values of stack slots "
                        "of earlier inputs are taken from the trace; programs whose input failed cannot be decoded (the session rolls "
                        "the program store back) and are validated by G only"]
    if not rep.violations:
        shutil.rmtree(d, ignore_errors=True)
    return rep.finish()


def replay(path, seed):
    data = json.load(open(path))
    for v in data["violations"][:5]:
        print(json.dumps(v)[:2000])
    return 1 if data["violations"] else 0
