"""C09 - compiled programs compute what their source means.
Spec: Eval.tla - a big-step reference evaluator written from the language chapters (lexical scoping, capture at
definition, early-bound direct calls, recursion, where chains, function values, |>, conditionals evaluating only the
taken branch, string interpolation, structs matched by field name, lists).  G: TLC evaluates every generated program
(MC_Eval.tla: a catalogue of definitions exercising captured/shadowed globals, argument order, recursion, where
clauses, function values, permuted struct fields and lists; an optional redefinition; a generated final expression)
and prints its value; the real compiler + VM must produce the same value (structural comparison: numbers exactly,
field names and order, element order).
"""
import json
import os
import shutil
import nv

PROP = "C09"


def known_matcher(v, k):
    if k.get("signature", {}).get("kind") == "function-value-late-bound":
        return v.get("kind") == "value-differs" and v.get("late_bound")
    return False


def run(tier, seed):
    rep = nv.Report(PROP, tier, seed, "model_checking")
    nv.build_harness(["nv-eval"])
    d = nv.scratch("c09")
    cfg = os.path.join(nv.SPEC, "_gen_Eval_%d.cfg" % os.getpid())
    with open(cfg, "w") as f:
        f.write('CONSTANTS Tier = "%s"\nSPECIFICATION Spec\nINVARIANTS EvalTotal EmitCase\nCHECK_DEADLOCK FALSE\n' % tier)
    try:
        res = nv.tlc("MC_Eval", os.path.basename(cfg), workers=8, timeout=3000)
    finally:
        os.remove(cfg)
    if res.violated:
        rep.violation({"kind": "spec-property", "property": res.violated, "tlc": res.stdout[-1500:]})
        return rep.finish()
    rep.tlc_stats(res, "MC_Eval " + tier)
    seen, cases = set(), []
    for c in res.cases.get("CASE", []):
        key = "\n".join(c["stmts"])
        if key not in seen:
            seen.add(key)
            cases.append(c)
    inp, out = os.path.join(d, "cases.ndjson"), os.path.join(d, "out.ndjson")
    nv.write_ndjson(inp, [{"id": i, "stmts": c["stmts"]} for i, c in enumerate(cases)])
    nv.harness("nv-eval", ["eval-run", "--cases", inp, "--out", out])
    results = nv.read_ndjson_text(open(out).read())
    kinds = {}
    for c, r in zip(cases, results):
        rep.add("evaluations", 1)
        final = c["stmts"][-1]
        if "setup_error" in r:
            rep.violation({"kind": "setup-failed", "msg": r["setup_error"][:300]})
            continue
        want = c["res"]
        kinds[want["k"]] = kinds.get(want["k"], 0) + 1
        if want["k"] == "err":
            if not (r["outcome"] == "runtime" and want["v"] == "empty list" and r["kind"] == "EmptyList"):
                rep.violation({"kind": "error-differs", "final": final, "variant": c["variant"], "spec": want, "impl": [r["outcome"], r["kind"], r.get("value")]})
            continue
        if r["outcome"] != "ok":
            rep.violation({"kind": "evaluation-failed", "final": final, "variant": c["variant"], "outcome": r["outcome"], "msg": r["msg"][:200], "spec": want})
            continue
        if r["value"] != want:
            rep.violation({"kind": "value-differs", "final": final, "variant": c["variant"], "spec": want, "impl": r["value"],
                           "program_tail": c["stmts"][-3:],
                           # a function VALUE taken before its name was redefined, called afterwards
                           "late_bound": c["variant"] in (2, 4) and "w_h" in final}, known_matcher)
    rep.add("distinct_nontrivial", len(cases) - kinds.get("int", 0) + sum(1 for c in cases if c["variant"] != 1 and c["res"]["k"] == "int"))
    rep.set("result_kinds", kinds)
    rep.add("traces_validated_against_impl", len(cases))
    for c in cases[5:: max(1, len(cases) // 5)][:5]:
        rep.sample({"final_expression": c["stmts"][-1], "variant": c["variant"], "expected": c["res"]})
    rep.set("rule", "catalogue of 15 definitions x 4 redefinition variants x generated final expressions of MC_Eval.tla (%s tier); "
            "non-trivial = programs whose result is not a plain integer, or that run after a redefinition/shadowing variant" % tier)
    rep.set("exhaustive", True)
    rep.assumptions += ["scalar integer values (exact in f64); recursion depth <= 12"]
    if not rep.violations:
        shutil.rmtree(d, ignore_errors=True)
    return rep.finish()


def replay(path, seed):
    data = json.load(open(path))
    for v in data["violations"][:5]:
        print(json.dumps(v)[:2000])
    return 1 if data["violations"] else 0
