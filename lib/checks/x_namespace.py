"""X_NAMESPACE (extra, not one of the listed properties): the session's name space as a state machine.
NameSpace.tla models the prefix parser's unit table / other identifiers and the type checker's value and type
namespaces: which definition is accepted, which is rejected (and how), and what every spelling means afterwards - with
names as character sequences so that dab = d+ab = da+b, ab = a+b, decab = deca+b = d+ecab really collide.
  MC  Unambiguous, Disjoint, Stable on all reachable name-space states (<= MaxHist accepted definitions);
  G   for every reachable abstract state: a witness history is replayed on the real interpreter, then EVERY statement of
      the alphabet is tried in that state (on a clone) and every probe spelling is evaluated - outcome classes and
      meanings must be the predicted ones;
  J   long random histories with rejected definitions in the middle, recorded from the real interpreter, are validated
      by Trace_NameSpace.tla (a rejected definition must leave every meaning unchanged - C06 on this fragment).
Run with `bin/check X_NAMESPACE`; evidence in evidence_extra/."""
import json
import os
import random
import shutil
from decimal import Decimal
import nv

PROP = "X_NAMESPACE"
PRELUDE = "dimension ZL\ndimension ZT\nunit zu: ZL\ndimension Scalar = 1"
CODE = {"b": 2, "ab": 3, "dab": 5, "kb": 7, "kilob": 11, "decab": 13, "ecab": 17, "zq": 19}


def nm(chars):
    return "".join(chars)


def render(s):
    k = s["k"]
    if k == "var":
        return "let %s = %d zu" % (nm(s["n"]), 100 + CODE.get(nm(s["n"]), 23))
    if k == "varbad":
        return "let %s = zzundefined" % nm(s["n"])
    if k == "fn":
        return "fn %s(%s: ZL) = %d zu + %s - %s" % (nm(s["n"]), nm(s["p"]), 200 + CODE.get(nm(s["n"]), 23), nm(s["p"]), nm(s["p"]))
    if k == "unit":
        lines = []
        if s["metric"]:
            lines.append("@metric_prefixes")
        if s["al"]:
            def ap(a):
                return {(True, True): "both", (True, False): "short", (False, True): "long", (False, False): "none"}[(a["short"], a["long"])]
            lines.append("@aliases(%s)" % ", ".join("%s: %s" % (nm(a["n"]), ap(a)) for a in s["al"]))
        lines.append("unit %s: ZL = %d zu" % (nm(s["n"]), CODE.get(nm(s["n"]), 23)))
        return "\n".join(lines)
    if k == "dim":
        return "dimension %s" % s["t"]
    if k == "struct":
        return "struct %s { zf: ZL }" % s["t"]
    raise nv.ToolError("unknown statement kind %r" % k)


def outcome_class(o):
    """observed outcome -> the specification's classes"""
    if o["outcome"] == "ok":
        return "ok"
    if o["outcome"] == "nameres":
        return {"IdentifierClash": "nameres:clash", "ReservedIdentifier": "nameres:reserved"}.get(o["kind"], "nameres:" + o["kind"])
    if o["outcome"] == "type":
        return {"NameResolutionError": "type:clash", "UnknownIdentifier": "type:unknown"}.get(o["kind"], "type:" + o["kind"])
    return o["outcome"] + ":" + str(o.get("kind"))


def mant_exp(text):
    """'2000 zu' -> (2, 3); '2.0e-18 zu' -> (2, -18): representation change only"""
    d = Decimal(text.split()[0].replace("_", ""))
    sign, digits, exp = d.normalize().as_tuple()
    m = int("".join(map(str, digits)))
    return (-m if sign else m), exp


def observed_meaning(p_val, p_call):
    """the two probes of a spelling (`n -> zu`, `n(1 zu) -> zu`) -> kind, m, e"""
    if p_val["outcome"] == "ok" and p_val["res"]:
        m, e = mant_exp(p_val["res"])
        # constants are 100 + code, units are code * 10^e with code < 20 (the statement texts encode who answers)
        return ("constant" if 100 < m < 200 and e == 0 else "unit"), m, e
    if p_call["outcome"] == "ok" and p_call["res"]:
        m, e = mant_exp(p_call["res"])
        return "function", m, e
    if p_val["outcome"] == "type" and p_val["kind"] == "UnknownIdentifier":
        return "unknown", 0, 0
    return "other:%s/%s" % (p_val["outcome"], p_val["kind"]), 0, 0


def run(tier, seed):
    rep = nv.Report(PROP, tier, seed, "model_checking")
    nv.build_harness(["nv-session"])
    d = nv.scratch("xnamespace")
    maxhist = 2 if tier == "quick" else 3
    cfg = os.path.join(nv.SPEC, "_gen_NameSpace_%d.cfg" % os.getpid())
    with open(cfg, "w") as f:
        f.write("CONSTANT MaxHist = %d\nSPECIFICATION Spec\nVIEW View\nINVARIANTS TypeOK Unambiguous Disjoint EmitMeta EmitCase\n"
                "PROPERTIES Stable\nCHECK_DEADLOCK FALSE\n" % maxhist)
    try:
        res = nv.tlc("MC_NameSpace", os.path.basename(cfg), workers=8, timeout=3300, want_tags=("CASE", "META"))
    finally:
        os.remove(cfg)
    if res.violated:
        rep.violation({"kind": "spec-property", "property": res.violated})
        return rep.finish()
    rep.tlc_stats(res, "MC_NameSpace MaxHist=%d (abstract states under VIEW)" % maxhist)
    meta = res.cases["META"][0]
    stmts, probes = meta["stmts"], meta["probes"]
    stmt_texts = [render(s) for s in stmts]
    probe_texts = []
    for p in probes:
        probe_texts += ["%s -> zu" % nm(p), "%s(1 zu) -> zu" % nm(p)]
    states = res.cases["CASE"]

    # ---- G: every statement in every reachable state
    inp, out = os.path.join(d, "g.ndjson"), os.path.join(d, "g.out.ndjson")
    nv.write_ndjson(inp, [{"id": i, "prelude": PRELUDE, "steps": [render(s) for s in st["hist"]], "probes": stmt_texts + probe_texts,
                           "check_c06": False} for i, st in enumerate(states)])
    nv.harness("nv-session", ["session-run", "--cases", inp, "--out", out])
    results = {r["id"]: r for r in nv.read_ndjson_text(open(out, encoding="utf-8").read())}
    rejected_kinds = {}
    for i, st in enumerate(states):
        r = results[i]
        if "error" in r:
            raise nv.ToolError("case %d: %s" % (i, r["error"]))
        probs = []
        for j, step in enumerate(r["steps"]):
            if step["outcome"] != "ok":
                probs.append("witness history step %d (%s) was %s/%s" % (j, render(st["hist"][j]).replace("\n", " "), step["outcome"], step["kind"]))
        obs = r["obs"]["probes"]
        for j, want in enumerate(st["pred"]):
            rep.add("evaluations", 1)
            got = outcome_class(obs[j])
            if want != "ok":
                rejected_kinds[want] = rejected_kinds.get(want, 0) + 1
            if got != want:
                probs.append("statement `%s`: predicted %s, observed %s (%s)" % (stmt_texts[j].replace("\n", " "), want, got, (obs[j].get("msg") or "")[:60]))
        base = len(stmts)
        for j, want in enumerate(st["mean"]):
            rep.add("evaluations", 1)
            kind, m, e = observed_meaning(obs[base + 2 * j], obs[base + 2 * j + 1])
            if kind != want["kind"] or (kind != "unknown" and (m, e) != (want["m"], want["e"])):
                probs.append("spelling `%s`: predicted %s %s e%s, observed %s %s e%s" % (nm(probes[j]), want["kind"], want["m"], want["e"], kind, m, e))
        if probs:
            rep.violation({"kind": "namespace-mismatch", "history": [render(s) for s in st["hist"]], "problems": probs[:12]})
    rep.add("distinct_nontrivial", len(states))
    rep.set("predicted_rejections", rejected_kinds)
    rep.add("traces_validated_against_impl", len(states))

    # ---- J: long random histories, rejected definitions in the middle
    if not rep.violations:
        rng = random.Random(seed)
        nh, hl = (60, 14) if tier == "quick" else (400, 18)
        hists = [[rng.randrange(len(stmts)) for _ in range(hl)] for _ in range(nh)]
        inp, out = os.path.join(d, "j.ndjson"), os.path.join(d, "j.out.ndjson")
        nv.write_ndjson(inp, [{"id": i, "prelude": PRELUDE, "steps": [stmt_texts[k] for k in h], "probes": probe_texts, "check_c06": False,
                               "obs_each": True} for i, h in enumerate(hists)])
        nv.harness("nv-session", ["session-run", "--cases", inp, "--out", out])
        results = {r["id"]: r for r in nv.read_ndjson_text(open(out, encoding="utf-8").read())}
        events, where = [], []
        n_rej = 0
        for i, h in enumerate(hists):
            events.append({"reset": True})
            where.append((i, -1))
            for j, step in enumerate(results[i]["steps"]):
                ob = step["obs"]["probes"]
                obs = []
                for q, p in enumerate(probes):
                    kind, m, e = observed_meaning(ob[2 * q], ob[2 * q + 1])
                    obs.append({"n": p, "kind": kind, "m": m, "e": e})
                cls = outcome_class(step)
                n_rej += cls != "ok"
                events.append({"reset": False, "s": stmts[h[j]], "r": cls, "obs": obs})
                where.append((i, j))
        tpath = os.path.join(d, "trace.ndjson")
        nv.write_ndjson(tpath, events)
        v = nv.validate_trace("Trace_NameSpace", tpath, cfg="Trace_NameSpace.cfg")
        rep.add("evaluations", len(events))
        rep.add("traces_validated_against_impl", nh)
        rep.set("trace_events", {"total": len(events), "rejected_definitions": n_rej})
        if v["violated"] and v["violated"] != "postcondition":
            rep.violation({"kind": "trace-invariant", "property": v["violated"]})
        for line in v["bad_lines"][:20]:
            i, j = where[line - 1]
            rep.violation({"kind": "trace-rejected", "history": [stmt_texts[k] for k in hists[i][:j + 1]], "event": events[line - 1]})
        if not v["accepted"] and not v["bad_lines"] and not v["violated"]:
            raise nv.ToolError("trace validation stopped early: %s" % v)
        # binding self-test: corrupt one recorded outcome -> must be rejected
        if not rep.violations:
            k = next(x for x, e in enumerate(events) if not e["reset"] and e["r"] != "ok")
            bad = [dict(e) for e in events[:k + 1]]
            bad[k]["r"] = "ok"
            bpath = os.path.join(d, "trace_bad.ndjson")
            nv.write_ndjson(bpath, bad)
            vb = nv.validate_trace("Trace_NameSpace", bpath, cfg="Trace_NameSpace.cfg")
            if vb["accepted"]:
                raise nv.ToolError("binding self-test failed: a corrupted outcome was accepted")
            rep.notes["binding_self_test"] = "recorded outcome of event %d changed to ok -> rejected at line %s" % (k + 1, vb["bad_lines"][:1])
    for st in states[10:: max(1, len(states) // 4)][:4]:
        rep.sample({"history": [render(s) for s in st["hist"]], "rejected_in_this_state": sum(1 for x in st["pred"] if x != "ok")})
    rep.set("rule", "non-trivial = reachable abstract name-space states (each tried with all %d statements and %d probe spellings)" % (len(stmts), len(probes)))
    rep.set("exhaustive", True)
    if not rep.violations:
        shutil.rmtree(d, ignore_errors=True)
    return rep.finish()


def replay(path, seed):
    data = json.load(open(path))
    for v in data["violations"][:5]:
        print(json.dumps(v)[:3000])
    return 1 if data["violations"] else 0
