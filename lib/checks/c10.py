"""C10 - parsing follows the documented grammar and precedence table.

Spec: spec/Lexer.tla (token kinds, spelling table, separator rule, number-literal automaton) and
      spec/Grammar.tla (the documented expression grammar as recursive operators, Parse(tokens) = tree | REJECT,
      and Unparse(tree) with minimal / full parentheses), written from book/src/basics/operations.md, the other
      book pages and the grammar comment of parser.rs.
MC:   on the specification alone - the literal automaton is the documented regular expression; the two readings of
      the precedence table agree up to re-association; parentheses are neutral; Parse(Unparse(t)) = t for all trees
      within the bound.
G:    TLC enumerates ALL token sequences up to length 5 (quick) / 6 (thorough) over 11 overlapping sub-alphabets,
      all style trees up to 5 / 6-7 nodes (minimal and full parentheses), all literal texts up to length 5 / 6-7 over
      two character alphabets, and the book's examples, each with the predicted outcome; harness nv-grammar writes
      every token sequence in 7 spelling / whitespace variants (ASCII, Unicode, mixed; minimal and random
      whitespace), checks that the text lexes to the intended tokens and runs the real parser.
J:    seeded random deep trees and token soup rendered and parsed by the real parser, recorded as ndjson and judged
      line by line by spec/Trace_Grammar.tla (the same Parse operator).
"""
import json
import os
import re
import shutil
import time
import nv

PROP = "C10"
JVM = "-Xss512m -Dstdout.encoding=UTF-8 -Dfile.encoding=UTF-8"
HERE = os.path.dirname(os.path.abspath(__file__))
PROPOSED = os.path.join(HERE, "c10_proposed_findings.json")

# spec kind -> kinds of the real tokenizer (binding table, also in the harness)
IMPL_KIND = {
    "lp": {"LeftParen"}, "rp": {"RightParen"}, "lb": {"LeftBracket"}, "rb": {"RightBracket"}, "comma": {"Comma"},
    "dot": None, "plus": {"Plus"}, "minus": {"Minus"}, "mul": {"Multiply"}, "div": {"Divide"}, "per": {"Per"},
    "pow": {"Power"}, "bang": {"ExclamationMark"}, "arrow": {"Arrow", "To"}, "lt": {"LessThan"}, "gt": {"GreaterThan"},
    "le": {"LessOrEqual"}, "ge": {"GreaterOrEqual"}, "eq": {"EqualEqual"}, "ne": {"NotEqual"}, "and": {"LogicalAnd"},
    "or": {"LogicalOr"}, "apply": {"PostfixApply"}, "if": {"If"}, "then": {"Then"}, "else": {"Else"},
}
RESERVED_KIND = {"per": "Per", "to": "To", "if": "If", "then": "Then", "else": "Else", "true": "True", "false": "False",
                 "NaN": "NaN", "inf": "Inf"}

# ---------------------------------------------------------------------------------------------
# s-expression <-> tree normaliser (tree = nested lists, the JSON form of Grammar.tla's trees)

_SX = re.compile(r'\(|\)|"(?:[^"\\]|\\.)*"|[^\s()]+')
BINARY = {"mul", "div", "add", "sub", "pow", "conv", "lt", "gt", "le", "ge", "eq", "ne", "and", "or"}


def num_label(a):
    try:
        x = float(a)
    except ValueError:
        return a
    if x != x:
        return "NaN"
    if x in (float("inf"), float("-inf")):
        return "inf" if x > 0 else "-inf"
    if x == int(x) and abs(x) < 1e15:
        return str(int(x))
    return a


def sexpr_to_tree(s):
    toks = _SX.findall(s)
    pos = [0]

    def node():
        if toks[pos[0]] != "(":
            pos[0] += 1
            return toks[pos[0] - 1]
        pos[0] += 1
        tag = toks[pos[0]]
        pos[0] += 1
        items, atoms = [], []
        while toks[pos[0]] != ")":
            if toks[pos[0]] == "(":
                items.append(node())
            else:
                atoms.append(toks[pos[0]])
                pos[0] += 1
        pos[0] += 1
        if tag == "num":
            return ["num", num_label(atoms[0])]
        if tag in ("id", "bool"):
            return [tag, atoms[0]]
        if tag in ("neg", "not"):
            return [tag, items[0]]
        if tag == "call":
            return ["call", items[0], items[1:]]
        if tag == "field":
            return ["field", items[0], atoms[0]]
        if tag == "list":
            return ["list", items]
        if tag == "if":
            return ["if", items[0], items[1], items[2]]
        if tag.startswith("fact"):
            return ["fact", int(tag[4:]), items[0]]
        if tag in BINARY and len(items) == 2:
            return [tag, items[0], items[1]]
        return ["other", tag]
    return node()


def outcome_tree(o):
    if o == "REJECT":
        return ["REJECT"]
    if o == "PANIC" or o.startswith("MULTI"):
        return ["other", o]
    return sexpr_to_tree(o)


def tree_to_sexpr(t):
    tag = t[0]
    if tag == "REJECT":
        return "REJECT"
    if tag in ("num", "id", "bool"):
        return "(%s %s)" % (tag, t[1])
    if tag in ("neg", "not"):
        return "(%s %s)" % (tag, tree_to_sexpr(t[1]))
    if tag == "fact":
        return "(fact%d %s)" % (t[1], tree_to_sexpr(t[2]))
    if tag == "call":
        return "(call %s)" % " ".join([tree_to_sexpr(t[1])] + [tree_to_sexpr(x) for x in t[2]])
    if tag == "field":
        return "(field %s %s)" % (tree_to_sexpr(t[1]), t[2])
    if tag == "list":
        return "(list%s)" % "".join(" " + tree_to_sexpr(x) for x in t[1])
    if tag == "if":
        return "(if %s %s %s)" % tuple(tree_to_sexpr(x) for x in t[1:4])
    if tag == "other":
        return "<%s>" % t[1]
    return "(%s %s %s)" % (tag, tree_to_sexpr(t[1]), tree_to_sexpr(t[2]))


def inner_nodes(t):
    tag = t[0]
    if tag in ("num", "id", "bool", "REJECT", "other"):
        return 0
    if tag in ("neg", "not"):
        return 1 + inner_nodes(t[1])
    if tag == "fact":
        return 1 + inner_nodes(t[2])
    if tag == "call":
        return 1 + inner_nodes(t[1]) + sum(inner_nodes(x) for x in t[2])
    if tag == "field":
        return 1 + inner_nodes(t[1])
    if tag == "list":
        return 1 + sum(inner_nodes(x) for x in t[1])
    if tag == "if":
        return 1 + sum(inner_nodes(x) for x in t[1:4])
    return 1 + inner_nodes(t[1]) + inner_nodes(t[2])


def parse_toks(s):
    out = []
    for p in s.split():
        k, _, v = p.partition(":")
        out.append([k, v])
    return out


# ---------------------------------------------------------------------------------------------
# findings: signatures evaluated on each mismatch

OPERAND_END = {"num", "id", "bool", "rp", "rb", "bang", "uexp"}


FUSING_CHARS = "\u2212\u2192\u279e\u2264\u2265\u2260\u2a75"      # − → ➞ ≤ ≥ ≠ ⩵
_FUSED_TEXT = re.compile(r"\w[%s]" % FUSING_CHARS)
_FUSED_TOKEN = re.compile(r'\("Identifier", "[^"]*[%s][^"]*"\)' % FUSING_CHARS)
_SPECIAL_NUMBER = re.compile(r"^(NaN|inf|0[xob].*)$")


def candidate_signature(v):
    """narrow, syntactic pre-classification of a mismatch; F1 is confirmed against the spec afterwards"""
    if v["kind"] == "lexer-binding":
        # F3: a Unicode operator directly after an identifier / keyword / 0x.. literal is taken for an identifier
        # character: the text does not lex as intended, the same text with blanks does (not "separated"), the text has a
        # word character directly followed by one of the characters, and the tokenizer either shows an identifier
        # containing one or fails
        if (not v.get("separated") and _FUSED_TEXT.search(v.get("text", ""))
                and (_FUSED_TOKEN.search(v.get("why", "")) or v.get("why", "").startswith("tokenizer error"))):
            return "unicode-operator-fused-into-identifier"
        return None
    toks = v["toks"]
    spec_rej = v["expected"] == ["REJECT"]
    impl_rej = v["impl"] == ["REJECT"]
    if spec_rej and not impl_rej and v["impl"][0] != "other":
        if any(toks[i][0] == "comma" and toks[i + 1][0] in ("rp", "rb") for i in range(len(toks) - 1)):
            return "trailing-comma?"
    if impl_rej and not spec_rej:
        # F2: the spec accepts, and its tree contains a product by juxtaposition whose right operand starts with a
        # boolean, a list, NaN, inf or a 0x/0o/0b literal (a primary directly after the end of an operand can only be
        # that); the real parser rejects
        pieces = v.get("pieces") or [None] * len(toks)
        for i in range(1, len(toks)):
            k = toks[i][0]
            special = k in ("bool", "lb") or (k == "num" and (_SPECIAL_NUMBER.match(toks[i][1]) or
                                                              (pieces[i] and _SPECIAL_NUMBER.match(pieces[i]))))
            if special and toks[i - 1][0] in OPERAND_END:
                return "juxtaposed-operand-rejected"
    return None


def confirm_trailing_comma(cands, sc):
    """F1: the sequence without the commas that directly precede ')' or ']' is accepted by the SPEC with exactly the
    tree the real parser built. Decided by Trace_Grammar (lenient) on the reduced sequences."""
    if not cands:
        return
    path = os.path.join(sc, "f1_candidates.ndjson")
    rows = []
    for v in cands:
        toks = v["toks"]
        red = [t for i, t in enumerate(toks)
               if not (t[0] == "comma" and i + 1 < len(toks) and toks[i + 1][0] in ("rp", "rb"))]
        rows.append({"toks": red, "out": v["impl"]})
    nv.write_ndjson(path, rows)
    r = nv.validate_trace("Trace_Grammar", path, cfg="Trace_Grammar_lenient.cfg")
    bad = {c["line"] for c in r["res"].cases.get("CASE", [])}
    if r["res"].cases.get("REJECTED"):
        raise nv.ToolError("lenient trace validation did not consume all lines")
    for i, v in enumerate(cands):
        v["sig"] = "trailing-comma" if (i + 1) not in bad else None


def known_matcher(v, k):
    return v.get("sig") is not None and v.get("sig") == k.get("signature", {}).get("kind")


# ---------------------------------------------------------------------------------------------

class Ctx:
    def __init__(self, rep, sc, seed, tier):
        self.rep, self.sc, self.seed, self.tier = rep, sc, seed, tier
        self.meta = None
        self.meta_path = os.path.join(sc, "meta.json")
        self.pending = []       # mismatches, classified at the end
        self.pending_per_source = {}
        self.not_listed = 0     # mismatches beyond the cap per source (counted, not kept)
        self.nontrivial = set()
        self.variants = 7
        self.outcome_samples = []


PER_SOURCE_CAP = 3000


def add_pending(cx, v):
    """keep a mismatch for the report; mismatches that already carry the signature of a proposed/known finding are
    kept up to a cap per source (the rest is counted), everything else is always kept"""
    v["sig"] = None
    if v["kind"] in ("parse-mismatch", "trace-line-rejected", "lexer-binding") and v["source"] != "spelling-table":
        v["sig"] = candidate_signature(v)
    if v["sig"] in (None, "trailing-comma?"):
        cx.pending.append(v)
        return
    key = (v["sig"], v["source"])
    n = cx.pending_per_source.get(key, 0)
    cx.pending_per_source[key] = n + 1
    if n < PER_SOURCE_CAP:
        cx.pending.append(v)
    else:
        cx.not_listed += 1


def gen_cfg(name, text):
    path = os.path.join(nv.SPEC, "_gen_c10_%s_%d.cfg" % (name, os.getpid()))
    with open(path, "w") as f:
        f.write(text)
    return path


def tlc_run(module, name, cfg_text, tags, timeout=1500):
    cfg = gen_cfg(name, cfg_text)
    try:
        res = nv.tlc(module, os.path.basename(cfg), workers=8, timeout=timeout, want_tags=tags, jvm=JVM)
        nv.log("tlc %s %s: %d states, %.1fs" % (module, name, res.distinct, res.wall))
        return res
    finally:
        os.remove(cfg)


def run_harness_cases(cx, label, tokstrings, expected=None):
    """-> list of harness results, aligned with tokstrings (expected: the spec's trees; the harness reports the written
    pieces of every case the spec accepts or the parser accepts)"""
    inp = os.path.join(cx.sc, "cases_%s.ndjson" % label)
    out = os.path.join(cx.sc, "out_%s.ndjson" % label)
    if expected is None:
        nv.write_ndjson(inp, [{"t": t} for t in tokstrings])
    else:
        nv.write_ndjson(inp, [{"t": t, "a": 1} if e != ["REJECT"] else {"t": t} for t, e in zip(tokstrings, expected)])
    t0 = time.time()
    nv.harness("nv-grammar", ["g-run", "--meta", cx.meta_path, "--cases", inp, "--seed", str(cx.seed), "--out", out])
    nv.log("harness g-run %s: %d cases, %.1fs" % (label, len(tokstrings), time.time() - t0))
    rows = nv.read_ndjson_text(open(out, encoding="utf-8").read())
    summ = rows.pop()
    assert summ.get("summary") and summ["cases"] == len(tokstrings) == len(rows)
    cx.variants = summ["variants"]
    os.remove(inp)
    os.remove(out)
    return rows


def compare(cx, source, tokstr, expected, r):
    """one case: every distinct outcome of the variants against the spec's prediction"""
    rep = cx.rep
    for lb in r.get("lexbad", []):
        add_pending(cx, {"kind": "lexer-binding", "source": source, "tokens": tokstr, "toks": parse_toks(tokstr),
                         "text": lb["text"], "why": lb["why"], "separated": bool(lb.get("separated")),
                         "variants_affected": r.get("nlexbad", 1),
                         "expected": expected, "impl": ["other", "not lexed as intended"]})
    for j, (o, x) in enumerate(zip(r["o"], r["x"])):
        if o == "REJECT" and expected == ["REJECT"]:
            continue
        t = outcome_tree(o)
        if len(cx.outcome_samples) < 400 and o != "REJECT":
            cx.outcome_samples.append(o)
        if t != expected:
            add_pending(cx, {"kind": "parse-mismatch", "source": source, "tokens": tokstr, "toks": parse_toks(tokstr),
                               "text": x, "pieces": r["xp"][j] if "xp" in r else None, "expected": expected, "impl": t, "impl_sexpr": o,
                               "expected_sexpr": tree_to_sexpr(expected), "msg": r.get("m", "")})
    if expected != ["REJECT"] and inner_nodes(expected) >= 2:
        cx.nontrivial.add(tokstr)
    rep.add("evaluations", cx.variants)


def write_meta(cx, res):
    if cx.meta is None:
        cx.meta = res.cases["META"][0]
        with open(cx.meta_path, "w") as f:
            json.dump(cx.meta, f, ensure_ascii=False)


def lexer_binding(cx):
    """every spelling of Lexer.tla's table is exactly one token of the intended kind in the real tokenizer"""
    out = os.path.join(cx.sc, "spell.ndjson")
    nv.harness("nv-grammar", ["spell-check", "--meta", cx.meta_path, "--out", out])
    rows = nv.read_ndjson_text(open(out, encoding="utf-8").read())
    for r in rows:
        k, s, tk = r["k"], r["s"], r["tk"]
        cx.rep.add("evaluations", 1)
        cx.rep.add("spellings_checked", 1)
        if k == "dot":
            ok = True        # the dot is a token only in front of an identifier (checked through the sequences)
        elif k.startswith("uexp:"):
            ok = tk == ["UnicodeExponent"]
        elif k == "reserved":
            ok = tk == [RESERVED_KIND[s]]
        else:
            ok = tk is not None and len(tk) == 1 and tk[0] in IMPL_KIND[k]
        if not ok:
            add_pending(cx, {"kind": "lexer-binding", "source": "spelling-table", "tokens": k, "toks": [[k, ""]], "text": s,
                               "why": "spelling %r of %s is lexed as %s %s" % (s, k, tk, r.get("err")),
                               "expected": ["other", k], "impl": ["other", str(tk)]})


def g_sequences(cx, maxlen_of, merged):
    """merged: all alphabets in one TLC run (quick tier); else one run per alphabet"""
    rep = cx.rep
    n_alpha = None
    a = 0 if merged else 1
    while True:
        maxlen = maxlen_of(a)
        res = tlc_run("MC_Grammar", "seq%d" % a,
                      "CONSTANTS MaxLen = %d\n          Alpha = %d\nSPECIFICATION Spec\n"
                      "INVARIANTS CheckAndEmit\nCHECK_DEADLOCK FALSE\n" % (maxlen, a),
                      ("CASE", "META", "DOC"))
        label = "all alphabets" if merged else "alphabet %d" % a
        if res.violated:
            rep.violation({"kind": "spec-invariant", "invariant": res.violated, "model": "MC_Grammar " + label,
                           "tlc": res.stdout[-2500:]})
            return
        rep.tlc_stats(res, "MC_Grammar %s, length <= %d" % (label, maxlen))
        first = cx.meta is None
        write_meta(cx, res)
        n_alpha = len(cx.meta["alphabets"])
        if first:
            lexer_binding(cx)
            doc_examples(cx, res.cases.get("DOC", []))
        cases = res.cases.get("CASE", [])
        rows = run_harness_cases(cx, "seq%d" % a, [c["t"] for c in cases], [c["e"] for c in cases])
        acc = 0
        rej = ["REJECT"]
        fast = 0
        for c, r in zip(cases, rows):
            if c["e"] == rej and r["o"] == rej and "lexbad" not in r:
                fast += 1           # the common case: rejected by both, in every variant
                continue
            compare(cx, "G-sequences/alphabet%d" % c["a"], c["t"], c["e"], r)
            if c["e"] != rej:
                acc += 1
        rep.add("evaluations", fast * cx.variants)
        rep.add("token_sequences", len(cases))
        rep.add("traces_validated_against_impl", len(cases))
        rep.add("token_sequences_accepted_by_spec", acc)
        for c in cases[len(cases) // 3: len(cases) // 3 + 400]:
            if c["e"] != ["REJECT"] and inner_nodes(c["e"]) >= 2:
                rep.sample({"tokens": c["t"], "expected": tree_to_sexpr(c["e"])}, limit=4)
                break
        if merged or a >= n_alpha:
            break
        a += 1


def doc_examples(cx, docs):
    if not docs:
        raise nv.ToolError("no DOC lines from MC_Grammar")
    toks = [d["a"] for d in docs] + [d["b"] for d in docs]
    rows = run_harness_cases(cx, "doc", toks, [d["e"] for d in docs] * 2)
    for i, d in enumerate(docs):
        compare(cx, "book-example/" + d["name"], d["a"], d["e"], rows[i])
        compare(cx, "book-example(parenthesised)/" + d["name"], d["b"], d["e"], rows[len(docs) + i])
    cx.rep.add("book_examples", len(docs))


def g_trees(cx, nodes, merged):
    rep = cx.rep
    for fam in ([0] if merged else [1, 2, 3, 4]):
        res = tlc_run("MC_GrammarTrees", "tree%d" % fam,
                      "CONSTANTS MaxNodes = %d\n          Family = %d\nSPECIFICATION Spec\n"
                      "INVARIANTS RoundTripInv EmitCase\nCHECK_DEADLOCK FALSE\n" % (nodes, fam), ("CASE",))
        label = "all families" if merged else "family %d" % fam
        if res.violated:
            rep.violation({"kind": "spec-invariant", "invariant": res.violated, "model": "MC_GrammarTrees " + label,
                           "tlc": res.stdout[-2500:]})
            return
        rep.tlc_stats(res, "MC_GrammarTrees %s, <= %d nodes (family 4: %d)" % (label, nodes, nodes + 1))
        cases = res.cases.get("CASE", [])
        todo = []
        for c in cases:
            for key in ("m", "f"):
                if c[key] != "-" and not (key == "f" and c["f"] == c["m"]):
                    todo.append((c[key], c["e"], c["fam"]))
        rows = run_harness_cases(cx, "tree%d" % fam, [t for t, _, _ in todo], [e for _, e, _ in todo])
        for (t, e, f), r in zip(todo, rows):
            compare(cx, "G-trees/family%d" % f, t, e, r)
        rep.add("trees", len(cases))
        rep.add("tree_renderings", len(todo))
        rep.add("traces_validated_against_impl", len(todo))
        if cases:
            c = cases[len(cases) // 2]
            rep.sample({"tree": tree_to_sexpr(c["e"]), "minimal": c["m"], "full": c["f"]}, limit=6)


def g_literals(cx, plan):
    rep = cx.rep
    for charset, maxlen in plan:
        res = tlc_run("MC_Lexer", "lit_" + charset,
                      "CONSTANTS MaxLen = %d\n          CharSet = \"%s\"\nSPECIFICATION Spec\n"
                      "INVARIANTS AutomatonIsDocumented DigitExtends EmitCase\nCHECK_DEADLOCK FALSE\n" % (maxlen, charset), ("CASE",))
        if res.violated:
            rep.violation({"kind": "spec-invariant", "invariant": res.violated, "model": "MC_Lexer " + charset, "tlc": res.stdout[-2500:]})
            return
        rep.tlc_stats(res, "MC_Lexer %s, length <= %d" % (charset, maxlen))
        cases = res.cases.get("CASE", [])
        inp = os.path.join(cx.sc, "lit_%s.ndjson" % charset)
        out = os.path.join(cx.sc, "litout_%s.ndjson" % charset)
        nv.write_ndjson(inp, [{"s": c["s"]} for c in cases])
        nv.harness("nv-grammar", ["literals", "--cases", inp, "--out", out])
        rows = nv.read_ndjson_text(open(out, encoding="utf-8").read())
        lits = 0
        for c, r in zip(cases, rows):
            assert c["s"] == r["s"]
            rep.add("evaluations", 1)
            tk = r["tk"]
            impl_lit = tk is not None and len(tk) == 1 and (tk[0] == "Number" or tk[0].startswith("IntegerWithBase"))
            prob = None
            if c["lit"] != impl_lit:
                prob = "spec: %s one literal; tokenizer: %s" % ("is" if c["lit"] else "is not", tk)
            elif c["lit"]:
                lits += 1
                want = float(c["dec"]) if c["dec"] != "" else float(c["val"])
                t = outcome_tree(r["p"])
                got = None
                if t[0] == "num":
                    try:
                        got = float(t[1])
                    except ValueError:
                        got = None
                base = {"hex": "IntegerWithBase(16)", "octal": "IntegerWithBase(8)", "binary": "IntegerWithBase(2)"}.get(c["kind"], "Number")
                if got is None or got != want:
                    prob = "value: spec %r, parser %s" % (want, r["p"])
                elif tk[0] != base:
                    prob = "kind: spec %s, tokenizer %s" % (c["kind"], tk[0])
            if prob:
                add_pending(cx, {"kind": "literal-mismatch", "source": "G-literals/" + charset, "tokens": c["s"], "toks": [],
                                   "text": c["s"], "why": prob, "expected": ["other", json.dumps(c)], "impl": ["other", json.dumps(r)]})
        rep.add("literal_texts", len(cases))
        rep.add("literal_texts_accepted", lits)
        os.remove(inp)
        os.remove(out)
    # the non-finite numbers of the book (keywords)
    for s, want in (("NaN", "NaN"), ("inf", "inf")):
        p = nv.harness("nv-grammar", ["probe"], stdin=s + "\n").stdout
        rep.add("evaluations", 1)
        if "(num %s)" % want not in p:
            add_pending(cx, {"kind": "literal-mismatch", "source": "G-literals/non-finite", "tokens": s, "toks": [], "text": s,
                               "why": p.strip(), "expected": ["num", want], "impl": ["other", p.strip()]})


def j_traces(cx, ntraces, trees, soup, depth):
    rep = cx.rep
    paths = []
    for k in range(ntraces):
        p = os.path.join(cx.sc, "trace_%d.ndjson" % k)
        nv.harness("nv-grammar", ["j-record", "--meta", cx.meta_path, "--seed", str(cx.seed * 1000 + k), "--trees", str(trees),
                                  "--soup", str(soup), "--depth", str(depth), "--out", p])
        rows = nv.read_ndjson_text(open(p).read())
        good = []
        for r in rows:
            if r.get("lexbad"):
                add_pending(cx, {"kind": "lexer-binding", "source": "J", "tokens": " ".join(t[0] for t in r["toks"]), "toks": r["toks"],
                                 "text": r["text"], "why": r["why"], "separated": bool(r.get("separated")),
                                 "expected": ["other", "lexable"], "impl": ["other", "not lexed as intended"]})
            else:
                good.append(r)
        nv.write_ndjson(p, [{"toks": r["toks"], "out": r["out"]} for r in good])   # what the spec judges
        paths.append((p, good))
    # judged line by line (lenient configuration: every disagreeing line is reported, all lines are consumed)
    results = nv.validate_traces_parallel("Trace_Grammar", [p for p, _ in paths], cfg="Trace_Grammar_lenient.cfg", timeout=1500, jobs=4)
    for (p, rows), r in zip(paths, results):
        n = len(rows)
        rep.add("evaluations", n)
        rep.add("j_events", n)
        rep.add("j_accepted_by_parser", sum(1 for x in rows if x["out"] != ["REJECT"]))
        rep.add("traces_validated_against_impl", 1)
        for x in rows:
            if x["out"] != ["REJECT"] and inner_nodes(x["out"]) >= 2:
                cx.nontrivial.add(x["text"])
        if r["res"].cases.get("REJECTED") or r["violated"]:
            raise nv.ToolError("trace validation did not consume all lines of %s (%s)" % (p, r["violated"]))
        for c in r["res"].cases.get("CASE", []):
            x = rows[c["line"] - 1]
            x["disagrees"] = True
            add_pending(cx, {"kind": "trace-line-rejected", "source": "J/" + os.path.basename(p), "line": c["line"],
                             "tokens": " ".join(t[0] + (":" + t[1] if t[1] else "") for t in x["toks"]), "toks": x["toks"],
                             "text": x["text"], "pieces": x.get("pieces"), "expected": c["expected"], "impl": x["out"], "msg": x.get("msg", ""),
                             "expected_sexpr": tree_to_sexpr(c["expected"]), "impl_sexpr": tree_to_sexpr(x["out"])})
    rows = paths[0][1]
    deep = max(rows, key=lambda x: inner_nodes(x["out"]) if x["out"] != ["REJECT"] else -1)
    rep.sample({"J_text": deep["text"], "parsed": tree_to_sexpr(deep["out"])[:300]}, limit=8)
    return paths


def classify_and_report(cx):
    rep = cx.rep
    cands = []
    for v in cx.pending:
        if v.get("sig") == "trailing-comma?":
            v["sig"] = None
            cands.append(v)
    # confirm at most 4000 candidates against the spec (more than that is not a narrow finding any more)
    confirm_trailing_comma(cands[:4000], cx.sc)
    summary = {}
    for v in cx.pending:
        v.pop("toks", None)
        key = "%s | %s | %s" % (v["kind"], v.get("sig"), v["source"].split("/")[0])
        summary[key] = summary.get(key, 0) + 1
        rep.violation(v, known_matcher)
    if summary:
        rep.notes["mismatch_summary"] = summary
        for k, n in sorted(summary.items()):
            nv.log("mismatches: %6d  %s" % (n, k))
        nv.write_ndjson(os.path.join(cx.sc, "mismatches.ndjson"), cx.pending)
    if cx.not_listed:
        rep.set("mismatches_not_listed", cx.not_listed)
        nv.log("%d further mismatches with the signature of a known/proposed finding (beyond %d per source) were counted "
               "but not listed" % (cx.not_listed, PER_SOURCE_CAP))


def self_tests(cx, jpaths):
    rep = cx.rep
    # (1) the two independent s-expression normalisers (python here, rust in the harness) agree
    samples = cx.outcome_samples[:400]
    inp = os.path.join(cx.sc, "sx.ndjson")
    out = os.path.join(cx.sc, "sx_out.ndjson")
    nv.write_ndjson(inp, [{"o": o} for o in samples])
    nv.harness("nv-grammar", ["sexpr-to-tree", "--in", inp, "--out", out])
    rust = nv.read_ndjson_text(open(out, encoding="utf-8").read())
    bad = [o for o, t in zip(samples, rust) if outcome_tree(o) != t]
    rep.notes["selftest_normalisers_agree_on"] = len(samples) - len(bad)
    if bad or not samples:
        raise nv.ToolError("binding self-test failed: s-expression normalisers disagree on %r" % bad[:2])
    # (2) G: a corrupted expectation (operands of a binary node swapped) is noticed
    o = next((o for o in samples if outcome_tree(o)[0] in BINARY and outcome_tree(o)[1] != outcome_tree(o)[2]), None)
    if o is None:
        raise nv.ToolError("binding self-test: no binary sample")
    t = outcome_tree(o)
    corrupted = [t[0], t[2], t[1]]
    before = len(cx.pending)
    compare(cx, "selftest", "selftest", corrupted, {"o": [o], "x": ["-"]})
    noticed = len(cx.pending) == before + 1
    del cx.pending[before:]
    cx.nontrivial.discard("selftest")
    rep.add("evaluations", -cx.variants)
    rep.notes["selftest_G_corrupted_expectation_detected"] = noticed
    if not noticed:
        raise nv.ToolError("binding self-test failed: corrupted expectation not detected")
    # (3) J: a corrupted recorded tree is rejected at exactly that line (strict configuration: the trace is consumed up to
    #     the first disagreeing line; built from the lines that agreed)
    p, rows = jpaths[0]
    good = [r for r in rows if not r.get("disagrees")]
    k = next(i for i in range(len(good) // 2, len(good)) if good[i]["out"][0] in BINARY and good[i]["out"][1] != good[i]["out"][2])
    t = good[k]["out"]
    lines = [{"toks": r["toks"], "out": r["out"]} for r in good[:k + 50]]
    lines[k] = {"toks": good[k]["toks"], "out": [t[0], t[2], t[1]]}
    bp = os.path.join(cx.sc, "trace_corrupt.ndjson")
    nv.write_ndjson(bp, lines)
    r = nv.validate_trace("Trace_Grammar", bp)
    rep.notes["selftest_J_corrupted_line_rejected_after_matching"] = r["matched"]
    rep.notes["selftest_J_corrupted_line_index"] = k
    if r["accepted"] or r["matched"] != k:
        raise nv.ToolError("binding self-test failed: corrupted trace line %d not rejected there (%s)" % (k, r["matched"]))


def run(tier, seed):
    rep = nv.Report(PROP, tier, seed, "model_checking")
    if os.environ.get("NV_C10_ASSUME_PROPOSED") and os.path.exists(PROPOSED):
        # mutation experiments only: treat the findings proposed by this check as known, so that the exit status
        # tells whether the mutant adds NEW violations
        rep.known += [e for e in json.load(open(PROPOSED)) if e.get("property") == PROP]
        rep.notes["assumed_proposed_findings"] = [e["id"] for e in rep.known]
    nv.build_harness(["nv-grammar"])
    sc = nv.scratch("c10")
    cx = Ctx(rep, sc, seed, tier)
    if tier == "quick":
        g_sequences(cx, lambda a: 5, merged=True)
        g_trees(cx, 5, merged=True)
        g_literals(cx, [("dec", 5), ("based", 6)])
        jpaths = j_traces(cx, 2, 1200, 800, 6)
    else:
        # length 6 where precedence, conditionals and calls with two arguments live; 5 for the lexical alphabets
        g_sequences(cx, lambda a: 5 if a in (8, 9, 10) else 6, merged=False)
        g_trees(cx, 6, merged=False)
        g_literals(cx, [("dec", 6), ("based", 7)])
        jpaths = j_traces(cx, 8, 3000, 2000, 6)
    if not rep.violations:
        self_tests(cx, jpaths)
    classify_and_report(cx)
    rep.set("distinct_nontrivial", len(cx.nontrivial))
    rep.set("rule", "exhaustive: every token sequence up to the length bound over 11 overlapping 8-token sub-alphabets of the "
            "operator alphabet, every style tree up to the node bound over 4 constructor families (minimal and full "
            "parentheses), every literal text up to the length bound over two character alphabets; each sequence in 7 "
            "spelling/whitespace variants. J: random trees (depth <= 6) and token soup. non-trivial = distinct inputs whose "
            "tree has at least two inner nodes (so that precedence or associativity decides the tree)")
    rep.set("exhaustive", True)
    rep.assumptions += [
        "strings, struct instantiation, typed holes, newlines inside expressions and statements other than expressions are not modelled",
        "where the book is silent the observed behaviour is modelled: `f (x)` is a call, juxtaposition needs no blank (`2a`), "
        "the right-hand side of `|>` is any call-level expression that is an identifier or a call, `_` separators in 0x/0o/0b literals",
        "`*` with `/` and `+` with `-` are read as one left-associative level each (grammar comment); the literal reading of the "
        "table's separate rows gives trees that differ only by re-association (checked: ReadingsAgreeInv)"]
    if not rep.violations:
        shutil.rmtree(sc, ignore_errors=True)
    for f in os.listdir(nv.SPEC):
        if f.startswith("_gen_c10_") and f.endswith("_%d.cfg" % os.getpid()):
            os.remove(os.path.join(nv.SPEC, f))
    return rep.finish()


def replay(path, seed):
    """re-run the recorded violations: the token sequences are rendered again and parsed by the current tree"""
    data = json.load(open(path))
    nv.build_harness(["nv-grammar"])
    sc = nv.scratch("c10r")
    rep = nv.Report(PROP, "replay", seed, "model_checking")
    cx = Ctx(rep, sc, data.get("seed", seed), "replay")
    res = tlc_run("MC_Grammar", "meta", "CONSTANTS MaxLen = 0\n          Alpha = 1\nSPECIFICATION Spec\nCHECK_DEADLOCK FALSE\n",
                  ("META",))
    write_meta(cx, res)
    still = 0
    vs = [v for v in data["violations"] if v.get("kind") in ("parse-mismatch", "trace-line-rejected")]
    rows = run_harness_cases(cx, "replay", [v["tokens"] for v in vs]) if vs else []
    for v, r in zip(vs, rows):
        before = len(cx.pending)
        compare(cx, "replay", v["tokens"], v["expected"], r)
        # (texts that do not lex as intended are a different violation kind; they are listed as such by a full run)
        bad = any(x["kind"] == "parse-mismatch" for x in cx.pending[before:])
        still += bad
        print(json.dumps({"tokens": v["tokens"], "text": v.get("text"), "expected": tree_to_sexpr(v["expected"]),
                          "impl_now": r["o"], "still_violated": bad}, ensure_ascii=False)[:1500])
    for v in data["violations"]:
        if v not in vs:
            print(json.dumps(v, ensure_ascii=False)[:1500])
            still += 1
    shutil.rmtree(sc, ignore_errors=True)
    return 1 if still else 0
