"""C12 - addition commutes and subtraction anti-commutes, units included.
Spec: Trace_Quantity.tla AddLaws (a+b and b+a denote the same, a-b = -(b-a); when the operands' units differ in size
and not both operands are zero, both orders carry the same unit and the same value) and Units.tla for the denotation.
J: for every ordered pair of same-dimension written forms of the dumped table (pair generator MC_Quantity.tla) and
magnitudes incl. zero and negative values the real evaluator computes a+b, b+a, a-b, b-a and, for triples, the six
orders of a three-operand sum; the comparator extracts the structural facts (units, values, sizes from the unit table)
and TLC judges every event against the law table.
"""
import itertools
import json
import os
import shutil
import nv
from checks import units_common as uc
from checks.c04 import unit_key

PROP = "C12"
REL = 1e-12


def base_mag(raw):
    return float(raw["value"]) * float(raw["base_factor"])


def run(tier, seed):
    rep = nv.Report(PROP, tier, seed, "model_checking")
    nv.build_harness(["nv-units"])
    d = nv.scratch("c12")
    units = uc.dump_table()
    forms = uc.make_forms(units, tier)
    uc.write_table_module(units, forms, pair_all=False)
    cfg = os.path.join(nv.SPEC, "_gen_Quantity_%d.cfg" % os.getpid())
    with open(cfg, "w") as f:
        f.write("SPECIFICATION Spec\nINVARIANTS StepwiseAgrees RoundTrip EmitCase\nCHECK_DEADLOCK FALSE\n")
    try:
        res = nv.tlc("MC_Quantity", os.path.basename(cfg), workers=8, timeout=3000, jvm="-Xss512m -Xmx12g")
    finally:
        os.remove(cfg)
    if res.violated:
        rep.violation({"kind": "spec-property", "property": res.violated})
        return rep.finish()
    rep.tlc_stats(res, "MC_Quantity pairs " + tier)
    cases = [c for c in res.cases.get("CASE", []) if c["cls"] == "pair"]
    mags = [("3", "0.25"), ("0", "0.25"), ("-3", "1e6"), ("0", "0")] if tier == "quick" else \
           [("3", "0.25"), ("0", "0.25"), ("3", "0"), ("-3", "1e6"), ("0", "0"), ("1e-9", "-7.5"), ("40.5", "40.5")]
    rows, meta = [], []
    for c in cases:
        for ma, mb in mags:
            a, b = "(%s %s)" % (ma, c["q"]), "(%s %s)" % (mb, c["t"])
            cc = "(5 %s)" % c["r"]
            # one list expression per row (one interpret instead of six); the raw list elements are unsimplified
            exprs = ["[%s + %s, %s + %s, %s - %s, %s - %s, %s, %s]" % (a, b, b, a, a, b, b, a, a, b)]
            if (ma, mb) == mags[0]:
                exprs.append("[" + ", ".join(" + ".join(p) for p in itertools.permutations([a, b, cc])) + "]")
            rows.append({"id": len(rows), "exprs": exprs})
            meta.append((c, ma, mb))
    inp, out = os.path.join(d, "cases.ndjson"), os.path.join(d, "out.ndjson")
    nv.write_ndjson(inp, rows)
    nv.harness("nv-units", ["eval", "--cases", inp, "--out", out])
    results = nv.read_ndjson_text(open(out, encoding="utf-8").read())
    events, origin = [], []
    for (c, ma, mb), r in zip(meta, results):
        o = r["results"]
        rep.add("evaluations", 1)
        if any(x["outcome"] != "ok" for x in o):
            rep.violation({"kind": "evaluation-failed", "pair": [c["q"], c["t"]], "magnitudes": [ma, mb],
                           "outcomes": [x["outcome"] + ":" + x.get("msg", "")[:80] for x in o if x["outcome"] != "ok"][:2]})
            continue
        ab, ba, amb, bma, qa, qb = o[0]["raw"]["elems"]
        both_zero = float(qa["value"]) == 0.0 and float(qb["value"]) == 0.0
        same_size = float(qa["base_factor"]) == float(qb["base_factor"])
        scale = max(abs(base_mag(qa)), abs(base_mag(qb)), 1e-300)
        den = abs(base_mag(ab) - base_mag(ba)) <= REL * scale and abs(base_mag(amb) + base_mag(bma)) <= REL * scale \
            and abs(base_mag(ab) - (base_mag(qa) + base_mag(qb))) <= 1e-9 * scale
        ev = {"ev": "add", "den": den, "exempt": both_zero or same_size,
              "sameunit": unit_key(ab["unit"]) == unit_key(ba["unit"]),
              "samevalue": float(ab["value"]) == float(ba["value"]),
              "antisym": unit_key(amb["unit"]) == unit_key(bma["unit"]) and float(amb["value"]) == -float(bma["value"])}
        events.append(ev)
        origin.append((c, ma, mb, [ab["text"], ba["text"], amb["text"], bma["text"]]))
        if len(o) > 1:   # three operands, six orders: same denotation
            vals = [base_mag(x) for x in o[1]["raw"]["elems"]]
            scale3 = max(abs(v) for v in vals + [scale])
            ev3 = {"ev": "add", "den": max(vals) - min(vals) <= 1e-9 * scale3, "exempt": True, "sameunit": True, "samevalue": True, "antisym": True}
            events.append(ev3)
            origin.append((c, ma, mb, [x["text"] for x in o[1]["raw"]["elems"]]))
    chunks = [events[i:i + 4000] for i in range(0, len(events), 4000)]
    paths = []
    for i, ch in enumerate(chunks):
        p = os.path.join(d, "trace_%d.ndjson" % i)
        nv.write_ndjson(p, ch)
        paths.append(p)
    verdicts = nv.validate_traces_parallel("Trace_Quantity", paths, timeout=1500)
    for ci, v in enumerate(verdicts):
        rep.add("traces_validated_against_impl", 1)
        if v["violated"] and not v["bad_lines"] and v["matched"] is None:
            raise nv.ToolError("trace validation failed: %s" % v["violated"])
        for line in v["bad_lines"]:
            c, ma, mb, texts = origin[ci * 4000 + line - 1]
            rep.violation({"kind": "law-violated", "pair": [c["q"], c["t"]], "magnitudes": [ma, mb], "facts": events[ci * 4000 + line - 1],
                           "displayed": texts})
    rep.add("distinct_nontrivial", sum(1 for e in events if not e["exempt"]))
    rep.add("events_judged", len(events))
    for e, (c, ma, mb, texts) in list(zip(events, origin))[:: max(1, len(events) // 4)][:4]:
        rep.sample({"a": "%s %s" % (ma, c["q"]), "b": "%s %s" % (mb, c["t"]), "displayed": texts, "facts": e})
    if events and not rep.violations:
        bad = [dict(e) for e in events[:50]]
        k = next((i for i, e in enumerate(bad) if not e["exempt"]), 0)
        bad[k] = dict(bad[k], sameunit=False, exempt=False)
        p = os.path.join(d, "trace_corrupt.ndjson")
        nv.write_ndjson(p, bad)
        v = nv.validate_trace("Trace_Quantity", p)
        rep.notes["selftest_corrupted_event_reported_at_line"] = v["bad_lines"]
        if (k + 1) not in v["bad_lines"]:
            raise nv.ToolError("binding self-test failed: corrupted addition event not reported")
    rep.set("rule", "every ordered pair (written form, unprefixed canonical same-dimension form) x magnitude pairs %s; a+b, b+a, a-b, b-a "
            "and six orders of a three-operand sum; non-trivial = events where the units differ in size and not both operands are zero" % (mags,))
    rep.set("exhaustive", True)
    rep.assumptions += ["denotation tolerance rel %.0e of the larger operand (two operands), 1e-9 (three operands, association differs)" % REL,
                        "sizes of units compared through the implementation's own base conversion factors"]
    if not rep.violations:
        shutil.rmtree(d, ignore_errors=True)
    return rep.finish()


def replay(path, seed):
    data = json.load(open(path))
    for v in data["violations"][:5]:
        print(json.dumps(v)[:2000])
    return 1 if data["violations"] else 0
