"""Shared by C01 / C02: generate programs with Typing.tla, execute them, normalise observations."""
import json
import os
from fractions import Fraction
import nv

BASEMAP = {"Length": "L", "Time": "T", "Mass": "M"}


class SetupRejected(Exception):
    """a catalogue definition that the specification types as accepted was not accepted by the implementation"""
    def __init__(self, info):
        Exception.__init__(self, info["statement"])
        self.info = info


def gen_and_run(tier, d, workers=8):
    cfg = os.path.join(nv.SPEC, "_gen_Typing_%d.cfg" % os.getpid())
    with open(cfg, "w") as f:
        f.write('CONSTANTS Tier = "%s"\nSPECIFICATION Spec\nINVARIANTS TypeTotal EmitCase\nCHECK_DEADLOCK FALSE\n' % tier)
    try:
        res = nv.tlc("MC_Typing", os.path.basename(cfg), workers=workers, timeout=3000, want_tags=("CASE", "META"))
    finally:
        os.remove(cfg)
    if res.violated:
        return res, [], []
    meta = res.cases["META"][0]
    # the same expression can be reached through several seeds: de-duplicate
    seen, cases = set(), []
    for c in res.cases.get("CASE", []):
        key = (c["s1"], c["s2"])
        if key not in seen:
            seen.add(key)
            cases.append(c)
    inp = os.path.join(d, "typing_cases.ndjson")
    out = os.path.join(d, "typing_out.ndjson")
    nv.write_ndjson(inp, [{"setup": meta["setup"]}] + [{"id": i, "s1": c["s1"], "s2": c["s2"]} for i, c in enumerate(cases)])
    p = nv.harness("nv-typing", ["typing-run", "--cases", inp, "--out", out], check=False)
    if p.returncode == 3 and "SETUP-REJECTED " in p.stderr:
        # a definition of the catalogue (predicted: accepted) was rejected or crashed the interpreter
        info = json.loads(p.stderr.split("SETUP-REJECTED ", 1)[1].splitlines()[0])
        raise SetupRejected(info)
    if p.returncode != 0:
        raise nv.ToolError("harness nv-typing typing-run failed (%d):\n%s" % (p.returncode, p.stderr[-4000:]))
    rows = nv.read_ndjson_text(open(out, encoding="utf-8").read())
    global DIMTABLE
    DIMTABLE = {n: {BASEMAP.get(b, b): Fraction(int(x), int(y)) for b, x, y in v} for n, v in rows[0]["dimension_names"].items()}
    DIMTABLE["Scalar"] = {}
    results = rows[1:]
    return res, cases, results


DIMTABLE = {}
SUP = {"⁰": "0", "¹": "1", "²": "2", "³": "3", "⁴": "4", "⁵": "5", "⁶": "6", "⁷": "7", "⁸": "8", "⁹": "9", "⁻": "-"}


def parse_printed_dimension(text):
    """Printed (readable) dimension type -> list of alternative vectors (dict base -> Fraction), or None if the text is
    not a dimension expression over the session's dimension names.  Grammar: alt (' or ' alt)*;
    alt: term (('×' | '/') term)* (left-associative); term: ('(' alt ')' | Name | '1') [superscript digits | '^' int |
    '^(' int ['/' int] ')']."""
    import re
    tok_re = re.compile(r"\s*(×|/|\(|\)|\^\(-?\d+(?:/\d+)?\)|\^-?\d+|[⁰¹²³⁴⁵⁶⁷⁸⁹⁻]+|[A-Za-z_][A-Za-z_0-9]*|1)")

    def parse_alt(alt):
        toks, pos = [], 0
        alt = alt.strip()
        while pos < len(alt):
            m = tok_re.match(alt, pos)
            if not m:
                return None
            toks.append(m.group(1))
            pos = m.end()
        idx = [0]

        def scale(vec, f):
            return {b: v * f for b, v in vec.items()}

        def add(a, b, sign):
            out = dict(a)
            for k, v in b.items():
                out[k] = out.get(k, 0) + sign * v
            return out

        def exponent():
            if idx[0] < len(toks):
                t = toks[idx[0]]
                if t.startswith("^("):
                    idx[0] += 1
                    return Fraction(t[2:-1])
                if t.startswith("^"):
                    idx[0] += 1
                    return Fraction(t[1:])
                if t[0] in SUP:
                    idx[0] += 1
                    return Fraction("".join(SUP[c] for c in t))
            return Fraction(1)

        def term():
            if idx[0] >= len(toks):
                return None
            t = toks[idx[0]]
            if t == "(":
                idx[0] += 1
                v = expr()
                if v is None or idx[0] >= len(toks) or toks[idx[0]] != ")":
                    return None
                idx[0] += 1
            elif t == "1":
                idx[0] += 1
                v = {}
            elif re.match(r"[A-Za-z_]", t):
                if t not in DIMTABLE:
                    return None
                idx[0] += 1
                v = dict(DIMTABLE[t])
            else:
                return None
            return scale(v, exponent())

        def expr():
            v = term()
            if v is None:
                return None
            while idx[0] < len(toks) and toks[idx[0]] in ("×", "/"):
                op = toks[idx[0]]
                idx[0] += 1
                w = term()
                if w is None:
                    return None
                v = add(v, w, 1 if op == "×" else -1)
            return v

        v = expr()
        if v is None or idx[0] != len(toks):
            return None
        return {b: x for b, x in v.items() if x != 0}

    alts = []
    for alt in text.split(" or "):
        v = parse_alt(alt)
        if v is None:
            return None
        alts.append(v)
    return alts
def spec_vec(t):
    """spec type json -> dict base -> (n, d) without zero entries"""
    return {b: (int(v[0]), int(v[1])) for b, v in t["v"].items() if int(v[0]) != 0}


def impl_vec(dim):
    """harness dim map -> dict L/T/M -> (n,d); unknown base names are kept (type variables, other dimensions)"""
    return {BASEMAP.get(b, b): (int(v[0]), int(v[1])) for b, v in dim.items() if int(v[0]) != 0}


def is_concrete(vec):
    return all(b in ("L", "T", "M") for b in vec)


def quantities(raw):
    """all quantities inside a raw value (recursively through lists and struct fields)"""
    if raw is None:
        return []
    if raw["k"] == "q":
        return [raw]
    if raw["k"] == "list":
        return [q for e in raw["elems"] for q in quantities(e)]
    if raw["k"] == "struct":
        return [q for _, v in raw["fields"] for q in quantities(v)]
    return []
