"""Shared by C01 / C02: generate programs with Typing.tla, execute them, normalise observations."""
import json
import os
import nv

BASEMAP = {"Length": "L", "Time": "T", "Mass": "M"}


def gen_and_run(tier, d, workers=8):
    cfg = os.path.join(nv.SPEC, "_gen_Typing_%d.cfg" % os.getpid())
    with open(cfg, "w") as f:
        f.write('CONSTANTS Tier = "%s"\nSPECIFICATION Spec\nINVARIANTS TypeTotal EmitCase\nCHECK_DEADLOCK FALSE\n' % tier)
    try:
        res = nv.tlc("MC_Typing", os.path.basename(cfg), workers=workers, timeout=3000, want_tags=("CASE", "META"))
    finally:
        os.remove(cfg)
    if res.violated:
        return res, [], []
    meta = res.cases["META"][0]
    # the same expression can be reached through several seeds: de-duplicate
    seen, cases = set(), []
    for c in res.cases.get("CASE", []):
        key = (c["s1"], c["s2"])
        if key not in seen:
            seen.add(key)
            cases.append(c)
    inp = os.path.join(d, "typing_cases.ndjson")
    out = os.path.join(d, "typing_out.ndjson")
    nv.write_ndjson(inp, [{"setup": meta["setup"]}] + [{"id": i, "s1": c["s1"], "s2": c["s2"]} for i, c in enumerate(cases)])
    nv.harness("nv-typing", ["typing-run", "--cases", inp, "--out", out])
    results = nv.read_ndjson_text(open(out, encoding="utf-8").read())
    return res, cases, results


def spec_vec(t):
    """spec type json -> dict base -> (n, d) without zero entries"""
    return {b: (int(v[0]), int(v[1])) for b, v in t["v"].items() if int(v[0]) != 0}


def impl_vec(dim):
    """harness dim map -> dict L/T/M -> (n,d); unknown base names are kept (type variables, other dimensions)"""
    return {BASEMAP.get(b, b): (int(v[0]), int(v[1])) for b, v in dim.items() if int(v[0]) != 0}


def is_concrete(vec):
    return all(b in ("L", "T", "M") for b in vec)


def quantities(raw):
    """all quantities inside a raw value (recursively through lists and struct fields)"""
    if raw is None:
        return []
    if raw["k"] == "q":
        return [raw]
    if raw["k"] == "list":
        return [q for e in raw["elems"] for q in quantities(e)]
    if raw["k"] == "struct":
        return [q for _, v in raw["fields"] for q in quantities(v)]
    return []
