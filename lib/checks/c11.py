"""C11 - comparisons do not depend on operand order.
Spec: the comparison law table (Trace_Quantity.tla CmpLaws: == symmetric, != its negation, < mirrored by >, <= by >=,
trichotomy for non-NaN operands, every ordering with NaN false).  J: for every ordered pair of same-dimension written
forms of the dumped prelude table (pair generator MC_Quantity.tla, whose TLC run also re-checks the conversion
semantics) the real evaluator computes the twelve comparisons for (a, b) with b = a converted into the other unit
(numerically equal operands: the hard case), b = a different magnitude in the other unit, and a NaN operand; TLC judges
every recorded event against the law table.
"""
import json
import math
import os
import shutil
import struct
import nv
from checks import units_common as uc

PROP = "C11"
CMP = "[{a} == {b}, {b} == {a}, {a} != {b}, {b} != {a}, {a} < {b}, {b} > {a}, {a} <= {b}, {b} >= {a}, {a} > {b}, {b} < {a}, {a} >= {b}, {b} <= {a}]"


def ulps(x, y):
    if x == y:
        return 0
    if math.isnan(x) or math.isnan(y) or math.isinf(x) or math.isinf(y) or (x < 0) != (y < 0):
        return 1 << 62
    a = struct.unpack("<q", struct.pack("<d", abs(x)))[0]
    b = struct.unpack("<q", struct.pack("<d", abs(y)))[0]
    return abs(a - b)


def known_matcher(v, k):
    if k.get("signature", {}).get("kind") == "conversion-rounding-asymmetry":
        return v.get("kind") == "law-violated" and v.get("rounding_only")
    return False


def run(tier, seed):
    rep = nv.Report(PROP, tier, seed, "model_checking")
    nv.build_harness(["nv-units"])
    d = nv.scratch("c11")
    units = uc.dump_table()
    forms = uc.make_forms(units, tier)
    uc.write_table_module(units, forms, pair_all=False)
    cfg = os.path.join(nv.SPEC, "_gen_Quantity_%d.cfg" % os.getpid())
    with open(cfg, "w") as f:
        f.write("SPECIFICATION Spec\nINVARIANTS StepwiseAgrees RoundTrip EmitCase\nCHECK_DEADLOCK FALSE\n")
    try:
        res = nv.tlc("MC_Quantity", os.path.basename(cfg), workers=8, timeout=3000, jvm="-Xss512m -Xmx12g")
    finally:
        os.remove(cfg)
    if res.violated:
        rep.violation({"kind": "spec-property", "property": res.violated})
        return rep.finish()
    rep.tlc_stats(res, "MC_Quantity pairs " + tier)
    cases = [c for c in res.cases.get("CASE", []) if c["cls"] == "pair"]
    mags = ["3"] if tier == "quick" else ["3", "40.5", "1e-6", "0.1", "-7"]
    rows, meta = [], []
    for c in cases:
        for m in mags:
            a = "(%s %s)" % (m, c["q"])
            bconv = "(%s %s -> %s)" % (m, c["q"], c["t"])
            bother = "(2 %s)" % c["t"]
            nan = "(NaN %s)" % c["t"]
            rows.append({"id": len(rows), "exprs": [CMP.format(a=a, b=bconv), CMP.format(a=a, b=bother), CMP.format(a=a, b=nan),
                                                   CMP.format(a=nan, b=a),
                                                   "%s -> %s" % (bconv, c["q"]), a, "%s -> %s" % (a, c["t"]), bconv]})
            meta.append((c, m))
    inp, out = os.path.join(d, "cases.ndjson"), os.path.join(d, "out.ndjson")
    nv.write_ndjson(inp, rows)
    nv.harness("nv-units", ["eval", "--cases", inp, "--out", out])
    results = nv.read_ndjson_text(open(out, encoding="utf-8").read())
    events, origin = [], []
    for (c, m), r in zip(meta, results):
        o = r["results"]
        for idx, (label, nanflag) in enumerate([("converted", False), ("other", False), ("nan-right", True), ("nan-left", True)]):
            rep.add("evaluations", 1)
            if o[idx]["outcome"] != "ok":
                rep.violation({"kind": "comparison-failed", "pair": [c["q"], c["t"]], "magnitude": m, "variant": label,
                               "outcome": o[idx]["outcome"], "msg": o[idx].get("msg", "")[:160]})
                continue
            bools = [e["value"] for e in o[idx]["raw"]["elems"]]
            events.append({"ev": "cmp", "r": bools, "nan": nanflag})
            origin.append((c, m, label, o))
    trace = os.path.join(d, "trace.ndjson")
    chunks = [events[i:i + 4000] for i in range(0, len(events), 4000)]
    paths = []
    for i, ch in enumerate(chunks):
        p = os.path.join(d, "trace_%d.ndjson" % i)
        nv.write_ndjson(p, ch)
        paths.append(p)
    verdicts = nv.validate_traces_parallel("Trace_Quantity", paths, timeout=1500)
    asym = 0
    for ci, v in enumerate(verdicts):
        rep.add("traces_validated_against_impl", 1)
        if v["violated"] and not v["bad_lines"] and v["matched"] is None:
            raise nv.ToolError("trace validation failed: %s" % v["violated"])
        for line in v["bad_lines"]:
            c, m, label, o = origin[ci * 4000 + line - 1]
            ev = events[ci * 4000 + line - 1]
            rounding_only = False
            if label == "converted":
                # a vs b = a converted: the two orders convert in opposite directions; if each conversion is within
                # a few ulp of the other operand, the disagreement is floating-point rounding of the conversion
                try:
                    back = float(o[4]["raw"]["value"]); a = float(o[5]["raw"]["value"])
                    fwd = float(o[6]["raw"]["value"]); b = float(o[7]["raw"]["value"])
                    rounding_only = ulps(back, a) <= 4 and ulps(fwd, b) <= 4
                except Exception:
                    rounding_only = False
            if rep.violation({"kind": "law-violated", "pair": [c["q"], c["t"]], "magnitude": m, "variant": label,
                              "results": dict(zip(["a==b", "b==a", "a!=b", "b!=a", "a<b", "b>a", "a<=b", "b>=a", "a>b", "b<a", "a>=b", "b<=a"], ev["r"])),
                              "rounding_only": rounding_only}, known_matcher) is False:
                asym += 1
    rep.add("distinct_nontrivial", len(cases))
    rep.add("events_judged", len(events))
    rep.set("asymmetric_by_conversion_rounding", asym)
    for e, (c, m, label, _) in list(zip(events, origin))[:: max(1, len(events) // 4)][:4]:
        rep.sample({"pair": [c["q"], c["t"]], "magnitude": m, "variant": label, "event": e})
    # binding self-test: flip one recorded boolean -> TLC must report exactly that line
    if events and not rep.violations:
        bad = [dict(e) for e in events[:50]]
        k = next((i for i, e in enumerate(bad) if not e["nan"]), 0)
        bad[k] = dict(bad[k], r=[not bad[k]["r"][0]] + bad[k]["r"][1:])
        p = os.path.join(d, "trace_corrupt.ndjson")
        nv.write_ndjson(p, bad)
        v = nv.validate_trace("Trace_Quantity", p)
        rep.notes["selftest_corrupted_event_reported_at_line"] = v["bad_lines"]
        if (k + 1) not in v["bad_lines"]:
            raise nv.ToolError("binding self-test failed: corrupted comparison event not reported")
    rep.set("rule", "every ordered pair (written form, unprefixed canonical same-dimension form) of the dumped table x magnitudes %s x "
            "{b = a converted, b = 2 other-unit, NaN right, NaN left}; 12 comparisons each, judged by TLC against the law table; "
            "non-trivial = distinct unit pairs" % mags)
    rep.set("exhaustive", True)
    rep.assumptions += ["comparisons are evaluated as one list expression per pair on a shared prelude context"]
    if not rep.violations:
        shutil.rmtree(d, ignore_errors=True)
    return rep.finish()


def replay(path, seed):
    data = json.load(open(path))
    for v in data["violations"][:5]:
        print(json.dumps(v)[:2000])
    return 1 if data["violations"] else 0
