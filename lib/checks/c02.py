"""C02 - static checking accepts exactly the dimensionally consistent programs.
Spec: Typing.tla (dimensional analysis written from the book).  TLC enumerates all programs of the generator classes
of MC_Typing.tla (every binary operator over every pair of leaves, powers with constant exponents of all kinds,
depth-2 trees, calls of annotated/generic/inferred functions, lists, structs, conditionals, two-statement programs)
and predicts for each: rejected (type error) or accepted with which dimension.  Every program is executed on the
real prelude-loaded Context: accept/reject, the checker's own static type of the definition, and for rejected
inputs that nothing was printed or defined.
"""
import json
import re
import shutil
from fractions import Fraction
import nv
from checks import typing_common as tc

PROP = "C02"


def judge_stmt(text, spec_t, r, problems):
    """returns True if accepted by both"""
    if spec_t["k"] == "err":
        if r["outcome"] != "type":
            problems.append("spec rejects (%s) but impl outcome is %s: %s" % (spec_t["e"], r["outcome"], text))
        return False
    if r["outcome"] in ("type", "nameres", "resolver", "panic"):
        problems.append("spec accepts (%s) but impl rejects with %s/%s: %s [%s]" % (spec_t["k"], r["outcome"], r["kind"], text, r["msg"][:100]))
        return False
    if r["outcome"] == "runtime":
        return False   # judged by C01
    st = r.get("static")
    if spec_t["k"] == "dim":
        if not st or st["k"] != "dim":
            problems.append("static type: impl %s spec dim %s: %s" % (st, tc.spec_vec(spec_t), text))
        else:
            iv = tc.impl_vec(st["dim"])
            if tc.is_concrete(iv) and iv != tc.spec_vec(spec_t):
                problems.append("static type: impl %s spec %s: %s" % (iv, tc.spec_vec(spec_t), text))
            if not tc.is_concrete(iv):
                problems.append("static type: impl generic %s spec concrete %s: %s" % (iv, tc.spec_vec(spec_t), text))
        # the REPORTED type: the annotation in the echoed definition `let v: <type> = ...` read back through the
        # session's dimension names (every alternative of `A or B` must denote the predicted dimension)
        echo = (r.get("echo") or [""])[0]
        m = re.match(r"^let \w+: (.*?) = ", echo)
        if m:
            alts = tc.parse_printed_dimension(m.group(1))
            want = {b: Fraction(n, d) for b, (n, d) in tc.spec_vec(spec_t).items()}
            if alts is None:
                problems.append("reported type %r is not a dimension expression: %s" % (m.group(1), text))
            elif any(a != want for a in alts):
                problems.append("reported type %r denotes %s, spec %s: %s" % (m.group(1), alts, want, text))
        else:
            problems.append("echo has no type annotation: %r" % echo[:80])
    elif spec_t["k"] == "bool":
        if not st or st.get("text") != "Bool":
            problems.append("static type: impl %s spec Bool: %s" % (st, text))
    elif spec_t["k"] == "struct":
        if not st or st.get("text") != "ZS":
            problems.append("static type: impl %s spec ZS: %s" % (st, text))
    elif spec_t["k"] == "slist":
        if not st or not str(st.get("text", "")).startswith("List<ZS"):
            problems.append("static type: impl %s spec List<ZS>: %s" % (st, text))
    elif spec_t["k"] == "list":
        if not st or not str(st.get("text", "")).startswith("List<"):
            problems.append("static type: impl %s spec list: %s" % (st, text))
    return True


def run(tier, seed):
    rep = nv.Report(PROP, tier, seed, "model_checking")
    nv.build_harness(["nv-typing"])
    d = nv.scratch("c02")
    try:
        res, cases, results = tc.gen_and_run(tier, d)
    except tc.SetupRejected as ex:
        rep.violation({"kind": "catalogue-definition-rejected", "statement": ex.info["statement"], "outcome": ex.info["outcome"],
                       "error": ex.info["kind"], "message": ex.info["msg"][:300]})
        return rep.finish()
    if res.violated:
        rep.violation({"kind": "spec-property", "property": res.violated})
        return rep.finish()
    rep.tlc_stats(res, "MC_Typing " + tier)
    rejected = 0
    for c, r in zip(cases, results):
        rep.add("evaluations", 1)
        problems = []
        if c.get("expr1") and c["t1"]["k"] != "err" and r["r1"]["outcome"] == "ok":
            ok1 = True       # a bare expression statement defines no variable whose static type could be read: only accepted/rejected
        else:
            ok1 = judge_stmt(c["s1"], c["t1"], r["r1"], problems)
        if c["t1"]["k"] == "err":
            rejected += 1
        if ok1 and c["s2"]:
            if "r2" in r:
                judge_stmt(c["s2"], c["t2"], r["r2"], problems)
                if c["t2"]["k"] == "err":
                    rejected += 1
        rj = r.get("reject")
        if rj and rj["outcome"] in ("type", "nameres", "resolver"):
            if rj["printed"] or rj["defined"]:
                problems.append("rejected input printed %s / defined v_mark=%s" % (rj["printed"], rj["defined"]))
        if problems:
            rep.violation({"kind": "typing-mismatch", "s1": c["s1"], "s2": c["s2"], "problems": problems})
    rep.add("distinct_nontrivial", rejected)
    rep.add("traces_validated_against_impl", len(cases))
    for c in cases[:: max(1, len(cases) // 5)][:5]:
        rep.sample({"program": [c["s1"], c["s2"]], "predicted": [c["t1"]["k"] + ":" + c["t1"]["e"], c["t2"]["k"]]})
    rep.set("rule", "all programs of the generator classes of MC_Typing.tla (%s tier); non-trivial = programs the "
            "spec predicts to be rejected (mis-dimensioned variants)" % tier)
    rep.set("exhaustive", True)
    rep.assumptions += ["fragment: names defined, exponents constant expressions, no date-times, no generic structs",
                        "the literals 0, inf, NaN are dimension-polymorphic (language rule PolyLiteral)",
                        "sub-universe of prelude units m cm km s min kg N Hz percent (dimensions Length Time Mass)"]
    if not rep.violations:
        shutil.rmtree(d, ignore_errors=True)
    return rep.finish()


def replay(path, seed):
    data = json.load(open(path))
    for v in data["violations"][:5]:
        print(json.dumps(v)[:2000])
    return 1 if data["violations"] else 0
