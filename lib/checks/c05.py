"""C05 - automatic unit simplification never changes the quantity.
Spec: simplification is a RELATION (SimpLaws in Trace_Quantity.tla): the displayed value has the same base-unit vector
and the same magnitude in base units as the raw (unsimplified) value, and a value whose unit was chosen by an
explicit conversion is displayed unchanged; Units.tla supplies the exact symbolic denotation of each generated
expression (so both raw and displayed are also compared with the dimensional-analysis expectation).  The heuristics
themselves are not re-implemented.  J: for the products/quotients/powers/mixed expressions of MC_Units.tla and the
dimensionless quotients of all same-dimension pairs of MC_Quantity.tla the harness records the raw value bound to a
variable (hook global_raw), the displayed value of the same expression, its string interpolation and print output;
TLC judges every event.
"""
import json
import os
import shutil
import nv
from checks import units_common as uc
from checks.c04 import unit_key

PROP = "C05"
REL = 1e-9


def run(tier, seed):
    rep = nv.Report(PROP, tier, seed, "exploration")
    nv.build_harness(["nv-units"])
    d = nv.scratch("c05")
    units = uc.dump_table()
    factors = {u["name"]: float(u["factor"]) for u in units}
    forms = uc.make_forms(units, tier)
    uc.write_table_module(units, forms)
    exprs = []   # (text, den or None, explicit)
    for module, invs in (("MC_Units", "AliasInvariant RewriteInvariant EmitCase"), ("MC_Quantity", "StepwiseAgrees RoundTrip EmitCase")):
        cfg = os.path.join(nv.SPEC, "_gen_%s_%d.cfg" % (module, os.getpid()))
        with open(cfg, "w") as f:
            f.write("SPECIFICATION Spec\nINVARIANTS %s\nCHECK_DEADLOCK FALSE\n" % invs)
        try:
            res = nv.tlc(module, os.path.basename(cfg), workers=8, timeout=3000, jvm="-Xss512m -Xmx12g")
        finally:
            os.remove(cfg)
        if res.violated:
            rep.violation({"kind": "spec-property", "property": res.violated})
            return rep.finish()
        rep.tlc_stats(res, module + " " + tier)
        for c in res.cases.get("CASE", []):
            if module == "MC_Units":
                if c["cls"] in ("product", "power", "mixed", "single"):
                    exprs.append((c["text"], c["den"], False))
            else:
                if c["cls"] == "pair":
                    # dimensionless quotient of two same-dimension units, percent-like results, and an explicit conversion
                    exprs.append(("(3 %s) / (2 %s)" % (c["q"], c["t"]), None, False))
                    exprs.append(("(3 %s) * (2 %s)" % (c["q"], c["t"]), None, False))
                    exprs.append(("(3 %s * 2 %s) -> (%s)^2" % (c["q"], c["t"], c["t"]), None, True))
    seen, uniq = set(), []
    for e in exprs:
        if e[0] not in seen:
            seen.add(e[0])
            uniq.append(e)
    inp, out = os.path.join(d, "cases.ndjson"), os.path.join(d, "out.ndjson")
    nv.write_ndjson(inp, [{"id": i, "shown": True, "texts": True, "exprs": [e[0]]} for i, e in enumerate(uniq)])
    nv.harness("nv-units", ["eval", "--cases", inp, "--out", out])
    results = nv.read_ndjson_text(open(out, encoding="utf-8").read())
    events, origin = [], []
    changed = 0
    for (text, den, explicit), r in zip(uniq, results):
        rep.add("evaluations", 1)
        o = r["results"][0]
        if o["outcome"] != "ok" or o.get("shown_outcome") != "ok" or not o.get("shown"):
            rep.violation({"kind": "panic-while-displaying" if o.get("shown_outcome") == "panic" else "evaluation-failed", "expr": text,
                           "outcome": o["outcome"], "shown_outcome": o.get("shown_outcome"), "msg": (o.get("msg") or o.get("shown_msg") or "")[:160]})
            continue
        raw, shown = o["raw"], o["shown"]
        rv, rvec = uc.impl_base(raw)
        sv, svec = uc.impl_base(shown)
        identical = unit_key(raw["unit"]) == unit_key(shown["unit"]) and float(raw["value"]) == float(shown["value"])
        if not identical:
            changed += 1
        samemag = uc.rel_close(rv, sv, REL)
        if den is not None:
            want, wvec = uc.eval_den(den, factors)
            samemag = samemag and uc.rel_close(sv, want, REL) and (svec == wvec or sv == 0.0)
        texts = o.get("interp") == shown["text"] and o.get("printed") == [shown["text"]]
        events.append({"ev": "simp", "samedim": rvec == svec or rv == 0.0, "samemag": samemag, "explicit": explicit, "identical": identical,
                       "texts": texts})
        origin.append((text, raw, shown, o.get("interp"), o.get("printed")))
    chunks = [events[i:i + 4000] for i in range(0, len(events), 4000)]
    paths = []
    for i, ch in enumerate(chunks):
        p = os.path.join(d, "trace_%d.ndjson" % i)
        nv.write_ndjson(p, ch)
        paths.append(p)
    for ci, v in enumerate(nv.validate_traces_parallel("Trace_Quantity", paths, timeout=1500)):
        rep.add("traces_validated_against_impl", 1)
        if v["violated"] and not v["bad_lines"] and v["matched"] is None:
            raise nv.ToolError("trace validation failed: %s" % v["violated"])
        for line in v["bad_lines"]:
            text, raw, shown, interp, printed = origin[ci * 4000 + line - 1]
            rep.violation({"kind": "simplification-changed-the-quantity", "expr": text, "facts": events[ci * 4000 + line - 1],
                           "raw": raw["text"], "raw_unit": [(f["unit"], f["pe"], f["n"] + "/" + f["d"]) for f in raw["unit"]],
                           "shown": shown["text"], "interpolated": interp, "printed": printed})
    rep.add("distinct_nontrivial", changed)
    rep.add("events_judged", len(events))
    for e, (text, raw, shown, _, _) in list(zip(events, origin))[2:: max(1, len(events) // 5)][:5]:
        rep.sample({"expr": text, "raw": raw["text"], "displayed": shown["text"], "facts": e})
    if events and not rep.violations:
        bad = [dict(e) for e in events[:30]]
        bad[7] = dict(bad[7], samemag=False)
        p = os.path.join(d, "trace_corrupt.ndjson")
        nv.write_ndjson(p, bad)
        v = nv.validate_trace("Trace_Quantity", p)
        rep.notes["selftest_corrupted_event_reported_at_line"] = v["bad_lines"]
        if 8 not in v["bad_lines"]:
            raise nv.ToolError("binding self-test failed: corrupted simplification event not reported")
    rep.set("rule", "products, quotients, powers and mixed expressions over every written form of the dumped table, dimensionless "
            "quotients/products of all same-dimension pairs and explicit conversions of them; non-trivial = expressions whose "
            "displayed unit or value differs from the raw one (simplification acted)")
    rep.assumptions += ["tolerance rel %.0e on the magnitude in base units; base-unit vector exact" % REL,
                        "raw value read through the guarded hook global_raw; displayed value = result of evaluating the same expression"]
    if not rep.violations:
        shutil.rmtree(d, ignore_errors=True)
    return rep.finish()


def replay(path, seed):
    data = json.load(open(path))
    for v in data["violations"][:5]:
        print(json.dumps(v)[:2000])
    return 1 if data["violations"] else 0
