"""C24 - every documented standard-library example runs.

Spec: spec/Examples.tla - an example is a Session-level action executed on a CLONE of the prelude+currency session
      (ExampleRun); verdict Accepted(outcome, fn, mentionsEnv): "ok", or exempt because the example depends on the
      process environment (function `args`).  MC_Examples.tla model-checks clone independence on the session model
      (every input of an alphabet - defining, importing, printing, failing at every stage - run as an example after
      every parent history): the parent's observation never changes, the clone ends where Submit would have ended.
J:    the harness enumerates Context::functions() of a `use all` session of the CURRENT tree (the complete finite set
      of @example snippets), runs each the way numbat/examples/inspect.rs does - clone of a session with `use prelude`
      and `use units::currencies` (test exchange rates), `use <module of the function>` first if that session does not
      have it, then the example code as one input - and records {fn, code, outcome, kind, message, parent digest}.
      Trace_Examples.tla judges every line (BAD lines list every rejected example) and the parent's invariance.
"""
import json
import os
import shutil
import nv

PROP = "C24"


def known_matcher(v, k):
    sig = k.get("signature", {})
    if sig.get("kind") != v.get("kind"):
        return False
    return sig.get("fn") == v.get("fn") and sig.get("code") == v.get("code")


def slim(e):
    if e["ev"] != "example":
        return e
    return {k: e[k] for k in ("ev", "idx", "fn", "module", "code", "outcome", "kind", "mentions_env", "parent", "extra_import")}


def judge(trace_rows, d, name):
    path = os.path.join(d, name)
    nv.write_ndjson(path, [slim(e) for e in trace_rows])
    return nv.validate_trace("Trace_Examples", path, cfg="Trace_Examples.cfg", timeout=600)


def run(tier, seed):
    rep = nv.Report(PROP, tier, seed, "exploration")
    nv.build_harness(["nv-modules"])
    d = nv.scratch("c24")
    # ---- design level: clone independence on the session model
    res = nv.tlc("MC_Examples", "MC_Examples.cfg", workers=4, timeout=900, want_tags=())
    if res.violated:
        rep.violation({"kind": "spec-property", "property": res.violated, "tlc": res.stdout[-2500:]})
    rep.tlc_stats(res, "MC_Examples depth 2")
    # ---- the examples of the current tree
    out = os.path.join(d, "examples.ndjson")
    p = nv.harness("nv-modules", ["examples", "--out", out], timeout=900, check=False)
    if p.returncode != 0:
        if p.returncode < 0:
            rep.violation({"kind": "crash", "returncode": p.returncode, "stderr": p.stderr[-1500:]})
            return rep.finish()
        # `use all` / `use prelude` / `use units::currencies` itself fails: no example can run
        rep.violation({"kind": "example-session-does-not-load", "stderr": p.stderr[-1500:]})
        return rep.finish()
    rows = nv.read_ndjson_text(open(out, encoding="utf-8").read())
    start, exs, end = rows[0], rows[1:-1], rows[-1]
    rep.set("functions", start["functions"])
    rep.set("functions_with_examples", start["functions_with_examples"])
    rep.set("examples", start["examples"])
    rep.add("evaluations", len(exs))
    v = judge(rows, d, "trace.ndjson")
    rep.add("traces_validated_against_impl", 1)
    rep.add("trace_events", len(rows))
    bad_lines = sorted(set(v["bad_lines"]))
    if not v["accepted"] and not bad_lines:
        rep.violation({"kind": "trace-rejected", "matched": v["matched"], "total": v["total"], "violated": v["violated"],
                       "event": rows[min(v["matched"] or 0, len(rows) - 1)]})
    for ln in bad_lines:
        e = rows[ln - 1]
        if e["ev"] == "example":
            kind = "example-fails" if e["outcome"] != "ok" else "example-changes-parent-session"
            rep.violation({"kind": kind, "fn": e["fn"], "module": e["module"], "code": e["code"], "outcome": e["outcome"],
                           "error_kind": e["kind"], "message": e["message"], "extra_import": e["extra_import"]}, known_matcher)
        else:
            rep.violation({"kind": "example-run-inconsistent", "event": e}, known_matcher)
    # independent of the trace spec: the parent's full observation (values, signatures, unit table) is as before
    if not end["parent_obs_same"]:
        rep.violation({"kind": "example-changes-parent-session", "fn": "*", "code": "*", "detail": "full observation differs after all examples"})
    # non-trivial: examples that are more than one expression on the prelude (definitions inside, extra import, env)
    nontrivial = [e for e in exs if e["clone_changed"] or e["extra_import"] or e["mentions_env"] or "\n" in e["code"]]
    rep.add("distinct_nontrivial", len(set((e["fn"], e["code"]) for e in nontrivial)))
    rep.set("examples_needing_their_module_imported", sum(1 for e in exs if e["extra_import"]))
    rep.set("examples_defining_names_on_the_clone", sum(1 for e in exs if e["clone_changed"]))
    rep.set("exempt_environment_examples", [e["code"] for e in exs if e["mentions_env"] or e["fn"] == "args"])
    rep.set("modules_with_examples", len(set(e["module"] for e in exs)))
    for e in (exs[:2] + nontrivial[-2:]):
        rep.sample({"fn": e["fn"], "code": e["code"], "outcome": e["outcome"], "value": e["value"][:80]})
    # ---- binding self-tests: a failing example / a changed parent / a dropped example must be rejected by the trace spec
    tests = {}
    # (relative to the verdict on the unmodified trace: the self-tests must not mask real findings)
    victim = next(i for i, e in enumerate(rows) if e["ev"] == "example" and not e["mentions_env"] and e["fn"] != "args"
                  and e["outcome"] == "ok" and (i + 1) not in bad_lines)
    t1 = [dict(e) for e in rows]
    t1[victim]["outcome"], t1[victim]["kind"] = "runtime", "DivisionByZero"
    tests["failing_example_rejected"] = sorted(set(judge(t1, d, "self1.ndjson")["bad_lines"])) == sorted(set(bad_lines + [victim + 1]))
    t2 = [dict(e) for e in rows]
    t2[victim]["parent"] = "v0:0"
    tests["changed_parent_rejected"] = (victim + 1) in judge(t2, d, "self2.ndjson")["bad_lines"]
    t3 = [dict(e) for e in rows if not (e["ev"] == "example" and e["idx"] == 5)]
    tests["dropped_example_rejected"] = not judge(t3, d, "self3.ndjson")["accepted"]
    envs = [i for i, e in enumerate(rows) if e["ev"] == "example" and (e["mentions_env"] or e["fn"] == "args")]
    if envs:
        t4 = [dict(e) for e in rows]
        t4[envs[0]]["outcome"], t4[envs[0]]["kind"] = "runtime", "UserError"
        tests["failing_environment_example_exempt"] = judge(t4, d, "self4.ndjson")["accepted"] == v["accepted"]
    rep.add("traces_validated_against_impl", len(tests))
    rep.notes["binding_selftests"] = tests
    if not all(tests.values()):
        raise nv.ToolError("binding self-test failed: %s" % tests)
    rep.set("rule", "evaluations = @example snippets executed (the complete set Context::functions() reports after `use all`); "
            "non-trivial = distinct examples that define names, span several statements, need their module imported "
            "first or depend on the environment")
    rep.set("exhaustive", True)
    rep.assumptions += [
        "an example is run as numbat/examples/inspect.rs runs it: on a clone of the example session, after `use <module>` "
        "when the function's module is not part of that session, as ONE input, print output discarded",
        "example session = `use prelude` + `use units::currencies` with Context::use_test_exchange_rates() (offline)",
        "exempt: examples of the function `args` / examples whose text calls args() (process environment)",
        "the parent session is observed through a digest of its name lists and import list after every example and "
        "through its full observation (values, signatures, unit table) before and after all examples",
    ]
    if not rep.violations:
        shutil.rmtree(d, ignore_errors=True)
    return rep.finish()


def replay(path, seed):
    data = json.load(open(path))
    for v in data["violations"][:10]:
        print(json.dumps(v, ensure_ascii=False)[:1500])
    return 1 if data["violations"] else 0
