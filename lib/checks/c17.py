"""C17 - standard-library modules compose in any order.

MC  (design level, spec/Modules.tla + MC_Modules.tla): every module graph with <= 4 modules (every set of edges incl.
    self-loops and cycles; with 3 modules also every order and repetition of the uses inside a module) x every
    sequence of <= 3 top-level `use`s: loaded set = reachability closure, every body inlined exactly once, a module
    on no cycle comes after all its dependencies, the set of definitions does not depend on the order of the
    top-level uses, one-use-per-input = batch, re-import is a no-op; the parametrised rule agrees with
    Session!Inline on Session's module table.
G   synthetic: every graph TLC explored is replayed through the real resolver (harness ModuleImporter that counts
    the imports): loaded list, order of definitions, every module fetched once, re-import.
    real: the harness dumps the 62 builtin modules (direct uses parsed from the module text, names/values/signatures
    gained by importing the module alone); TLC evaluates the rule on the REAL graph for every ordered pair
    (thorough: all 3 844, quick: all 62 singles + ~300 sampled pairs with their mirrors) and predicts the import
    list, the definition order and the size of the name sets; the check derives the predicted names, values,
    signatures and unit definitions (union of the per-module OWN sets over the predicted closure) and compares
    them - as counts and multiset hashes - with what the real session shows; (a, b) is also compared directly
    with (b, a).
J   seeded random subsets of 3-8 modules in 2-3 random orders (+ repeated imports, + one batched input), judged by
    the same TLC run.
"""
import json
import os
import random
import shutil
import subprocess
import nv

PROP = "C17"
MASK = (1 << 64) - 1
KINDS = ("vars", "fns", "units", "dims")
MAPS = ("var_vals", "fn_sigs", "unit_defs")

_fnv_cache = {}


def fnv(s):
    h = _fnv_cache.get(s)
    if h is None:
        h = 0xcbf29ce484222325
        for b in s.encode("utf-8"):
            h = ((h ^ b) * 0x100000001b3) & MASK
        _fnv_cache[s] = h
    return h


def set_hash(entries):
    h = 0
    for e in entries:
        h = (h + fnv(e)) & MASK
    return "%016x" % h


def seq_hash(entries):
    h = 0
    for e in entries:
        h = (h * 0x100000001b3 + fnv(e)) & MASK
    return "%016x" % h


def known_matcher(v, k):
    sig = k.get("signature", {})
    if sig.get("kind") != v.get("kind"):
        return False
    if "modules" in sig:
        return sorted(sig["modules"]) == sorted(v.get("modules", []))
    if "module" in sig:
        return sig["module"] in v.get("modules", [])
    return False


def run_harness(rep, args, what, timeout=1500):
    """a crash or a hang of the code under test inside the harness is a violation of 'every import succeeds'"""
    try:
        p = nv.harness("nv-modules", args, timeout=timeout, check=False)
    except subprocess.TimeoutExpired:
        rep.violation({"kind": "hang", "what": what, "timeout_s": timeout})
        return False
    if p.returncode < 0 or p.returncode in (134, 139):
        rep.violation({"kind": "crash", "what": what, "returncode": p.returncode, "stderr": p.stderr[-1500:]})
        return False
    if p.returncode != 0:
        raise nv.ToolError("nv-modules %s failed (%d): %s" % (args, p.returncode, p.stderr[-2000:]))
    return True


# ------------------------------------------------------------------------------------------------------
# part 1: design-level model checking + replay of the synthetic graphs

INVS = "InvLoaded InvOnce InvDepsFirst InvOrderIndep InvSplit InvReimport InvAcyclicTopo InvSessionLink"
INVS3 = INVS + " InvOperatorForms"   # (3-module configs only: doubles the cost per graph)


def mc_modules(n, choice, maxuses, maxtops, emittops, invs=INVS, timeout=1500):
    cfg = os.path.join(nv.SPEC, "_gen_Modules_%s_%d_%d.cfg" % (choice, n, os.getpid()))
    with open(cfg, "w") as f:
        f.write("CONSTANTS RollbackImports = TRUE\n N = %d\n UseChoice = \"%s\"\n MaxUses = %d\n MaxTops = %d\n EmitTops = %d\n"
                % (n, choice, maxuses, maxtops, emittops))
        f.write("SPECIFICATION Spec\nINVARIANTS %s EmitCase\nCHECK_DEADLOCK FALSE\n" % invs)
    try:
        return nv.tlc("MC_Modules", os.path.basename(cfg), workers=8, timeout=timeout, want_tags=("CASE",))
    finally:
        os.remove(cfg)


def reach_plus(uses):
    n = len(uses)
    out = []
    for m in range(1, n + 1):
        seen, todo = set(), list(uses[m - 1])
        while todo:
            x = todo.pop()
            if x not in seen:
                seen.add(x)
                todo.extend(uses[x - 1])
        out.append(seen)
    return out


def compare_synth(case, res, corrupt=False):
    """returns (violations, drifts) for one graph"""
    viol, drift = [], []
    uses = case["uses"]
    rp = reach_plus(uses)
    exp = {tuple(r["tops"]): r for r in case["runs"]}
    for run in res["runs"]:
        e = exp[tuple(run["tops"])]
        post, pre = list(e["post"]), list(e["pre"])
        if corrupt and len(post) >= 2:
            post[0], post[1] = post[1], post[0]
            corrupt = False
        for v in run["variants"]:
            where = {"uses": uses, "tops": run["tops"], "batch": v["batch"]}
            if v["outcome"] != "ok":
                viol.append(dict(where, problem="import fails: %s %s" % (v["outcome"], v["message"])))
                continue
            if sorted(v["loaded"]) != sorted(pre) or sorted(v["order"]) != sorted(post):
                viol.append(dict(where, problem="loaded/defined modules: impl loaded %s defined %s, spec loaded %s defined %s"
                                 % (v["loaded"], v["order"], pre, post)))
                continue
            if v["served"] != len(pre):
                viol.append(dict(where, problem="%d module texts fetched for %d modules" % (v["served"], len(pre))))
            if not v["values_ok"]:
                viol.append(dict(where, problem="a module's definition does not have its value"))
            if not v["reimport_noop"]:
                viol.append(dict(where, problem="re-import of a loaded module changed the session"))
            if v["order"] != post or v["loaded"] != pre:
                # same sets, different order: a violation only if a module on no cycle precedes a dependency
                pos = {m: i for i, m in enumerate(v["order"])}
                bad = [(m, dd) for m in v["order"] if m not in rp[m - 1] for dd in rp[m - 1] if pos[dd] > pos[m]]
                if bad:
                    viol.append(dict(where, problem="module defined before its dependency: %s; order %s" % (bad[:3], v["order"])))
                else:
                    drift.append(dict(where, impl_order=v["order"], spec_order=post, impl_loaded=v["loaded"], spec_loaded=pre))
    return viol, drift


def part_design(rep, tier, d):
    if tier == "quick":
        plan = [("subsets", 3, 3, 3, 3), ("seqs", 3, 2, 2, 2)]
    else:
        plan = [("subsets", 4, 4, 3, 2), ("seqs", 3, 2, 3, 3)]
    graphs = cyclic = runs_total = 0
    first_cases = None
    for choice, n, maxuses, maxtops, emittops in plan:
        res = mc_modules(n, choice, maxuses, maxtops, emittops, invs=(INVS3 if n <= 3 else INVS))
        label = "MC_Modules %s N=%d tops<=%d" % (choice, n, maxtops)
        if res.violated:
            rep.violation({"kind": "spec-property", "property": res.violated, "model": label, "tlc": res.stdout[-2500:]})
            continue
        rep.tlc_stats(res, label)
        cases = res.cases.get("CASE", [])
        for i, c in enumerate(cases):
            c["id"] = i
        if first_cases is None:
            first_cases = cases
        inp = os.path.join(d, "synth_%s.ndjson" % choice)
        out = os.path.join(d, "synth_%s_out.ndjson" % choice)
        nv.write_ndjson(inp, [{"id": c["id"], "uses": c["uses"], "runs": [r["tops"] for r in c["runs"]]} for c in cases])
        if not run_harness(rep, ["synthetic", "--cases", inp, "--out", out], "synthetic graphs " + label):
            continue
        results = nv.read_ndjson_text(open(out, encoding="utf-8").read())
        if len(results) != len(cases):
            raise nv.ToolError("synthetic replay: %d results for %d cases" % (len(results), len(cases)))
        ndrift = 0
        for c, r in zip(cases, results):
            graphs += 1
            cyclic += 0 if c["acyclic"] else 1
            runs_total += 2 * len(c["runs"])
            viol, drift = compare_synth(c, r)
            for v in viol[:3]:
                rep.violation(dict(v, kind="synthetic-replay-mismatch", model=label), known_matcher)
            ndrift += len(drift)
            if drift and ndrift <= 3:
                print("MODEL-DRIFT: property=C17 definition order differs from the rule but respects dependencies: %s" % json.dumps(drift[0]))
        rep.add("synthetic_graphs", len(cases))
        for c in cases[len(cases) // 3: len(cases) // 3 + 1]:
            rep.sample({"graph_uses": c["uses"], "run": c["runs"][-1]})
    rep.add("evaluations", runs_total)
    rep.add("synthetic_runs", runs_total)
    rep.add("synthetic_cyclic_graphs", cyclic)
    rep.add("traces_validated_against_impl", graphs)
    # vacuity self-test: the stronger (false) ordering claim must be refuted by the same model checking run
    res = mc_modules(3, "subsets", 3, 2, 0, invs="InvDepsFirstStrong")
    rep.notes["mc_refutes_strong_dependency_order"] = res.violated
    if res.violated != "InvDepsFirstStrong":
        raise nv.ToolError("vacuity self-test failed: InvDepsFirstStrong not violated (%s)" % res.violated)
    # binding self-test: a corrupted expectation must be noticed by the replay comparison
    if first_cases:
        c = next(c for c in first_cases if any(len(r["post"]) >= 2 for r in c["runs"]))
        inp = os.path.join(d, "synth_self.ndjson")
        out = os.path.join(d, "synth_self_out.ndjson")
        nv.write_ndjson(inp, [{"id": 0, "uses": c["uses"], "runs": [r["tops"] for r in c["runs"] if len(r["post"]) >= 2][:1]}])
        nv.harness("nv-modules", ["synthetic", "--cases", inp, "--out", out])
        r = nv.read_ndjson_text(open(out, encoding="utf-8").read())[0]
        viol, drift = compare_synth(c, r, corrupt=True)
        rep.notes["binding_selftest_corrupted_order_noticed"] = bool(viol or drift)
        if not (viol or drift):
            raise nv.ToolError("binding self-test failed: corrupted expected order not noticed")
    return cyclic


# ------------------------------------------------------------------------------------------------------
# part 2: the real standard library

def derive_own(mods):
    """per module: the names (ordered lists) and name->value maps it defines itself = what it shows when imported
    alone minus what its direct dependencies show when imported alone"""
    by = {m["module"]: m for m in mods}
    own = {}
    for m in mods:
        o = m["obs"]
        deps = [by[dd]["obs"] for dd in m["uses"] if dd in by]
        rec = {}
        for k in KINDS:
            seen = set()
            for dd in deps:
                seen.update(dd[k])
            rec[k] = [x for x in o[k] if x not in seen]
        for k in MAPS:
            rec[k] = {}
            for name, val in o[k].items():
                others = [dd[k][name] for dd in deps if name in dd[k]]
                if not others or all(x != val for x in others):
                    rec[k][name] = val
        own[m["module"]] = rec
    return own


def write_graph_module(names, mods, own, queries):
    idx = {n: i + 1 for i, n in enumerate(names)}
    by = {m["module"]: m for m in mods}
    intern = {}

    def ids(kind, xs):
        out = []
        for x in xs:
            key = (kind, x)
            if key not in intern:
                intern[key] = len(intern) + 1
            out.append(intern[key])
        return "{" + ", ".join(str(i) for i in sorted(set(out))) + "}"

    lines = ["---- MODULE _gen_ModuleGraph ----",
             "\\* generated by lib/checks/c17.py from the harness dump of the current tree; do not edit",
             "EXTENDS Integers", "",
             "\\* " + ", ".join("%d=%s" % (idx[n], n) for n in names), ""]
    lines.append("RealUses == <<")
    lines.append(",\n".join("  << %s >>" % ", ".join(str(idx[u]) for u in by[n]["uses"] if u in idx) for n in names))
    lines.append(">>")
    lines.append("RealOwn == <<")
    lines.append(",\n".join("  [v |-> %s, f |-> %s, un |-> %s, d |-> %s]" % (
        ids("v", own[n]["vars"]), ids("f", own[n]["fns"]), ids("u", own[n]["units"]), ids("d", own[n]["dims"])) for n in names))
    lines.append(">>")
    lines.append("Queries == <<")
    lines.append(",\n".join("  << %s >>" % ", ".join(str(idx[x]) for x in q) for q in queries))
    lines.append(">>")
    lines.append("====")
    path = os.path.join(nv.SPEC, "_gen_ModuleGraph.tla")
    tmp = path + ".%d.tmp" % os.getpid()
    with open(tmp, "w") as f:
        f.write("\n".join(lines) + "\n")
    os.replace(tmp, path)


def expected_obs(post_names, pre_names, own):
    e = {"imported": pre_names}
    for k in KINDS:
        lst = []
        for m in post_names:
            lst.extend(own[m][k])
        e[k] = lst
    for k in MAPS:
        mp = {}
        for m in post_names:
            mp.update(own[m][k])
        e[k] = mp
    return e


def compact_of(e):
    c = {"imported": e["imported"]}
    for k in KINDS:
        c[k] = {"n": len(e[k]), "nd": len(set(e[k])), "set": set_hash(set(e[k])), "seq": seq_hash(e[k])}
    for k in MAPS:
        ent = ["%s\x1f%s" % kv for kv in e[k].items()]
        c[k] = {"n": len(ent), "set": set_hash(ent)}
    return c


def diff_compact(impl, exp):
    """-> (list of differing aspects that matter for the property, list of order-only differences)"""
    hard, soft = [], []
    for k in KINDS:
        a, b = impl[k], exp[k]
        if a["nd"] != b["nd"] or a["set"] != b["set"]:
            hard.append("%s: impl %d distinct names, spec %d" % (k, a["nd"], b["nd"]))
        elif a["n"] != b["n"] or a["seq"] != b["seq"]:
            soft.append("%s: same names, different order/multiplicity (impl %d entries, spec %d)" % (k, a["n"], b["n"]))
    for k in MAPS:
        if impl[k]["n"] != exp[k]["n"] or impl[k]["set"] != exp[k]["set"]:
            hard.append("%s: impl %d entries, spec %d (or different values)" % (k, impl[k]["n"], exp[k]["n"]))
    if sorted(impl["imported"]) != sorted(exp["imported"]):
        hard.append("imported modules: impl %s spec %s" % (impl["imported"], exp["imported"]))
    elif impl["imported"] != exp["imported"]:
        soft.append("imported modules in a different order")
    return hard, soft


def order_free(c):
    return {k: ({"nd": c[k]["nd"], "set": c[k]["set"]} if k in KINDS else c[k]) for k in KINDS + MAPS}


def full_detail(d, seq, exp):
    """re-run one query with full lists and show the name-level difference"""
    inp = os.path.join(d, "detail.ndjson")
    out = os.path.join(d, "detail_out.ndjson")
    nv.write_ndjson(inp, [{"id": 0, "seq": seq, "batch": False}])
    try:
        nv.harness("nv-modules", ["query", "--cases", inp, "--out", out, "--full"], timeout=300)
        full = nv.read_ndjson_text(open(out, encoding="utf-8").read())[0]["full"]
    except Exception as ex:  # pragma: no cover
        return {"error": str(ex)}
    det = {}
    for k in KINDS:
        a, b = set(full[k]), set(exp[k])
        if a != b:
            det[k] = {"only_impl": sorted(a - b)[:8], "only_spec": sorted(b - a)[:8]}
    for k in MAPS:
        a, b = full[k], exp[k]
        ks = [x for x in sorted(set(a) | set(b)) if a.get(x) != b.get(x)]
        if ks:
            det[k] = [{"name": x, "impl": a.get(x), "spec": b.get(x)} for x in ks[:6]]
    return det


def part_real(rep, tier, seed, d):
    # ---- dump
    dump = os.path.join(d, "dump.ndjson")
    if not run_harness(rep, ["dump", "--out", dump], "dump of every single module"):
        return
    rows = nv.read_ndjson_text(open(dump).read())
    names = rows[0]["modules"]
    mods = rows[1:]
    rep.set("modules", len(names))
    usable = True
    for m in mods:
        rep.add("evaluations", 2)
        if m["outcome"] != "ok":
            rep.violation({"kind": "import-fails", "modules": [m["module"]], "seq": [m["module"]],
                           "outcome": m["outcome"], "error_kind": m["kind"], "message": m["message"][:500]}, known_matcher)
            usable = False
            continue
        if m["reimport_outcome"] != "ok" or not m["reimport_same"] or m["reimport_out"]:
            rep.violation({"kind": "reimport-not-noop", "modules": [m["module"]], "seq": [m["module"], m["module"]],
                           "outcome": m["reimport_outcome"], "same": m["reimport_same"], "out": m["reimport_out"][:3]}, known_matcher)
        if m["obs"]["eval_errors"]:
            rep.violation({"kind": "constant-does-not-evaluate", "modules": [m["module"]], "errors": m["obs"]["eval_errors"][:4]}, known_matcher)
        if not m["uses_first"]:
            print("MODEL-DRIFT: property=C17 module %s has a `use` after its first definition; the spec's module bodies are uses-then-definitions" % m["module"])
        for u in m["uses"]:
            if u not in names:
                rep.violation({"kind": "uses-unknown-module", "modules": [m["module"]], "uses": u}, known_matcher)
    if not usable:
        rep.notes["real_graph"] = "pair/subset runs skipped: at least one module does not import alone (see violations)"
        # still run the pairs directly (spec-free comparison), predictions need every single-module observation
    own = derive_own([m for m in mods if m["outcome"] == "ok"])
    for m in mods:
        own.setdefault(m["module"], {k: [] for k in KINDS} | {k: {} for k in MAPS})
    edges = sum(len(m["uses"]) for m in mods)
    rep.set("module_graph_edges", edges)

    # ---- executions on the real code
    pairs_out = os.path.join(d, "pairs.ndjson")
    subs_out = os.path.join(d, "subsets.ndjson")
    pargs = ["pairs", "--out", pairs_out] + (["--sample", "300", "--seed", str(seed)] if tier == "quick" else ["--all"])
    if not run_harness(rep, pargs, "ordered pairs"):
        return
    nsub = 30 if tier == "quick" else 250
    if not run_harness(rep, ["subsets", "--out", subs_out, "--n", str(nsub), "--seed", str(seed)], "random subsets"):
        return
    pairs = nv.read_ndjson_text(open(pairs_out).read())
    subs = nv.read_ndjson_text(open(subs_out).read())
    results = pairs + subs
    rep.add("evaluations", len(results))
    rep.set("ordered_pairs", len(pairs))
    rep.set("subset_runs", len(subs))
    rep.set("exhaustive_pairs", tier != "quick")

    # ---- the specification's prediction for exactly these sequences
    qindex, queries = {}, []
    for r in results:
        key = tuple(r["seq"])
        if key not in qindex:
            qindex[key] = len(queries)
            queries.append(list(key))
    write_graph_module(names, mods, own, queries)
    cfg = os.path.join(nv.SPEC, "_gen_ModulesReal_%d.cfg" % os.getpid())
    with open(cfg, "w") as f:
        f.write("CONSTANTS RollbackImports = TRUE\nSPECIFICATION Spec\nINVARIANTS GraphOk RuleProps EmitCase\nCHECK_DEADLOCK FALSE\n")
    try:
        res = nv.tlc("MC_ModulesReal", os.path.basename(cfg), workers=8, timeout=1500, want_tags=("CASE",))
    finally:
        os.remove(cfg)
    if res.violated:
        rep.violation({"kind": "spec-property-on-real-graph", "property": res.violated, "tlc": res.stdout[-2500:]})
        return
    rep.tlc_stats(res, "MC_ModulesReal %d queries" % len(queries))
    pred = {c["q"] - 1: c for c in res.cases.get("CASE", [])}
    if len(pred) != len(queries):
        raise nv.ToolError("TLC predicted %d of %d queries" % (len(pred), len(queries)))

    # ---- comparison with the prediction
    nontrivial = set()
    drift = 0
    detail_budget = 4
    self_test_done = False
    by_set = {}
    for r in results:
        seq = r["seq"]
        p = pred[qindex[tuple(seq)]]
        mset = sorted(set(seq))
        where = {"seq": seq, "modules": mset, "batch": r.get("batch", False)}
        if not r["ok"]:
            bad = next(s for s in r["steps"] if s["outcome"] != "ok")
            rep.violation(dict(where, kind="import-fails", input=bad["input"], outcome=bad["outcome"], error_kind=bad["kind"],
                               message=bad["message"]), known_matcher)
            continue
        post = [names[i - 1] for i in p["post"]]
        pre = [names[i - 1] for i in p["pre"]]
        exp = expected_obs(post, pre, own)
        expc = compact_of(exp)
        # TLC's own cardinalities of the unions of OWN sets (cross-check of the derivation above)
        for k, tk in (("vars", "nv"), ("fns", "nf"), ("units", "nu"), ("dims", "nd")):
            if expc[k]["nd"] != p[tk]:
                raise nv.ToolError("prediction inconsistent: %s distinct %d vs TLC %d for %s" % (k, expc[k]["nd"], p[tk], seq))
        clash = [k for k, tk, sk in (("vars", "nv", "sv"), ("fns", "nf", "sf"), ("units", "nu", "su"), ("dims", "nd", "sd")) if p[tk] != p[sk]]
        if clash:
            rep.violation(dict(where, kind="same-name-defined-by-two-modules", kinds=clash), known_matcher)
        hard, soft = diff_compact(r["obs"], expc)
        if not self_test_done and len(post) >= 3:
            # binding self-test: drop one predicted module -> must be noticed
            bad_exp = compact_of(expected_obs(post[1:], pre, own))
            h2, _ = diff_compact(r["obs"], bad_exp)
            rep.notes["binding_selftest_dropped_module_noticed"] = bool(h2)
            if not h2 and any(own[post[0]][k] for k in KINDS):
                raise nv.ToolError("binding self-test failed: a dropped module in the prediction was not noticed")
            self_test_done = True
        if hard:
            v = dict(where, kind="differs-from-predicted-union", problems=hard[:6], predicted_closure=post)
            if detail_budget > 0:
                detail_budget -= 1
                v["detail"] = full_detail(d, seq, exp)
            rep.violation(v, known_matcher)
        elif soft:
            drift += 1
            if drift <= 3:
                print("MODEL-DRIFT: property=C17 %s: %s" % (seq, "; ".join(soft)))
        if r["obs"]["eval_errors"]:
            rep.violation(dict(where, kind="constant-does-not-evaluate", errors=r["obs"]["eval_errors"][:4]), known_matcher)
        if not (r["reimport_ok"] and r["reimport_silent"] and r["reimport_same"]):
            rep.violation(dict(where, kind="reimport-not-noop", ok=r["reimport_ok"], silent=r["reimport_silent"], same=r["reimport_same"]), known_matcher)
        if r.get("repeat_same") is False:
            rep.violation(dict(where, kind="reimport-not-noop", detail="`use a; use a` differs from `use a`"), known_matcher)
        by_set.setdefault(tuple(mset), []).append(r)
        # non-trivial: two different modules whose closures overlap without one containing the other
        if len(mset) >= 2:
            clos = [set(names[i - 1] for i in pred[qindex[(m, m)]]["pre"]) for m in mset if (m, m) in qindex]
            if len(clos) == len(mset) and any(a & b and not a <= b and not b <= a for i, a in enumerate(clos) for b in clos[i + 1:]):
                nontrivial.add(tuple(mset))
    rep.set("order_only_drift", drift)

    # ---- direct comparison across orders (independent of the specification)
    compared = 0
    for mset, rs in by_set.items():
        if len(rs) < 2:
            continue
        ref = order_free(rs[0]["obs"])
        for other in rs[1:]:
            compared += 1
            if order_free(other["obs"]) != ref:
                diffs = [k for k in KINDS + MAPS if order_free(other["obs"])[k] != ref[k]]
                rep.violation({"kind": "result-depends-on-import-order", "modules": list(mset), "seq_a": rs[0]["seq"],
                               "seq_b": other["seq"], "differs": diffs}, known_matcher)
    rep.set("order_comparisons", compared)
    rep.add("distinct_nontrivial", len(nontrivial))
    rep.add("traces_validated_against_impl", len(subs))
    for r in (pairs[len(pairs) // 2:len(pairs) // 2 + 1] + subs[:1]):
        p = pred[qindex[tuple(r["seq"])]]
        rep.sample({"seq": r["seq"], "predicted_definition_order": [names[i - 1] for i in p["post"]],
                    "names": {k: r["obs"][k]["nd"] for k in KINDS}})
    rep.notes["timing"] = {"harness_pairs_load_ms_total": round(sum(r.get("wall_ms", 0) for r in pairs)),
                           "slowest_pair_ms": round(max([r.get("wall_ms", 0) for r in pairs] or [0]))}


def run(tier, seed):
    rep = nv.Report(PROP, tier, seed, "model_checking")
    nv.build_harness(["nv-modules"])
    d = nv.scratch("c17")
    random.seed(seed)
    part_design(rep, tier, d)
    part_real(rep, tier, seed, d)
    rep.set("rule", "evaluations = sessions executed on the real code (synthetic graph runs, single modules, ordered pairs, "
            "subset orders); non-trivial = distinct sets of >= 2 real modules whose dependency closures overlap without one "
            "containing the other (shared dependencies must be de-duplicated in either order)")
    rep.set("exhaustive", tier != "quick")
    rep.assumptions += [
        "a module's own names = names it shows when imported alone minus the names its direct dependencies show when imported alone",
        "name sets, name->value, name->signature and unit definition tables are compared as (count, 64-bit multiset hash); "
        "a mismatch is re-run with full lists",
        "the order of the name lists (definition order) is compared with the rule's prediction but an order-only difference "
        "is reported as MODEL-DRIFT, not as a violation (the property speaks about names, types and values)",
        "units::currencies is imported with Context::use_test_exchange_rates() (offline)",
        "constants are compared by their displayed value and printed type",
    ]
    if not rep.violations:
        shutil.rmtree(d, ignore_errors=True)
    return rep.finish()


def replay(path, seed):
    data = json.load(open(path))
    nv.build_harness(["nv-modules"])
    d = nv.scratch("c17r")
    rc = 0
    for v in data["violations"][:5]:
        print(json.dumps(v)[:1500])
        seq = v.get("seq") or v.get("seq_b")
        if seq:
            inp = os.path.join(d, "q.ndjson")
            nv.write_ndjson(inp, [{"id": 0, "seq": seq, "batch": bool(v.get("batch"))}])
            p = nv.harness("nv-modules", ["query", "--cases", inp], check=False)
            print(p.stdout[:1500])
        rc = 1
    shutil.rmtree(d, ignore_errors=True)
    return rc
