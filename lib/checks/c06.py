"""C06 - a failing input leaves the session unchanged.
MC: FailAtomic (action property) on Session.tla over all histories within the bounds.
G:  every history TLC explored is replayed on a real Context; outcome, output, result of every input and the
    final observation (names + 25 probes incl. the effect of importing every module) are compared with the
    spec's prediction; independently of the spec, the observation before/after every failing input is compared.
J:  (thorough) seeded random long sessions recorded from the real code and validated by Trace_Session.tla.
"""
import json
import os
import shutil
import nv
from checks import session_common as sc

PROP = "C06"


def known_matcher(v, k):
    sig = k.get("signature", {})
    if sig.get("kind") == "import-survives-rollback":
        return v.get("kind") == "c06-direct" and v.get("only_import_probes")
    return False


def run_alphabet(rep, alphabet, depth, d, simulate=None, seed=None):
    res = sc.gen_histories(alphabet, depth, emit="final" if simulate else "all", simulate=simulate, seed=seed)
    if res.violated:
        rep.violation({"kind": "spec-property", "property": res.violated, "alphabet": alphabet, "tlc": res.stdout[-2500:]})
        return
    rep.tlc_stats(res, "MC_Session %s depth %d" % (alphabet, depth))
    meta = res.cases["META"][0]
    cases = res.cases.get("CASE", [])
    inp = os.path.join(d, "cases_%s_%s.ndjson" % (alphabet, depth))
    out = os.path.join(d, "out_%s_%s.ndjson" % (alphabet, depth))
    nv.write_ndjson(inp, [{"id": i, "prelude": meta["prelude"], "modules": meta["modules"], "probes": meta["probes"],
                           "steps": [s["text"] for s in c["steps"]]} for i, c in enumerate(cases)])
    nv.harness("nv-session", ["session-run", "--cases", inp, "--out", out])
    results = nv.read_ndjson_text(open(out, encoding="utf-8").read())
    failing = 0
    for c, r in zip(cases, results):
        rep.add("evaluations", len(c["steps"]))
        if any(s["outcome"] != "ok" for s in c["steps"]):
            failing += 1
        probs = sc.compare_case(c, r)
        if probs:
            rep.violation({"kind": "replay-mismatch", "alphabet": alphabet, "steps": [s["text"] for s in c["steps"]],
                           "problems": probs[:6]}, known_matcher)
        for x in r.get("c06", []):
            diff = [(a["text"], a, b) for a, b in zip(x["before"]["probes"], x["after"]["probes"]) if a != b]
            names_same = all(x["before"][k] == x["after"][k] for k in ("vars", "fns", "units", "dims"))
            rep.violation({"kind": "c06-direct", "alphabet": alphabet, "steps": [s["text"] for s in c["steps"]],
                           "failing_step": x["step"], "changed_probes": [t for t, _, _ in diff][:6],
                           "detail": [{"probe": t, "before": a, "after": b} for t, a, b in diff[:2]],
                           "only_import_probes": names_same and all(t.startswith("use ") for t, _, _ in diff)},
                          known_matcher)
    rep.add("histories", len(cases))
    rep.add("distinct_nontrivial", failing)
    rep.add("traces_validated_against_impl", len(cases))
    for c in cases[len(cases) // 2: len(cases) // 2 + 2]:
        rep.sample({"history": [s["text"] for s in c["steps"]], "predicted": [s["outcome"] for s in c["steps"]]})
    return cases, results, meta


def run(tier, seed):
    rep = nv.Report(PROP, tier, seed, "model_checking")
    nv.build_harness(["nv-session"])
    d = nv.scratch("c06")
    if tier == "quick":
        plan = [("small", 2, None), ("names", 2, None), ("imports", 2, None)]
    else:
        # exhaustive depth 2 over all alphabets, depth 3 over single-statement inputs, and long random histories
        plan = [("small", 2, None), ("names", 2, None), ("imports", 2, None), ("okonly", 3, None),
                ("small", 15, 2000), ("names", 15, 2000), ("imports", 15, 2000)]
    for alphabet, depth, sim in plan:
        run_alphabet(rep, alphabet, depth, d, simulate=sim, seed=seed)
    # design-level demonstration: without restoring the import list the property is violated in the spec
    res = sc.gen_histories("small", 2, rollback=False, emit="none", invariants="Bounded")
    rep.notes["spec_without_import_rollback_violates"] = res.violated
    if res.violated != "FailAtomic":
        raise nv.ToolError("vacuity self-test failed: FailAtomic not violated in the un-repaired rule (%s)" % res.violated)
    rep.set("rule", "all histories of <= Depth inputs (1-2 statements each; thorough adds depth 3 over single statements and 6 000 "
            "TLC-simulated histories of 15 inputs) over three alphabets of statement templates "
            "(names/kinds, imports incl. nested/cyclic/broken modules, mixed); non-trivial = histories containing at "
            "least one failing input")
    rep.set("exhaustive", True)
    rep.assumptions += ["prelude-free sessions with a 4-line mini prelude; module texts served by a harness ModuleImporter",
                        "source labels of diagnostics are not compared (the property exempts them)"]
    if not rep.violations:
        shutil.rmtree(d, ignore_errors=True)
    return rep.finish()


def replay(path, seed):
    data = json.load(open(path))
    for v in data["violations"][:5]:
        print(json.dumps(v)[:2000])
    return 1 if data["violations"] else 0
