"""X_REPL (extra): the read-eval-print loop of the `numbat` command reading lines from a pipe.
Repl.tla composes Commands.tla (command lines) and Session.tla (inputs) with the loop's own state (session history for
`save`, standard output, exit status).
  MC  SaveReplayFaithful, SavedLinesSucceed, StatusFaithful, CmdLinesAreCommands for every script <= MaxLen lines;
      SaveReplayFaithful is VIOLATED under the rule of the pinned tree (ResetClearsHistory = FALSE): design-level
      counterexample `use mb / reset / save` (vacuity self-test in the thorough tier);
  G   every script is piped into the real binary (mini prelude and synthetic modules through NUMBAT_MODULES_PATH): exit
      status, the value lines of standard output, the names shown by every `list`, the number of diagnostics and the
      content of every file written by `save` must be the predicted ones; each saved file is then replayed through the
      real binary (`numbat FILE`) and must run without error.
`repl_conformance` is also part of C07's check (saved history after `reset`)."""
import json
import os
import re
import shutil
import subprocess
from concurrent.futures import ThreadPoolExecutor

import nv
from checks import c22

PROP = "X_REPL"
INVARIANTS = "Bounded MC_SaveReplayFaithful MC_SavedLinesSucceed MC_StatusFaithful MC_CmdLinesAreCommands EmitCase"


def gen_scripts(alphabet, maxlen, clears=True, invariants=INVARIANTS, timeout=3000):
    cfg = os.path.join(nv.SPEC, "_gen_Repl_%s_%d_%d.cfg" % (alphabet, maxlen, os.getpid()))
    with open(cfg, "w") as f:
        f.write("CONSTANTS RollbackImports = TRUE\n          ResetClearsHistory = %s\n          MaxLen = %d\n          Alphabet = \"%s\"\n"
                "SPECIFICATION Spec\nINVARIANTS %s\nCHECK_DEADLOCK FALSE\n" % ("TRUE" if clears else "FALSE", maxlen, alphabet, invariants))
    try:
        return nv.tlc("MC_Repl", os.path.basename(cfg), workers=8, timeout=timeout, want_tags=("CASE", "META"))
    finally:
        os.remove(cfg)


def run_script(runner, case, tag):
    """pipes the script into the real binary; the saved files are written into a private directory"""
    wd = os.path.join(runner.d, "w%s" % tag)
    os.makedirs(wd, exist_ok=True)
    text = "".join(line + "\n" for line in case["lines"])
    try:
        # TERM=dumb makes the line editor print its prompt to standard output even when reading from a pipe
        p = subprocess.run([runner.cli] + c22.BASE_ARGS, env=dict(runner.env, TERM="xterm"), input=text.encode("utf-8"), stdout=subprocess.PIPE,
                           stderr=subprocess.PIPE, timeout=60, cwd=wd)
        out, err, rc = p.stdout.decode("utf-8", "replace"), p.stderr.decode("utf-8", "replace"), p.returncode
    except subprocess.TimeoutExpired:
        out, err, rc = "", "TIMEOUT", None
    files = {}
    for f in sorted(os.listdir(wd)):
        files[f] = open(os.path.join(wd, f), encoding="utf-8").read()
    # replay every saved file through the real binary
    replays = {}
    for f in files:
        q = subprocess.run([runner.cli] + c22.BASE_ARGS + [os.path.join(wd, f)], env=runner.env, stdin=subprocess.DEVNULL,
                           stdout=subprocess.PIPE, stderr=subprocess.PIPE, timeout=60, cwd=wd)
        replays[f] = {"rc": q.returncode, "stderr": q.stderr.decode("utf-8", "replace")[:300]}
    shutil.rmtree(wd, ignore_errors=True)
    return {"rc": rc, "stdout": out, "stderr": err, "files": files, "replays": replays}


WORD = re.compile(r"[A-Za-z_][A-Za-z_0-9]*")
HEADERS = {"List", "of", "functions", "dimensions", "units", "variables"}


def compare(case, obs):
    probs = []
    if obs["rc"] != case["status"]:
        probs.append("exit status: predicted %s, observed %s" % (case["status"], obs["rc"]))
    # standard output: value lines are not indented, everything a command prints is indented by two blanks
    lines = c22.out_lines(obs["stdout"])
    want_values = [str(it["n"]) for it in case["out"] if it["t"] == "value"]
    got_values = [ln for ln in lines if not ln.startswith("  ") and ln.strip()]
    if got_values != want_values:
        probs.append("value lines: predicted %s, observed %s" % (want_values, got_values))
    # the names shown between two value lines = the names of the listings predicted there
    want_blocks, got_blocks, cur = [], [], []
    for it in case["out"]:
        if it["t"] == "value":
            want_blocks.append(sorted(cur))
            cur = []
        elif it["t"] == "names":
            cur += list(it["names"])
    want_blocks.append(sorted(cur))
    cur = []
    info_words = set()
    for it in case["out"]:
        if it["t"] == "note":
            info_words |= set(WORD.findall(it["what"]))
    only_listings = all(it["t"] != "note" for it in case["out"])
    for ln in lines:
        if ln.startswith("  ") or not ln.strip():
            cur += [w for w in WORD.findall(ln) if w not in HEADERS]
        else:
            got_blocks.append(sorted(cur))
            cur = []
    got_blocks.append(sorted(cur))
    # a redefined variable is listed once per definition (`let za = 1`, `let za = 1`, `list variables` shows za twice):
    # the listing is compared as a set of names
    if only_listings and [sorted(set(b)) for b in got_blocks] != [sorted(set(b)) for b in want_blocks]:
        probs.append("listed names: predicted %s, observed %s" % (want_blocks, got_blocks))
    # diagnostics: one `error` headline per predicted diagnostic
    n_err = len(re.findall(r"^error", obs["stderr"], re.M))
    if n_err != case["errs"]:
        probs.append("diagnostics on standard error: predicted %d, observed %d (%s)" % (case["errs"], n_err, c22.headline(obs["stderr"])[:80]))
    # saved files: the last `save` to each file name decides its content
    want_files = {}
    for s in case["saved"]:
        want_files[s["file"]] = "".join(t + "\n" for t in s["texts"])
    if obs["files"] != want_files:
        probs.append("saved files: predicted %s, observed %s" % (want_files, obs["files"]))
    for f, r in obs["replays"].items():
        if r["rc"] != 0:
            probs.append("replaying the saved file %s fails: %s" % (f, r["stderr"][:120]))
    return probs


def repl_conformance(rep, d, alphabet, maxlen, label="repl"):
    """TLC generates the scripts (repaired rule), the real binary runs them; returns the number of scripts"""
    res = gen_scripts(alphabet, maxlen)
    if res.violated:
        rep.violation({"kind": "spec-property", "property": res.violated, "model": "MC_Repl"})
        return 0
    rep.tlc_stats(res, "MC_Repl %s <= %d" % (alphabet, maxlen))
    meta = res.cases["META"][0]
    cases = res.cases.get("CASE", [])
    cli = nv.build_cli()
    runner = c22.Runner(cli, os.path.join(d, label), meta)
    with ThreadPoolExecutor(max_workers=c22.JOBS) as ex:
        observed = list(ex.map(lambda t: run_script(runner, t[1], "%d" % t[0]), enumerate(cases)))
    n_reset_save = 0
    for case, obs in zip(cases, observed):
        rep.add("evaluations", 1)
        if "reset" in case["lines"] and any(l.startswith("save") for l in case["lines"][case["lines"].index("reset"):]):
            n_reset_save += 1
        probs = compare(case, obs)
        if probs:
            rep.violation({"kind": "repl-mismatch", "script": case["lines"], "problems": probs[:6]})
    rep.add("repl_scripts", len(cases))
    rep.add("repl_scripts_with_save_after_reset", n_reset_save)
    rep.add("traces_validated_against_impl", len(cases))
    return len(cases)


def run(tier, seed):
    rep = nv.Report(PROP, tier, seed, "model_checking")
    d = nv.scratch("xrepl")
    plan = [("small", 3), ("full", 2)] if tier == "quick" else [("small", 4), ("mid", 2), ("full", 2)]
    total = 0
    for alphabet, maxlen in plan:
        total += repl_conformance(rep, d, alphabet, maxlen, label="%s%d" % (alphabet, maxlen))
    rep.add("distinct_nontrivial", total)
    if tier != "quick" and not rep.violations:
        res = gen_scripts("small", 3, clears=False, invariants="MC_SaveReplayFaithful")
        if res.violated != "MC_SaveReplayFaithful":
            raise nv.ToolError("vacuity self-test: SaveReplayFaithful is not violated under the pinned rule")
        rep.notes["vacuity_self_test"] = "SaveReplayFaithful is violated under ResetClearsHistory = FALSE (use mb / reset / save)"
    rep.set("rule", "scripts of lines over inputs and commands, alphabets/lengths %s" % (plan,))
    rep.set("exhaustive", True)
    if not rep.violations:
        shutil.rmtree(d, ignore_errors=True)
    return rep.finish()


def replay(path, seed):
    data = json.load(open(path))
    for v in data["violations"][:5]:
        print(json.dumps(v)[:3000])
    return 1 if data["violations"] else 0
