"""C08 - no input crashes or hangs the interpreter.

Spec: spec/Totality.tla - the processing of one input as a state machine over the pipeline stages (resolve, names,
      check, run) and the rendering steps of the answer; the property is totality: every behaviour ends, within the
      budget, with outcome ok | resolver | nameres | type | runtime and a completely rendered answer; panic / crash /
      timeout / oom are explicit outcomes that only a faulty machine reaches.
      spec/Overflow.tla - boundary-class models with the required outcome per class: exponent arithmetic over magnitude
      classes (small, 2^63, 2^126, beyond i128), multifactorial order classes around the 8/16-bit operand sizes (with the
      documented value), nesting depth / operator-run classes 10 .. 100 000 for every recursive construct, literal
      classes (with the verdict of the documented number automaton), size classes (constants / code beyond 16 bits, one
      long session).
MC:   MC_Totality: TypeOK, Total, Prompt, StageOfClass, EndIsObs, Termination hold for Spec; Total is VIOLATED for
      SpecFaulty (non-vacuity); the reachable end states are exactly EndObs.  MC_Overflow: the class models.
G:    (i) MC_TotalitySeq: EVERY token sequence up to the length bound over 4 sub-alphabets (20-token expression core,
      definitions, conditionals/strings, lexical neighbourhood), each pushed through the WHOLE pipeline incl. rendering
      in a fresh prelude-free session, in a prelude-loaded session, and without separating blanks; (ii) every boundary
      class of MC_Overflow.  harness nv-robust runs every case in a child process (pool of workers; CPU-time watchdog;
      panics caught with location and the innermost frames of the code under test; stack overflows / aborts / hangs
      kill the child, not the check).
J:    seeded random driver (grammar-based programs of depth <= 8, byte/char/token mutations of every example and module
      file, extreme literals, random UTF-8, random bytes); one event per input, judged by spec/Trace_Totality.tla.
Findings are classified by narrow signatures (panic: innermost numbat frame + message class + stage; crash: kind +
repetition measure of the input); NV_C08_ASSUME_PROPOSED=1 treats the entries of c08_proposed_findings.json as known
(mutation experiments only).
"""
import json
import os
import re
import shutil
import threading
import time
import nv

PROP = "C08"
JVM = "-Xss512m -Dstdout.encoding=UTF-8 -Dfile.encoding=UTF-8"
HERE = os.path.dirname(os.path.abspath(__file__))
PROPOSED = os.path.join(HERE, "c08_proposed_findings.json")
GOOD = {"ok", "resolver", "nameres", "type", "runtime"}
TIMEOUT_MS = {"quick": 5000, "thorough": 10000}
WORKERS = 14


# ---------------------------------------------------------------------------------------------
# helpers

def gen_cfg(name, text):
    path = os.path.join(nv.SPEC, "_gen_c08_%s_%d.cfg" % (name, os.getpid()))
    with open(path, "w") as f:
        f.write(text)
    return path


def tlc_run(module, name, cfg_text, tags, timeout=1500, workers=8):
    cfg = gen_cfg(name, cfg_text)
    try:
        res = nv.tlc(module, os.path.basename(cfg), workers=workers, timeout=timeout, want_tags=tags, jvm=JVM)
        nv.log("tlc %s %s: %d states, %.1fs" % (module, name, res.distinct, res.wall))
        return res
    finally:
        os.remove(cfg)


def read_ndjson(path):
    """one JSON value per "\\n"-terminated line (str.splitlines would also split at U+0085 / U+2028 inside strings)"""
    with open(path, encoding="utf-8") as f:
        return [json.loads(line) for line in f.read().split("\n") if line.strip()]


def expand(case):
    if "text" in case:
        return case["text"]
    return "".join(p[0] * p[1] for p in case["parts"])


_COUNTED = ["(", "[", "{", "-", "!", "^", "+", "*", "/", "if ", "per ", "->", "|>", "&&", "||", ".", ",", "<", "=="]


def repetition(case):
    """how often the most repeated structural token occurs in one line of the input (for `parts` cases: the largest
    repetition count, times the number of submissions): the measure used by the deep-nesting / size signatures"""
    if "parts" in case:
        return max(p[1] for p in case["parts"]) * int(case.get("rep", 1) or 1)
    best = 0
    for line in case.get("text", "").split("\n"):
        if len(line) > best:
            best = max([best] + [line.count(c) for c in _COUNTED])
    return best


def limit_of(case, tier):
    return int(case.get("tmo", TIMEOUT_MS[tier]))


def too_slow(case, r, tier):
    """answered, but with more CPU time than the limit (the watchdog polls, so an answer can arrive slightly late)"""
    return (r.get("ms") or 0) > limit_of(case, tier)


def run_cases(sc, label, cases, tier, batch=1, workers=WORKERS, timeout_ms=None):
    inp = os.path.join(sc, "cases_%s.ndjson" % label)
    out = os.path.join(sc, "out_%s.ndjson" % label)
    nv.write_ndjson(inp, cases)
    t0 = time.time()
    nv.harness("nv-robust", ["run", "--cases", inp, "--out", out, "--workers", str(workers), "--batch", str(batch),
                             "--timeout-ms", str(timeout_ms or TIMEOUT_MS[tier])], timeout=7200)
    rows = read_ndjson(out)
    summ = rows.pop()
    if not summ.get("summary") or summ["cases"] != len(cases) or len(rows) != len(cases):
        raise nv.ToolError("nv-robust run %s: %d results for %d cases" % (label, len(rows), len(cases)))
    nv.log("harness run %s: %d cases, %d not good, %d respawns, %.1fs" % (label, len(cases), summ["bad"], summ["respawns"], time.time() - t0))
    os.remove(inp)
    os.remove(out)
    return rows, summ


# ---------------------------------------------------------------------------------------------
# classification

def outcome_head(o):
    if o.startswith("crash") and o.endswith(":oom"):
        return "oom"
    return o.split(":")[0]


def first_frame(fr):
    return (fr or "").split(" <- ")[0]


def make_violation(source, case, r, kind=None, extra=None):
    text = expand(case)
    v = {"kind": kind or outcome_head(r["o"]), "source": source, "outcome": r["o"], "stage": r.get("st", ""),
         "cls": r.get("cls", ""), "loc": r.get("loc", ""), "frame": first_frame(r.get("fr")), "frames": r.get("fr", ""),
         "msg": r.get("m", "")[:300], "sess": case.get("sess", "fresh"), "rep": int(case.get("rep", 1) or 1),
         "repetition": repetition(case), "len": len(text), "ms": r.get("ms"),
         "class": case.get("class") or case.get("fam") or "seq", "id": case.get("id", "")}
    if "parts" in case and len(text) > 400:
        v["parts"] = case["parts"]
        v["text_head"] = text[:120]
    else:
        v["text"] = text if len(text) <= 30000 else text[:30000]
        if len(text) > 30000:
            v["text_truncated"] = True
    if r.get("fresh_repro") is not None:
        v["reproduces_on_pristine_session"] = r["fresh_repro"]
    if extra:
        v.update(extra)
    return v


def sig_matches(v, sig):
    if "any" in sig:
        return any(sig_matches(v, s) for s in sig["any"])
    if not sig:
        return False
    for key, want in sig.items():
        if key == "kind":
            if v["kind"] != want:
                return False
        elif key == "frame":
            if want not in v.get("frame", ""):
                return False
        elif key == "frames":
            if want not in v.get("frames", ""):
                return False
        elif key == "loc":
            if want not in v.get("loc", ""):
                return False
        elif key == "message":
            if want not in v.get("msg", ""):
                return False
        elif key == "stage":
            if v.get("stage") != want:
                return False
        elif key == "outcome_contains":
            if want not in v.get("outcome", ""):
                return False
        elif key == "min_repetition":
            if v.get("repetition", 0) < want:
                return False
        elif key == "class_prefix":
            if not str(v.get("class", "")).startswith(want):
                return False
        elif key == "text_regex":
            if not re.search(want, v.get("text", v.get("text_head", "")), re.UNICODE):
                return False
        else:
            return False       # unknown key: never matches (narrow by construction)
    return True


def known_matcher(v, k):
    return sig_matches(v, k.get("signature", {}))


# ---------------------------------------------------------------------------------------------
# recursion heuristic (J only): the property promises promptness for inputs WITHOUT unbounded recursion

_IDENT = re.compile(r"[^\W\d]\w*", re.UNICODE)
_FNDEF = re.compile(r"\bfn\s+([^\W\d]\w*)", re.UNICODE)


def stdlib_fns_with_body():
    """names of the standard-library functions written in Numbat (fn ... = body): calling one may recurse"""
    out = set()
    root = os.path.join(nv.REPO, "numbat", "modules")
    for d, _, fs in os.walk(root):
        for f in fs:
            if f.endswith(".nbt"):
                text = open(os.path.join(d, f), encoding="utf-8", errors="replace").read()
                # a definition with a body: "fn name<..>(..) -> T = ..." possibly over several lines up to the next blank line
                for m in re.finditer(r"^fn\s+([^\W\d]\w*)[^\n]*(?:\n[ \t]+[^\n]*)*", text, re.M | re.UNICODE):
                    if "=" in m.group(0).split(")", 1)[-1] or re.search(r"\)\s*(->[^=\n]*)?=", m.group(0)):
                        out.add(m.group(1))
    return out


def stdlib_fn_arities():
    """name -> number of parameters of every function the standard library defines (foreign or written in Numbat)"""
    out = {}
    root = os.path.join(nv.REPO, "numbat", "modules")
    for d, _, fs in os.walk(root):
        for f in fs:
            if not f.endswith(".nbt"):
                continue
            text = open(os.path.join(d, f), encoding="utf-8", errors="replace").read()
            for m in re.finditer(r"^fn\s+([^\W\d]\w*)\s*(?:<[^>\n]*>)?\(", text, re.M | re.UNICODE):
                depth, k, i, seen = 1, 0, m.end(), False
                while i < len(text) and depth:
                    ch = text[i]
                    if ch in "([<":
                        depth += 1
                    elif ch in ")]":
                        depth -= 1
                    elif ch == ">" and text[i - 1] != "-":
                        depth -= 1
                    elif ch == "," and depth == 1:
                        k += 1
                    if depth and not ch.isspace():
                        seen = True
                    i += 1
                out[m.group(1)] = (k + 1) if seen else 0
    return out


def possibly_recursive(text, sess, stdlib):
    defined = set(_FNDEF.findall(text))
    idents = _IDENT.findall(text)
    if defined:
        counts = {}
        for i in idents:
            counts[i] = counts.get(i, 0) + 1
        if any(counts.get(d, 0) >= 2 for d in defined):
            return True
    if sess == "prelude" or "use " in text:
        if any(i in stdlib for i in idents):
            return True
    return False


# ---------------------------------------------------------------------------------------------
# parts of the check

class Ctx:
    def __init__(self, rep, sc, seed, tier):
        self.rep, self.sc, self.seed, self.tier = rep, sc, seed, tier
        self.pending = []
        self.good_req = None
        self.nontrivial = set()
        self.drift = {}
        self.recheck = []       # (source, case) of time-outs, re-run at the end to confirm
        self.stdlib = None


def mc_totality(cx, with_faulty):
    rep = cx.rep
    res = tlc_run("MC_Totality", "mc", "SPECIFICATION Spec\nINVARIANTS TypeOK Total Prompt StageOfClass EndIsObs EmitEnd\n"
                  "PROPERTY Termination\nCHECK_DEADLOCK FALSE\n", ("END", "META"), workers=2)
    rep.tlc_stats(res, "MC_Totality Spec")
    if res.violated:
        rep.violation({"kind": "spec-invariant", "invariant": res.violated, "model": "MC_Totality", "tlc": res.stdout[-2000:]})
        return
    meta = res.cases["META"][0]
    cx.good_req = set(meta["good"])
    if cx.good_req != GOOD:
        raise nv.ToolError("Totality!GoodOutcomes %s differs from the binding table %s" % (cx.good_req, GOOD))
    ends = {(e["outcome"], e["cls"], e["stage"]) for e in res.cases.get("END", [])}
    want = {(e["outcome"], e["cls"], e["stage"]) for e in meta["endobs"]}
    rep.notes["mc_end_states"] = sorted(o for o, _, _ in ends)
    if ends != want:
        rep.violation({"kind": "spec-invariant", "invariant": "reachable end states = EndObs", "reachable": sorted(ends), "endobs": sorted(want)})
    if with_faulty:
        res2 = tlc_run("MC_Totality", "faulty", "SPECIFICATION SpecFaulty\nINVARIANTS TypeOK Total\nCHECK_DEADLOCK FALSE\n", ("META",), workers=2)
        rep.notes["mc_faulty_machine_violates"] = res2.violated
        if res2.violated != "Total":
            raise nv.ToolError("non-vacuity self-test failed: SpecFaulty does not violate Total (%s)" % res2.violated)


def sequences_cases(cx, maxlen, alphas):
    """-> (cases for the harness, per-case spec info)"""
    cases, info = [], []
    for a in alphas:
        res = tlc_run("MC_TotalitySeq", "seq%d" % a, "CONSTANTS MaxLen = %d\n          Alpha = %d\nSPECIFICATION SSpec\n"
                      "INVARIANT EmitCase\nCHECK_DEADLOCK FALSE\n" % (maxlen(a), a), ("CASE", "META"))
        if res.violated:
            cx.rep.violation({"kind": "spec-invariant", "invariant": res.violated, "model": "MC_TotalitySeq", "tlc": res.stdout[-2000:]})
            return [], []
        cx.rep.tlc_stats(res, "MC_TotalitySeq alphabet %s, length <= %d" % (a or "all", maxlen(a)))
        meta = res.cases["META"][0]
        if set(meta["req"]) != GOOD:
            raise nv.ToolError("required outcome set of MC_TotalitySeq differs from the binding table")
        cx.rep.notes["alphabets"] = meta["alphabets"]
        for c in res.cases.get("CASE", []):
            t = c["t"]
            q = len(info)
            info.append(c)
            cases.append({"q": q, "sess": "fresh", "text": t})
            cases.append({"q": q, "sess": "prelude", "text": t})
            g = t.replace(" ", "")
            if g != t:
                cases.append({"q": q, "sess": "fresh", "text": g, "glued": 1})
    return cases, info


def judge_sequences(cx, cases, info, rows):
    rep = cx.rep
    acc_seen = set()
    for case, r in zip(cases, rows):
        o = r["o"]
        rep.add("evaluations", 1)
        if o in GOOD and too_slow(case, r, cx.tier):
            cx.recheck.append(("G-sequences", case))
            continue
        if o in GOOD:
            c = info[case["q"]]
            if not case.get("glued"):
                # stage prediction of the documented grammar (informational: deviations are C10's subject)
                if c["p"] == "rej" and o != "resolver":
                    cx.drift["grammar rejects, parser accepts"] = cx.drift.get("grammar rejects, parser accepts", 0) + 1
                    cx.drift.setdefault("example: grammar rejects, parser accepts", c["t"])
                elif c["p"] == "acc" and o == "resolver":
                    cx.drift["grammar accepts, parser rejects"] = cx.drift.get("grammar accepts, parser rejects", 0) + 1
                    cx.drift.setdefault("example: grammar accepts, parser rejects", c["t"])
            if o != "resolver":
                acc_seen.add(case["q"])
            continue
        if o == "timeout":
            cx.recheck.append(("G-sequences", case))
            continue
        cx.pending.append(make_violation("G-sequences/alphabet%d" % info[case["q"]]["a"], case, r))
    rep.add("token_sequences", len(info))
    rep.add("token_sequence_runs", len(cases))
    rep.add("token_sequences_past_the_parser", len(acc_seen))
    for q in acc_seen:
        cx.nontrivial.add("seq:" + info[q]["t"])
    if info:
        for c in info[len(info) // 2: len(info) // 2 + 2000]:
            if c["p"] == "acc" and len(c["t"].split(" ")) >= 4:
                rep.sample({"token_sequence": c["t"], "required": sorted(GOOD), "grammar": c["p"]}, limit=3)
                break


def boundary_cases(cx, long_session):
    res = tlc_run("MC_Overflow", "ov", "CONSTANT Long = %s\nSPECIFICATION Spec\nINVARIANTS ModelsOK CaseWellFormed EmitCase\n"
                  "CHECK_DEADLOCK FALSE\n" % ("TRUE" if long_session else "FALSE"), ("CASE", "META"), workers=4)
    if res.violated:
        cx.rep.violation({"kind": "spec-invariant", "invariant": res.violated, "model": "MC_Overflow", "tlc": res.stdout[-2000:]})
        return []
    cx.rep.tlc_stats(res, "MC_Overflow")
    meta = res.cases["META"][0]
    if set(meta["req"]) != GOOD:
        raise nv.ToolError("required outcome set of MC_Overflow differs from the binding table")
    cases = []
    arity = stdlib_fn_arities()
    for c in res.cases.get("CASE", []):
        if c["fam"] == "polyarg":
            # the class is instantiated with every standard-library function of that arity
            for name in sorted(n for n, k in arity.items() if k == c["n"]):
                cc = dict(c)
                cc["id"] = c["id"] + "/" + name
                cc["parts"] = [[name, 1]] + c["parts"][1:]
                cases.append(cc)
        else:
            cases.append(c)
    cx.rep.add("polyarg_functions", len([1 for k in arity.values() if 1 <= k <= 3]))
    for c in cases:
        c["class"] = c["fam"]
        c["want"] = c.pop("val")
        if c["fam"] == "factorial":
            c["val"] = True
        if c["fam"].startswith("size-"):
            c["tmo"] = 20000 if c["rep"] == 1 else 120000     # big inputs / long sessions: their own (stated) time limit
        if c["rep"] == 1:
            del c["rep"]
    cases.sort(key=lambda c: (-c["n"] * c.get("rep", 1), c["id"]))    # the slow ones first
    cx.rep.add("boundary_classes", len(cases))
    return cases


def judge_boundary(cx, cases, rows):
    rep = cx.rep
    if cx.stdlib is None:
        cx.stdlib = stdlib_fns_with_body()
    fams = {}
    for case, r in zip(cases, rows):
        rep.add("evaluations", 1)
        o = r["o"]
        f = fams.setdefault(case["fam"], {})
        f[outcome_head(o)] = f.get(outcome_head(o), 0) + 1
        if o in GOOD and too_slow(case, r, cx.tier):
            cx.recheck.append(("G-classes", case))
            continue
        if o in GOOD:
            cx.nontrivial.add("class:" + case["id"])
            if case["fam"] == "factorial" and o == "ok":
                got = (r.get("v") or "").replace("_", "").strip()
                if got != case["want"]:
                    cx.pending.append(make_violation("G-classes", case, r, kind="wrong-value",
                                                     extra={"documented_value": case["want"], "value": r.get("v"), "order": case["n"]}))
            if case["exact"] == "overflow" and o == "ok":
                cx.drift["value although the exact exponent is not representable"] = cx.drift.get("value although the exact exponent is not representable", 0) + 1
            if case["lit"] == "literal" and o == "resolver":
                cx.drift["documented literal rejected by the parser (%s)" % r.get("m", "")[:40]] = 1
            continue
        if case["fam"] == "polyarg" and case["parts"][0][0] in cx.stdlib and (o == "timeout" or o.endswith(":oom") or o.endswith(":stack-overflow")):
            # a function written in Numbat may recurse without bound on inf / NaN (range(0, inf)): outside the property
            rep.add("polyarg_unbounded_recursion_not_judged", 1)
            continue
        if o == "timeout":
            cx.recheck.append(("G-classes", case))
            continue
        cx.pending.append(make_violation("G-classes", case, r))
    rep.notes["boundary_outcomes_by_family"] = fams
    for c in cases:
        if c["fam"] == "exponent" and c["exact"] == "overflow":
            rep.sample({"boundary_class": c["id"], "parts": c["parts"], "exact": c["exact"], "required": "a reported error"}, limit=4)
            break
    for c in cases:
        if c["fam"] == "factorial" and c["n"] == 65537:
            rep.sample({"boundary_class": c["id"], "parts": c["parts"], "documented_value": c["want"]}, limit=5)
            break


def j_cases(cx, n):
    out = os.path.join(cx.sc, "j_cases.ndjson")
    nv.harness("nv-robust", ["gen", "--seed", str(cx.seed), "--n", str(n), "--repo", nv.REPO, "--out", out])
    cases = read_ndjson(out)
    os.remove(out)
    return cases


def judge_j(cx, cases, rows):
    """writes the trace events, lets Trace_Totality judge them, turns every BAD line into a violation"""
    rep = cx.rep
    if cx.stdlib is None:
        cx.stdlib = stdlib_fns_with_body()
    events = []
    classes = {}
    for case, r in zip(cases, rows):
        text = case["text"]
        rec = possibly_recursive(text, case["sess"], cx.stdlib)
        limit = limit_of(case, cx.tier)
        ms = r.get("ms") or 0
        events.append({"class": case["class"], "len": len(text), "outcome": outcome_head(r["o"]), "cls": r.get("cls", ""),
                       "stage": r.get("st", ""), "ms": int(ms) if ms == int(ms) else int(ms) + 1, "limit": limit, "recursive": rec})
        k = classes.setdefault(case["class"], {})
        k[outcome_head(r["o"])] = k.get(outcome_head(r["o"]), 0) + 1
        if r["o"] in GOOD and r["o"] != "resolver":
            cx.nontrivial.add("j:" + text[:200])
    rep.notes["j_outcomes_by_class"] = classes
    chunk = 5000
    paths = []
    for k in range(0, len(events), chunk):
        p = os.path.join(cx.sc, "trace_%d.ndjson" % (k // chunk))
        nv.write_ndjson(p, events[k:k + chunk])
        paths.append((p, k))
    results = nv.validate_traces_parallel("Trace_Totality", [p for p, _ in paths], cfg="Trace_Totality_lenient.cfg", timeout=1500, jobs=4)
    excused = 0
    for (p, base), res in zip(paths, results):
        if res["res"].cases.get("REJECTED") or res["violated"]:
            raise nv.ToolError("trace validation did not consume all lines of %s (%s)" % (p, res["violated"]))
        rep.add("traces_validated_against_impl", 1)
        bad = {b["line"]: b["verdict"] for b in res["res"].cases.get("BAD", [])}
        n = min(chunk, len(events) - base)
        for i in range(n):
            e = events[base + i]
            if (i + 1) in bad:
                case, r = cases[base + i], rows[base + i]
                if r["o"] == "timeout" or bad[i + 1] == "slow":
                    cx.recheck.append(("J/" + case["class"], case))
                else:
                    cx.pending.append(make_violation("J/" + case["class"], case, r, extra={"verdict": bad[i + 1], "src": case.get("src")}))
            elif e["outcome"] in ("timeout", "oom"):
                excused += 1
    rep.add("evaluations", len(events))
    rep.add("j_events", len(events))
    rep.add("j_timeouts_not_judged_possible_recursion", excused)
    for cls in ("grammar", "mut-token", "extreme"):
        for case in cases:
            if case["class"] == cls and len(case["text"]) < 160:
                rep.sample({"J_class": cls, "sess": case["sess"], "text": case["text"]}, limit=8)
                break
    return events, paths


def confirm_timeouts(cx):
    """a time-out (or an answer beyond the limit) is judged by a second run on a small pool (4 workers) with a six times
    larger limit, so that the verdict does not depend on the load of the machine: what the input EVENTUALLY does decides -
    a crash is reported as that crash, an answer within the original limit was a flake, an answer within three times the
    limit is noted as slow (CPU time on a shared machine varies by such a factor), anything slower or no answer at all is
    a confirmed time-out"""
    if not cx.recheck:
        return
    cases = []
    for _, c in cx.recheck:
        c = dict(c)
        c["tmo"] = 6 * limit_of(c, cx.tier)
        cases.append(c)
    rows, _ = run_cases(cx.sc, "recheck", cases, cx.tier, batch=1, workers=4)
    flaky = slow = 0
    for (source, case), r in zip(cx.recheck, rows):
        limit = limit_of(case, cx.tier)
        if r["o"] in GOOD and (r.get("ms") or 0) <= limit:
            flaky += 1
            continue
        if r["o"] in GOOD and (r.get("ms") or 0) <= 3 * limit:
            slow += 1
            cx.drift["answered within 3x the time limit on the second run (not judged)"] = cx.drift.get("answered within 3x the time limit on the second run (not judged)", 0) + 1
            cx.drift.setdefault("example: slow", case.get("id") or expand(case)[:80])
            continue
        kind = "timeout" if r["o"] in GOOD else None       # answered, but far beyond the limit
        cx.pending.append(make_violation(source, case, r, kind=kind, extra={"confirmed_by_second_run": True}))
    cx.rep.add("timeouts_first_run", len(cases))
    cx.rep.add("timeouts_not_confirmed", flaky)
    cx.rep.add("timeouts_slow_not_judged", slow)


def report(cx):
    rep = cx.rep
    summary = {}
    for v in cx.pending:
        key = "%s | %s | %s | %s" % (v["kind"], v["stage"], v["frame"] or v["loc"] or v["outcome"], v["source"].split("/")[0])
        summary[key] = summary.get(key, 0) + 1
        rep.violation(v, known_matcher)
    if summary:
        rep.notes["not_good_summary"] = summary
        for k, n in sorted(summary.items()):
            nv.log("not good: %6d  %s" % (n, k))
    if cx.drift:
        rep.notes["model_drift"] = cx.drift
        print("MODEL-DRIFT: property=C08 predictions beyond totality that the implementation does not follow (not part of "
              "the property; the grammar deviations are C10's findings): %s" % json.dumps(cx.drift, ensure_ascii=False)[:900])


def self_tests(cx, events):
    """binding self-tests: (1) G - a result row corrupted to outcome 'panic' is noticed by the judge; (2) J - a trace with one
    corrupted event is rejected by the strict trace spec at exactly that line"""
    rep = cx.rep
    before = len(cx.pending)
    case = {"q": 0, "sess": "fresh", "text": "1 + 1"}
    judge_sequences(cx, [case], [{"a": 1, "t": "1 + 1", "p": "acc"}], [{"o": "panic", "st": "interpret", "m": "selftest", "loc": "x.rs:1", "fr": "numbat::selftest"}])
    noticed = len(cx.pending) == before + 1
    del cx.pending[before:]
    rep.add("evaluations", -1)
    rep.add("token_sequences", -1)
    rep.add("token_sequence_runs", -1)
    rep.notes["selftest_G_corrupted_outcome_detected"] = noticed
    if not noticed:
        raise nv.ToolError("binding self-test failed: corrupted outcome not detected")
    good = [e for e in events if e["outcome"] in GOOD and e["stage"] == "done" and e["ms"] <= e["limit"]][:400]
    if len(good) < 50:
        raise nv.ToolError("binding self-test: too few accepted events")
    k = len(good) // 2
    lines = [dict(e) for e in good]
    lines[k]["outcome"] = "panic"
    lines[k]["stage"] = "render-term"
    p = os.path.join(cx.sc, "trace_corrupt.ndjson")
    nv.write_ndjson(p, lines)
    r = nv.validate_trace("Trace_Totality", p)
    rep.notes["selftest_J_corrupted_event_rejected_after_matching"] = r["matched"]
    if r["accepted"] or r["matched"] != k:
        raise nv.ToolError("binding self-test failed: corrupted trace event %d not rejected there (%s)" % (k, r["matched"]))
    lines[k] = dict(good[k])
    lines[k]["ms"] = lines[k]["limit"] + 1
    nv.write_ndjson(p, lines)
    r = nv.validate_trace("Trace_Totality", p)
    rep.notes["selftest_J_slow_event_rejected_after_matching"] = r["matched"]
    if r["accepted"] or r["matched"] != k:
        raise nv.ToolError("binding self-test failed: slow trace event %d not rejected there (%s)" % (k, r["matched"]))


def cleanup_cfgs():
    for f in os.listdir(nv.SPEC):
        if f.startswith("_gen_c08_") and f.endswith("_%d.cfg" % os.getpid()):
            os.remove(os.path.join(nv.SPEC, f))


def run(tier, seed):
    rep = nv.Report(PROP, tier, seed, "exploration")
    if os.environ.get("NV_C08_ASSUME_PROPOSED") and os.path.exists(PROPOSED):
        # mutation experiments only: treat the findings proposed by this check as known, so that the exit status
        # tells whether the mutant adds NEW violations
        have = {k.get("id") for k in rep.known}
        rep.known += [e for e in json.load(open(PROPOSED)) if e.get("property") == PROP and e.get("id") not in have]
        rep.notes["assumed_proposed_findings"] = [e["id"] for e in rep.known]
    nv.build_harness(["nv-robust"])
    sc = nv.scratch("c08")
    cx = Ctx(rep, sc, seed, tier)
    try:
        quick = tier == "quick"
        # J inputs need no TLC: the pool works on them while TLC enumerates the sequences and classes
        jc = j_cases(cx, 20000 if quick else 100000)
        jres = {}

        def j_thread():
            try:
                jres["rows"] = run_cases(sc, "j", jc, tier, batch=2, workers=6)[0]
            except Exception as ex:  # noqa
                jres["error"] = ex
        th = threading.Thread(target=j_thread)
        th.start()
        mc_totality(cx, with_faulty=not quick)
        bc = boundary_cases(cx, long_session=not quick)
        # quick: alphabets 1-4 in one TLC run (length <= 4 for the 20-token core, <= 3 for the others);
        # thorough: every alphabet with its own bound, one after the other (memory)
        plan = [(0, 4)] if quick else [(1, 4), (2, 4), (3, 5), (4, 4), (5, 5), (6, 5), (7, 5)]
        first = True
        for alpha, bound in plan:
            sc_cases, sc_info = sequences_cases(cx, lambda a: bound, [alpha])
            if first:
                th.join()
                if "error" in jres:
                    raise jres["error"]
                first = False
                if not rep.violations:
                    brow, _ = run_cases(sc, "classes", bc, tier, batch=1, workers=WORKERS)
                    judge_boundary(cx, bc, brow)
            if rep.violations:
                break
            srow, _ = run_cases(sc, "seq%d" % alpha, sc_cases, tier, batch=64, workers=WORKERS)
            judge_sequences(cx, sc_cases, sc_info, srow)
            del sc_cases, sc_info, srow
        if not rep.violations:
            events, _ = judge_j(cx, jc, jres["rows"])
            confirm_timeouts(cx)
            self_tests(cx, events)
        report(cx)
        rep.set("distinct_nontrivial", len(cx.nontrivial))
        rep.set("rule", "G (exhaustive part): every token sequence up to the length bound over %d sub-alphabets (20-token expression "
                "core incl. 0 / 1e309 / unknown identifier / unit / function / = / string; 15 definition tokens; 10 conditional, "
                "logic and string tokens; 12 lexical tokens%s) x {fresh prelude-free session, prelude session, text without blanks}; "
                "every boundary class of Overflow.tla (shape x exponent magnitude classes, operand x factorial order, construct x "
                "depth 10..100 000 x session, literal and size classes). J: seeded random grammar-based programs (depth <= 8), "
                "byte/char/token mutations of all example and module files, extreme literals, random UTF-8 / bytes. Every input "
                "goes through the whole pipeline incl. rendering, in a child process. non-trivial = distinct inputs that get past "
                "the parser (they reach name resolution, the type checker or the VM) plus boundary classes with a good outcome"
                % ((4, "") if quick else (7, "; three 12-token sub-alphabets of the core, one token longer")))
        rep.set("exhaustive", False)
        rep.set("exhaustive_part", "token sequences up to the length bound over the sub-alphabets (complete enumeration by TLC); "
                "the boundary classes (complete enumeration of the class combinations)")
        rep.assumptions += [
            "time is CPU time of the worker (limit %d ms per input; size classes 20 s, long sessions 120 s); a time-out is a violation only "
            "if a second run confirms it" % TIMEOUT_MS[tier],
            "worker stack 8 MiB (the default main-thread stack of the CLI), address space limited to 3 GB; the harness is built with overflow "
            "checks and debug assertions on, so wrapped arithmetic is observable as a panic",
            "J: a time-out / memory exhaustion of an input that defines a function used at least twice or mentions a standard-library function "
            "written in Numbat is not judged (possible unbounded recursion; decided textually)",
            "an input that fails leaves a prelude session unchanged (C06), so a worker keeps its session over at most 100 failing inputs and "
            "takes a new copy after every result, panic or crash; a panic in a re-used session is re-run on a pristine copy",
            "beyond the token alphabets and the class models the only oracle is totality"]
        if not rep.violations:
            shutil.rmtree(sc, ignore_errors=True)
        return rep.finish()
    finally:
        cleanup_cfgs()


def replay(path, seed):
    """re-run the recorded failing inputs on the current tree"""
    data = json.load(open(path))
    nv.build_harness(["nv-robust"])
    sc = nv.scratch("c08r")
    cases, vs = [], []
    for v in data["violations"]:
        if v.get("text_truncated") or not ("text" in v or "parts" in v):
            continue
        c = {"sess": v.get("sess", "fresh"), "rep": v.get("rep", 1)}
        if "parts" in v:
            c["parts"] = v["parts"]
        else:
            c["text"] = v["text"]
        if v.get("kind") == "wrong-value":
            c["val"] = True
        if str(v.get("class", "")).startswith("size-"):
            c["tmo"] = 120000
        cases.append(c)
        vs.append(v)
    still = 0
    if cases:
        rows, _ = run_cases(sc, "replay", cases, data.get("tier", "quick") if data.get("tier") in TIMEOUT_MS else "quick", batch=1, workers=8)
        for v, r in zip(vs, rows):
            if v.get("kind") == "wrong-value":
                bad = r["o"] == "ok" and (r.get("v") or "").replace("_", "").strip() != v.get("documented_value")
            else:
                bad = r["o"] not in GOOD
            still += bad
            print(json.dumps({"input": v.get("text", v.get("text_head")), "sess": v.get("sess"), "recorded": v.get("outcome"),
                              "now": r["o"], "stage": r.get("st"), "loc": r.get("loc"), "frame": first_frame(r.get("fr")),
                              "msg": r.get("m", "")[:120], "still_violated": bool(bad)}, ensure_ascii=False)[:1500])
    for v in data["violations"]:
        if v not in vs:
            print(json.dumps(v, ensure_ascii=False)[:800])
            still += 1
    shutil.rmtree(sc, ignore_errors=True)
    return 1 if still else 0
