"""C23 - standard-library inverse conversions round-trip.

Spec: spec/StdlibLaws.tla - (1) the LAW TABLE as data (one row per law outer(inner(x)) = x: text templates, stated
      domain as a rational interval respecting the principal branch, rational grid, tolerance class), (2) an integer
      limb model of instants with the proleptic Gregorian calendar (to write instants as datetime literals and to state
      their exact Unix time), (3) an EXACT integer model of unit_list over chains of units with integer ratios
      (Split = successive floor division; negative input = negated split of the absolute value).  Only the literal law
      (parts add up, all but the last whole, same sign) decides a violation; a result that satisfies it but is not the
      exact Split (e.g. `464 oz -> pounds_and_ounces` = [28 lb, 16 oz]) is reported as MODEL-DRIFT and counted.
MC:   MC_StdlibLaws.tla: the table is well formed (every grid point inside the stated domain, both directions, known
      tolerance classes), the calendar is its own inverse and steps date by date over years 1..9999, Split satisfies the
      law (parts add up, all but the first below their ratio, none negative) and the odometer characterisation for
      every chain, sweep and N.
G:    TLC enumerates rows x grid points, instant rows x instants, chains x sweeps x all N <= MaxN with the exact
      expected parts; harness/nv-stdlib evaluates the Numbat texts on a prelude context; the comparator applies the
      row's tolerance class (TLC has no reals: it is not an oracle for transcendental values).
J:    seeded random values across each row's domain (uniform, near both ends, log-uniform magnitudes), random instants
      (years 1..9999 / 1685..2255), random mixed-unit lists of 2-4 same-dimension units of the dumped prelude unit
      table (comparator: parts add up, all but the last whole, each part below one of the preceding unit), and random
      splits over the integer chains recorded by the harness and validated by spec/Trace_StdlibLaws.tla.
Level: exploration.
"""
import datetime
import json
import math
import os
import random
import shutil
import time
import nv

PROP = "C23"
BIN = "nv-stdlib"
HERE = os.path.dirname(os.path.abspath(__file__))
PROPOSED = os.path.join(HERE, "c23_proposed_findings.json")
EPS = 2.0 ** -52
REL_COND = 1e-12          # TolClasses "cond"
REL_ULPS = 8 * EPS        # TolClasses "ulps" / "instant"
ABS_ULPS = 1e-13
SPLIT_REL = 1e-9          # unit_list: last part
SPLIT_ABS = 1e-12         # unit_list: of the total (sum, last part)
JVM = "-Xss512m -Xmx10g -Dstdout.encoding=UTF-8 -Dfile.encoding=UTF-8"
JULIAN_EPOCH_S = -210866760000     # -4713-11-24 12:00:00 UTC as Unix seconds
BATCH = 25


# ---------------------------------------------------------------------------------------------
# amplification A(x) = |F(x) / F'(x)| of the inner function F (TolClasses "cond")

def _amp(name, x, c):
    a = abs(x)
    f = {
        "affine": lambda: abs(x + c),
        "identity": lambda: a,
        "sin": lambda: abs(math.tan(x)),
        "asin": lambda: abs(math.asin(x)) * math.sqrt(1 - x * x),
        "cos": lambda: abs(1 / math.tan(x)),
        "acos": lambda: abs(math.acos(x)) * math.sqrt(1 - x * x),
        "tan": lambda: abs(math.sin(x) * math.cos(x)),
        "atan": lambda: abs(math.atan(x)) * (1 + x * x),
        "sinh": lambda: abs(math.tanh(x)),
        "asinh": lambda: abs(math.asinh(x)) * math.hypot(1, x),
        "cosh": lambda: abs(1 / math.tanh(x)),
        "acosh": lambda: math.acosh(x) * math.sqrt(x - 1) * math.sqrt(x + 1),
        "tanh": lambda: abs(math.sinh(2 * x)) / 2,
        "atanh": lambda: abs(math.atanh(x)) * (1 - x * x),
        "exp": lambda: 1.0,
        "ln": lambda: abs(x * math.log(x)),
        "pow10": lambda: 1 / math.log(10),
        "log10": lambda: abs(x * math.log(x)),
        "pow2": lambda: 1 / math.log(2),
        "log2": lambda: abs(x * math.log(x)),
        "sqr": lambda: a / 2,
        "sqrt": lambda: 2 * a,
        "cube": lambda: a / 3,
        "cbrt": lambda: 3 * a,
        "cot": lambda: abs(math.sin(x) * math.cos(x)),
        "acot": lambda: abs(math.atan(1 / x)) * (1 + x * x),
        "coth": lambda: abs(math.sinh(2 * x)) / 2,
        "acoth": lambda: abs(0.5 * math.log((x + 1) / (x - 1))) * (x * x - 1),
        "secant": lambda: abs(1 / math.tan(x)),
        "arcsecant": lambda: math.acos(1 / x) * a * math.sqrt(x - 1) * math.sqrt(x + 1),
        "cosecant": lambda: abs(math.tan(x)),
        "acsc": lambda: abs(math.asin(1 / x)) * a * math.sqrt(a - 1) * math.sqrt(a + 1),
        "sech": lambda: abs(1 / math.tanh(x)),
        "asech": lambda: math.acosh(1 / x) * x * math.sqrt(1 - x * x),
        "csch": lambda: abs(math.tanh(x)),
        "acsch": lambda: math.asinh(1 / a) * a * math.hypot(1, a),
    }[name]
    try:
        return f()
    except (OverflowError, ZeroDivisionError):
        return float("inf")
    except ValueError:
        return float("nan")


def rat(p):
    return p[0] / p[1]


# ---------------------------------------------------------------------------------------------
# known findings (proposed entries, see c23_proposed_findings.json): narrow signatures only

def known_matcher(v, k):
    sig = k.get("signature", {})
    kind = sig.get("kind")
    if kind == "unixtime-off-by-one-unit-down":
        if v.get("pair") not in sig.get("pairs", []):
            return False
        if v.get("kind") == "unix-round-trip":
            return float(v["got"]) == float(v["x"]) - 1.0
        if v.get("kind") == "instant-round-trip":
            return v["got_ns"] == v["x_ns"] - v["res_ns"]
        return False
    if kind == "acsch-cancellation":
        if v.get("row") not in sig.get("rows", []) or v.get("x") is None:
            return False
        if v.get("kind") not in ("round-trip", "round-trip-not-finite") and not (
                v.get("kind") == "evaluation-failed" and v.get("detail", {}).get("kind") == "DivisionByZero"):
            return False
        x = float(v["x"])
        if not (x < 0 or x >= sig["positive_argument_from"]):
            return False
        # narrow: the observation must be what the naive formula ln(sqrt(1 + 1/x^2) + 1/x) gives in f64 (its cancellation
        # is the listed defect); anything else on these rows - e.g. NaN where the naive formula is accurate - is reported
        want = _naive_acsch_round_trip(v["row"], x)
        if v.get("kind") == "evaluation-failed":
            return want == "div0"
        if want == "div0" or "got" not in v and v.get("kind") != "round-trip-not-finite":
            return False
        got = float(v["got"]) if "got" in v else float("nan")
        if want != want or got != got:
            return want != want and got != got
        if abs(want) == float("inf") or abs(got) == float("inf"):
            return want == got
        return abs(got - want) <= 1e-6 * abs(want) + 1e-9
    return False


def _naive_acsch(v):
    if v == 0:
        return float("nan")
    arg = math.sqrt(1 + 1 / (v * v)) + 1 / v
    if arg != arg or arg < 0:
        return float("nan")
    if arg == 0:
        return float("-inf")
    return math.log(arg)


def _naive_acsch_round_trip(row, x):
    """the round trip of the row computed with the naive acsch in f64: a float, or "div0" """
    try:
        if row.startswith("acsch(csch("):
            s = math.sinh(x)
            return _naive_acsch(1 / s) if s != 0 else float("nan")
        a = _naive_acsch(x)
        if a == 0:
            return "div0"
        if a != a:
            return float("nan")
        s = math.sinh(a)
        return 1 / s if s != 0 else "div0"
    except OverflowError:
        return float("nan")


# ---------------------------------------------------------------------------------------------
# harness plumbing

def evaluate(sc, label, cases):
    """cases: [{id, steps}] -> list of result lists (aligned)"""
    if not cases:
        return []
    inp, out = os.path.join(sc, label + "_in.ndjson"), os.path.join(sc, label + "_out.ndjson")
    nv.write_ndjson(inp, cases)
    nv.harness(BIN, ["eval", "--cases", inp, "--out", out])
    rows = nv.read_ndjson_text(open(out, encoding="utf-8").read())
    if len(rows) != len(cases):
        raise nv.ToolError("harness returned %d results for %d cases" % (len(rows), len(cases)))
    return [r["r"] for r in rows]


def qval(o):
    """harness step result -> (value, unit) of a quantity or None"""
    if o.get("outcome") != "ok" or "val" not in o or o["val"].get("k") != "q":
        return None
    return float(o["val"]["v"]), o["val"]["u"]


def dtval(o):
    if o.get("outcome") != "ok" or "val" not in o or o["val"].get("k") != "dt":
        return None
    return int(o["val"]["ns"])


# ---------------------------------------------------------------------------------------------
# comparator: real rows

class Stats:
    def __init__(self):
        self.rows = {}

    def note(self, row, ratio):
        s = self.rows.setdefault(row, {"n": 0, "max_err_in_eps_units": 0.0})
        s["n"] += 1
        if ratio == ratio and ratio != float("inf"):
            s["max_err_in_eps_units"] = max(s["max_err_in_eps_units"], ratio)


def judge_real(rep, stats, row, src, texts, r, ptext):
    """row: table row; texts: (x, mid, rt); r: the three harness results. Returns 'ok'|'vacuous'|'violation'|'drift'"""
    base = {"row": row["id"], "pair": row["pair"], "source": src, "p": ptext, "expr": texts[2], "domain": row["dom"]}
    x = qval(r[0])
    if x is None:
        rep.violation(dict(base, kind="argument-failed", detail=r[0]), known_matcher)
        return "violation"
    xv, xu = x
    base["x"] = repr(xv)
    mid = r[1]
    base["inner"] = mid.get("val", mid.get("msg"))
    y = qval(r[2])
    base["obs"] = r[2].get("val", r[2])
    if y is None:
        rep.violation(dict(base, kind="evaluation-failed", detail=r[2]), known_matcher)
        return "violation"
    yv, yu = y
    if yu != xu and xv != 0 and yv != 0:
        print("MODEL-DRIFT: property=C23 row %s: the round trip of %s comes back in unit '%s', the argument is in '%s' "
              "(not compared)" % (row["id"], texts[0], yu, xu))
        rep.add("model_drift_unit", 1)
        return "drift"
    base["got"] = repr(yv)
    if row["tol"] == "ulps":
        tol = REL_ULPS * abs(xv) + ABS_ULPS
        scale = abs(xv) + ABS_ULPS / REL_ULPS
    else:
        a = _amp(row["amp"], xv, rat(row["c"]))
        if a != a or a == float("inf"):
            return "vacuous"
        tol = REL_COND * (a + abs(xv))
        scale = a + abs(xv)
        base["amplification"] = a
    if yv != yv or abs(yv) == float("inf"):
        rep.violation(dict(base, kind="round-trip-not-finite", tol=tol), known_matcher)
        return "violation"
    err = abs(yv - xv)
    if scale > 0:
        stats.note(row["id"], err / (EPS * scale))
    if err > tol:
        rep.violation(dict(base, kind="round-trip", err=err, tol=tol, tol_class=row["tol"]), known_matcher)
        return "violation"
    return "ok"


# ---------------------------------------------------------------------------------------------
# comparator: instant rows

def limbs_us(t):
    return (t[0] * 86400 + t[1]) * 1000000 + t[2]


def judge_instant(rep, stats, row, src, t, texts, r):
    base = {"row": row["id"], "pair": row["pair"], "source": src, "t": t, "expr": texts[2], "obs": r[2].get("val", r[2])}
    us = limbs_us(t)
    if row["arg"] == "instant":
        x = dtval(r[0])
        if x is None:
            rep.violation(dict(base, kind="argument-failed", detail=r[0]), known_matcher)
            return "violation"
        if x != us * 1000:
            # the literal does not denote the instant the spec's calendar says: calendar of the spec or datetime() (C19)
            rep.violation(dict(base, kind="instant-literal", literal=texts[0], impl_ns=x, spec_ns=us * 1000), known_matcher)
            return "violation"
        y = dtval(r[2])
        base["inner"] = r[1].get("val", r[1].get("msg"))
        if y is None:
            rep.violation(dict(base, kind="evaluation-failed", detail=r[2]), known_matcher)
            return "violation"
        origin = 0 if row["origin"] == "unix" else JULIAN_EPOCH_S * 10 ** 9
        tol = REL_ULPS * abs(x - origin) + row["tolres"]
        err = abs(y - x)
        stats.note(row["id"], err / (EPS * abs(x - origin)) if x != origin else 0.0)
        if err > tol:
            rep.violation(dict(base, kind="instant-round-trip", err_ns=err, tol_ns=tol, x_ns=x, got_ns=y,
                               res_ns={"s": 10 ** 9, "ms": 10 ** 6, "us": 1000}[row["res"]]), known_matcher)
            return "violation"
        return "ok"
    x = qval(r[0])
    if x is None:
        rep.violation(dict(base, kind="argument-failed", detail=r[0]), known_matcher)
        return "violation"
    xv, xu = x
    want = {"s": us // 1000000, "ms": us // 1000, "us": us}[row["arg"]]
    if xv != float(want):
        raise nv.ToolError("binding: argument %s evaluates to %r, the spec's instant is %d" % (texts[0], xv, want))
    y = qval(r[2])
    base["inner"] = r[1].get("val", r[1].get("msg"))
    base["x"] = repr(xv)
    if y is None:
        rep.violation(dict(base, kind="evaluation-failed", detail=r[2]), known_matcher)
        return "violation"
    yv, yu = y
    if yu != xu and xv != 0 and yv != 0:
        print("MODEL-DRIFT: property=C23 row %s: result unit '%s', argument unit '%s' (not compared)" % (row["id"], yu, xu))
        rep.add("model_drift_unit", 1)
        return "drift"
    err = abs(yv - xv)
    tol = REL_ULPS * abs(xv) + ABS_ULPS
    if xv != 0:
        stats.note(row["id"], err / (EPS * abs(xv)))
    if not err <= tol:
        rep.violation(dict(base, kind="unix-round-trip", got=repr(yv), err=err, tol=tol, tol_class=row["tol"]), known_matcher)
        return "violation"
    return "ok"


# ---------------------------------------------------------------------------------------------
# comparator: unit_list

def split_expr(units, lit, unit, fn=None):
    if fn:
        return "%s(%s %s)" % (fn, lit, unit)
    return "unit_list([%s], %s %s)" % (", ".join(units), lit, unit)


def int_lit(sign, n, m):
    s = "-" if sign < 0 else ""
    return "(%s%d)" % (s, n) if m == 0 else "(%s%d/%d)" % (s, n, 1 << m)


DRIFT = "unit_list-representation"      # not a violation: reported as MODEL-DRIFT


def classify_split(units, sizes, total, observed, expected=None):
    """units: expected unit texts (largest first), sizes: size of each unit in the unit `total` is expressed in,
    observed: [(value, unit text)], expected: exact parts (values in their units) or None.
    -> (kind | None, detail).  None = the spec's split.  "unit_list-law" (VIOLATION) = the literal law of the property is
    broken: the parts do not add up to the original within the tolerance, a part other than the last is not whole, or
    a part has the wrong sign.  DRIFT = the literal law holds but the representation differs from the spec's exact
    Split (a part equal to one whole next-larger unit at a floating-point boundary, a part above its ratio, other
    units / number of parts): MODEL-DRIFT, counted, not a violation."""
    size_of = dict(zip(units, sizes))
    if not observed or any(u not in size_of for _, u in observed):
        return "unit_list-units", {"why": "a part is expressed in a unit that is not in the list (the sum cannot be judged)"}
    vals = [v for v, _ in observed]
    osizes = [size_of[u] for _, u in observed]
    if any(v != v or abs(v) == float("inf") for v in vals):
        return "unit_list-law", {"why": "non-finite part"}
    abs_tol = SPLIT_ABS * abs(total)
    k = len(units)
    shape_ok = [u for _, u in observed] == units
    if expected is not None and shape_ok:
        same = all(vals[i] == expected[i] for i in range(k - 1))
        same = same and abs(vals[-1] - expected[-1]) * sizes[-1] <= SPLIT_REL * abs(expected[-1]) * sizes[-1] + abs_tol
        if same:
            return None, {}
    sgn = -1.0 if total < 0 else 1.0
    av = [sgn * v for v in vals]
    whole = all(v == math.floor(v) for v in av[:-1])
    s = sum(v * w for v, w in zip(vals, osizes))
    sum_ok = abs(s - total) <= abs_tol
    nonneg = all(v >= 0 for v in av[:-1]) and av[-1] >= -abs_tol / osizes[-1]
    detail = {"whole": whole, "sum_ok": sum_ok, "sum": s, "nonneg": nonneg}
    if not (whole and sum_ok and nonneg):
        return "unit_list-law", detail
    # the literal law holds; everything below is representation
    n = len(vals)
    bounded = all(av[i] * osizes[i] <= osizes[i - 1] * (1 + SPLIT_REL) + abs_tol for i in range(1, n))
    full = any(abs(av[i] * osizes[i] - osizes[i - 1]) <= osizes[i - 1] * SPLIT_REL + abs_tol for i in range(1, n))
    detail.update(bounded=bounded, full_part=full, same_units=shape_ok)
    if expected is not None or not shape_ok or not bounded:
        return DRIFT, detail
    # without an exact expectation (unit sizes are only known as f64) a split at a floating-point boundary cannot be
    # told from the exact one
    return None, detail


class Drift:
    """representation differences of unit_list results (literal law holds): counted, one MODEL-DRIFT line per source"""
    def __init__(self):
        self.n = {}
        self.first = {}
        self.by_chain = {}

    def add(self, source, chain, expr, impl, spec, detail):
        self.n[source] = self.n.get(source, 0) + 1
        if chain:
            self.by_chain[chain] = self.by_chain.get(chain, 0) + 1
        self.first.setdefault(source, {"expr": expr, "impl_parts": impl, "spec_parts": spec,
                                       "a_part_is_one_whole_larger_unit": detail.get("full_part")})

    def report(self, rep):
        for src in sorted(self.n):
            print("MODEL-DRIFT: property=C23 unit_list: %d result(s) [%s] satisfy the literal law (parts add up, all but the "
                  "last whole, same sign) but are not the spec's exact split (e.g. a part equal to one whole next-larger "
                  "unit at a floating-point boundary); first: %s" % (self.n[src], src, json.dumps(self.first[src], ensure_ascii=False)))
        rep.set("model_drift_unit_list", {"by_source": self.n, "by_chain": self.by_chain, "first": self.first})


def observed_parts(val):
    if val is None or val.get("k") != "list":
        return None
    out = []
    for it in val["items"]:
        if it.get("k") != "q":
            return None
        out.append((float(it["v"]), it["u"]))
    return out


def chain_sizes(ch):
    w = [1] * len(ch["units"])
    for i in range(len(ch["ratios"]) - 1, -1, -1):
        w[i] = w[i + 1] * ch["ratios"][i]
    return w


def py_split(n, rs):
    """only used to attach the exact split to an already-judged trace event in reports"""
    out = []
    w = 1
    for r in rs:
        w *= r
    for r in rs:
        out.append(n // w)
        n %= w
        w //= r
    return out + [n]


# ---------------------------------------------------------------------------------------------

def g_phase(rep, sc, tier, stats, drift):
    maxn = 10000 if tier == "quick" else 100000
    inst_n = 40 if tier == "quick" else 400
    stride = 37 if tier == "quick" else 1
    cfg = os.path.join(nv.SPEC, "_gen_StdlibLaws_%d.cfg" % os.getpid())
    with open(cfg, "w") as f:
        f.write("CONSTANTS MaxN = %d\n          InstantN = %d\n          CalStride = %d\n" % (maxn, inst_n, stride))
        f.write("SPECIFICATION Spec\nINVARIANTS TableOK CalendarInv SplitInv InstantInv Emit\nCHECK_DEADLOCK FALSE\n")
    try:
        res = nv.tlc("MC_StdlibLaws", os.path.basename(cfg), workers=8, timeout=2400, want_tags=("CASE", "META"), jvm=JVM)
    finally:
        os.remove(cfg)
    if res.violated:
        rep.violation({"kind": "spec-invariant", "invariant": res.violated, "tlc": res.stdout[-3000:]})
        return None
    rep.tlc_stats(res, "MC_StdlibLaws MaxN=%d InstantN=%d CalStride=%d" % (maxn, inst_n, stride))
    meta = res.cases["META"][0]
    cases = res.cases.get("CASE", [])
    real_rows = {r["id"]: r for r in meta["real"]}
    inst_rows = {r["id"]: r for r in meta["inst"]}
    chains = {c["id"]: c for c in meta["chains"]}
    short = {s["chain"]: s["fn"] for s in meta["shorthands"]}
    rep.set("law_table", {"real_rows": len(real_rows), "instant_rows": len(inst_rows), "chains": len(chains),
                          "pairs": sorted({r["pair"] for r in meta["real"]} | {r["pair"] for r in meta["inst"]})})

    # ---- laws
    law_cases = [c for c in cases if c["k"] in ("real", "instant")]
    outs = evaluate(sc, "g_laws", [{"id": i, "steps": [c["x"], c["mid"], c["rt"]]} for i, c in enumerate(law_cases)])
    per_row = {}
    verdicts = {}
    for c, r in zip(law_cases, outs):
        rep.add("evaluations", 1)
        per_row[c["row"]] = per_row.get(c["row"], 0) + 1
        if c["k"] == "real":
            v = judge_real(rep, stats, real_rows[c["row"]], "G", (c["x"], c["mid"], c["rt"]), r, "%d/%d" % tuple(c["p"]))
            if v != "vacuous" and c["p"][0] != 0:
                rep.add("distinct_nontrivial", 1)
        else:
            v = judge_instant(rep, stats, inst_rows[c["row"]], "G", c["t"], (c["x"], c["mid"], c["rt"]), r)
            rep.add("distinct_nontrivial", 1)
        verdicts[v] = verdicts.get(v, 0) + 1
    rep.set("g_law_cases", {"total": len(law_cases), "verdicts": verdicts, "rows_with_cases": len(per_row)})
    missing = [i for i in list(real_rows) + list(inst_rows) if i not in per_row]
    if missing:
        raise nv.ToolError("rows without a generated case: %s" % missing)
    for c in law_cases[5:: max(1, len(law_cases) // 3)][:3]:
        rep.sample({"G_law": c["row"], "expr": c["rt"]})

    # ---- unit_list: exact expected parts from TLC
    split_cases = []
    for c in cases:
        if c["k"] == "splits":
            for i, parts in enumerate(c["parts"]):
                split_cases.append({"k": "split", "chain": c["chain"], "m": c["m"], "sign": c["sign"], "n": c["n0"] + i, "parts": parts})
    if len(split_cases) != meta["splits"]:
        raise nv.ToolError("TLC printed %d unit_list inputs, the model has %d" % (len(split_cases), meta["splits"]))
    rep.set("mc_checked", {"unit_list_inputs": meta["splits"], "calendar_days": meta["caldays"]})
    jobs = []      # (case, fn)
    for c in split_cases:
        jobs.append((c, None))
        if c["chain"] in short and c["n"] % 7 == 0:
            jobs.append((c, short[c["chain"]]))
    # batches of BATCH consecutive jobs of the same chain in ONE list expression
    jobs.sort(key=lambda j: (j[0]["chain"], j[1] or "", j[0]["m"], j[0]["sign"], j[0]["n"]))
    batches, cur = [], []
    for j in jobs:
        if cur and (cur[0][0]["chain"] != j[0]["chain"] or len(cur) >= BATCH):
            batches.append(cur)
            cur = []
        cur.append(j)
    if cur:
        batches.append(cur)

    def expr_of(j):
        c, fn = j
        ch = chains[c["chain"]]
        return split_expr(ch["units"], int_lit(c["sign"], c["n"], c["m"]), ch["units"][-1], fn)
    nv.log("G: %d law cases judged, evaluating %d unit_list inputs in %d statements" % (len(law_cases), len(jobs), len(batches)))
    outs = evaluate(sc, "g_split", [{"id": i, "steps": ["[" + ", ".join(expr_of(j) for j in b) + "]"]} for i, b in enumerate(batches)])
    single = []
    results = {}
    for bi, (b, r) in enumerate(zip(batches, outs)):
        o = r[0]
        items = o["val"]["items"] if o.get("outcome") == "ok" and o.get("val", {}).get("k") == "list" else None
        if items is None or len(items) != len(b):
            single += [(bi, k) for k in range(len(b))]        # isolate the failing element
        else:
            for k, it in enumerate(items):
                results[(bi, k)] = {"outcome": "ok", "val": it}
    if single:
        outs1 = evaluate(sc, "g_split_single", [{"id": i, "steps": [expr_of(batches[bi][k])]} for i, (bi, k) in enumerate(single)])
        for (bi, k), r in zip(single, outs1):
            results[(bi, k)] = r[0]
    kinds, by_chain = {}, {}
    for bi, b in enumerate(batches):
        for k, (c, fn) in enumerate(b):
            rep.add("evaluations", 1)
            ch = chains[c["chain"]]
            sizes = chain_sizes(ch)
            scale = 1 << c["m"]
            total = c["sign"] * c["n"] / scale
            expected = [float(p) for p in c["parts"][:-1]] + [c["parts"][-1] / scale]
            o = results[(bi, k)]
            obs = observed_parts(o.get("val")) if o.get("outcome") == "ok" else None
            base = {"chain": c["chain"], "expr": expr_of((c, fn)), "spec_parts": expected, "source": "G", "obs": o.get("val", o)}
            if obs is None:
                rep.violation(dict(base, kind="evaluation-failed", detail=o), known_matcher)
                kinds["evaluation-failed"] = kinds.get("evaluation-failed", 0) + 1
                continue
            kind, detail = classify_split(ch["units"], sizes, total, obs, expected)
            nz = sum(1 for p in c["parts"] if p != 0)
            if nz >= 2 and fn is None:
                rep.add("distinct_nontrivial", 1)
            if kind == DRIFT:
                drift.add("G", c["chain"], base["expr"], [v for v, _ in obs], expected, detail)
            elif kind:
                kinds[kind] = kinds.get(kind, 0) + 1
                by_chain[c["chain"]] = by_chain.get(c["chain"], 0) + 1
                rep.violation(dict(base, kind=kind, impl_parts=[v for v, _ in obs], **detail), known_matcher)
    rep.set("g_split_cases", {"total": len(jobs), "via_shorthand_functions": sum(1 for j in jobs if j[1]),
                              "statements": len(batches), "violation_kinds": kinds, "violations_by_chain": by_chain,
                              "model_drift": drift.n.get("G", 0), "max_n": maxn})
    for j in jobs[1234:: max(1, len(jobs) // 2)][:2]:
        rep.sample({"G_split": expr_of(j), "spec_parts": j[0]["parts"], "fraction_bits": j[0]["m"]})
    return meta, law_cases, outs, split_cases


# ---------------------------------------------------------------------------------------------

def fl(x):
    """decimal literal of a float that Numbat reads back to the same f64"""
    s = repr(float(x))
    return "(%s)" % s


def random_params(rng, lo, hi, n):
    out = []
    span = hi - lo
    for i in range(n):
        m = i % 4
        if m == 0 or span == 0:
            p = rng.uniform(lo, hi)
        elif m == 1:
            p = lo + span * 2.0 ** -rng.randint(1, 40)
        elif m == 2:
            p = hi - span * 2.0 ** -rng.randint(1, 40)
        else:
            # log-uniform magnitude inside the domain
            big = max(abs(lo), abs(hi))
            small = max(min(abs(lo), abs(hi)), big * 1e-12) if lo * hi > 0 else big * 1e-12
            mag = math.exp(rng.uniform(math.log(small), math.log(big)))
            p = mag if (hi > 0 and (lo >= 0 or rng.random() < 0.5)) else -mag
        p = min(max(p, lo), hi)
        out.append(p)
    return out


def ordinal_text(day, sod, us):
    d = datetime.date.fromordinal(day + 719163)
    return 'datetime("%04d-%02d-%02d %02d:%02d:%02d.%06d UTC")' % (d.year, d.month, d.day, sod // 3600, sod // 60 % 60, sod % 60, us)


def j_laws(rep, sc, meta, tier, seed, stats):
    rng = random.Random(seed * 7919 + 23)
    n_real = 60 if tier == "quick" else 600
    n_inst = 60 if tier == "quick" else 600
    cases, info = [], []
    for row in meta["real"]:
        lo, hi = rat(row["lo"]), rat(row["hi"])
        for p in random_params(rng, lo, hi, n_real):
            a = row["arg"][0] + fl(p) + row["arg"][1]
            mid = row["inner"][0] + a + row["inner"][1]
            rt = row["outer"][0] + mid + row["outer"][1]
            cases.append({"id": len(cases), "steps": [a, mid, rt]})
            info.append(("real", row, repr(p), (a, mid, rt)))
    for row in meta["inst"]:
        for i in range(n_inst):
            day = rng.randint(row["dlo"], row["dhi"])
            sod = rng.choice([0, 86399, rng.randrange(86400)])
            us = 0 if row["res"] == "s" else rng.randrange(1000) * 1000 if row["res"] == "ms" else rng.choice([1, 999999, rng.randrange(1000000)])
            t = [day, sod, us]
            if row["arg"] == "instant":
                a = ordinal_text(day, sod, us)
            else:
                secs = "(%d*86400 + %d)" % (day, sod)
                num = {"s": secs, "ms": "(%s*1000 + %d)" % (secs, us // 1000), "us": "(%s*1000000 + %d)" % (secs, us)}[row["arg"]]
                a = "(%s%s)" % (num, row["unit"])
            mid = row["inner"][0] + a + row["inner"][1]
            rt = row["outer"][0] + mid + row["outer"][1]
            cases.append({"id": len(cases), "steps": [a, mid, rt]})
            info.append(("instant", row, t, (a, mid, rt)))
    outs = evaluate(sc, "j_laws", cases)
    verdicts = {}
    for (k, row, p, texts), r in zip(info, outs):
        rep.add("evaluations", 1)
        rep.add("j_law_values", 1)
        if k == "real":
            v = judge_real(rep, stats, row, "J", texts, r, p)
        else:
            v = judge_instant(rep, stats, row, "J", p, texts, r)
        if v != "vacuous":
            rep.add("distinct_nontrivial", 1)
        verdicts[v] = verdicts.get(v, 0) + 1
    rep.set("j_law_cases", {"total": len(cases), "verdicts": verdicts})
    rep.sample({"J_law": info[7][1]["id"], "expr": info[7][3][2]})
    return info, outs


def j_unit_lists(rep, sc, meta, tier, seed, drift):
    """random mixed-unit lists of same-dimension prelude units (unit table of the current tree)"""
    from checks import units_common as uc
    units = uc.dump_table()
    rng = random.Random(seed * 104729 + 5)
    # size of every unit in base units and its base-unit vector, as the implementation converts `1 <unit>` (the
    # transitive factors themselves are C03's subject)
    inp, out = os.path.join(sc, "unit_sizes_in.ndjson"), os.path.join(sc, "unit_sizes_out.ndjson")
    nv.write_ndjson(inp, [{"id": i, "exprs": ["1 " + u["name"]]} for i, u in enumerate(units)])
    nv.harness("nv-units", ["eval", "--cases", inp, "--out", out])
    groups, fac = {}, {}
    for u, r in zip(units, nv.read_ndjson_text(open(out, encoding="utf-8").read())):
        o = r["results"][0]
        if o["outcome"] != "ok" or o["raw"].get("k") != "q":
            continue
        f, vec = uc.impl_base(o["raw"])
        if not (f > 0 and math.isfinite(f)):
            continue
        fac[u["name"]] = f
        dim = json.dumps(sorted((k, str(v)) for k, v in vec.items())) + json.dumps(u["dim"])
        groups.setdefault(dim, []).append((u["name"], f))
    # currencies need exchange rates (network); a dimension with one unit has no mixed representation
    groups = {d: g for d, g in groups.items() if len(g) >= 2 and "Money" not in d}
    # binding of the spec's chains to the tree: consecutive units of a chain differ by exactly the stated ratio
    for ch in meta["chains"]:
        for i, r in enumerate(ch["ratios"]):
            a, b = fac.get(ch["units"][i]), fac.get(ch["units"][i + 1])
            if a is None or b is None:
                raise nv.ToolError("chain %s: unit %s / %s is not in the unit table" % (ch["id"], ch["units"][i], ch["units"][i + 1]))
            if abs(a / b - r) > 1e-12 * r:
                rep.violation({"kind": "chain-ratio", "chain": ch["id"], "units": ch["units"][i:i + 2], "spec_ratio": r, "tree_ratio": a / b})
    n = 1500 if tier == "quick" else 15000
    dims = sorted(groups)
    cases, info = [], []
    while len(cases) < n:
        g = groups[rng.choice(dims)]
        k = min(len(g), rng.randint(2, 4))
        pick = rng.sample(g, k)
        pick.sort(key=lambda x: -x[1])
        if any(pick[i][1] <= pick[i + 1][1] * (1 + 1e-9) for i in range(k - 1)):
            continue                      # equal sizes: `unique` would merge or not, not part of the property
        if pick[0][1] / pick[-1][1] > 1e12:
            continue
        inunit = rng.choice(pick)
        mode = rng.randrange(4)
        if mode == 0:
            v = math.exp(rng.uniform(math.log(1e-3), math.log(1e4))) * pick[0][1] / inunit[1]
        elif mode == 1:     # a whole number of one of the units, expressed in another one
            w = rng.choice(pick)
            v = rng.randint(1, 2000) * w[1] / inunit[1]
        elif mode == 2:     # just below a whole number of one of the units
            w = rng.choice(pick)
            v = rng.randint(1, 2000) * w[1] / inunit[1] * (1 - 2.0 ** -rng.randint(20, 52))
        else:
            v = float(rng.randint(0, 100000))
        if rng.random() < 0.2:
            v = -v
        order = list(pick)
        shuffled = rng.random() < 0.25
        if shuffled:
            rng.shuffle(order)
            if rng.random() < 0.5:
                order.append(rng.choice(pick))      # a duplicate
        expr = split_expr([u for u, _ in order], fl(v), inunit[0])
        cases.append({"id": len(cases), "steps": [expr]})
        info.append((pick, inunit, v, expr, shuffled))
    outs = evaluate(sc, "j_units", cases)
    kinds = {}
    skipped = 0
    for (pick, inunit, v, expr, shuffled), r in zip(info, outs):
        o = r[0]
        if o.get("outcome") != "ok":
            # outside the modelled fragment (e.g. a unit whose name is shadowed / not constructible): not judged
            skipped += 1
            kinds["skipped:" + str(o.get("kind"))] = kinds.get("skipped:" + str(o.get("kind")), 0) + 1
            continue
        rep.add("evaluations", 1)
        rep.add("j_unit_lists", 1)
        rep.add("distinct_nontrivial", 1)
        obs = observed_parts(o.get("val"))
        base = {"expr": expr, "source": "J-units", "units": [u for u, _ in pick], "shuffled_list": shuffled, "obs": o.get("val", o)}
        if obs is None:
            rep.violation(dict(base, kind="unit_list-shape", detail=o), known_matcher)
            continue
        sizes = [f / inunit[1] for _, f in pick]
        kind, detail = classify_split([u for u, _ in pick], sizes, v, obs, None)
        if kind == DRIFT:
            drift.add("J-units", None, expr, [x for x, _ in obs], None, detail)
        elif kind:
            kinds[kind] = kinds.get(kind, 0) + 1
            rep.violation(dict(base, kind=kind, impl_parts=[x for x, _ in obs], **detail), known_matcher)
    rep.set("j_unit_list_cases", {"total": len(cases), "skipped_not_evaluable": skipped, "violation_kinds": kinds,
                                  "model_drift": drift.n.get("J-units", 0),
                                  "dimensions": len(dims), "units_available": sum(len(g) for g in groups.values())})
    rep.sample({"J_unit_list": info[3][3]})
    if skipped > len(cases) // 3:
        raise nv.ToolError("too many random unit lists could not be evaluated: %s" % kinds)


def j_trace(rep, sc, meta, tier, seed, drift):
    """random splits over the integer chains recorded by the harness, validated by Trace_StdlibLaws (strict)"""
    chains = {c["id"]: c for c in meta["chains"]}
    cpath = os.path.join(sc, "chains.json")
    json.dump(meta["chains"], open(cpath, "w"))
    ntr, nev = (2, 2500) if tier == "quick" else (8, 5000)
    paths = []
    for k in range(ntr):
        p = os.path.join(sc, "trace_%d.ndjson" % k)
        nv.harness(BIN, ["record", "--chains", cpath, "--seed", str(seed * 1000 + k), "--events", str(nev), "--out", p])
        paths.append(p)
    filtered = []
    inexact = explained = 0
    clean, clean_done = [], False      # events of the first trace that the comparator finds in order (for the self-test)
    for p in paths:
        evs = nv.read_ndjson_text(open(p).read())
        keep = []
        for e in evs:
            rep.add("evaluations", 1)
            rep.add("j_events", 1)
            ch = chains[e["chain"]]
            sizes = chain_sizes(ch)
            scale = 1 << e["m"]
            total = e["sign"] * e["n"] / scale
            obs = [(float(x["v"]), x["u"]) for x in e["raw"]]
            if e["outcome"] != "ok":
                keep.append(e)          # TLC rejects it
                continue
            d = py_split(e["n"], ch["ratios"] + ([scale] if e["m"] else []))
            exp = [float(e["sign"] * x) for x in d[:len(ch["units"]) - 1]] + \
                  [e["sign"] * (d[len(ch["units"]) - 1] + (d[-1] / scale if e["m"] else 0.0))]
            kind, detail = classify_split(ch["units"], sizes, total, obs, exp)
            if kind is None and not clean_done:
                clean.append({k2: e[k2] for k2 in ("chain", "m", "sign", "n", "outcome", "exact", "units_ok", "parts")})
            if kind == DRIFT:
                # the literal law holds, the strict trace spec would reject the representation: reported as drift,
                # not given to TLC
                drift.add("J-trace", e["chain"], e["code"], [x for x, _ in obs], exp, detail)
                continue
            if kind:
                v = dict(kind=kind, chain=e["chain"], expr=e["code"], impl_parts=[x for x, _ in obs], spec_parts=exp, source="J-trace",
                         obs={"k": "list", "items": [{"k": "q", "u": x["u"], "v": x["v"]} for x in e["raw"]]}, **detail)
                if not rep.violation(v, known_matcher):
                    explained += 1      # carries the signature of a known finding: not given to TLC again
                    continue
            if not e["exact"]:
                inexact += 1            # outside the integer model: judged by the comparator above only
                if kind is None:
                    rep.add("distinct_nontrivial", 1)
            keep.append({k2: e[k2] for k2 in ("chain", "m", "sign", "n", "outcome", "exact", "units_ok", "parts")})
        fp = p.replace(".ndjson", "_f.ndjson")
        nv.write_ndjson(fp, keep)
        filtered.append(fp)
        clean_done = True
    results = nv.validate_traces_parallel("Trace_StdlibLaws", filtered, timeout=1500, jobs=4)
    for fp, r in zip(filtered, results):
        rep.add("traces_validated_against_impl", 1)
        lines = open(fp).read().splitlines()
        rep.add("j_events_validated_by_tlc", sum(1 for x in lines if json.loads(x)["exact"]))
        if not r["accepted"]:
            m = r["matched"] if r["matched"] is not None else 0
            ev = json.loads(lines[m]) if m < len(lines) else None
            already = any(v.get("source") == "J-trace" and ev and v.get("chain") == ev["chain"] for v in rep.violations)
            if not already:
                rep.violation({"kind": "trace-rejected", "matched": m, "total": r["total"], "violated": r["violated"],
                               "event": ev}, known_matcher)
    rep.set("j_trace", {"traces": ntr, "events": ntr * nev, "outside_integer_model_judged_by_comparator": inexact,
                        "explained_by_known_finding": explained, "model_drift_not_given_to_tlc": drift.n.get("J-trace", 0)})
    rep.sample({"J_trace_event": json.loads(open(filtered[0]).readline())})
    cp = os.path.join(sc, "trace_clean.ndjson")
    nv.write_ndjson(cp, clean)
    return cp


# ---------------------------------------------------------------------------------------------
# binding self-tests: a corrupted expectation / recorded field must be noticed

def self_tests(rep, sc, meta, law_cases, split_cases, clean_trace):
    chains = {c["id"]: c for c in meta["chains"]}
    # G unit_list: corrupt one expected part
    c = next(x for x in split_cases if x["chain"] == "hms" and x["n"] == 3661 and x["m"] == 0 and x["sign"] == 1)
    ch = chains[c["chain"]]
    expr = split_expr(ch["units"], int_lit(1, c["n"], 0), ch["units"][-1])
    o = evaluate(sc, "self_split", [{"id": 0, "steps": [expr]}])[0][0]
    obs = observed_parts(o.get("val"))
    bad = [float(p) for p in c["parts"]]
    bad[0] += 1
    k1, _ = classify_split(ch["units"], chain_sizes(ch), float(c["n"]), obs, bad)
    k0, _ = classify_split(ch["units"], chain_sizes(ch), float(c["n"]), obs, [float(p) for p in c["parts"]])
    rep.notes["selftest_G_corrupted_expected_part_detected"] = bool(k1) and k0 is None
    # G law: an observation moved by 10 tolerances must be flagged
    probe = nv.Report(PROP, "selftest", 0, "exploration")
    probe.known = []
    row = next(r for r in meta["real"] if r["id"] == "asin(sin(x))")
    st = Stats()
    x = 0.5
    tol = REL_COND * (_amp("sin", x, 0) + x)
    fake = [{"outcome": "ok", "val": {"k": "q", "v": repr(x), "u": ""}}, {"outcome": "ok", "val": {"k": "q", "v": "0", "u": ""}},
            {"outcome": "ok", "val": {"k": "q", "v": repr(x + 10 * tol), "u": ""}}]
    v1 = judge_real(probe, st, row, "selftest", ("x", "m", "r"), fake, "1/2")
    fake[2]["val"]["v"] = repr(x + 0.1 * tol)
    v2 = judge_real(probe, st, row, "selftest", ("x", "m", "r"), fake, "1/2")
    rep.notes["selftest_G_law_outside_tolerance_detected"] = (v1 == "violation" and v2 == "ok")
    # J trace: corrupt one recorded part
    lines = open(clean_trace).read().splitlines()
    k = next(i for i in range(len(lines) // 2, len(lines)) if json.loads(lines[i])["exact"] and json.loads(lines[i])["n"] > 0)
    e = json.loads(lines[k])
    e["parts"][-1] += e["sign"]
    lines[k] = json.dumps(e)
    badp = os.path.join(sc, "trace_corrupt.ndjson")
    open(badp, "w").write("\n".join(lines) + "\n")
    r = nv.validate_trace("Trace_StdlibLaws", badp)
    r2 = nv.validate_trace("Trace_StdlibLaws", badp, cfg="Trace_StdlibLaws_law.cfg")
    rep.notes["selftest_J_corrupted_event_rejected_at_line"] = r["matched"]
    rep.notes["selftest_J_corrupted_event_rejected_by_law_only_cfg_at_line"] = r2["matched"]
    ok = (not r["accepted"]) and r["matched"] == k and (not r2["accepted"]) and r2["matched"] == k
    if not (ok and rep.notes["selftest_G_corrupted_expected_part_detected"] and rep.notes["selftest_G_law_outside_tolerance_detected"]):
        raise nv.ToolError("binding self-test failed: %s (corrupted line %d)" % (rep.notes, k))


def run(tier, seed):
    rep = nv.Report(PROP, tier, seed, "exploration")
    if os.environ.get("NV_C23_ASSUME_PROPOSED") and os.path.exists(PROPOSED):
        # mutation experiments only: treat the findings proposed by this check as known, so that the exit status
        # tells whether the mutant adds NEW violations
        rep.known += [e for e in json.load(open(PROPOSED)) if e.get("property") == PROP]
        rep.notes["assumed_proposed_findings"] = [e["id"] for e in rep.known]
    nv.build_harness([BIN, "nv-units"])
    sc = nv.scratch("c23")
    stats = Stats()
    t0 = time.time()
    drift = Drift()
    g = g_phase(rep, sc, tier, stats, drift)
    if g is None:
        return rep.finish()
    meta, law_cases, _outs, split_cases = g
    t1 = time.time()
    j_laws(rep, sc, meta, tier, seed, stats)
    t2 = time.time()
    j_unit_lists(rep, sc, meta, tier, seed, drift)
    t3 = time.time()
    clean_trace = j_trace(rep, sc, meta, tier, seed, drift)
    t4 = time.time()
    rep.set("phase_wall_s", {"MC+G": round(t1 - t0, 1), "J laws": round(t2 - t1, 1), "J unit lists": round(t3 - t2, 1), "J trace": round(t4 - t3, 1)})
    nv.log("phases:", rep.cov["phase_wall_s"])
    drift.report(rep)
    self_tests(rep, sc, meta, law_cases, split_cases, clean_trace)
    worst = sorted(((s["max_err_in_eps_units"], rid) for rid, s in stats.rows.items()), reverse=True)
    rep.set("max_round_trip_error_in_units_of_2^-52*(A+|x|)", {rid: round(v, 2) for v, rid in worst[:12]})
    rep.set("rule", "G: every row of the law table x every grid/extra point of its domain, every instant row x InstantN "
            "instants, every chain x sweep (fraction bits, sign) x every N <= MaxN with the exact expected parts (plus the "
            "documented shorthand functions on every 7th N); J: random values per row (uniform, near both domain ends, "
            "log-uniform), random instants, random 2-4 unit lists of same-dimension prelude units, random splits over the "
            "chains validated by TLC. distinct_nontrivial = law points with x != 0 and a finite amplification, splits with "
            "at least two non-zero parts, all random J cases that were judged.")
    rep.assumptions += [
        "tolerance class cond: |outer(inner(x)) - x| <= 1e-12 * (|F(x)/F'(x)| + |x|), F the inner function (first-order "
        "conditioning; domains keep >= 2.6e-5 from branch ends so that the first-order bound is valid)",
        "tolerance class ulps: 8*2^-52*|x| + 1e-13 for numbers that are only re-expressed; exact for whole-number Unix times; "
        "instant: 8*2^-52*|t - origin| + resolution (1 us Unix, 1 ns Julian date)",
        "unit_list: VIOLATION iff the literal law is broken (sum of the parts differs from the original by more than 1e-12 of it, a part "
        "other than the last is not whole, a part has the wrong sign); a result that satisfies it but is not the spec's exact Split "
        "(whole parts exactly, last part within 1e-9 relative + 1e-12 of the total) is MODEL-DRIFT, counted in model_drift_unit_list",
        "Unix time rows: |t| < 2^53 us (years 1685..2255) so that the microsecond count is an exact f64; Julian date rows: years 1..9999",
        "the spec is not an oracle for transcendental values: closeness is judged by the comparator, inputs are the f64 the "
        "implementation itself reads from the case's text",
        "random unit lists skip currencies (exchange rates) and lists with two units of equal size"]
    shutil.rmtree(sc, ignore_errors=True)      # the replay file carries the failing expressions and observations
    return rep.finish()


def replay(path, seed):
    """re-evaluate the recorded failing expressions on the current tree: exit 1 iff one of them still gives the
    recorded observation (the violation reproduces), 0 if all of them changed"""
    data = json.load(open(path))
    nv.build_harness([BIN])
    sc = nv.scratch("c23_replay")
    vs = [v for v in data["violations"] if v.get("expr") and "obs" in v]
    other = [v for v in data["violations"] if not (v.get("expr") and "obs" in v)]
    outs = evaluate(sc, "replay", [{"id": i, "steps": [v["expr"]]} for i, v in enumerate(vs)])
    still = 0
    for i, (v, r) in enumerate(zip(vs, outs)):
        now = r[0].get("val", r[0])
        same = now == v["obs"]
        still += same
        if i < 20:
            print(json.dumps({"kind": v["kind"], "expr": v["expr"], "recorded": v["obs"], "now": now, "reproduces": same}, ensure_ascii=False)[:1500])
    for v in other[:5]:
        print(json.dumps(v, ensure_ascii=False)[:1500])
    shutil.rmtree(sc, ignore_errors=True)
    print("%d of %d recorded violations reproduce identically (%d without an expression to re-run)" % (still, len(vs), len(other)))
    return 1 if still or other else 0
