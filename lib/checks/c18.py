"""C18 - lists behave as immutable values despite internal sharing.
MC: List.tla invariants (Refines, EqOk, EndIsLen, RcOk, NoPanic, Isolation) over the complete
    reachable graph within (NH handles, MaxLen allocation length).
G:  TLC's state graph is dumped; every transition (quick: NH=2) is replayed on real
    NumbatList<u32> handles; contents, len, ==, allocation contents, view, strong count and
    sharing are compared after every step.
J:  seeded random operation sequences on real handles are recorded and validated by Trace_List.tla.
"""
import json
import os
import nv

PROP = "C18"


def canon_node(nid, st, nh):
    """spec state -> expectation in the harness' observation format"""
    hd, heap, ab, last = st["hd"], st["heap"], st["abs"], st["last"]
    hs = []
    for i in range(nh):
        h = hd[i]
        if not h["live"]:
            hs.append({"live": False})
            continue
        cls = min(j + 1 for j in range(nh) if hd[j]["live"] and hd[j]["a"] == h["a"])
        al = heap[h["a"] - 1]
        hs.append({"live": True, "abs": ab[i], "cls": cls, "el": al["el"],
                   "view": [h["s"], h["e"]] if h["hasview"] else [], "rc": al["rc"]})
    return {"id": nid, "op": last["op"], "h": last["h"], "g": last["g"], "x": last["x"],
            "res": last["res"], "hs": hs}


def write_cfg(path, nh, maxlen, elems="{1, 2}", view=False):
    with open(path, "w") as f:
        f.write("CONSTANTS NH = %d\n          Elems = %s\n          MaxLen = %d\n" % (nh, elems, maxlen))
        f.write("SPECIFICATION Spec\nINVARIANTS TypeOK Refines EqOk EndIsLen RcOk NoPanic\n")
        f.write("PROPERTY Isolation\nCHECK_DEADLOCK FALSE\n")
        if view:
            f.write("VIEW ViewNoLast\n")


def g_replay(rep, nh, maxlen, view, sc, label):
    cfg = os.path.join(nv.SPEC, "_gen_List_%s.cfg" % label)
    write_cfg(cfg, nh, maxlen, view=view)
    res, nodes, edges, inits = nv.tlc_graph("List", os.path.basename(cfg), workers=8, timeout=3000)
    os.remove(cfg)
    if res.violated:
        rep.violation({"kind": "spec-invariant", "invariant": res.violated, "model": label})
        return
    rep.tlc_stats(res, "List graph " + label)
    if view:
        # with VIEW the `last` label of a node is the operation of its FIRST discovery only; the operation of every
        # edge is taken from the edge label (TLC prints the action with its arguments) and the result from the source
        # state's abstract value
        import re as _re
        OPS = {"New": "new", "Clone": "clone", "Drop": "drop", "TailOp": "tail", "HeadOp": "head", "PushFront": "push_front", "PushBack": "push_back"}

        def step_of(src, dst, lab):
            m = _re.match(r"(\w+)\(([^)]*)\)", lab)
            name, args = m.group(1), [int(a) for a in m.group(2).split(",")]
            op = OPS[name]
            h = args[0]
            g = args[1] if op == "clone" else 0
            x = args[1] if op in ("push_front", "push_back") else 0
            ab = nodes[src]["abs"][h - 1]
            res = "-"
            if op == "tail":
                res = "err" if not ab else "ok"
            if op == "head":
                res = "none" if not ab else str(ab[0])
            return {"id": dst, "op": op, "h": h, "g": g, "x": x, "res": res}
        seen = set(inits)
        parent = {}
        order = list(inits)
        succ = {}
        for s_, d_, a_ in edges:
            succ.setdefault(s_, []).append((d_, a_))
        qi = 0
        while qi < len(order):
            u = order[qi]
            qi += 1
            for d_, a_ in succ.get(u, []):
                if d_ not in seen:
                    seen.add(d_)
                    parent[d_] = (u, a_)
                    order.append(d_)
        children = {}
        for d_, (u, a_) in parent.items():
            children.setdefault(u, []).append(d_)
        paths = []
        for n_ in order:
            if n_ not in children and n_ in parent:
                steps = []
                cur = n_
                while cur in parent:
                    u, a_ = parent[cur]
                    steps.append(step_of(u, cur, a_))
                    cur = u
                paths.append([cur] + steps[::-1])
        edges = [(u, d_, a_) for d_, (u, a_) in parent.items()]
    else:
        paths = nv.graph_paths(nodes, edges, inits)
    npath = os.path.join(sc, "nodes_%s.ndjson" % label)
    ppath = os.path.join(sc, "paths_%s.ndjson" % label)
    nv.write_ndjson(npath, [canon_node(i, st, nh) for i, st in nodes.items()])
    nv.write_ndjson(ppath, paths)
    opath = os.path.join(sc, "out_%s.ndjson" % label)
    nv.harness("nv-list", ["list-replay", "--nodes", npath, "--paths", ppath, "--nh", str(nh), "--out", opath])
    rows = nv.read_ndjson_text(open(opath, encoding="utf-8").read())
    summ = rows[-1]
    for r in rows[:-1]:
        if r["kind"] == "mismatch":
            rep.violation({"kind": "replay-mismatch", "model": label, **r})
    if summ.get("drift"):
        rep.add("model_drift_steps", summ["drift"])
        print("MODEL-DRIFT: property=C18 the internal list representation differs from the one List.tla mirrors "
              "on %d replayed steps (abstract behaviour still checked); e.g. %s" % (
                  summ["drift"], json.dumps([r for r in rows if r["kind"] == "drift"][:1])[:600]))
    rep.add("evaluations", summ["steps"])
    rep.add("g_paths", summ["paths"])
    rep.add("g_transitions_replayed", len(edges))
    rep.add("distinct_nontrivial", summ["nodes_covered"])
    rep.add("traces_validated_against_impl", summ["paths"])
    for p in sorted(paths, key=len)[-2:]:
        rep.sample({"G_path": [([nodes[i]["last"]["op"], nodes[i]["last"]["h"], nodes[i]["last"]["g"], nodes[i]["last"]["x"]] if isinstance(i, str)
                                else [i["op"], i["h"], i["g"], i["x"]]) for i in p[1:]]})
    if rep.violations or summ.get("drift"):
        return
    # self-test of the binding: corrupt one expectation, the replay must notice
    nds = [canon_node(i, st, nh) for i, st in nodes.items()]
    victim = next(n for n in nds if n["op"] == "push_back")
    victim["hs"] = [dict(h, rc=h["rc"] + 1) if h.get("live") else h for h in victim["hs"]]
    nv.write_ndjson(npath, nds)
    nv.harness("nv-list", ["list-replay", "--nodes", npath, "--paths", ppath, "--nh", str(nh), "--out", opath])
    rows = nv.read_ndjson_text(open(opath, encoding="utf-8").read())
    rep.notes["selftest_G_corrupted_expectation_detected"] = rows[-1]["drift"] > 0
    if rows[-1]["drift"] == 0:
        raise nv.ToolError("binding self-test failed: corrupted expectation not detected")


def j_validate(rep, seed, ntraces, events, sc):
    paths = []
    for k in range(ntraces):
        p = os.path.join(sc, "trace_%d.ndjson" % k)
        nv.harness("nv-list", ["list-record", "--seed", str(seed * 1000 + k), "--events", str(events), "--nh", "3",
                    "--maxlen", str(4 + 2 * (k % 4)), "--elems", "3", "--out", p])
        paths.append(p)
    results = nv.validate_traces_parallel("Trace_List", paths, timeout=1500)
    for p, r in zip(paths, results):
        n = sum(1 for _ in open(p))
        rep.add("evaluations", n)
        rep.add("j_events", n)
        rep.add("traces_validated_against_impl", 1)
        if not r["accepted"]:
            # representation-level rejection is model drift, not a C18 violation: re-judge the trace at
            # the level of the property (contents, length, equality, results)
            r2 = nv.validate_trace("Trace_List", p, cfg="Trace_List_abs.cfg")
            if r2["accepted"]:
                rep.add("model_drift_traces", 1)
                print("MODEL-DRIFT: property=C18 trace %s rejected by the strict (representation) trace spec at "
                      "event %s but accepted at the abstract level" % (os.path.basename(p), r["matched"]))
                continue
            r = r2
            lines = open(p).read().splitlines()
            m = r["matched"] if r["matched"] is not None else 0
            rep.violation({"kind": "trace-rejected", "matched": m, "total": r["total"], "violated": r["violated"],
                           "event": json.loads(lines[m]) if m < len(lines) else None,
                           "prefix": [json.loads(x)["op"] for x in lines[max(0, m - 8):m]],
                           "trace_file": p})
    ev = json.loads(open(paths[0]).readline())
    rep.sample({"J_event": ev})
    if rep.violations or rep.cov.get("model_drift_traces"):
        return
    # self-test: corrupt one recorded field -> must be rejected at that line
    lines = open(paths[0]).read().splitlines()
    k = len(lines) // 2
    e = json.loads(lines[k])
    for h in e["hs"]:
        if h["live"]:
            h["rc"] += 1
            break
    lines[k] = json.dumps(e)
    bad = os.path.join(sc, "trace_corrupt.ndjson")
    open(bad, "w").write("\n".join(lines) + "\n")
    r = nv.validate_trace("Trace_List", bad)
    ok = (not r["accepted"]) and r["matched"] == k
    rep.notes["selftest_J_corrupted_event_rejected_at_line"] = r["matched"]
    if not ok:
        raise nv.ToolError("binding self-test failed: corrupted trace accepted or rejected elsewhere (%s)" % r["matched"])


def run(tier, seed):
    rep = nv.Report(PROP, tier, seed, "model_checking")
    nv.build_harness(["nv-list"])
    sc = nv.scratch("c18")
    # MC
    cfg = os.path.join(nv.SPEC, "_gen_List_mc.cfg")
    if tier == "quick":
        write_cfg(cfg, 3, 2)
    else:
        write_cfg(cfg, 3, 3)
    res = nv.tlc("List", os.path.basename(cfg), workers=12, timeout=3000)
    os.remove(cfg)
    rep.tlc_stats(res, "List MC NH=3 MaxLen=%d" % (2 if tier == "quick" else 3))
    if res.violated:
        rep.violation({"kind": "spec-invariant", "invariant": res.violated, "tlc": res.stdout[-3000:]})
    # G
    if tier == "quick":
        g_replay(rep, 2, 3, False, sc, "nh2_len3")
    else:
        g_replay(rep, 2, 4, False, sc, "nh2_len4")
        g_replay(rep, 3, 2, True, sc, "nh3_len2_states")
    # J
    if tier == "quick":
        j_validate(rep, seed, 4, 1500, sc)
    else:
        j_validate(rep, seed, 16, 4000, sc)
    rep.set("rule", "MC: all reachable states of List.tla within the bounds; G: every transition (NH=2) / every state "
            "(NH=3, thorough) of the TLC state graph replayed on real handles; J: random operation sequences validated "
            "by Trace_List. distinct_nontrivial = distinct spec states reached through a replayed operation.")
    rep.set("exhaustive", True)
    rep.assumptions += ["element type u32 stands for Value (list code is generic in T)",
                        "allocation identity observed through Arc::as_ptr (hook verif_repr)"]
    import shutil
    if not rep.violations:
        shutil.rmtree(sc, ignore_errors=True)
    return rep.finish()


def replay(path, seed):
    data = json.load(open(path))
    nv.build_harness(["nv-list"])
    for v in data["violations"][:5]:
        print(json.dumps(v)[:2000])
    return 1 if data["violations"] else 0
