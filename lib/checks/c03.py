"""C03 - quantity arithmetic agrees with dimensional analysis of the unit definitions.
Spec: Units.tla - transitive closure of the direct unit definitions (dumped from the current tree) as exact symbolic
monomials; denotation of sums/products/quotients/powers.  MC: the denotation is invariant under alias choice and
under rewriting a unit into its definition.  G: TLC enumerates, for every written form of every prelude unit, the
single/power/sum/product/mixed expressions of MC_Units.tla with their exact base-unit vector and symbolic magnitude;
the real results, expressed in base units, must have exactly that vector and the magnitude within rel 1e-9.
"""
import json
import os
import shutil
import nv
from checks import units_common as uc

PROP = "C03"
REL = 1e-9


def run(tier, seed):
    rep = nv.Report(PROP, tier, seed, "exploration")
    nv.build_harness(["nv-units"])
    d = nv.scratch("c03")
    units = uc.dump_table()
    factors = {u["name"]: float(u["factor"]) for u in units}
    forms = uc.make_forms(units, tier)
    uc.write_table_module(units, forms)
    cfg = os.path.join(nv.SPEC, "_gen_Units_%d.cfg" % os.getpid())
    with open(cfg, "w") as f:
        f.write("SPECIFICATION Spec\nINVARIANTS AliasInvariant RewriteInvariant EmitCase\nCHECK_DEADLOCK FALSE\n")
    try:
        res = nv.tlc("MC_Units", os.path.basename(cfg), workers=8, timeout=3000, jvm="-Xss512m -Xmx12g")
    finally:
        os.remove(cfg)
    if res.violated:
        rep.violation({"kind": "spec-property", "property": res.violated, "tlc": res.stdout[-2000:]})
        return rep.finish()
    rep.tlc_stats(res, "MC_Units " + tier)
    seen, cases = set(), []
    for c in res.cases.get("CASE", []):
        if c["text"] not in seen:
            seen.add(c["text"])
            cases.append(c)
    inp, out = os.path.join(d, "cases.ndjson"), os.path.join(d, "out.ndjson")
    nv.write_ndjson(inp, [{"id": i, "shown": True, "exprs": [c["text"]]} for i, c in enumerate(cases)])
    nv.harness("nv-units", ["eval", "--cases", inp, "--out", out])
    results = nv.read_ndjson_text(open(out, encoding="utf-8").read())
    classes = {}
    for c, r in zip(cases, results):
        rep.add("evaluations", 1)
        classes[c["cls"]] = classes.get(c["cls"], 0) + 1
        o = r["results"][0]
        if o["outcome"] != "ok":
            rep.violation({"kind": "evaluation-failed", "expr": c["text"], "outcome": o["outcome"], "msg": o.get("msg", "")[:200]})
            continue
        want_val, want_vec = uc.eval_den(c["den"], factors)
        # both the computed (raw) value and the displayed result of the same expression
        for which in ("raw", "shown"):
            if which == "shown" and (o.get("shown_outcome") != "ok" or not o.get("shown")):
                rep.violation({"kind": "display-failed", "expr": c["text"], "outcome": o.get("shown_outcome"), "msg": (o.get("shown_msg") or "")[:160]})
                continue
            got_val, got_vec = uc.impl_base(o[which])
            if got_vec != want_vec and got_val != 0.0:
                rep.violation({"kind": "base-unit-vector", "which": which, "expr": c["text"], "impl": {k: str(v) for k, v in got_vec.items()},
                               "spec": {k: str(v) for k, v in want_vec.items()}})
            elif not uc.rel_close(got_val, want_val, REL):
                rep.violation({"kind": "magnitude", "which": which, "expr": c["text"], "impl": got_val, "spec": want_val, "displayed": o[which]["text"],
                               "rel_err": abs(got_val - want_val) / max(abs(want_val), 1e-300)})
    rep.add("distinct_nontrivial", sum(n for k, n in classes.items() if k != "single"))
    rep.set("classes", classes)
    rep.set("unit_table", {"units": len(units), "written_forms": len(forms)})
    for c in cases[3:: max(1, len(cases) // 5)][:5]:
        rep.sample({"expr": c["text"], "class": c["cls"], "symbolic": c["den"]})
    rep.set("rule", "for every written form (alias x accepted prefix) of every unit of the dumped prelude table: the single, "
            "power, sum (all same-dimension partners), product/quotient (9 partner units) and mixed expressions of "
            "MC_Units.tla; non-trivial = everything except a plain `3 <unit>`")
    rep.assumptions += ["tolerance rel %.0e on the magnitude in base units (floating-point rounding); base-unit vector exact" % REL,
                        "the direct definitions (factor, defining unit) are taken from the tree; a wrong number in a .nbt file is out of scope",
                        "symbolic monomials are evaluated in f64 by the comparator (different association order than the implementation)"]
    if not rep.violations:
        shutil.rmtree(d, ignore_errors=True)
    return rep.finish()


def replay(path, seed):
    data = json.load(open(path))
    for v in data["violations"][:5]:
        print(json.dumps(v)[:2000])
    return 1 if data["violations"] else 0
