"""C01 - accepted programs never go wrong dimensionally at run time.
Same generated programs as C02 (Typing.tla / MC_Typing.tla).  For every program the checker accepts, the harness reads
the RAW run-time value bound to each defined variable (hook global_raw), computes the physical dimension of every
quantity in it (recursively through list elements and struct fields) from its unit factors and the dumped unit table,
and compares it with (a) the checker's own static type of that variable (hook global_type) and (b) the dimension
Typing.tla predicts.  Run-time failures must be of a documented value-dependent kind.
"""
import json
import re
import shutil
import nv
from checks import typing_common as tc

PROP = "C01"
ALLOWED_RUNTIME = {"DivisionByZero", "AssertFailed", "AssertEq2Failed", "AssertEq3Failed", "UserError",
                   "FactorialOfNegativeNumber", "FactorialOfNonInteger", "EmptyList"}


def known_matcher(v, k):
    sig = k.get("signature", {})
    if sig.get("kind") == "nonfinite-literal-polymorphic":
        # inf / NaN literals are typed as dimension-polymorphic but are plain scalars at run time
        return v.get("nonfinite") and v.get("kind") in ("incompatible-units-at-runtime", "runtime-dimension-differs")
    if sig.get("kind") == "zero-literal-as-conversion-target":
        return v.get("kind") == "incompatible-units-at-runtime" and v.get("zero_target")
    if sig.get("kind") == "second-base-unit":
        return v.get("kind") == "incompatible-units-at-runtime" and re.search(r"'[^']*zbu[^']*'", v.get("msg", "")) is not None
    if sig.get("kind") == "composite-noninteger-exponent":
        return v.get("kind") == "runtime-dimension-differs" and v.get("composite_exponent")
    return False


def judge(rep, text, spec_t, r):
    if r["outcome"] == "runtime":
        if r["kind"] == "QuantityError":
            rep.violation({"kind": "incompatible-units-at-runtime" if "can not be converted" in r["msg"] else "quantity-error-at-runtime",
                           "program": text, "msg": r["msg"][:200], "nonfinite": ("inf" in text or "NaN" in text),
                            "zero_target": bool(re.search(r"-> \(?[^;]*\b0\b", text))}, known_matcher)
        elif r["kind"] not in ALLOWED_RUNTIME:
            rep.violation({"kind": "undocumented-runtime-error", "program": text, "error": r["kind"], "msg": r["msg"][:200]})
        return 1
    if r["outcome"] == "panic":
        rep.violation({"kind": "panic", "program": text, "msg": r["msg"][:200]})
        return 1
    if r["outcome"] != "ok":
        return 0
    st = r.get("static")
    static_vec = tc.impl_vec(st["dim"]) if st and st["k"] == "dim" else None
    n = 0
    for q in tc.quantities(r.get("raw")):
        n += 1
        rv = tc.impl_vec(q["dim"])
        zero = float(q["value"]) == 0.0
        bad = None
        if static_vec is not None and tc.is_concrete(static_vec) and rv != static_vec and not zero:
            bad = "checker's static type %s" % static_vec
        elif spec_t["k"] == "dim" and rv != tc.spec_vec(spec_t) and not zero:
            bad = "spec dimension %s" % tc.spec_vec(spec_t)
        elif spec_t["k"] == "list" and rv != tc.spec_vec(spec_t) and not zero:
            bad = "spec element dimension %s" % tc.spec_vec(spec_t)
        if bad:
            rep.violation({"kind": "runtime-dimension-differs", "program": text, "runtime_dimension": {k: list(v) for k, v in rv.items()},
                           "unit": q["unit"], "expected": bad,
                           "nonfinite": (("inf" in text or "NaN" in text) and q["value"] in ("inf", "-inf", "NaN")),
                           "composite_exponent": any(abs(int(f[3])) > 1000 or abs(int(f[4])) > 1000 for f in q["unit"])},
                          known_matcher)
    return n


def run(tier, seed):
    rep = nv.Report(PROP, tier, seed, "model_checking")
    nv.build_harness(["nv-typing"])
    d = nv.scratch("c01")
    try:
        res, cases, results = tc.gen_and_run(tier, d)
    except tc.SetupRejected as ex:
        rep.violation({"kind": "catalogue-definition-rejected", "statement": ex.info["statement"], "outcome": ex.info["outcome"],
                       "error": ex.info["kind"], "message": ex.info["msg"][:300]})
        return rep.finish()
    if res.violated:
        rep.violation({"kind": "spec-property", "property": res.violated})
        return rep.finish()
    rep.tlc_stats(res, "MC_Typing " + tier)
    quantities = 0
    accepted = 0
    for c, r in zip(cases, results):
        rep.add("evaluations", 1)
        if r["r1"]["outcome"] in ("ok", "runtime", "panic"):
            accepted += 1
            quantities += judge(rep, c["s1"], c["t1"], r["r1"])
        if "r2" in r and r["r2"]["outcome"] in ("ok", "runtime", "panic"):
            quantities += judge(rep, c["s1"] + "; " + c["s2"], c["t2"], r["r2"])
    rep.add("distinct_nontrivial", accepted)
    rep.add("runtime_quantities_checked", quantities)
    rep.add("traces_validated_against_impl", len(cases))
    for c in cases[1:: max(1, len(cases) // 5)][:5]:
        rep.sample({"program": [c["s1"], c["s2"]], "predicted": [c["t1"]["k"], c["t2"]["k"]]})
    rep.set("rule", "all programs of the generator classes of MC_Typing.tla (%s tier); non-trivial = programs accepted by "
            "the checker (their raw run-time values are inspected)" % tier)
    rep.set("exhaustive", True)
    rep.assumptions += ["dimension of a run-time quantity = sum over its unit factors of exponent x dimension of the unit (unit table dumped from the tree)",
                        "a zero value may carry any unit (zero short-cuts of + and -; polymorphic zero)",
                        "fragment without quantity_cast, date-times, generic structs"]
    if not rep.violations:
        shutil.rmtree(d, ignore_errors=True)
    return rep.finish()


def replay(path, seed):
    data = json.load(open(path))
    for v in data["violations"][:5]:
        print(json.dumps(v)[:2000])
    return 1 if data["violations"] else 0
