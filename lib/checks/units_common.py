"""Shared by the unit/quantity checks: dump of the unit table, generated TLA+ data module, symbolic evaluation."""
import json
import math
import os
from fractions import Fraction
import nv


def dump_table():
    p = nv.harness("nv-units", ["dump"])
    return json.loads(p.stdout)["units"]


def tla_str(s):
    # TLC narrows characters of string literals to bytes, so non-ASCII text is written as {uXXXX}; nv.tlc undoes it
    s = "".join(c if ord(c) < 128 else "{u%04x}" % ord(c) for c in s)
    return '"' + s.replace("\\", "\\\\").replace('"', '\\"') + '"'


PREFIX_SHORT = {3: "k", -3: "m", 6: "M", -6: "µ", -9: "n", 9: "G", -2: "c"}
PREFIX_LONG = {3: "kilo", -3: "milli", 6: "mega", -6: "micro", -9: "nano", 9: "giga", -2: "centi"}
BIN_SHORT = {10: "Ki", 20: "Mi"}
BIN_LONG = {10: "kibi", 20: "mebi"}


def make_forms(units, tier):
    """written forms [text, u, pk, pe]; the text <-> (prefix, unit) mapping itself is validated by the replay"""
    forms = []
    metric_exps = [3, -3, -9] if tier == "quick" else [3, -3, 6, -6, -9, -2]
    bin_exps = [10] if tier == "quick" else [10, 20]
    for u in units:
        aliases = u["aliases"]
        names = [u["canon"]] if any(a[0] == u["canon"] for a in aliases) else []
        if u["name"] not in names:
            names.append(u["name"])
        if tier != "quick":
            names = [a[0] for a in aliases]
        for a in names:
            forms.append({"text": a, "u": u["name"], "pk": "metric", "pe": 0})
        # prefixed spellings only of alphabetic aliases: how symbols such as ″ combine with prefixes is C13's subject
        short = next((a[0] for a in aliases if a[1] and a[0].isalpha()), None)
        long_ = next((a[0] for a in aliases if a[2] and a[0].isalpha()), None)
        if u["metric"]:
            for pe in metric_exps:
                if short:
                    forms.append({"text": PREFIX_SHORT[pe] + short, "u": u["name"], "pk": "metric", "pe": pe})
                if long_ and (tier != "quick" or not short):
                    forms.append({"text": PREFIX_LONG[pe] + long_, "u": u["name"], "pk": "metric", "pe": pe})
        if u["binary"]:
            for pe in bin_exps:
                if short:
                    forms.append({"text": BIN_SHORT[pe] + short, "u": u["name"], "pk": "binary", "pe": pe})
                if long_:
                    forms.append({"text": BIN_LONG[pe] + long_, "u": u["name"], "pk": "binary", "pe": pe})
    return forms


def write_table_module(units, forms, extra="", pair_all=False):
    """spec/_gen_UnitTable.tla (deterministic content, atomic replace)"""
    idx = {(f["text"]): i + 1 for i, f in enumerate(forms)}
    def first_form(unit, text=None):
        for i, f in enumerate(forms):
            if f["u"] == unit and f["pe"] == 0 and (text is None or f["text"] == text):
                return i + 1
        return None
    partners = [x for x in (first_form("metre"), first_form("second"), idx.get("kg"), first_form("newton"), first_form("hour"),
                            first_form("inch"), first_form("percent"), first_form("degree"), idx.get("km"), idx.get("nm"), idx.get("ns")) if x]
    partners2 = [x for x in (first_form("metre"), first_form("second"), idx.get("kg")) if x]
    sum_partners = sorted({first_form(u["name"]) for u in units if first_form(u["name"])})
    lines = ["---- MODULE _gen_UnitTable ----", "\\* generated from the unit table of the current tree; do not edit",
             "EXTENDS Integers, TLC", ""]
    defs = []
    for u in units:
        fs = ", ".join("[u |-> %s, pk |-> %s, pe |-> %d, n |-> %s, d |-> %s]" % (tla_str(f["unit"]), tla_str(f["pk"]), f["pe"], f["n"], f["d"])
                       for f in u["def"])
        defs.append("%s :> [base |-> %s, def |-> << %s >>]" % (tla_str(u["name"]), "TRUE" if u["is_base"] else "FALSE", fs))
    lines.append("UnitDef == " + "\n  @@ ".join(defs))
    lines.append("")
    lines.append("Forms == << " + ",\n  ".join("[text |-> %s, u |-> %s, pk |-> %s, pe |-> %d]" % (tla_str(f["text"]), tla_str(f["u"]), tla_str(f["pk"]), f["pe"])
                                            for f in forms) + " >>")
    lines.append("Partners == {%s}" % ", ".join(map(str, partners)))
    lines.append("Partners2 == {%s}" % ", ".join(map(str, partners2)))
    lines.append("SumPartners == {%s}" % ", ".join(map(str, sum_partners)))
    # C04/C11/C12: second operands of pairs (all unprefixed canonical forms; with prefixes in the thorough tier)
    pair_partners = sum_partners if not pair_all else list(range(1, len(forms) + 1))
    lines.append("PairPartners == {%s}" % ", ".join(map(str, pair_partners)))
    compound = [x for x in (first_form("metre"), first_form("inch"), idx.get("km"), first_form("mile"), first_form("second"), first_form("hour"),
                            first_form("gram"), first_form("pound"), first_form("litre"), first_form("gallon"), first_form("byte"), first_form("bit"),
                            first_form("joule"), first_form("calorie"), first_form("degree"), first_form("radian")) if x]
    lines.append("CompoundPartners == {%s}" % ", ".join(map(str, compound)))
    if extra:
        lines.append(extra)
    lines.append("====")
    path = os.path.join(nv.SPEC, "_gen_UnitTable.tla")
    tmp = path + ".%d" % os.getpid()
    with open(tmp, "w", encoding="utf-8") as f:
        f.write("\n".join(lines) + "\n")
    os.replace(tmp, path)
    return path


def gen_value(g, factors):
    if g.startswith("n:"):
        return float(g[2:])
    if g.startswith("f:"):
        return factors[g[2:]]
    return float(g)


def eval_den(den, factors):
    """evaluate the symbolic denotation (sum of coef * prod gen^exp) in f64; returns (value, vec dict)"""
    total = 0.0
    as_map = lambda m: m if isinstance(m, dict) else {}   # ToJson renders the empty function as []
    for t in den["terms"]:
        v = float(Fraction(int(t["coef"][0]), int(t["coef"][1])))
        for g, e in as_map(t["mono"]).items():
            v *= math.pow(gen_value(g, factors), float(Fraction(int(e[0]), int(e[1]))))
        total += v
    vec = {b: Fraction(int(e[0]), int(e[1])) for b, e in as_map(den["vec"]).items()}
    return total, vec


def impl_base(raw):
    """impl quantity -> (magnitude in base units, vec dict base unit -> Fraction)"""
    val = float(raw["value"]) * float(raw["base_factor"])
    vec = {}
    for f in raw["base"]:
        e = Fraction(int(f["n"]), int(f["d"]))
        if f["pe"] != 0:
            return val, {"?prefixed-base-unit": e}
        vec[f["unit"]] = vec.get(f["unit"], 0) + e
    return val, {k: v for k, v in vec.items() if v != 0}


def rel_close(a, b, rel):
    if a == b:
        return True
    if math.isnan(a) or math.isnan(b) or math.isinf(a) or math.isinf(b):
        return False
    return abs(a - b) <= rel * max(abs(a), abs(b))
