--------------------------------- MODULE VM ---------------------------------
(***************************************************************************)
(* The stack machine of numbat (vm.rs: Vm::run_without_cleanup) as a       *)
(* state machine over a program store p (see Compile.tla; produced either  *)
(* by Compile or decoded from the real VM by the `vm_program` hook).       *)
(*                                                                         *)
(* State (one record `vm`):                                                *)
(*   frames  <<[c, ip, fp]>>  call stack, innermost last; c = position of  *)
(*           the chunk in p.chunks, ip = position of the NEXT instruction  *)
(*           in its code, fp = absolute stack index of the frame's slot 0  *)
(*   stack   the slots pushed since the program store was created: slot    *)
(*           p.g0 + j - 1 is stack[j]; the p.g0 slots below (globals of    *)
(*           earlier inputs) are not represented                           *)
(*   last    last stored result (haslast)                                  *)
(*   res     value of the last executed top-level expression (hasres)      *)
(*   halt    "" running | "error" a run-time error | "stuck" the model has *)
(*           no rule (never on the programs of Compile)                    *)
(*   rootok  every Return in the root frame so far left exactly the        *)
(*           globals defined so far on the stack (checked where the        *)
(*           compiler recorded that number: p.rets)                        *)
(*   calls   frames were discarded correctly so far (Return leaves fp + 1  *)
(*           slots)                                                        *)
(* One action per opcode: VmStep(p, vm, orc) is the successor state of the *)
(* instruction at the current ip.  `orc` is an oracle for results the      *)
(* model does not compute (foreign functions, arithmetic on quantities     *)
(* that are not small integers, ...): orc.has = FALSE when there is none   *)
(* (model checking: foreign list functions are computed by ApplyListFn of  *)
(* Eval.tla), else orc.tv is the value the real VM produced.               *)
(***************************************************************************)
EXTENDS Compile

NoOracle == [has |-> FALSE, tv |-> VOpq("")]
Oracle(tv) == [has |-> TRUE, tv |-> tv]

VmInit(p) == [frames |-> << [c |-> 1, ip |-> 1, fp |-> 0] >>, stack |-> << >>, last |-> VOpq(""), haslast |-> FALSE,
              res |-> VErr("no result"), hasres |-> FALSE, halt |-> "", rootok |-> TRUE, calls |-> TRUE, steps |-> 0]

\* ------------------------------------------------------------- observations
Frame(vm) == vm.frames[Len(vm.frames)]
Chunk(p, vm) == p.chunks[Frame(vm).c]
VmAtEnd(p, vm) == Frame(vm).ip > Len(Chunk(p, vm).code)          \* is_at_the_end
Instr(p, vm) == Chunk(p, vm).code[Frame(vm).ip]
Depth(p, vm) == p.g0 + Len(vm.stack)
\* byte offset of the next instruction of the current frame
IpOffset(p, vm) == IF VmAtEnd(p, vm) THEN Chunk(p, vm).len ELSE Instr(p, vm).o

\* small-value text of a value: what the trace hook records about the top of the stack
RECURSIVE ShowV(_)
RECURSIVE ShowVs(_, _)
RECURSIVE ShowFs(_, _)
ShowVs(xs, i) == IF i > Len(xs) THEN "" ELSE (IF i > 1 THEN "," ELSE "") \o ShowV(xs[i]) \o ShowVs(xs, i + 1)
ShowFs(fs, i) == IF i > Len(fs) THEN "" ELSE (IF i > 1 THEN "," ELSE "") \o fs[i].f \o "=" \o ShowV(fs[i].val) \o ShowFs(fs, i + 1)
MaxElems == 6
MaxStr == 80
ShowV(x) ==
  CASE x.k = "int" -> "i:" \o ToString(x.v)
    [] x.k = "bool" -> IF x.v THEN "b:true" ELSE "b:false"
    [] x.k = "str" -> IF Len(x.v) > MaxStr THEN "S#" \o ToString(Len(x.v)) ELSE "s:" \o x.v
    [] x.k = "list" -> IF Len(x.v) > MaxElems THEN "L#" \o ToString(Len(x.v)) ELSE "[" \o ShowVs(x.v, 1) \o "]"
    [] x.k = "struct" -> IF Len(x.v) > MaxElems THEN "T#" \o x.n \o "#" \o ToString(Len(x.v)) ELSE x.n \o "{" \o ShowFs(x.v, 1) \o "}"
    [] x.k = "fn" -> (CASE x.v = "normal" -> "f:" [] x.v = "foreign" -> "F:" [] OTHER -> "z:") \o x.n
    [] x.k = "fmt" -> IF x.n = "none" THEN "x-" ELSE "x:" \o x.v
    [] x.k = "opq" -> x.v
    [] x.k = "err" -> "!" \o x.v
\* (p.top0: text of the topmost slot of earlier inputs, "-" if there is none)
TopText(p, vm) == IF vm.stack = << >> THEN p.top0 ELSE ShowV(vm.stack[Len(vm.stack)])

\* does the model know the value completely (no opaque part)?
RECURSIVE Concrete(_)
Concrete(x) ==
  CASE x.k \in {"int", "bool", "str"} -> TRUE
    [] x.k = "list" -> \A i \in 1..Len(x.v) : Concrete(x.v[i])
    [] x.k = "struct" -> \A i \in 1..Len(x.v) : Concrete(x.v[i].val)
    [] OTHER -> FALSE

\* ------------------------------------------------------------------ helpers
Stuck(vm) == [vm EXCEPT !.halt = "stuck"]
SetIp(vm, ip) == [vm EXCEPT !.frames[Len(vm.frames)].ip = ip]
Advance(vm) == SetIp(vm, Frame(vm).ip + 1)
Push(vm, v) == [vm EXCEPT !.stack = Append(vm.stack, v)]
PopN(vm, k) == [vm EXCEPT !.stack = SubSeq(vm.stack, 1, Len(vm.stack) - k)]
Peek(vm, j) == vm.stack[Len(vm.stack) - j]                          \* j = 0: top of the stack
\* the result of an instruction the model has no rule for comes from the oracle
PushOracle(vm, orc) == IF orc.has THEN Push(vm, orc.tv) ELSE Stuck(vm)
PushOr(vm, known, v, orc) == IF known THEN Push(vm, v) ELSE PushOracle(vm, orc)

ChunkPos(p, idx) == LET s == {c \in 1..Len(p.chunks) : p.chunks[c].i = idx} IN IF s = {} THEN 0 ELSE CHOOSE c \in s : TRUE
\* Vm::get_function_idx at run time (CallCallable): the NEWEST chunk of that name
\* (p.names lists index and name of every chunk that can be meant; the code of a chunk that is never entered may be absent)
NewestChunkPos(p, name) ==
  LET s == {c \in 1..Len(p.names) : p.names[c].n = name} IN
  IF s = {} THEN 0 ELSE ChunkPos(p, p.names[CHOOSE c \in s : \A d \in s : p.names[d].i <= p.names[c].i].i)
ConstOf(p, idx) == LET s == {c \in 1..Len(p.consts) : p.consts[c].i = idx} IN
                   IF s = {} THEN VOpq("?const") ELSE p.consts[CHOOSE c \in s : TRUE].tv
FfiName(p, idx) == LET s == {c \in 1..Len(p.ffi) : p.ffi[c].i = idx} IN IF s = {} THEN "?" ELSE p.ffi[CHOOSE c \in s : TRUE].n
StructOf(p, idx) == LET s == {c \in 1..Len(p.structs) : p.structs[c].i = idx} IN
                    IF s = {} THEN [i |-> idx, n |-> "?", f |-> << >>] ELSE p.structs[CHOOSE c \in s : TRUE]
\* position of the instruction at byte offset off, searching FORWARD from position from (0: none; Len+1: the end)
PosOfOffset(ch, from, off) ==
  IF off = ch.len THEN Len(ch.code) + 1
  ELSE LET s == {m \in from..Len(ch.code) : ch.code[m].o = off} IN IF s = {} THEN 0 ELSE CHOOSE m \in s : TRUE

\* integers for which the model's arithmetic is the VM's arithmetic (exact in f64, shown without separators)
\* (with an oracle at hand larger numbers are left to it; without one - model checking - the model computes them all)
SmallInt(x, orc) == x.k = "int" /\ (~orc.has \/ (x.v > -10000 /\ x.v < 10000))

\* slot with absolute index idx (slots below p.g0 belong to earlier inputs: oracle)
ReadSlot(p, vm, idx, orc) ==
  IF idx >= p.g0 /\ idx - p.g0 + 1 <= Len(vm.stack) THEN Push(vm, vm.stack[idx - p.g0 + 1])
  ELSE IF idx < p.g0 THEN PushOracle(vm, orc) ELSE Stuck(vm)

\* JoinString: pop n parts (a part is a string, or a format specifier on top of the value), oldest part first in the result
RECURSIVE JoinParts(_, _, _, _, _)
\* returns [ok, text, used, known]: used = slots consumed, known = the model can build the text
JoinParts(stack, top, n, acc, orc) ==
  IF n = 0 THEN [ok |-> TRUE, used |-> Len(stack) - top, known |-> acc.known, text |-> acc.text]
  ELSE IF top < 1 THEN [ok |-> FALSE, used |-> 0, known |-> FALSE, text |-> ""]
  ELSE LET x == stack[top] IN
       IF x.k = "fmt"
       THEN IF top < 2 THEN [ok |-> FALSE, used |-> 0, known |-> FALSE, text |-> ""]
            ELSE LET y == stack[top - 1]
                     kn == x.n = "none" /\ (y.k \in {"bool", "str"} \/ SmallInt(y, orc)) IN
                 JoinParts(stack, top - 2, n - 1, [known |-> acc.known /\ kn, text |-> (IF acc.known /\ kn THEN ValText(y) \o acc.text ELSE "")], orc)
       ELSE JoinParts(stack, top - 1, n - 1, [known |-> acc.known /\ x.k = "str", text |-> (IF acc.known /\ x.k = "str" THEN x.v \o acc.text ELSE "")], orc)

\* enter a function: CallFrame { function_idx, ip: 0, fp: stack.len() - num_args }
EnterFrame(p, vm, cpos, nargs) ==
  IF cpos = 0 \/ Len(vm.stack) < nargs THEN Stuck(vm)
  ELSE [vm EXCEPT !.frames = Append(vm.frames, [c |-> cpos, ip |-> 1, fp |-> Depth(p, vm) - nargs])]

\* ------------------------------------------------------- one step (one opcode)
\* precondition: ~VmAtEnd(p, vm) /\ vm.halt = ""
VmStep(p, vm0, orc) ==
  LET ins == Instr(p, vm0)
      op == ins.op
      a == ins.a
      vm == Advance([vm0 EXCEPT !.steps = vm0.steps + 1])          \* the opcode and its operands have been read
      n == Len(vm.stack)
  IN
  CASE op = "LoadConstant" ->
         LET c == ConstOf(p, a[1]) IN IF c.k = "opq" /\ orc.has THEN Push(vm, orc.tv) ELSE Push(vm, c)
    [] op = "GetLocal" -> ReadSlot(p, vm, Frame(vm).fp + a[1], orc)
    [] op = "GetUpvalue" -> ReadSlot(p, vm, a[1], orc)
    [] op = "GetLastResult" -> IF vm.haslast THEN Push(vm, vm.last) ELSE PushOracle(vm, orc)
    [] op \in {"Add", "Subtract", "Multiply"} ->
         IF n < 2 THEN Stuck(vm)
         ELSE LET x == Peek(vm, 1) y == Peek(vm, 0) IN
              PushOr(PopN(vm, 2), SmallInt(x, orc) /\ SmallInt(y, orc),
                     VInt(CASE op = "Add" -> x.v + y.v [] op = "Subtract" -> x.v - y.v [] OTHER -> x.v * y.v), orc)
    [] op \in {"Divide", "Power", "ConvertTo", "AddDateTime", "SubDateTime"} ->
         IF n < 2 THEN Stuck(vm) ELSE PushOracle(PopN(vm, 2), orc)
    [] op = "DiffDateTime" -> IF n < 3 THEN Stuck(vm) ELSE PushOracle(PopN(vm, 3), orc)
    [] op \in {"LessThan", "GreaterThan", "LessOrEqual", "GreatorOrEqual"} ->
         IF n < 2 THEN Stuck(vm)
         ELSE LET x == Peek(vm, 1) y == Peek(vm, 0) IN
              PushOr(PopN(vm, 2), x.k = "int" /\ y.k = "int",
                     VBool(CASE op = "LessThan" -> x.v < y.v [] op = "GreaterThan" -> x.v > y.v
                             [] op = "LessOrEqual" -> x.v <= y.v [] OTHER -> x.v >= y.v), orc)
    [] op \in {"Equal", "NotEqual"} ->
         IF n < 2 THEN Stuck(vm)
         ELSE LET x == Peek(vm, 1) y == Peek(vm, 0) IN
              PushOr(PopN(vm, 2), Concrete(x) /\ Concrete(y), VBool(IF op = "Equal" THEN x = y ELSE x # y), orc)
    [] op \in {"LogicalAnd", "LogicalOr"} ->
         IF n < 2 THEN Stuck(vm)
         ELSE LET x == Peek(vm, 1) y == Peek(vm, 0) IN
              IF x.k # "bool" \/ y.k # "bool" THEN Stuck(vm)
              ELSE Push(PopN(vm, 2), VBool(IF op = "LogicalAnd" THEN x.v /\ y.v ELSE x.v \/ y.v))
    [] op = "LogicalNeg" ->
         IF n < 1 THEN Stuck(vm) ELSE LET x == Peek(vm, 0) IN IF x.k # "bool" THEN Stuck(vm) ELSE Push(PopN(vm, 1), VBool(~x.v))
    [] op = "Negate" ->
         IF n < 1 THEN Stuck(vm) ELSE LET x == Peek(vm, 0) IN PushOr(PopN(vm, 1), SmallInt(x, orc), VInt(0 - x.v), orc)
    [] op \in {"Factorial", "ApplyPrefix"} -> IF n < 1 THEN Stuck(vm) ELSE PushOracle(PopN(vm, 1), orc)
    [] op = "JumpIfFalse" ->
         IF n < 1 THEN Stuck(vm)
         ELSE LET x == Peek(vm, 0)
                  ch == Chunk(p, vm)
                  target == PosOfOffset(ch, Frame(vm).ip, ins.o + 3 + a[1]) IN
              IF x.k # "bool" THEN Stuck(vm)
              ELSE IF x.v THEN PopN(vm, 1)
              ELSE IF target = 0 THEN Stuck(vm) ELSE SetIp(PopN(vm, 1), target)
    [] op = "Jump" ->
         LET target == PosOfOffset(Chunk(p, vm), Frame(vm).ip, ins.o + 3 + a[1]) IN
         IF target = 0 THEN Stuck(vm) ELSE SetIp(vm, target)
    [] op = "Call" -> EnterFrame(p, vm, ChunkPos(p, a[1]), a[2])
    [] op = "FFICallFunction" ->
         IF n < a[2] THEN Stuck(vm)
         ELSE LET name == FfiName(p, a[1])
                  argv == SubSeq(vm.stack, n - a[2] + 1, n)
                  r == IF orc.has THEN orc.tv ELSE IF ListFn(name) THEN ApplyListFn(name, argv) ELSE VErr("no rule for " \o name) IN
              IF IsErr(r) THEN [PopN(vm, a[2]) EXCEPT !.halt = IF ~orc.has /\ ListFn(name) THEN "error" ELSE "stuck", !.res = r, !.hasres = TRUE]
              ELSE Push(PopN(vm, a[2]), r)
    [] op = "FFICallProcedure" -> IF n < a[2] THEN Stuck(vm) ELSE PopN(vm, a[2])
    [] op = "CallCallable" ->
         IF n < 1 + a[1] THEN Stuck(vm)
         ELSE LET f == Peek(vm, 0) IN
              IF f.k # "fn" THEN Stuck(vm)
              ELSE IF f.v = "normal" THEN EnterFrame(p, PopN(vm, 1), NewestChunkPos(p, f.n), a[1])
              ELSE IF f.v = "foreign" /\ ~orc.has /\ ListFn(f.n)
                   THEN LET r == ApplyListFn(f.n, SubSeq(vm.stack, n - a[1], n - 1)) IN
                        IF IsErr(r) THEN [PopN(vm, 1 + a[1]) EXCEPT !.halt = "error", !.res = r, !.hasres = TRUE] ELSE Push(PopN(vm, 1 + a[1]), r)
              ELSE PushOracle(PopN(vm, 1 + a[1]), orc)                 \* foreign function, time-zone conversion
    [] op \in {"PrintString"} -> vm
    [] op = "SetUnitConstant" -> IF n < 1 THEN Stuck(vm) ELSE PopN(vm, 1)
    [] op = "JoinString" ->
         LET j == JoinParts(vm.stack, n, a[1], [known |-> TRUE, text |-> ""], orc) IN
         IF ~j.ok THEN Stuck(vm) ELSE PushOr(PopN(vm, j.used), j.known, VStr(j.text), orc)
    [] op = "BuildStructInstance" ->
         IF n < a[2] THEN Stuck(vm)
         ELSE LET s == StructOf(p, a[1]) IN
              IF Len(s.f) < a[2] THEN Stuck(vm)
              \* content[j] = j-th popped value; the fields are stored in declared order
              ELSE Push(PopN(vm, a[2]), VStruct(s.n, [j \in 1..a[2] |-> [f |-> s.f[j], val |-> vm.stack[n - j + 1]]]))
    [] op = "AccessStructField" ->
         IF n < 1 THEN Stuck(vm)
         ELSE LET s == Peek(vm, 0) IN
              PushOr(PopN(vm, 1), s.k = "struct" /\ a[1] + 1 <= Len(s.v), IF s.k = "struct" /\ a[1] + 1 <= Len(s.v) THEN s.v[a[1] + 1].val ELSE s, orc)
    [] op = "BuildList" ->
         IF n < a[1] THEN Stuck(vm) ELSE Push(PopN(vm, a[1]), VList(SubSeq(vm.stack, n - a[1] + 1, n)))
    [] op = "Return" ->
         IF n < 1 THEN Stuck(vm)
         ELSE IF Len(vm.frames) = 1
         THEN LET v == Peek(vm, 0)
                  rs == {j \in 1..Len(p.rets) : p.rets[j].o = ins.o} IN
              [PopN(vm, 1) EXCEPT !.last = v, !.haslast = TRUE, !.res = v, !.hasres = TRUE,
                                  !.rootok = vm.rootok /\ (rs = {} \/ \A j \in rs : Depth(p, vm) - 1 = p.g0 + p.rets[j].g)]
         ELSE LET fr == Frame(vm)
                  v == Peek(vm, 0)
                  keep == fr.fp - p.g0 IN                            \* while stack.len() > fp: pop
              IF keep < 0 THEN Stuck(vm)
              ELSE [vm EXCEPT !.frames = SubSeq(vm.frames, 1, Len(vm.frames) - 1),
                              !.stack = Append(SubSeq(vm.stack, 1, IF keep < n - 1 THEN keep ELSE n - 1), v),
                              !.calls = vm.calls /\ keep <= n - 1]
    [] OTHER -> Stuck(vm)

\* ----------------------------------------------------------- the whole run
\* RunVM: iterate VmStep until the root frame reaches the end of <main>, an error, or the fuel is spent
RECURSIVE VmIter(_, _, _)
VmIter(p, vm, fuel) ==
  IF vm.halt # "" \/ VmAtEnd(p, vm) THEN vm
  ELSE IF fuel = 0 THEN [vm EXCEPT !.halt = "fuel"]
  ELSE VmIter(p, VmStep(p, vm, NoOracle), fuel - 1)
RunVM(p, fuel) == VmIter(p, VmInit(p), fuel)

\* what a run must look like when it is over
RunBalanced(p, vm) == vm.halt = "" => (Len(vm.frames) = 1 /\ vm.calls /\ Depth(p, vm) = p.g0 + p.nglobals)
RunValue(vm) == IF vm.hasres THEN vm.res ELSE VErr("no result")
=============================================================================
