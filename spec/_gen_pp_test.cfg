CONSTANTS Alphabet = "short"
          Depth = 3
          EmitDepth = 0
          PrefixTable <- StdPrefixes
SPECIFICATION Spec
INVARIANTS PTypeOK Unique OthersAreNotUnits
CHECK_DEADLOCK FALSE
