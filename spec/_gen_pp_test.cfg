CONSTANTS Alphabets = {"short", "long", "binary", "mixed"}
          Depth = 2
          EmitDepth = 2
          PrefixTable <- StdPrefixes
SPECIFICATION Spec
INVARIANTS EmitMeta PTypeOK Unique OthersAreNotUnits EmitCase
CHECK_DEADLOCK FALSE
