------------------------------ MODULE MC_Assert ------------------------------
(* all (a, ua, b, ub [, eps, ueps]) over small integers and the three units of each family, plus NaN, booleans,
   strings and lists; one CASE per assertion with the predicted outcome *)
EXTENDS Assert, Json
CONSTANTS Tier
VARIABLES stage, fam, cs
vars == <<stage, fam, cs>>

Vals == IF Tier = "quick" THEN {-1, 0, 1, 2} ELSE -2..3
Eps == IF Tier = "quick" THEN {0, 1} ELSE {0, 1, 2}
NoCase == [text |-> "", outcome |-> "", cls |-> ""]
Fam(k) == Families[k]
Qs(k) == { Qn(n, Fam(k)[i]) : n \in Vals, i \in 1..3 } \cup { QNaN(Fam(k)[1]) }
\* a value equal to b expressed in another unit of the family (n * ratio): the interesting equal cases
Equalish(k) == { <<Qn((n * Fam(k)[j].r) \div Fam(k)[i].r, Fam(k)[i]), Qn(n, Fam(k)[j])>> : n \in {1, 2}, i \in 1..3, j \in 1..3 }

Cases(k) ==
     { [text |-> "assert_eq(" \o QText(a) \o ", " \o QText(b) \o ")", outcome |-> Outcome2(a, b), cls |-> "eq2"] : a \in Qs(k), b \in Qs(k) }
  \cup { [text |-> "assert_eq(" \o QText(p[1]) \o ", " \o QText(p[2]) \o ")", outcome |-> Outcome2(p[1], p[2]), cls |-> "eq2"] : p \in Equalish(k) }
  \cup { [text |-> "assert_eq(" \o QText(a) \o ", " \o QText(b) \o ", " \o QText(e) \o ")", outcome |-> Outcome3(a, b, e), cls |-> "eq3"]
            : a \in Qs(k), b \in Qs(k), e \in { Qn(n, Fam(k)[i]) : n \in Eps, i \in 1..3 } }
  \cup (IF k = 1 THEN
          { [text |-> "assert(" \o c.t \o ")", outcome |-> OutcomeB(c.v), cls |-> "assert"] :
              c \in { [t |-> "true", v |-> TRUE], [t |-> "false", v |-> FALSE], [t |-> "1 s < 1 min", v |-> TRUE],
                      [t |-> "1 h < 1 min", v |-> FALSE], [t |-> "true && false", v |-> FALSE], [t |-> "!false", v |-> TRUE] } }
          \cup { [text |-> "assert_eq(" \o x.a \o ", " \o x.b \o ")", outcome |-> IF x.eq THEN "ok" ELSE "AssertEq2Failed", cls |-> "eq2-other"] :
              x \in { [a |-> "true", b |-> "true", eq |-> TRUE], [a |-> "true", b |-> "false", eq |-> FALSE],
                      [a |-> "\"ab\"", b |-> "\"ab\"", eq |-> TRUE], [a |-> "\"ab\"", b |-> "\"ba\"", eq |-> FALSE],
                      [a |-> "[1, 2]", b |-> "[1, 2]", eq |-> TRUE], [a |-> "[1, 2]", b |-> "[2, 1]", eq |-> FALSE],
                      [a |-> "[1 s, 60 s]", b |-> "[1 s, 1 min]", eq |-> TRUE], [a |-> "[1, 2]", b |-> "[1, 2, 3]", eq |-> FALSE] } }
        ELSE {})

Init == stage = 0 /\ fam = 0 /\ cs = NoCase
Next == \/ stage = 0 /\ \E k \in 1..Len(Families) : fam' = k /\ stage' = 1 /\ UNCHANGED cs
        \/ stage = 1 /\ \E c \in Cases(fam) : cs' = c /\ stage' = 2 /\ UNCHANGED fam
Spec == Init /\ [][Next]_vars

\* MC: the predicates are consistent: exact equality is the eps = 0 case; a larger tolerance never fails more
EpsZeroIsEq == stage = 1 => \A a \in Qs(fam), b \in Qs(fam) : Eq2(a, b) = Eq3(a, b, Qn(0, Fam(fam)[1]))
EpsMonotone == stage = 1 => \A a \in Qs(fam), b \in Qs(fam) : Eq3(a, b, Qn(1, Fam(fam)[1])) => Eq3(a, b, Qn(1, Fam(fam)[2]))

EmitCase == stage = 2 => PrintT(<<"CASE", ToJson([text |-> cs.text, outcome |-> cs.outcome, cls |-> cs.cls,
                                                 printed |-> MarkerPrinted(cs.outcome), defined |-> MarkerDefined(cs.outcome)])>>)
=============================================================================
