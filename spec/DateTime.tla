------------------------------ MODULE DateTime ------------------------------
(***************************************************************************)
(* C19 - date and time arithmetic (book/src/basics/date-and-time.md).      *)
(*                                                                         *)
(*   DateTime - DateTime  -> duration between the two instants (Time)      *)
(*   DateTime + Time      -> new DateTime, the duration added              *)
(*   DateTime - Time      -> new DateTime, the duration subtracted         *)
(*   DateTime -> tz("..") -> the same instant shown in another time zone   *)
(*   format_datetime / datetime(..): showing an instant with a format that *)
(*                           keeps every field (nanoseconds and the UTC    *)
(*                           offset) and parsing it gives the instant back *)
(*                                                                         *)
(* TLC has 32-bit integers and no reals, so nothing here is a float:       *)
(*   instant   <<d, s, n>>        d days since 1970-01-01 (any sign),      *)
(*                                s second of the day 0..86399,            *)
(*                                n nanosecond of the second 0..10^9-1     *)
(*   magnitude <<d, s, n, a>>     a duration >= 0; a = attoseconds below   *)
(*                                the nanosecond 0..10^9-1 (what the       *)
(*                                nanosecond rounding looks at)            *)
(*   duration  [sg, m]            sign (1 / -1) and magnitude; zero has    *)
(*                                sg = 1                                   *)
(* Every intermediate value stays below 2^31 (limbs < 10^9, sums < 2*10^9).*)
(*                                                                         *)
(* The calendar is the proleptic Gregorian calendar (book).  Supported     *)
(* range = jiff 0.2.18 `Timestamp::MIN ..= Timestamp::MAX` (docs of        *)
(* jiff::Timestamp; src/util/t.rs `UnixSeconds`): the civil range          *)
(* -9999-01-01T00:00:00 .. 9999-12-31T23:59:59.999999999 shrunk at both    *)
(* ends by the largest time-zone offset 25:59:59 = 93599 s:                *)
(*   MIN = -377705023201 s           = -9999-01-02T01:59:59Z               *)
(*   MAX =  253402207200.999999999 s =  9999-12-30T22:00:00.999999999Z     *)
(* A duration is split by the VM (vm.rs, AddToDateTime/SubFromDateTime)    *)
(* into whole seconds (truncated towards zero) and the fraction rounded to *)
(* nanoseconds (half away from zero); the whole seconds must fit jiff's    *)
(* Span seconds (|seconds| <= 631107417600 = 7304484 days, docs of         *)
(* jiff::Span), otherwise the operation fails with DurationOutOfRange.     *)
(***************************************************************************)
EXTENDS Integers, Sequences

NS   == 1000000000      \* nanoseconds per second = attoseconds per nanosecond
SPD  == 86400           \* seconds per day
HALF == 500000000

---------------------------------------------------------------------------
(* magnitudes *)

ZeroM == <<0, 0, 0, 0>>
IsMag(m) == /\ m[1] >= 0 /\ m[2] \in 0..(SPD - 1) /\ m[3] \in 0..(NS - 1) /\ m[4] \in 0..(NS - 1)

\* lexicographic comparison of limb tuples of equal length (most significant first): -1, 0, 1
RECURSIVE LexCmp(_, _, _)
LexCmp(x, y, i) == IF i > Len(x) THEN 0
                   ELSE IF x[i] < y[i] THEN -1 ELSE IF x[i] > y[i] THEN 1 ELSE LexCmp(x, y, i + 1)
MCmp(x, y) == LexCmp(x, y, 1)

\* x + y with carries (limbs of y may be un-normalised up to one unit, e.g. n = 10^9)
MAdd(x, y) ==
    LET a  == x[4] + y[4]
        n  == x[3] + y[3] + (a \div NS)
        s  == x[2] + y[2] + (n \div NS)
    IN <<x[1] + y[1] + (s \div SPD), s % SPD, n % NS, a % NS>>

\* x - y with borrows; the top limb may become negative (used for instants); for magnitudes x >= y
MSub(x, y) ==
    LET a  == x[4] - y[4]
        ba == IF a < 0 THEN 1 ELSE 0
        n  == x[3] - y[3] - ba
        bn == IF n < 0 THEN 1 ELSE 0
        s  == x[2] - y[2] - bn
        bs == IF s < 0 THEN 1 ELSE 0
    IN <<x[1] - y[1] - bs, s + bs * SPD, n + bn * NS, a + ba * NS>>

\* TLC passes operator arguments unevaluated and re-evaluates LET definitions at every use; in the recursive
\* operators below the intermediate results are therefore bound to values through a one-element set
\* (x \in {e} evaluates e once).
The(S) == CHOOSE r \in S : TRUE

\* k * x by double-and-add (every step is an MAdd, hence 32-bit safe)
RECURSIVE MTimes(_, _)
MTimes(x, k) == IF k = 0 THEN ZeroM
                ELSE The({ The({ IF k % 2 = 1 THEN MAdd(MAdd(h, h), xv) ELSE MAdd(h, h) : h \in {MTimes(xv, k \div 2)} })
                           : xv \in {x} })

\* x / 2; exact iff the attosecond limb is even (the remainders moving down are multiples of 10^9 / 2)
MHalfExact(x) == x[4] % 2 = 0
MHalf(x) ==
    LET s == x[2] + (x[1] % 2) * SPD
        n == x[3] + (s % 2) * NS
        a == x[4] + (n % 2) * NS
    IN <<x[1] \div 2, s \div 2, n \div 2, a \div 2>>
RECURSIVE MHalves(_, _)
MHalves(x, h) == IF h = 0 THEN x ELSE The({ MHalves(MHalf(xv), h - 1) : xv \in {x} })
RECURSIVE MHalvesExact(_, _)
MHalvesExact(x, h) == h = 0 \/ The({ MHalfExact(xv) /\ MHalvesExact(MHalf(xv), h - 1) : xv \in {x} })

---------------------------------------------------------------------------
(* durations *)

Dur(sg, m) == [sg |-> IF m = ZeroM THEN 1 ELSE sg, m |-> m]
Neg(d)     == Dur(-d.sg, d.m)
IsDur(d)   == d.sg \in {1, -1} /\ IsMag(d.m)
IsRounded(d) == d.m[4] = 0

\* |x - y| for signed durations
DAbsDiff(x, y) == IF x.sg = y.sg THEN (IF MCmp(x.m, y.m) >= 0 THEN MSub(x.m, y.m) ELSE MSub(y.m, x.m))
                  ELSE MAdd(x.m, y.m)

OneNs == <<0, 0, 1, 0>>
DropAtto(m) == <<m[1], m[2], m[3], 0>>

\* RoundDur: the duration the VM actually applies - the magnitude rounded to whole nanoseconds, half away
\* from zero (sign-magnitude: f64::trunc / f64::fract keep the sign, f64::round rounds half away from zero)
RoundUp(d)   == Dur(d.sg, MAdd(DropAtto(d.m), OneNs))
RoundDown(d) == Dur(d.sg, DropAtto(d.m))
RoundDur(d)  == IF d.m[4] >= HALF THEN RoundUp(d) ELSE RoundDown(d)

\* Tolerance of the rounding: the VM computes fract * 1e9 in f64 (relative error 2^-53 of a value < 10^9, i.e.
\* < 1.2e-7 ns = 120 as; one more attosecond because the harness reports floor(attoseconds)).  Within that
\* distance of an exact tie both neighbours are roundings of d.
TIESLACK == 121
RoundCands(d) == IF d.m[4] < HALF - TIESLACK THEN {RoundDown(d)}
                 ELSE IF d.m[4] > HALF + TIESLACK THEN {RoundUp(d)}
                 ELSE {RoundDown(d), RoundUp(d)}

---------------------------------------------------------------------------
(* supported range *)

OFFMAX     == 93599                                  \* 25:59:59, jiff's largest time-zone offset
MinInstant == <<-4371586, 7199, 0>>                   \* -9999-01-01T00:00:00Z + 93599 s
MaxInstant == <<2932895, 79200, NS - 1>>              \*  9999-12-31T23:59:59.999999999Z - 93599 s
SpanMaxDays == 7304484                                \* jiff::Span seconds limit 631107417600 s, in days

IsInstant(t) == /\ t[2] \in 0..(SPD - 1) /\ t[3] \in 0..(NS - 1)
ICmp(x, y) == LexCmp(x, y, 1)
InRange(t) == ICmp(MinInstant, t) <= 0 /\ ICmp(t, MaxInstant) <= 0

I4(t) == <<t[1], t[2], t[3], 0>>
I3(m) == <<m[1], m[2], m[3]>>

\* outcomes
Ok(t)  == [k |-> "ok", t |-> t]
DtErr  == [k |-> "DateTimeOutOfRange", t |-> <<0, 0, 0>>]
DurErr == [k |-> "DurationOutOfRange", t |-> <<0, 0, 0>>]

InSpan(m) == m[1] < SpanMaxDays \/ (m[1] = SpanMaxDays /\ m[2] = 0)

\* t + r for a rounded duration r (carry / borrow through the limbs), or OutOfRange
AddDur(t, r) ==
    IF ~InSpan(r.m) THEN DurErr
    ELSE LET u == IF r.sg = 1 THEN I3(MAdd(I4(t), r.m)) ELSE I3(MSub(I4(t), r.m))
         IN IF InRange(u) THEN Ok(u) ELSE DtErr
SubDur(t, r) == AddDur(t, Neg(r))

\* t1 - t2 as a (rounded) duration; never out of range: the whole range is shorter than a Span
Diff(t1, t2) == IF ICmp(t1, t2) >= 0 THEN Dur(1, MSub(I4(t1), I4(t2))) ELSE Dur(-1, MSub(I4(t2), I4(t1)))

---------------------------------------------------------------------------
(* the VM's pipeline, step by step (vm.rs):                                *)
(*   seconds_f64 = duration in base units (seconds)                        *)
(*   seconds_i64 = seconds_f64.to_i64()            truncation towards zero *)
(*   span = Span::new().try_seconds(seconds_i64)?  DurationOutOfRange      *)
(*              .nanoseconds((seconds_f64.fract() * 1e9).round())          *)
(*   lhs.checked_add(span) / lhs.checked_sub(span) DateTimeOutOfRange      *)
(* The rounded fraction can be 10^9 (not normalised); the sum carries.     *)

VMSplit(d) == [sg |-> d.sg, whole |-> <<d.m[1], d.m[2]>>,
               ns |-> IF d.m[4] >= HALF THEN d.m[3] + 1 ELSE d.m[3]]
VMApplySplit(t, sp, op) ==
    IF ~InSpan(<<sp.whole[1], sp.whole[2], 0, 0>>) THEN DurErr
    ELSE LET m  == <<sp.whole[1], sp.whole[2], sp.ns, 0>>
             sg == IF op = "add" THEN sp.sg ELSE -sp.sg
             u  == IF sg = 1 THEN I3(MAdd(I4(t), m)) ELSE I3(MSub(I4(t), m))
         IN IF InRange(u) THEN Ok(u) ELSE DtErr
VMApply(t, d, op) == VMApplySplit(t, VMSplit(d), op)

\* the same in terms of the abstract operators: t (+/-) RoundDur(d)
Apply(t, r, op) == IF op = "add" THEN AddDur(t, r) ELSE SubDur(t, r)

---------------------------------------------------------------------------
(* time zones: a date-time value is an instant shown in a zone; conversion changes the zone only *)

Zoned(t, z) == [inst |-> t, zone |-> z]
TzConvert(v, z) == [inst |-> v.inst, zone |-> z]

---------------------------------------------------------------------------
(* proleptic Gregorian calendar (days <-> civil date), for the text forms *)

DaysFromCivil(y, m, d) ==
    LET yy  == IF m <= 2 THEN y - 1 ELSE y
        era == yy \div 400                       \* floor division
        yoe == yy - era * 400
        mp  == (m + 9) % 12
        doy == (153 * mp + 2) \div 5 + d - 1
        doe == yoe * 365 + yoe \div 4 - yoe \div 100 + doy
    IN era * 146097 + doe - 719468

CivilFromDays(z0) ==
    LET z   == z0 + 719468
        era == z \div 146097
        doe == z - era * 146097
        yoe == (doe - doe \div 1460 + doe \div 36524 - doe \div 146096) \div 365
        doy == doe - (365 * yoe + yoe \div 4 - yoe \div 100)
        mp  == (5 * doy + 2) \div 153
        d   == doy - (153 * mp + 2) \div 5 + 1
        m   == IF mp < 10 THEN mp + 3 ELSE mp - 9
        y   == yoe + era * 400 + (IF m <= 2 THEN 1 ELSE 0)
    IN <<y, m, d>>

\* shift an instant by a (signed) number of seconds, |sec| <= 2 days
IShift(t, sec) == LET s == t[2] + sec IN <<t[1] + (s \div SPD), s % SPD, t[3]>>

\* A full-precision text shows the civil fields of the instant at a UTC offset, down to the nanosecond, and the
\* offset itself:  <<year, month, day, hour, minute, second, nanosecond, offset seconds>>
Fields(t, off) ==
    LET loc == IShift(t, off)
        c   == CivilFromDays(loc[1])
    IN <<c[1], c[2], c[3], loc[2] \div 3600, (loc[2] % 3600) \div 60, loc[2] % 60, loc[3], off>>
FieldsOk(f) == /\ f[2] \in 1..12 /\ f[3] \in 1..31 /\ f[4] \in 0..23 /\ f[5] \in 0..59 /\ f[6] \in 0..59
               /\ f[7] \in 0..(NS - 1) /\ f[8] \in (-OFFMAX)..OFFMAX /\ f[1] \in (-10000)..10000
\* the instant a full-precision text denotes
InstantOfFields(f) == IShift(<<DaysFromCivil(f[1], f[2], f[3]), f[4] * 3600 + f[5] * 60 + f[6], f[7]>>, -f[8])

\* format then parse: identity on the instant
FormatParse(t, off) == InstantOfFields(Fields(t, off))

\* Which documented text forms can show which instants: RFC 3339 has four-digit years 0000..9999 only
\* (the civil year in any zone is >= 1 from 0001-01-02Z on); the strptime-style forms carry a signed year.
Formats == <<"ymd-space-z", "ymd-slash-z", "rfc3339", "rfc9557", "ymd-12h-z">>
FmtApplicable(f, t) == f \in {"ymd-space-z", "ymd-slash-z", "ymd-12h-z"} \/ t[1] >= DaysFromCivil(1, 1, 2)

---------------------------------------------------------------------------
(* tolerance for durations that come back as f64 seconds (t1 - t2): abs 1 ns plus rel 1e-15 *)
\* 1e-15 * (d days) = d * 86400e-15 s = d * 0.0864 ns
DurTol(d) == <<0, 0, 1 + ((d.m[1] \div 10) * 864) \div 1000, 0>>
DurClose(x, y) == MCmp(DAbsDiff(x, y), DurTol(y)) <= 0

---------------------------------------------------------------------------
(* Judging one observed operation (used by Trace_DateTime for both the G and the J direction).               *)
(* d is the duration the implementation really used: its f64 seconds, decomposed exactly into limbs          *)
(* (attoseconds floored).  obs = [cls, err, out / x]:  cls "ok" | "runtime" | "panic" | ...                   *)

\* the VM's possible splits of d: the rounded fraction, both neighbours within TIESLACK of a tie
SplitCands(d) == { [sg |-> d.sg, whole |-> <<d.m[1], d.m[2]>>, ns |-> n] :
                     n \in (IF d.m[4] < HALF - TIESLACK THEN {d.m[3]}
                            ELSE IF d.m[4] > HALF + TIESLACK THEN {d.m[3] + 1} ELSE {d.m[3], d.m[3] + 1}) }

\* does the observation show outcome o ?  (strictKind: the error kind must be the predicted one too)
Shows(cls, err, out, o, strictKind) ==
    IF o.k = "ok" THEN cls = "ok" /\ out = o.t
    ELSE cls = "runtime" /\ (strictKind => err = o.k)

\* slack granted (lenient reading, ulps > 0) when the seconds of d may have been computed along another f64 path
\* than the one the harness observes: ulps * ulp(|d|) <= |d| * ulps * 2^-52, i.e. per ulp 222 as per second and
\* 0.0192 ns per day (taken as 222 as and 19 500 000 as); nothing for ulps = 0
Slack(d, ulps) == LET q == d.m[1] * 39 * ((ulps + 1) \div 2) IN
    IF ulps = 0 THEN ZeroM
    ELSE MAdd(<<0, 0, q \div 1000, (q % 1000) * 1000000>>, <<0, 0, 0, (d.m[2] + 1) * 222 * ulps>>)
CloseTo(delta, d, ulps) == MCmp(DAbsDiff(delta, d), MAdd(Slack(d, ulps), <<0, 0, 0, HALF + TIESLACK>>)) <= 0
Widened(d, ulps, dir) == LET r == RoundDur(d)  w == MAdd(DropAtto(Slack(d, ulps)), OneNs) IN
    IF dir = 1 THEN Dur(r.sg, MAdd(r.m, w))
    ELSE IF MCmp(r.m, w) >= 0 THEN Dur(r.sg, MSub(r.m, w)) ELSE Dur(-r.sg, MSub(w, r.m))

\* t (+/-) d  ->  out
AcceptApply(t, d, fin, op, cls, err, out, strictKind, ulps) ==
    IF ~fin THEN Shows(cls, err, out, DurErr, strictKind)
    ELSE \/ \E sp \in SplitCands(d) : Shows(cls, err, out, VMApplySplit(t, sp, op), strictKind)
         \/ /\ ulps > 0
            /\ IF cls = "ok"
               THEN /\ IsInstant(out) /\ InRange(out)
                    /\ CloseTo(IF op = "add" THEN Diff(out, t) ELSE Diff(t, out), d, ulps)
               ELSE /\ cls = "runtime"
                    /\ \E dir \in {1, -1} : Apply(t, Widened(d, ulps, dir), op).k # "ok"

\* (t + d) - t  ->  x (f64 seconds, decomposed)      [op = "sub": (t - d) - t -> x]
AcceptApplyDiff(t, d, fin, op, cls, err, x, strictKind, ulps) ==
    IF ~fin THEN Shows(cls, err, <<0, 0, 0>>, DurErr, strictKind)
    ELSE \/ \E sp \in SplitCands(d) :
              LET a == VMApplySplit(t, sp, op) IN
              IF a.k = "ok" THEN cls = "ok" /\ DurClose(x, Diff(a.t, t))
              ELSE Shows(cls, err, <<0, 0, 0>>, a, strictKind)
         \/ /\ ulps > 0
            /\ IF cls = "ok" THEN CloseTo(IF op = "add" THEN x ELSE Neg(x), d, ulps + 2)
               ELSE cls = "runtime" /\ \E dir \in {1, -1} : Apply(t, Widened(d, ulps, dir), op).k # "ok"

\* (t + d) - d  ->  out   [op = "add"; op = "sub": (t - d) + d]
AcceptThereAndBack(t, d, fin, op, cls, err, out, strictKind, ulps) ==
    IF ~fin THEN Shows(cls, err, out, DurErr, strictKind)
    ELSE \/ \E sp \in SplitCands(d) :
              LET a == VMApplySplit(t, sp, op) IN
              IF a.k = "ok" THEN Shows(cls, err, out, VMApplySplit(a.t, sp, IF op = "add" THEN "sub" ELSE "add"), strictKind)
              ELSE Shows(cls, err, out, a, strictKind)
         \/ /\ ulps > 0
            /\ IF cls = "ok" THEN out = t
               ELSE cls = "runtime" /\ \E dir \in {1, -1} : Apply(t, Widened(d, ulps, dir), op).k # "ok"

\* t - u  ->  x
AcceptDiff(t, u, cls, x) == cls = "ok" /\ DurClose(x, Diff(t, u))
\* t -> tz(to)  ->  out shown in zone oz
AcceptTz(t, z, to, cls, out, oz, strictKind) ==
    LET v == TzConvert(Zoned(t, z), to) IN cls = "ok" /\ out = v.inst /\ (strictKind => oz = v.zone)
\* format_datetime(full-precision format, t) = a text with these fields;  datetime(text) -> out
AcceptFmt(t, fok, fields, cls, out) ==
    /\ fok /\ FieldsOk(fields) /\ InstantOfFields(fields) = t       \* the text shown denotes t
    /\ cls = "ok" /\ out = t                                         \* and reads back as t
=============================================================================
