------------------------------- MODULE Typing -------------------------------
(***************************************************************************)
(* Dimension typing of the Numbat core language by ordinary dimensional    *)
(* analysis (book: advanced/type-system.md, basics/functions.md).          *)
(* Written from the documentation, independent of typechecker/*.rs.        *)
(*                                                                         *)
(* A type is  [k |-> "dim", v |-> vector over base dimensions]             *)
(*          | [k |-> "poly"]     (the literals 0, inf, NaN: any dimension) *)
(*          | [k |-> "bool"] | [k |-> "list", v |-> element vector]        *)
(*          | [k |-> "struct"]  | [k |-> "err", e |-> reason]              *)
(* Functions are typed by instantiation at the call site: the body is      *)
(* analysed with the concrete argument dimensions.                         *)
(* Properties: C02 (accept iff consistent; reported type), C01 (the        *)
(* run-time unit has the static dimension), C16 (inferred = annotated).    *)
(***************************************************************************)
EXTENDS Rat, TLC

Base == {"L", "T", "M"}                  \* Length, Time, Mass
Vec(l, t, m) == [b \in Base |-> IF b = "L" THEN R(l) ELSE IF b = "T" THEN R(t) ELSE R(m)]
Scalar == Vec(0, 0, 0)

Dim(v)  == [k |-> "dim", v |-> v]
Poly    == [k |-> "poly", v |-> Scalar]
Bool    == [k |-> "bool", v |-> Scalar]
ListOf(v) == [k |-> "list", v |-> v]
StructT == [k |-> "struct", v |-> Scalar]
SListT == [k |-> "slist", v |-> Scalar]
Err(e)  == [k |-> "err", v |-> Scalar, e |-> e]
IsErr(t) == t.k = "err"
IsDimLike(t) == t.k \in {"dim", "poly"}

\* dimensions of the units used (from their definitions in the prelude: `unit metre: Length`,
\* `unit newton: Force = kg m / s^2`, `unit hertz: Frequency = 1/s`, `unit percent = 1e-2` ...)
UnitDim(u) ==
  CASE u \in {"m", "cm", "km", "inch"} -> Vec(1, 0, 0)
    [] u \in {"s", "min", "hour"}      -> Vec(0, 1, 0)
    [] u \in {"kg", "g"}               -> Vec(0, 0, 1)
    [] u = "N"                          -> Vec(1, -2, 1)
    [] u = "J"                          -> Vec(2, -2, 1)
    [] u = "Hz"                         -> Vec(0, -1, 0)
    [] u = "percent"                    -> Scalar
    \* units defined by the catalogue (UnitDefTexts): a second base unit of Length, a derived unit, a unit of a new dimension
    [] u = "zbu"                        -> Vec(1, 0, 0)
    [] u = "zdu"                        -> Vec(1, -1, 0)
    [] u = "zau"                        -> Vec(2, 0, 0)
UnitDefTexts == << "unit zbu: Length", "unit zdu = 3 m / s", "dimension ZAr = Length^2", "unit zau: ZAr = 2 m^2" >>

\* ------------------------------------------------------------- expressions
E(op, args, name, num, txt) == [op |-> op, args |-> args, name |-> name, num |-> num, txt |-> txt]
Num(n, d, txt) == E("num", << >>, "", <<n, d>>, txt)
NonFinite(txt) == E("nonfinite", << >>, "", <<0, 1>>, txt)   \* inf, NaN
U(u)       == E("unit", << >>, u, <<0, 1>>, u)
V(x)       == E("var", << >>, x, <<0, 1>>, x)
Bin(op, a, b) == E(op, <<a, b>>, "", <<0, 1>>, "")
Neg(a)     == E("neg", <<a>>, "", <<0, 1>>, "")
If(c, a, b) == E("if", <<c, a, b>>, "", <<0, 1>>, "")
CallF(f, as) == E("call", as, f, <<0, 1>>, "")
List2(a, b) == E("list", <<a, b>>, "", <<0, 1>>, "")
HeadOf(a)  == E("head", <<a>>, "", <<0, 1>>, "")
Mk(a, b)   == E("mk", <<a, b>>, "", <<0, 1>>, "")            \* ZS { a: .., b: .. }
Fld(a, f)  == E("fld", <<a>>, f, <<0, 1>>, "")

OpText(op) == CASE op = "add" -> " + " [] op = "sub" -> " - " [] op = "mul" -> " * " [] op = "div" -> " / "
                [] op = "pow" -> "^" [] op = "conv" -> " -> " [] op = "lt" -> " < " [] op = "eq" -> " == "
RECURSIVE Show(_)
Show(e) ==
  CASE e.op \in {"num", "nonfinite", "unit", "var"} -> e.txt
    [] e.op \in {"add", "sub", "mul", "div", "pow", "conv", "lt", "eq"} ->
         "(" \o Show(e.args[1]) \o OpText(e.op) \o Show(e.args[2]) \o ")"
    [] e.op = "neg" -> "(-" \o Show(e.args[1]) \o ")"
    [] e.op = "if" -> "(if " \o Show(e.args[1]) \o " then " \o Show(e.args[2]) \o " else " \o Show(e.args[3]) \o ")"
    [] e.op = "call" -> e.name \o "(" \o Show(e.args[1]) \o
                          (IF Len(e.args) = 2 THEN ", " \o Show(e.args[2]) ELSE "") \o ")"
    [] e.op = "list" -> "[" \o Show(e.args[1]) \o ", " \o Show(e.args[2]) \o "]"
    [] e.op = "head" -> "head(" \o Show(e.args[1]) \o ")"
    [] e.op = "mk" -> "ZS { a: " \o Show(e.args[1]) \o ", b: " \o Show(e.args[2]) \o " }"
    [] e.op = "fld" -> Show(e.args[1]) \o "." \o e.name

\* --------------------------------------------------- constant exponents
\* compile-time evaluation of an exponent: [ok, v] with v an exact rational
RECURSIVE ConstEval(_)
ConstEval(e) ==
  CASE e.op = "num" -> [ok |-> TRUE, v |-> e.num, why |-> ""]
    [] e.op = "neg" -> LET a == ConstEval(e.args[1]) IN IF a.ok THEN [a EXCEPT !.v = RNeg(@)] ELSE a
    [] e.op \in {"add", "sub", "mul", "div", "pow"} ->
         LET a == ConstEval(e.args[1])
             b == ConstEval(e.args[2]) IN
         IF ~a.ok THEN a ELSE IF ~b.ok THEN b
         ELSE CASE e.op = "add" -> [ok |-> TRUE, v |-> RAdd(a.v, b.v), why |-> ""]
                [] e.op = "sub" -> [ok |-> TRUE, v |-> RSub(a.v, b.v), why |-> ""]
                [] e.op = "mul" -> [ok |-> TRUE, v |-> RMul(a.v, b.v), why |-> ""]
                [] e.op = "div" -> IF RIsZero(b.v) THEN [ok |-> FALSE, v |-> R(0), why |-> "division by zero"]
                                   ELSE [ok |-> TRUE, v |-> RDiv(a.v, b.v), why |-> ""]
                [] e.op = "pow" -> IF ~RIsInt(b.v) THEN [ok |-> FALSE, v |-> R(0), why |-> "non-integer exponent"]
                                   ELSE IF RIsZero(a.v) /\ b.v[1] < 0 THEN [ok |-> FALSE, v |-> R(0), why |-> "division by zero"]
                                   ELSE [ok |-> TRUE, v |-> RPowInt(a.v, b.v[1]), why |-> ""]
    [] OTHER -> [ok |-> FALSE, v |-> R(0), why |-> "not a constant expression"]

\* ------------------------------------------------------------- functions
\* annotation: none | a concrete vector | the type parameter D raised to a rational power
\* (two type parameters D and E: D^e * E^e2; a parameter annotation mentions exactly one of them)
ANone == [k |-> "none", v |-> Scalar, e |-> R(1), e2 |-> R(0)]
AConc(v) == [k |-> "conc", v |-> v, e |-> R(1), e2 |-> R(0)]
ATp(n, d) == [k |-> "tp", v |-> Scalar, e |-> <<n, d>>, e2 |-> R(0)]
ATpE(n, d) == [k |-> "tp", v |-> Scalar, e |-> R(0), e2 |-> <<n, d>>]
ATpDE(n, d, n2, d2) == [k |-> "tp", v |-> Scalar, e |-> <<n, d>>, e2 |-> <<n2, d2>>]

\* the catalogue of function definitions used by the generators
FnDef(f) ==
  CASE f = "f_len" -> [params |-> <<"x">>, panns |-> <<AConc(Vec(1, 0, 0))>>, rann |-> AConc(Vec(1, 0, 0)),
                    wheres |-> << >>, body |-> Bin("mul", Num(2, 1, "2"), V("x")),
                    text |-> "fn f_len(x: Length) -> Length = 2 * x"]
    [] f = "f_sq" -> [params |-> <<"x">>, panns |-> <<ATp(1, 1)>>, rann |-> ATp(2, 1),
                    wheres |-> << >>, body |-> Bin("mul", V("x"), V("x")),
                    text |-> "fn f_sq<D: Dim>(x: D) -> D^2 = x * x"]
    [] f = "f_sum" -> [params |-> <<"x", "y">>, panns |-> <<ATp(1, 1), ATp(1, 1)>>, rann |-> ATp(1, 1),
                    wheres |-> << >>, body |-> Bin("add", V("x"), V("y")),
                    text |-> "fn f_sum<D: Dim>(x: D, y: D) -> D = x + y"]
    [] f = "f_inf" -> [params |-> <<"x">>, panns |-> <<ANone>>, rann |-> ANone,
                    wheres |-> << >>, body |-> Bin("mul", V("x"), Bin("mul", Num(2, 1, "2"), U("m"))),
                    text |-> "fn f_inf(x) = x * (2 * m)"]
    [] f = "f_where" -> [params |-> <<"x">>, panns |-> <<AConc(Vec(0, 1, 0))>>, rann |-> AConc(Vec(1, 0, 0)),
                    wheres |-> << [name |-> "v", e |-> Bin("div", Bin("mul", Num(3, 1, "3"), U("m")), U("s"))] >>,
                    body |-> Bin("mul", V("x"), V("v")),
                    text |-> "fn f_where(x: Time) -> Length = x * v where v = (3 * m) / s"]
    [] f = "f_sqrt" -> [params |-> <<"x">>, panns |-> <<ATp(2, 1)>>, rann |-> ATp(1, 1),
                    wheres |-> << >>, body |-> Bin("pow", V("x"), Bin("div", Num(1, 1, "1"), Num(2, 1, "2"))),
                    text |-> "fn f_sqrt<D: Dim>(x: D^2) -> D = x^(1/2)"]
    [] f = "f_quot" -> [params |-> <<"a", "b">>, panns |-> <<ATp(1, 1), ATpE(1, 1)>>, rann |-> ATpDE(1, 1, -1, 1),
                    wheres |-> << >>, body |-> Bin("div", V("a"), V("b")),
                    text |-> "fn f_quot<D: Dim, E: Dim>(a: D, b: E) -> D / E = a / b"]
    [] f = "f_mix" -> [params |-> <<"a", "b">>, panns |-> <<ATp(1, 1), ATpE(1, 1)>>, rann |-> ATpDE(1, 1, 2, 1),
                    wheres |-> << >>, body |-> Bin("mul", V("a"), Bin("mul", V("b"), V("b"))),
                    text |-> "fn f_mix<D: Dim, E: Dim>(a: D, b: E) -> D * E^2 = a * (b * b)"]
    \* a parameter / a where-variable named like a unit shadows the BARE unit name only: km, cm stay the units
    [] f = "f_shp" -> [params |-> <<"m">>, panns |-> <<AConc(Vec(0, 1, 0))>>, rann |-> ANone,
                    wheres |-> << >>, body |-> Bin("mul", Bin("mul", Num(2, 1, "2"), U("km")), V("m")),
                    text |-> "fn f_shp(m: Time) = (2 * km) * m"]
    [] f = "f_shw" -> [params |-> <<"x">>, panns |-> <<AConc(Vec(1, 0, 0))>>, rann |-> ANone,
                    wheres |-> << [name |-> "m", e |-> Bin("mul", Num(2, 1, "2"), U("s"))] >>,
                    body |-> Bin("div", Bin("mul", V("x"), U("cm")), V("m")),
                    text |-> "fn f_shw(x: Length) = (x * cm) / m where m = 2 * s"]
FnNames == {"f_len", "f_sq", "f_sum", "f_inf", "f_where", "f_sqrt", "f_quot", "f_mix", "f_shp", "f_shw"}

\* struct ZS { a: Length, b: Time }
StructText == "struct ZS { a: Length, b: Time }"

\* ------------------------------------------------------------------ typing
Unify(t1, t2) ==   \* two quantities that must have the same dimension
  IF IsErr(t1) THEN t1 ELSE IF IsErr(t2) THEN t2
  ELSE IF ~IsDimLike(t1) \/ ~IsDimLike(t2) THEN Err("expected dimension type")
  ELSE IF t1.k = "poly" THEN t2 ELSE IF t2.k = "poly" THEN t1
  ELSE IF t1.v = t2.v THEN t1 ELSE Err("incompatible dimensions")

\* match an argument type against a parameter annotation; bnd = current binding of D ([set, v])
MatchAnn(ann, t, bnd) ==
  IF ann.k = "none" THEN [ok |-> TRUE, bnd |-> bnd]
  ELSE IF ~IsDimLike(t) THEN [ok |-> FALSE, bnd |-> bnd]
  ELSE IF ann.k = "conc" THEN [ok |-> (t.k = "poly" \/ t.v = ann.v), bnd |-> bnd]
  ELSE IF t.k = "poly" THEN [ok |-> TRUE, bnd |-> bnd]
  ELSE IF ~RIsZero(ann.e)     \* D^e
       THEN LET d == VScale(t.v, RInv(ann.e)) IN
            IF bnd.set THEN [ok |-> bnd.v = d, bnd |-> bnd] ELSE [ok |-> TRUE, bnd |-> [bnd EXCEPT !.set = TRUE, !.v = d]]
       ELSE LET d == VScale(t.v, RInv(ann.e2)) IN   \* E^e2
            IF bnd.set2 THEN [ok |-> bnd.v2 = d, bnd |-> bnd] ELSE [ok |-> TRUE, bnd |-> [bnd EXCEPT !.set2 = TRUE, !.v2 = d]]
\* the dimension a return annotation D^e * E^e2 denotes under a binding
AnnDim(ann, bnd) == VAdd(VScale(bnd.v, ann.e), VScale(bnd.v2, ann.e2))
AnnBound(ann, bnd) == (RIsZero(ann.e) \/ bnd.set) /\ (RIsZero(ann.e2) \/ bnd.set2)

RECURSIVE TypeOf(_, _)
RECURSIVE MatchAll(_, _, _, _)
MatchAll(panns, ts, i, bnd) ==
  IF i > Len(panns) THEN [ok |-> TRUE, bnd |-> bnd]
  ELSE LET r == MatchAnn(panns[i], ts[i], bnd) IN
       IF ~r.ok THEN r ELSE MatchAll(panns, ts, i + 1, r.bnd)
RECURSIVE BindWheres(_, _, _)
BindWheres(env, ws, i) ==
  IF i > Len(ws) THEN [ok |-> TRUE, env |-> env]
  ELSE LET t == TypeOf(env, ws[i].e) IN
       IF IsErr(t) THEN [ok |-> FALSE, env |-> env]
       ELSE BindWheres([x \in DOMAIN env \cup {ws[i].name} |-> IF x = ws[i].name THEN t ELSE env[x]], ws, i + 1)

\* env: function from variable names to types
TypeOf(env, e) ==
  CASE e.op = "num" -> IF RIsZero(e.num) THEN Poly ELSE Dim(Scalar)
    [] e.op = "nonfinite" -> Poly
    [] e.op = "unit" -> Dim(UnitDim(e.name))
    [] e.op = "var" -> IF e.name \in DOMAIN env THEN env[e.name] ELSE Err("unknown identifier")
    [] e.op \in {"add", "sub"} -> Unify(TypeOf(env, e.args[1]), TypeOf(env, e.args[2]))
    [] e.op = "conv" -> Unify(TypeOf(env, e.args[1]), TypeOf(env, e.args[2]))
    [] e.op \in {"lt", "eq"} ->
         LET t == Unify(TypeOf(env, e.args[1]), TypeOf(env, e.args[2])) IN IF IsErr(t) THEN t ELSE Bool
    [] e.op \in {"mul", "div"} ->
         LET a == TypeOf(env, e.args[1])
             b == TypeOf(env, e.args[2]) IN
         IF IsErr(a) THEN a ELSE IF IsErr(b) THEN b
         ELSE IF ~IsDimLike(a) \/ ~IsDimLike(b) THEN Err("expected dimension type")
         ELSE IF a.k = "poly" \/ b.k = "poly" THEN Poly
         ELSE Dim(IF e.op = "mul" THEN VAdd(a.v, b.v) ELSE VSub(a.v, b.v))
    [] e.op = "neg" -> LET a == TypeOf(env, e.args[1]) IN
                       IF IsErr(a) THEN a ELSE IF ~IsDimLike(a) THEN Err("expected dimension type") ELSE a
    [] e.op = "pow" ->
         LET a == TypeOf(env, e.args[1])
             b == TypeOf(env, e.args[2]) IN
         IF IsErr(a) THEN a ELSE IF IsErr(b) THEN b
         ELSE IF ~IsDimLike(a) \/ ~IsDimLike(b) THEN Err("expected dimension type")
         ELSE IF b.k = "dim" /\ ~VIsZero(b.v) THEN Err("exponent must be scalar")
         \* a polymorphic base (0, inf, NaN) is not known to be scalar: the exponent must be a constant
         \* (any dimension to the power 0 is dimensionless)
         ELSE IF a.k = "poly" THEN (LET c == ConstEval(e.args[2]) IN
                                    IF ~c.ok THEN Err("exponent: not a constant expression")
                                    ELSE IF RIsZero(c.v) THEN Dim(Scalar) ELSE Poly)
         ELSE IF VIsZero(a.v) THEN Dim(Scalar)
         ELSE LET c == ConstEval(e.args[2]) IN
              IF ~c.ok THEN Err("exponent: " \o c.why) ELSE Dim(VScale(a.v, c.v))
    [] e.op = "if" ->
         LET c == TypeOf(env, e.args[1]) IN
         IF IsErr(c) THEN c ELSE IF c.k # "bool" THEN Err("condition must be Bool")
         ELSE Unify(TypeOf(env, e.args[2]), TypeOf(env, e.args[3]))
    [] e.op = "list" ->
         LET t1 == TypeOf(env, e.args[1])
             t2 == TypeOf(env, e.args[2]) IN
         IF ~IsErr(t1) /\ ~IsErr(t2) /\ t1.k = "struct" /\ t2.k = "struct" THEN SListT     \* a list of structs ZS
         ELSE LET t == Unify(t1, t2) IN
              IF IsErr(t) THEN t ELSE IF t.k = "poly" THEN [k |-> "polylist", v |-> Scalar] ELSE ListOf(t.v)
    [] e.op = "head" ->
         LET t == TypeOf(env, e.args[1]) IN
         IF IsErr(t) THEN t ELSE IF t.k = "list" THEN Dim(t.v) ELSE IF t.k = "polylist" THEN Poly
         ELSE IF t.k = "slist" THEN StructT
         ELSE Err("expected list")
    [] e.op = "mk" ->
         LET a == Unify(TypeOf(env, e.args[1]), Dim(Vec(1, 0, 0)))
             b == Unify(TypeOf(env, e.args[2]), Dim(Vec(0, 1, 0))) IN
         IF IsErr(a) THEN a ELSE IF IsErr(b) THEN b ELSE StructT
    [] e.op = "fld" ->
         LET t == TypeOf(env, e.args[1]) IN
         IF IsErr(t) THEN t ELSE IF t.k # "struct" THEN Err("not a struct")
         ELSE IF e.name = "a" THEN Dim(Vec(1, 0, 0)) ELSE IF e.name = "b" THEN Dim(Vec(0, 1, 0))
         ELSE Err("unknown field")
    [] e.op = "call" ->
         LET f == FnDef(e.name)
             ts == [i \in 1..Len(e.args) |-> TypeOf(env, e.args[i])] IN
         IF \E i \in 1..Len(ts) : IsErr(ts[i]) THEN ts[CHOOSE i \in 1..Len(ts) : IsErr(ts[i])]
         ELSE LET m == MatchAll(f.panns, ts, 1, [set |-> FALSE, v |-> Scalar, set2 |-> FALSE, v2 |-> Scalar]) IN
           IF ~m.ok THEN Err("argument does not match parameter type")
           ELSE LET penv == [x \in {f.params[i] : i \in 1..Len(f.params)} |->
                               LET i == CHOOSE j \in 1..Len(f.params) : f.params[j] = x IN
                               \* an annotated parameter has the annotated type inside the body
                               IF f.panns[i].k = "conc" THEN Dim(f.panns[i].v) ELSE ts[i]]
                    w == BindWheres(penv, f.wheres, 1) IN
                IF ~w.ok THEN Err("where clause")
                ELSE LET bt == TypeOf(w.env, f.body) IN
                     IF IsErr(bt) THEN bt
                     ELSE IF f.rann.k = "conc" THEN (IF bt.k = "poly" \/ (bt.k = "dim" /\ bt.v = f.rann.v) THEN Dim(f.rann.v)
                                                      ELSE Err("return type"))
                     ELSE IF f.rann.k = "tp" /\ AnnBound(f.rann, m.bnd)
                          THEN (IF bt.k = "poly" \/ (bt.k = "dim" /\ bt.v = AnnDim(f.rann, m.bnd))
                                THEN Dim(AnnDim(f.rann, m.bnd)) ELSE Err("return type"))
                     ELSE bt

\* JSON-friendly rendering of a type
TypeJson(t) == [k |-> t.k, v |-> [b \in Base |-> t.v[b]], e |-> IF t.k = "err" THEN t.e ELSE ""]
=============================================================================
