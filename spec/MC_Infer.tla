------------------------------ MODULE MC_Infer ------------------------------
(* Case generation for C16: unannotated bodies over parameters x, y, and call sites with concrete
   dimensions from a lattice; prediction = definition accepted? and per call: accepted with which dimension. *)
EXTENDS Infer, Json
CONSTANTS Tier
VARIABLES stage, seed, body
vars == <<stage, seed, body>>

X == V("x")
Y == V("y")
Two == Num(2, 1, "2")
One == Num(1, 1, "1")
HalfE == Bin("div", One, Two)
Atoms == {X, Y, U("m"), U("s"), Two}
Pows == {Two, HalfE, Neg(One), Num(3, 1, "3")}
Lib1(a) == E("call", <<a>>, "sqrt", <<0, 1>>, "")
Lib1b(a) == E("call", <<a>>, "abs", <<0, 1>>, "")
Lib2(a, b) == E("call", <<a, b>>, "max2", <<0, 1>>, "")

\* depth-1 terms over the atoms
T1 == Atoms \cup { Bin(op, a, b) : op \in {"mul", "div"}, a \in {X, Y}, b \in Atoms }
            \cup { Bin("pow", a, p) : a \in {X, Y}, p \in Pows }
            \cup { Lib1(X), Lib1b(Y) }
Seeds == T1
Bodies(s) ==
     { s }
  \cup { Bin(op, s, t) : op \in {"add", "sub", "mul", "div"}, t \in (IF Tier = "quick" THEN Atoms \cup {Bin("mul", X, Y), Bin("pow", X, Two), Bin("pow", Y, HalfE)} ELSE T1) }
  \cup { If(Bin("lt", s, t), a, b) : t \in {X, U("m"), Two}, a \in {X, Y}, b \in {Y, U("s"), Bin("mul", X, X)} }
  \* == / != put no Dim bound on their operands by themselves: the printed signature may have an unbounded type parameter
  \cup { If(Bin("eq", s, t), a, b) : t \in {X, Y, U("m")}, a \in {X, Y}, b \in {X, Y} }
  \cup { Lib2(s, t) : t \in Atoms }
  \cup { Lib1(Bin("mul", s, t)) : t \in {X, Y, U("m")} }
  \cup { Bin("pow", Bin("add", s, t), Two) : t \in {Y, U("m")} }

Init == stage = 0 /\ seed = X /\ body = X
Next == \/ stage = 0 /\ \E s \in Seeds : seed' = s /\ stage' = 1 /\ UNCHANGED body
        \/ stage = 1 /\ \E b \in Bodies(seed) : body' = b /\ stage' = 2 /\ UNCHANGED seed
Spec == Init /\ [][Next]_vars

\* call-site lattice: argument expressions with concrete dimensions
Args == << Two, U("m"), U("s"), Bin("div", U("m"), U("s")), Bin("pow", U("m"), Two), Bin("mul", U("m"), U("s")),
           Bin("pow", U("s"), Neg(One)), U("kg") >>
ArgText == [i \in 1..Len(Args) |-> Show(Args[i])]

\* library calls inside a body, typed by instantiation at concrete dimensions (for call sites)
RECURSIVE ConcType(_, _)
ConcType(env, e) ==
  IF e.op = "call" /\ e.name \in {"sqrt", "abs", "max2"}
  THEN LET a == ConcType(env, e.args[1]) IN
       IF IsErr(a) THEN a ELSE IF ~IsDimLike(a) THEN Err("expected dimension type")
       ELSE IF e.name = "sqrt" THEN Dim(VScale(a.v, <<1, 2>>))
       ELSE IF e.name = "abs" THEN a
       ELSE Unify(a, ConcType(env, e.args[2]))
  ELSE IF e.op \in {"add", "sub", "conv"} THEN Unify(ConcType(env, e.args[1]), ConcType(env, e.args[2]))
  ELSE IF e.op \in {"lt", "eq"} THEN (LET t == Unify(ConcType(env, e.args[1]), ConcType(env, e.args[2])) IN IF IsErr(t) THEN t ELSE Bool)
  ELSE IF e.op \in {"mul", "div"} THEN
       (LET a == ConcType(env, e.args[1])
            b == ConcType(env, e.args[2]) IN
        IF IsErr(a) THEN a ELSE IF IsErr(b) THEN b ELSE IF ~IsDimLike(a) \/ ~IsDimLike(b) THEN Err("expected dimension type")
        ELSE Dim(IF e.op = "mul" THEN VAdd(a.v, b.v) ELSE VSub(a.v, b.v)))
  ELSE IF e.op = "pow" THEN
       (LET a == ConcType(env, e.args[1])
            c == ConstEval(e.args[2]) IN
        IF IsErr(a) THEN a ELSE IF ~IsDimLike(a) THEN Err("expected dimension type")
        ELSE IF ~c.ok THEN Err("exponent") ELSE Dim(VScale(a.v, c.v)))
  ELSE IF e.op = "if" THEN
       (LET c == ConcType(env, e.args[1]) IN
        IF IsErr(c) THEN c ELSE IF c.k # "bool" THEN Err("condition") ELSE Unify(ConcType(env, e.args[2]), ConcType(env, e.args[3])))
  ELSE TypeOf(env, e)

UsesY(e) == LET RECURSIVE U2(_)
                U2(x) == IF x.op = "var" THEN x.name = "y" ELSE \E i \in 1..Len(x.args) : U2(x.args[i])
            IN U2(e)

CallType(i, j) == ConcType([v \in {"x", "y"} |-> IF v = "x" THEN TypeOf([q \in {} |-> Poly], Args[i]) ELSE TypeOf([q \in {} |-> Poly], Args[j])], body)

ASSUME PrintT(<<"META", ToJson([args |-> ArgText, setup |-> <<"fn max2<D: Dim>(a: D, b: D) -> D = if a > b then a else b">>])>>)

\* MC: the instantiation view and the solver view agree: a definition with a well-typed call is solvable
InstImpliesSolvable == stage = 2 =>
    ((\E i, j \in 1..Len(Args) : ~IsErr(CallType(i, j))) => DefAccepted(body))

EmitCase == stage = 2 =>
  PrintT(<<"CASE", ToJson([body |-> Show(body), two |-> UsesY(body), accepted |-> DefAccepted(body),
                           calls |-> [i \in 1..Len(Args) |-> [j \in 1..Len(Args) |-> TypeJson(CallType(i, j))]]])>>)
=============================================================================
