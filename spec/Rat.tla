-------------------------------- MODULE Rat --------------------------------
(* Exact rationals as normalised pairs <<n, d>> with d > 0, and finite-support exponent vectors
   (dimension vectors over base dimensions, unit vectors over base units). *)
EXTENDS Integers, Sequences

Abs(x) == IF x < 0 THEN -x ELSE x
RECURSIVE Gcd(_, _)
Gcd(a, b) == IF b = 0 THEN a ELSE Gcd(b, a % b)

Norm(n, d) == LET s == IF d < 0 THEN -1 ELSE 1
                  g == Gcd(Abs(n), Abs(d))
              IN IF n = 0 THEN <<0, 1>> ELSE <<(s * n) \div g, (s * d) \div g>>
R(n) == <<n, 1>>
RAdd(a, b) == Norm(a[1] * b[2] + b[1] * a[2], a[2] * b[2])
RNeg(a) == <<-a[1], a[2]>>
RSub(a, b) == RAdd(a, RNeg(b))
RMul(a, b) == Norm(a[1] * b[1], a[2] * b[2])
RInv(a) == Norm(a[2], a[1])            \* a # 0
RDiv(a, b) == RMul(a, RInv(b))         \* b # 0
RIsZero(a) == a[1] = 0
RIsInt(a) == a[2] = 1
RECURSIVE RPowInt(_, _)
RPowInt(a, k) == IF k = 0 THEN R(1) ELSE IF k < 0 THEN RInv(RPowInt(a, -k)) ELSE RMul(a, RPowInt(a, k - 1))

\* vectors: functions from a fixed base set to rationals
VZero(B) == [b \in B |-> R(0)]
VAdd(u, v) == [b \in DOMAIN u |-> RAdd(u[b], v[b])]
VSub(u, v) == [b \in DOMAIN u |-> RSub(u[b], v[b])]
VScale(u, r) == [b \in DOMAIN u |-> RMul(u[b], r)]
VIsZero(u) == \A b \in DOMAIN u : RIsZero(u[b])
=============================================================================
