------------------------------ MODULE NumFormat ------------------------------
(***************************************************************************)
(* C14 - displayed numbers read back as the value they show.               *)
(*                                                                         *)
(* TLC has no reals: everything here works on DECIMAL DIGIT SEQUENCES.     *)
(* A number is a record                                                    *)
(*     [cls |-> "fin" | "inf" | "nan", neg |-> BOOLEAN,                    *)
(*      ds  |-> <<d1, ..., dk>>  (digits 0..9),  e |-> Int]                *)
(* meaning  (-1)^neg * d1.d2...dk * 10^e ;  for the value that is being    *)
(* displayed, ds/e is the SHORTEST ROUND-TRIP decimal representation of    *)
(* the f64 (what Rust's `{:e}` prints).  Canonical form: d1 # 0, dk # 0;   *)
(* zero is ds = <<0>>, e = 0.                                              *)
(* Options: [sep |-> text, thr |-> Nat, sig |-> Nat \ {0}] - the           *)
(* digit separator, the grouping threshold ("minimum number of digits      *)
(* before adding separators") and the maximum number of significant        *)
(* digits of the book's `[format]` settings (book/src/cli/customization).  *)
(* Text is a sequence of one-character strings.                            *)
(*                                                                         *)
(* What the property fixes, and therefore what is specified exactly:       *)
(*  - NaN / inf / -inf are displayed as those keywords;                    *)
(*  - an integer of magnitude below 2^53 is displayed with ALL its digits  *)
(*    (IntText: sign, digits, groups of three from the threshold on);      *)
(*  - every other number is displayed as SOME text that (after removing    *)
(*    the separator) is a numeric literal of the documented notation       *)
(*    (book/src/basics/number-notation.md) whose exact decimal value is    *)
(*    the value rounded to `sig` significant digits.  This is a RELATION   *)
(*    (Judge), not a function: trailing zeros, a trailing ".0", the        *)
(*    choice positional/e-notation are representation and are not          *)
(*    predicted (NotationOK describes the implementation's notation rule   *)
(*    and is only reported as model drift).                                *)
(* Rounding rule: half-up on the shortest digits (0.35 -> 0.4 at one       *)
(* digit).  Where the shortest digits end in exactly one 5 after the last  *)
(* displayed digit (a decimal tie) the binary value may lie on either side *)
(* of the tie, "rounded" is ambiguous in the property itself, and both     *)
(* neighbours are admissible.  Nowhere else.                               *)
(*                                                                         *)
(* A second, rarer ambiguity lies in the INPUT: an f64 that is exactly     *)
(* half-way between two decimals of the shortest length has two shortest   *)
(* representations (Rust's `{:e}` and ryu, which the implementation uses,  *)
(* pick different ones, e.g. 900719925474099.25 -> ...99.3 / ...99.2);     *)
(* Trace_NumFormat judges such a value for either of them (field alts).    *)
(*                                                                         *)
(* Format is the spec's own reference formatter; MC_NumFormat checks       *)
(* ReadBack(Format(x)) = RoundSig(x, sig) resp. = x on it.                 *)
(***************************************************************************)
EXTENDS Integers, Sequences

---------------------------------------------------------------------------
(* characters and digits *)

DigitChars == <<"0", "1", "2", "3", "4", "5", "6", "7", "8", "9">>
DigitChar(d) == DigitChars[d + 1]
IsDigitChar(c) == c \in {"0", "1", "2", "3", "4", "5", "6", "7", "8", "9"}
DigitVal(c) == CASE c = "0" -> 0 [] c = "1" -> 1 [] c = "2" -> 2 [] c = "3" -> 3 [] c = "4" -> 4
                 [] c = "5" -> 5 [] c = "6" -> 6 [] c = "7" -> 7 [] c = "8" -> 8 [] c = "9" -> 9

Chars(ds) == [i \in 1..Len(ds) |-> DigitChar(ds[i])]
Vals(cs) == [i \in 1..Len(cs) |-> DigitVal(cs[i])]
Zeros(k) == [i \in 1..k |-> 0]

RECURSIVE NatChars(_)
NatChars(n) == IF n < 10 THEN <<DigitChar(n)>> ELSE NatChars(n \div 10) \o <<DigitChar(n % 10)>>

RECURSIVE NatOfDigits(_, _)
NatOfDigits(ds, acc) == IF ds = <<>> THEN acc
                        ELSE IF acc > 100000000 THEN acc      \* saturate: far outside every f64 exponent
                        ELSE NatOfDigits(Tail(ds), 10 * acc + Head(ds))

---------------------------------------------------------------------------
(* numbers as digit sequences *)

Zero == [cls |-> "fin", neg |-> FALSE, ds |-> <<0>>, e |-> 0]
NaNv == [cls |-> "nan", neg |-> FALSE, ds |-> <<0>>, e |-> 0]
Infv(neg) == [cls |-> "inf", neg |-> neg, ds |-> <<0>>, e |-> 0]

\* canonical number with the value (-1)^neg * d1.d2...dk * 10^e  (leading / trailing zeros allowed in ds)
Norm(neg, ds, e) ==
    IF \A i \in 1..Len(ds) : ds[i] = 0 THEN Zero
    ELSE LET f == CHOOSE i \in 1..Len(ds) : ds[i] # 0 /\ \A j \in 1..(i - 1) : ds[j] = 0
             l == CHOOSE i \in 1..Len(ds) : ds[i] # 0 /\ \A j \in (i + 1)..Len(ds) : ds[j] = 0
         IN [cls |-> "fin", neg |-> neg, ds |-> SubSeq(ds, f, l), e |-> e - (f - 1)]

\* the value of a number record irrespective of how it is written (-0 = 0)
Canon(x) == IF x.cls = "fin" THEN Norm(x.neg, x.ds, x.e)
            ELSE IF x.cls = "inf" THEN Infv(x.neg) ELSE NaNv

IsZero(x) == x.cls = "fin" /\ \A i \in 1..Len(x.ds) : x.ds[i] = 0

\* on canonical finite numbers
IsInt(x) == x.e >= Len(x.ds) - 1
IntDigits(x) == x.ds \o Zeros(x.e + 1 - Len(x.ds))

Two53 == <<9, 0, 0, 7, 1, 9, 9, 2, 5, 4, 7, 4, 0, 9, 9, 2>>
LexLess(a, b) == \E i \in 1..Len(a) : a[i] < b[i] /\ \A j \in 1..(i - 1) : a[j] = b[j]
Below253(x) == \/ x.e + 1 < 16
               \/ x.e + 1 = 16 /\ LexLess(IntDigits(x), Two53)

\* "integer values of magnitude below 2^53"
IntBranch(x) == x.cls = "fin" /\ IsInt(x) /\ Below253(x)

---------------------------------------------------------------------------
(* rounding to n >= 1 significant digits, on canonical finite nonzero numbers *)

RECURSIVE IncAt(_, _)
IncAt(s, i) == IF i = 0 THEN <<1>> \o s
               ELSE IF s[i] < 9 THEN [s EXCEPT ![i] = @ + 1]
               ELSE IncAt([s EXCEPT ![i] = 0], i - 1)

RoundDown(x, n) == IF Len(x.ds) <= n THEN x ELSE Norm(x.neg, SubSeq(x.ds, 1, n), x.e)
RoundUp(x, n) == IF Len(x.ds) <= n THEN x
                 ELSE LET r == IncAt(SubSeq(x.ds, 1, n), n)
                      IN Norm(x.neg, r, x.e + (Len(r) - n))
\* half-up in magnitude on the shortest digits
RoundSig(x, n) == IF Len(x.ds) <= n THEN x
                  ELSE IF x.ds[n + 1] >= 5 THEN RoundUp(x, n) ELSE RoundDown(x, n)
IsTie(x, n) == Len(x.ds) = n + 1 /\ x.ds[n + 1] = 5
Admissible(x, n) == {RoundSig(x, n)} \cup (IF IsTie(x, n) THEN {RoundDown(x, n)} ELSE {})

---------------------------------------------------------------------------
(* the reference formatter *)

RECURSIVE Grp(_, _, _)
\* digits ds[i..] with sep before every group of three counted from the right
Grp(ds, i, sep) == IF i > Len(ds) THEN <<>>
                   ELSE (IF i > 1 /\ (Len(ds) - i + 1) % 3 = 0 THEN sep ELSE <<>>)
                        \o <<DigitChar(ds[i])>> \o Grp(ds, i + 1, sep)

SignChars(x) == IF x.neg /\ ~IsZero(x) THEN <<"-">> ELSE <<>>

IntText(x, o) == LET dg == IntDigits(x)
                 IN SignChars(x) \o (IF o.sep # <<>> /\ Len(dg) >= o.thr THEN Grp(dg, 1, o.sep) ELSE Chars(dg))

\* the implementation's notation rule (pretty_dtoa breaks -6 / 6): positional iff 1e-6 <= |rounded| < 1e6
Positional(r) == r.e \in -6..5

FloatTextR(r) ==
    SignChars(r) \o
       (IF Positional(r)
        THEN IF r.e >= 0
             THEN IF Len(r.ds) <= r.e + 1 THEN Chars(r.ds \o Zeros(r.e + 1 - Len(r.ds)))
                  ELSE Chars(SubSeq(r.ds, 1, r.e + 1)) \o <<".">> \o Chars(SubSeq(r.ds, r.e + 2, Len(r.ds)))
             ELSE <<"0", ".">> \o Chars(Zeros(-r.e - 1)) \o Chars(r.ds)
        ELSE <<DigitChar(r.ds[1]), ".">> \o (IF Len(r.ds) = 1 THEN <<"0">> ELSE Chars(SubSeq(r.ds, 2, Len(r.ds))))
             \o <<"e">> \o (IF r.e >= 0 THEN <<"+">> ELSE <<"-">>) \o NatChars(IF r.e >= 0 THEN r.e ELSE -r.e))
FloatText(x, o) == FloatTextR(RoundSig(x, o.sig))

KwNaN == <<"N", "a", "N">>
KwInf == <<"i", "n", "f">>

\* x canonical
Format(x, o) == CASE x.cls = "nan" -> KwNaN
                  [] x.cls = "inf" -> (IF x.neg THEN <<"-">> ELSE <<>>) \o KwInf
                  [] x.cls = "fin" /\ IntBranch(x) -> IntText(x, o)
                  [] OTHER -> FloatText(x, o)

---------------------------------------------------------------------------
(* reading a displayed text back: remove the separator, then the documented number notation            *)
(*   literal ::= [-] ( digits+ [ "." digits* ] | "." digits+ ) [ (e|E) [+|-] digits+ ]  |  [-] inf | NaN *)
(* as an EXACT decimal.                                                                                 *)

RECURSIVE StripFrom(_, _, _)
StripFrom(t, i, sep) ==
    IF i > Len(t) THEN <<>>
    ELSE IF sep # <<>> /\ i + Len(sep) - 1 <= Len(t) /\ SubSeq(t, i, i + Len(sep) - 1) = sep
         THEN StripFrom(t, i + Len(sep), sep)
         ELSE <<t[i]>> \o StripFrom(t, i + 1, sep)
Strip(t, sep) == StripFrom(t, 1, sep)

RECURSIVE RunEnd(_, _)
\* last index of the maximal run of digit characters starting at i (i - 1 if there is none)
RunEnd(t, i) == IF i > Len(t) \/ ~IsDigitChar(t[i]) THEN i - 1 ELSE RunEnd(t, i + 1)

Invalid == [ok |-> FALSE, v |-> Zero]

\* (TLC re-evaluates LET definitions on every use: the scan is staged through operator parameters instead)
\* a: end of the integer digits b[1..a];  f0..fe: fraction digits;  x0..xe: exponent digits
RL4(neg, b, a, hasdot, f0, fe, hasexp, hassgn, x0, xe) ==
    IF ~(/\ (a >= 1 \/ (hasdot /\ fe >= f0))
         /\ (hasexp => xe >= x0)
         /\ xe = Len(b))
    THEN Invalid
    ELSE LET mant == Vals(SubSeq(b, 1, a)) \o (IF hasdot THEN Vals(SubSeq(b, f0, fe)) ELSE <<>>)
             ex   == IF hasexp THEN NatOfDigits(Vals(SubSeq(b, x0, xe)), 0) ELSE 0
         IN [ok |-> TRUE, v |-> Norm(neg, mant, (a - 1) + (IF hassgn /\ b[fe + 2] = "-" THEN -ex ELSE ex))]
RL3(neg, b, a, hasdot, f0, fe, hasexp, hassgn, x0) ==
    RL4(neg, b, a, hasdot, f0, fe, hasexp, hassgn, x0, IF hasexp THEN RunEnd(b, x0) ELSE fe)
RL2(neg, b, a, hasdot, f0, fe, hasexp) ==
    \* p = fe + 1 is the position of e/E
    IF hasexp /\ fe + 2 <= Len(b) /\ b[fe + 2] \in {"+", "-"}
    THEN RL3(neg, b, a, hasdot, f0, fe, hasexp, TRUE, fe + 3)
    ELSE RL3(neg, b, a, hasdot, f0, fe, hasexp, FALSE, fe + 2)
RL1(neg, b, a, hasdot, f0, fe) ==
    RL2(neg, b, a, hasdot, f0, fe, fe + 1 <= Len(b) /\ b[fe + 1] \in {"e", "E"})
RL0(neg, b, a) ==
    IF a + 1 <= Len(b) /\ b[a + 1] = "."
    THEN RL1(neg, b, a, TRUE, a + 2, RunEnd(b, a + 2))
    ELSE RL1(neg, b, a, FALSE, a + 1, a)
ReadLiteral(neg, b) == RL0(neg, b, RunEnd(b, 1))

RB1(t, neg) ==
    LET b == IF neg THEN Tail(t) ELSE t
    IN IF b = KwInf THEN [ok |-> TRUE, v |-> Infv(neg)]
       ELSE IF b = KwNaN THEN [ok |-> ~neg, v |-> NaNv]
       ELSE ReadLiteral(neg, b)
RB0(t) == RB1(t, t # <<>> /\ t[1] = "-")
ReadBack(text, sep) == RB0(Strip(text, sep))

HasE(text) == \E i \in 1..Len(text) : text[i] \in {"e", "E"}

---------------------------------------------------------------------------
(* the property as a relation between the displayed value x (any spelling), the options and the text *)

ReadOK(rb, x, n) == rb.ok /\ rb.v \in Admissible(x, n)

\* x canonical, negzero: the value is a negative zero
JudgeC(x, negzero, o, text) ==
    CASE x.cls = "nan" -> text = KwNaN
      [] x.cls = "inf" -> text = (IF x.neg THEN <<"-">> ELSE <<>>) \o KwInf
      [] x.cls = "fin" /\ IntBranch(x) ->
             \* all digits, documented grouping; a negative zero may or may not show its sign
             \/ text = IntText(x, o)
             \/ negzero /\ text = <<"-">> \o IntText(x, o)
      [] OTHER -> ReadOK(ReadBack(text, o.sep), x, o.sig)

Judge(x0, o, text) == JudgeC(Canon(x0), x0.neg /\ IsZero(x0), o, text)

\* implementation detail, not part of the property (reported as MODEL-DRIFT only)
NotationC(x, o, text) == (x.cls = "fin" /\ ~IntBranch(x)) => (HasE(text) <=> ~Positional(RoundSig(x, o.sig)))
NotationOK(x0, o, text) == NotationC(Canon(x0), o, text)
=============================================================================
