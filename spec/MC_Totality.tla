----------------------------- MODULE MC_Totality -----------------------------
(***************************************************************************)
(* C08, MC: the pipeline machine of Totality.tla.                          *)
(*   MC_Totality.cfg         Spec:       TypeOK, Total, Prompt, EndIsObs,  *)
(*                                       StageOfClass, Termination hold    *)
(*   MC_Totality_faulty.cfg  SpecFaulty: Total is violated (the statement  *)
(*                                       is not vacuous; the check expects *)
(*                                       the violation)                    *)
(* One END line per reachable end state: the check compares the set with   *)
(* EndObs (every allowed observation is reachable, no other is).           *)
(***************************************************************************)
EXTENDS Totality, TLC, Json

ASSUME RenderDefined

EndIsObs == pc = "end" => [outcome |-> outcome, cls |-> cls, stage |-> at] \in EndObs
EmitEnd  == pc = "end" => PrintT(<<"END", ToJson([outcome |-> outcome, cls |-> cls, stage |-> at, clock |-> clock])>>)

Meta == [good |-> GoodOutcomes, bad |-> BadOutcomes, budget |-> Budget, endobs |-> EndObs]
ASSUME PrintT(<<"META", ToJson(Meta)>>)
=============================================================================
