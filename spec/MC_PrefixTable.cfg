CONSTANT PrefixTable <- RealPrefixes
SPECIFICATION Spec
INVARIANTS EmitCase AtMostOneReading NotAlsoOther Denotes ShowReadsBackReal
CHECK_DEADLOCK FALSE
