----------------------------- MODULE MC_Session -----------------------------
(***************************************************************************)
(* Bounded exploration of Session.tla: every history of up to Depth inputs *)
(* over an alphabet of inputs.  Checks the properties on the specification *)
(* (MC) and prints one CASE line per history with the predicted outcome of *)
(* every input and the predicted final observation (G direction).          *)
(***************************************************************************)
EXTENDS Session, Json

CONSTANTS Depth, Alphabet, Emit

VARIABLES st, hist
vars == <<st, hist>>

A == Names
NamesFirst ==
  { Let("za", 1), Let("zb", 2), LetRef("zb", "za"), LetRef("za", "za"), LetDiv0("za"), LetTyErr("za"),
    LetAns, Fn("za", 1), Fn("zb", 2), FnRef("zb", "za"), FnCall("zb", "za"), Expr("za"), Call("zb"),
    AnsE, UnitDef("za"), DimDef("za"), StructDef, PrintS("za"), AssertEq("za", 1), ParseErr }
NamesSecond ==
  { LetDiv0("zb"), LetTyErr("zb"), PrintS("za"), Expr("za"), UnitDef("zb"), AssertEq("za", 2), ParseErr,
    Let("zb", 2), Call("za"), ExprDiv0 }
ImportsFirst ==
  { Use("ma"), Use("mb"), Use("mc"), Use("me"), Use("mf"), Use("mg"), Use("mz"), Expr("ma_x"),
    LetRef("za", "mb_x"), Let("ma_x", 3), LetDiv0("za"), Let("za", 1) }
ImportsSecond ==
  { LetDiv0("zb"), LetTyErr("zb"), ParseErr, Use("ma"), Use("mz"), Use("md"), Expr("mc_x"), UnitDef("ma_x"), LetAns }
SmallFirst ==
  { Let("za", 1), LetRef("zb", "za"), Fn("za", 2), FnCall("zb", "za"), Expr("za"), Call("zb"), AnsE,
    UnitDef("zb"), PrintS("za"), LetDiv0("za"), LetTyErr("zb"), Use("mb"), Use("mf"), Use("mz"), QExpr, AnsVal,
    UnitDer("zc"), UnitUse("zc") }
SmallSecond == { LetDiv0("zb"), Expr("za"), ParseErr, Use("ma"), UnitUse("zc"), ExprDiv0 }

OkFirst ==
  { Let("za", 1), Let("za", 2), LetRef("za", "za"), LetRef("zc", "za"), Fn("zb", 1), Fn("zb", 2), FnRef("zb", "za"),
    FnCall("zc", "zb"), Expr("za"), Call("zb"), AnsE, PrintS("za"), UnitDef("zc"), Use("mb"), Use("mc"),
    DimDef("za"), StructDef, AssertEq("za", 1), QExpr, AnsVal, UnitDer("zc"), UnitUse("zc") }

Firsts  == CASE Alphabet = "okonly" -> OkFirst []  Alphabet = "names" -> NamesFirst [] Alphabet = "imports" -> ImportsFirst [] OTHER -> SmallFirst
Seconds == CASE Alphabet = "okonly" -> {} []  Alphabet = "names" -> NamesSecond [] Alphabet = "imports" -> ImportsSecond [] OTHER -> SmallSecond
Inputs == { <<s>> : s \in Firsts } \cup { <<s, t>> : s \in Firsts, t \in Seconds }

\* constants of the model the harness needs (texts only), printed once
ASSUME PrintT(<<"META", ToJson([prelude |-> PreludeText,
                               modules |-> [m \in KnownMods |-> ModText(m)],
                               probes |-> [i \in 1..Len(ProbeInputs) |-> InputText(ProbeInputs[i])]])>>)

Init == st = InitSt /\ hist = << >>

StepRec(input, r) == [text |-> InputText(input), stmts |-> input, outcome |-> r.outcome, kind |-> r.kind,
                      out |-> r.out, res |-> r.res]

Next == /\ Len(hist) < Depth
        /\ \E input \in Inputs :
             LET r == Submit(st, input) IN
               /\ st' = r.st
               /\ hist' = Append(hist, StepRec(input, r))

Spec == Init /\ [][Next]_vars

\* for `tlc -simulate`: one random successor per step (TLC would otherwise evaluate the invariants,
\* and hence print, for every candidate successor)
SimNext == /\ Len(hist) < Depth
           /\ \E input \in {RandomElement(Inputs)} :   \* bound once (a LET would be re-evaluated per use)
                LET r == Submit(st, input) IN
                  /\ st' = r.st
                  /\ hist' = Append(hist, StepRec(input, r))
SimSpec == Init /\ [][SimNext]_vars

\* values stay small (the harness and the spec use exact small integers)
Bounded == \A i \in Ids : st.val[i] <= 2100 /\ st.fnv[i] <= 2100

-----------------------------------------------------------------------------
\* C06: a failing input leaves the observable session unchanged
FailAtomic == [][ hist'[Len(hist')].outcome # "ok" => Obs(st') = Obs(st) ]_vars

\* C07: submitting all (successful) inputs as one batch is the same as one at a time
RECURSIVE ConcatStmts(_)
ConcatStmts(h) == IF h = << >> THEN << >> ELSE Head(h).stmts \o ConcatStmts(Tail(h))
RECURSIVE ConcatOut(_)
ConcatOut(h) == IF h = << >> THEN << >> ELSE Head(h).out \o ConcatOut(Tail(h))
RECURSIVE LastRes(_)
LastRes(h) == IF h = << >> THEN 0 ELSE IF h[Len(h)].res # 0 THEN h[Len(h)].res ELSE LastRes(SubSeq(h, 1, Len(h) - 1))
AllOk(h) == \A i \in 1..Len(h) : h[i].outcome = "ok"
BatchEq == (hist # << >> /\ AllOk(hist)) =>
              LET r == Submit(InitSt, ConcatStmts(hist)) IN
                /\ r.outcome = "ok"
                /\ Obs(r.st) = Obs(st)
                /\ r.out = ConcatOut(hist)
                /\ r.res = LastRes(hist)

\* C07: replaying the successful inputs (what `save` writes) in a fresh session gives the same session
RECURSIVE OkOnly(_)
OkOnly(h) == IF h = << >> THEN << >> ELSE (IF Head(h).outcome = "ok" THEN << Head(h) >> ELSE << >>) \o OkOnly(Tail(h))
SaveReplayEq == LET oks == OkOnly(hist) IN
                  oks # << >> =>
                    LET r == Submit(InitSt, ConcatStmts(oks)) IN
                      /\ r.outcome = "ok"
                      /\ Obs(r.st) = Obs(st)
                      /\ r.out = ConcatOut(oks)
                      /\ r.res = LastRes(oks)

\* a rejected (type error) input prints nothing (C02, last sentence)
TypeErrorSilent == hist # << >> => (hist[Len(hist)].outcome \in {"type", "nameres", "resolver"} => hist[Len(hist)].out = << >>)

-----------------------------------------------------------------------------
\* G direction: one line per history
ProbeStr(p) == p.outcome \o ":" \o ToString(p.res)
ObsJson(s) == LET o == Obs(s) IN
   [vars |-> o.vars, fns |-> o.fns, units |-> o.units, dims |-> o.dims,
    probes |-> [i \in 1..Len(ProbeInputs) |->
                   [text |-> InputText(ProbeInputs[i]), outcome |-> o.probes[i].outcome, res |-> o.probes[i].res,
                    vars |-> o.probes[i].vars]]]
EmitCase == ((Emit = "all" /\ hist # << >>) \/ (Emit = "final" /\ Len(hist) = Depth)) =>
   PrintT(<<"CASE", ToJson([steps |-> [i \in 1..Len(hist) |->
                                        [text |-> hist[i].text, outcome |-> hist[i].outcome, kind |-> hist[i].kind,
                                         out |-> hist[i].out, res |-> hist[i].res]],
                            obs |-> ObsJson(st)])>>)
=============================================================================
