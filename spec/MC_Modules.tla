----------------------------- MODULE MC_Modules -----------------------------
(***************************************************************************)
(* C17, design level: every module graph with N modules - every set of     *)
(* edges incl. self-loops and cycles (UseChoice = "subsets": the uses of a *)
(* module in ascending order) or every sequence of <= MaxUses uses per     *)
(* module incl. repeated ones (UseChoice = "seqs") - and every sequence of *)
(* <= MaxTops top-level `use`s on a fresh session.  The graph is built one *)
(* module per step (k); the last step tabulates all runs, the invariants   *)
(* are evaluated on that table.  Graphs with fewer than N modules are the  *)
(* graphs in which the remaining modules are isolated and never used.      *)
(* One CASE line per graph for the replay through the real resolver.       *)
(***************************************************************************)
EXTENDS Modules, Json

CONSTANTS N, UseChoice, MaxUses, MaxTops, EmitTops

VARIABLES u,     \* the graph: 1..N -> Seq(1..N)
          k,     \* modules whose uses are chosen; N + 1: runs tabulated
          runs,  \* top-level sequence |-> result
          rp     \* module |-> modules reachable by at least one edge (tabulated with runs)
vars == <<u, k, runs, rp>>

M == 1..N
\* ascending sequence of a set of naturals
RECURSIVE Asc(_)
Asc(S) == IF S = {} THEN << >> ELSE LET x == CHOOSE x \in S : \A y \in S : x <= y IN << x >> \o Asc(S \ {x})
Choices == IF UseChoice = "subsets" THEN {Asc(S) : S \in SUBSET M}
           ELSE UNION {[1..n -> M] : n \in 0..MaxUses}
Tops(L) == UNION {[1..n -> M] : n \in 0..L}

Init == u = [m \in M |-> << >>] /\ k = 0 /\ runs = << >> /\ rp = << >>
Next == \/ /\ k < N
           /\ \E c \in Choices : u' = [u EXCEPT ![k + 1] = c]
           /\ k' = k + 1
           /\ UNCHANGED <<runs, rp>>
        \/ /\ k = N
           /\ \E B \in {Bodies(u)} : runs' = [t \in Tops(MaxTops) |-> RunB(B, t)]
           /\ rp' = ReachTable(u)
           /\ k' = N + 1
           /\ UNCHANGED u
Spec == Init /\ [][Next]_vars

Done == k = N + 1
\* the properties, one invariant each so that TLC names the one that fails
InvLoaded     == Done => \A t \in DOMAIN runs : Loaded(u, t, runs[t])
InvOnce       == Done => \A t \in DOMAIN runs : Once(runs[t])
InvDepsFirst  == Done => \A t \in DOMAIN runs : DepsFirst(rp, runs[t])
InvDepsFirstStrong == Done => \A t \in DOMAIN runs : DepsFirstStrong(rp, runs[t])   \* false; not in the default cfg
\* (the table already holds the run of every permutation / prefix: look them up instead of re-running)
InvOrderIndep == Done => \A t \in DOMAIN runs : \A p \in Perms(Len(t)) :
                    LET r2 == runs[[j \in 1..Len(t) |-> t[p[j]]]] IN
                      r2.err = "" /\ Rng(r2.post) = Rng(runs[t].post) /\ Rng(r2.pre) = Rng(runs[t].pre)
\* (cuts 0 and Len(t) are trivial: one of the two inputs is empty)
InvSplit      == Done => \E B \in {Bodies(u)} : \A t \in DOMAIN runs : \A c \in 1..(Len(t) - 1) :
                    LET r1 == runs[SubSeq(t, 1, c)]
                        r2 == RunAfterB(B, r1.pre, SubSeq(t, c + 1, Len(t))) IN
                      r1.err = "" /\ r2.err = "" /\ r1.post \o r2.post = runs[t].post /\ r2.pre = runs[t].pre
\* (re-import depends on the import list only: once per distinct list)
InvReimport   == Done => \E B \in {Bodies(u)} : \A pr \in {runs[t].pre : t \in DOMAIN runs} :
                    Reimport(B, [err |-> "", post |-> << >>, pre |-> pr])
\* the operators of Modules.tla used on the real graph (no table there) agree with the table-based forms above
InvOperatorForms == Done => \E B \in {Bodies(u)} : \A t \in {t \in DOMAIN runs : Len(t) <= 2} :
                    OrderIndep(B, t, runs[t]) /\ SplitEq(B, t, runs[t]) /\ runs[t] = Run(u, t)
\* a dependency-free order exists exactly for acyclic graphs: there, every body follows ALL its dependencies
InvAcyclicTopo == (Done /\ Acyclic(u)) => \A t \in DOMAIN runs : \A m \in Rng(runs[t].post) : \A d \in rp[m] :
                    Pos(runs[t].post, d) < Pos(runs[t].post, m)
\* the generic rule and Session's rule agree on Session's module table; session-level re-import (once, in the initial state)
InvSessionLink == (k = 0) => (SessionLink /\ SessionReimportNoop)

EmitCase == (Done /\ EmitTops >= 1) =>
   PrintT(<<"CASE", ToJson([uses |-> u, acyclic |-> Acyclic(u),
                            runs |-> {[tops |-> t, post |-> runs[t].post, pre |-> runs[t].pre, err |-> runs[t].err]
                                        : t \in {t \in DOMAIN runs : Len(t) <= EmitTops /\ Len(t) >= 1}}])>>)
=============================================================================
