------------------------------ MODULE Overflow ------------------------------
(***************************************************************************)
(* C08, boundary-class models: where machine arithmetic, operand encodings  *)
(* and recursion depth end, stated by CLASS with the REQUIRED outcome per   *)
(* class.  The required outcome of every class is                           *)
(*      a value or a reported error (Totality!GoodOutcomes),                *)
(*      never a panic / crash, within the time limit;                       *)
(* where the documentation determines more (the value of a multifactorial,  *)
(* whether an exact exponent is representable at all, whether a text is a   *)
(* number literal) the class model says so, and the check reports a         *)
(* deviation from that as well.                                             *)
(*                                                                         *)
(* A case is [fam, id, parts, sess, ...]: `parts` is the input text as a    *)
(* sequence of <<pattern, repetition count>> (the harness expands it: a     *)
(* 100 000-deep nest is two pairs, not 200 001 characters).                 *)
(*                                                                         *)
(* 1 Exponents.  Unit and dimension exponents are exact rationals over      *)
(*   128-bit integers.  Magnitude classes of an exponent (by log2):         *)
(*   small = 3, p63 ~ 2^63, p126 ~ 2^126, huge = 1e40 (no 128-bit integer). *)
(*   Products add logs, a sum of two equal exponents adds one; a result is  *)
(*   representable iff its log2 is < 127.  Shapes:                          *)
(*     upow1  (m/cm)^A            run time, exponent A                      *)
(*     upow2  ((m/cm)^A)^B        run time, exponent A*B                    *)
(*     umul   m^A * m^A           checker and run time, exponent A+A        *)
(*     tower  m^(A)^(B)           checker (constant evaluation), A^B        *)
(*     gsum   fn f(x) = x^(A) * x^(A)      generic: checker only, A+A       *)
(*     gpow   fn f(x) = (x^(A))^(B)        generic: checker only, A*B       *)
(*     spow   2^(A)^(B)           plain floating point: always a value      *)
(*   Not representable => a value cannot be right: the required outcome is  *)
(*   a reported error (`exact` = "overflow"); otherwise a value or an error *)
(*   (an implementation may refuse large exponents).                        *)
(*                                                                         *)
(* 2 Factorial order.  `x!`, `x!!`, `x!!!`, ... (operations.md: the list    *)
(*   is open-ended): k exclamation marks are the multifactorial of order k, *)
(*   x * (x-k) * (x-2k) * ... while positive.  For k >= x >= 1 it is x.     *)
(*   Order classes around the 8- and 16-bit operand sizes.  Required: the   *)
(*   documented value, or a reported error (an implementation may limit     *)
(*   the order, but then it has to say so).                                 *)
(*                                                                         *)
(* 3 Nesting depth / operator runs: 10 .. 100 000 repetitions of every      *)
(*   recursive construct.  The documentation gives no limit: a value or a   *)
(*   reported error ("too deeply nested" would be fine).                    *)
(*                                                                         *)
(* 4 Literals at the edges of f64 and of the integer parsers; the number    *)
(*   automaton of Lexer.tla says which texts are ONE literal (those must    *)
(*   get past the parser).                                                  *)
(*                                                                         *)
(* 5 Size: more constants / more code than a 16-bit operand can address,    *)
(*   in one input and accumulated over one long session.                    *)
(***************************************************************************)
EXTENDS Integers, Sequences, TLC, Lexer

P(s, n) == <<s, n>>

\* ---------------------------------------------------------------- 1 exponents
Mags == <<"small", "p63", "p126", "huge">>
MagText(m) == CASE m = "small" -> "3" [] m = "p63" -> "2^63" [] m = "p126" -> "2^126" [] m = "huge" -> "1e40"
MagLog(m)  == CASE m = "small" -> 2 [] m = "p63" -> 63 [] m = "p126" -> 126 [] m = "huge" -> 133
ILimit == 127                                  \* an i128 holds magnitudes below 2^127
Representable(l) == l < ILimit
LogMul(a, b) == a + b
LogDouble(a) == a + 1
\* a^b for the classes: small^small = 27 (log 5); anything else with a base or exponent >= 2^63 is far beyond
LogPow(a, b) == IF a = "small" /\ b = "small" THEN 5 ELSE 1000

Shapes2 == <<"upow2", "tower", "gpow", "spow">>       \* two magnitudes
Shapes1 == <<"upow1", "umul", "gsum">>                \* one magnitude

ShapeText(sh, a, b) ==
  CASE sh = "upow1" -> "(m/cm)^(" \o MagText(a) \o ")"
    [] sh = "upow2" -> "((m/cm)^(" \o MagText(a) \o "))^(" \o MagText(b) \o ")"
    [] sh = "umul"  -> "m^(" \o MagText(a) \o ") * m^(" \o MagText(a) \o ")"
    [] sh = "tower" -> "m^(" \o MagText(a) \o ")^(" \o MagText(b) \o ")"
    [] sh = "gsum"  -> "fn zf(x) = x^(" \o MagText(a) \o ") * x^(" \o MagText(a) \o ")"
    [] sh = "gpow"  -> "fn zf(x) = (x^(" \o MagText(a) \o "))^(" \o MagText(b) \o ")"
    [] sh = "spow"  -> "2^(" \o MagText(a) \o ")^(" \o MagText(b) \o ")"

\* log2 of the exact exponent the program asks for (-1: no unit exponent involved)
ShapeLog(sh, a, b) ==
  CASE sh = "upow1" -> MagLog(a)
    [] sh \in {"upow2", "gpow"} -> LogMul(MagLog(a), MagLog(b))
    [] sh \in {"umul", "gsum"}  -> LogDouble(MagLog(a))
    [] sh = "tower" -> LogPow(a, b)
    [] sh = "spow"  -> -1

Exactness(sh, a, b) == IF ShapeLog(sh, a, b) = -1 THEN "float"
                       ELSE IF Representable(ShapeLog(sh, a, b)) THEN "representable" ELSE "overflow"

ExpCase(sh, a, b) == [fam |-> "exponent", id |-> sh \o "/" \o a \o (IF b = "" THEN "" ELSE "/" \o b),
                      parts |-> << P(ShapeText(sh, a, b), 1) >>, sess |-> "prelude",
                      exact |-> Exactness(sh, a, b), n |-> 0, val |-> "", lit |-> "na", rep |-> 1]

ExpCases == { ExpCase(Shapes2[i], Mags[j], Mags[k]) : i \in 1..Len(Shapes2), j \in 1..Len(Mags), k \in 1..Len(Mags) }
       \cup { ExpCase(Shapes1[i], Mags[j], "") : i \in 1..Len(Shapes1), j \in 1..Len(Mags) }

\* the class algebra is what it should be (checked by TLC as ASSUMEs of MC_Overflow)
ExponentAlgebraOK ==
  /\ \A i, j \in 1..Len(Mags) : LogMul(MagLog(Mags[i]), MagLog(Mags[j])) = LogMul(MagLog(Mags[j]), MagLog(Mags[i]))
  /\ Representable(LogMul(63, 63)) /\ ~Representable(LogMul(126, 2)) /\ ~Representable(LogDouble(126))
  /\ Representable(LogDouble(63)) /\ ~Representable(MagLog("huge"))
  /\ Exactness("upow2", "p63", "p63") = "representable"       \* 2^126: the last one that fits
  /\ Exactness("upow2", "p126", "small") = "overflow"
  /\ Exactness("gsum", "p126", "") = "overflow"                \* the example of the property text

\* ---------------------------------------------------------------- 2 factorial order
Orders   == <<1, 2, 3, 255, 256, 65535, 65536, 65537>>
Operands == <<0, 1, 5, 10>>
RECURSIVE Multifactorial(_, _)
Multifactorial(x, k) == IF x <= 0 THEN 1 ELSE x * Multifactorial(x - k, k)

FactCase(x, k) == [fam |-> "factorial", id |-> ToString(x) \o "/" \o ToString(k),
                   parts |-> << P(ToString(x), 1), P("!", k) >>, sess |-> "prelude",
                   exact |-> "na", n |-> k, val |-> ToString(Multifactorial(x, k)), lit |-> "na", rep |-> 1]
FactCases == { FactCase(Operands[i], Orders[j]) : i \in 1..Len(Operands), j \in 1..Len(Orders) }
\* operands beyond the largest finite factorial (170!): the value is infinite after about 171 / k factors - the computation
\* must stop there and not count down from the operand
HugeOperands == <<"171", "1000", "1e10", "1e18", "2^63", "1e300">>
HugeFactCase(x, k) == [fam |-> "factorial-huge", id |-> "factorial-huge/" \o x \o "/" \o ToString(k),
                       parts |-> << P("(", 1), P(x, 1), P(")", 1), P("!", k) >>, sess |-> "fresh",
                       exact |-> "na", n |-> k, val |-> "", lit |-> "na", rep |-> 1]
HugeFactCases == { HugeFactCase(HugeOperands[i], k) : i \in 1..Len(HugeOperands), k \in {1, 2, 3, 255} }

MultifactorialOK ==
  /\ Multifactorial(5, 1) = 120 /\ Multifactorial(5, 2) = 15 /\ Multifactorial(10, 3) = 280
  /\ \A x \in 1..10 : \A k \in {x, x + 1, 255, 256, 65535, 65536, 65537} : k >= x => Multifactorial(x, k) = x
  /\ \A x \in 0..10 : \A k \in 1..11 : Multifactorial(x, k) >= Multifactorial(x, k + 1)
  /\ \A k \in 1..5 : Multifactorial(0, k) = 1

\* ---------------------------------------------------------------- 3 nesting depth, operator runs
Depths == <<10, 100, 1000, 10000, 100000>>
\* family -> <<opening pattern, core, closing pattern>>; the opening / closing patterns are repeated n times
NestFamilies == <<
  <<"paren",  "(",  "1", ")">>,       <<"list",   "[",  "1", "]">>,
  <<"neg",    "-",  "1", "">>,        <<"not",    "!",  "true", "">>,
  <<"bang",   "",   "3", "!">>,       <<"interp", "\"{", "1", "}\"">>,
  <<"call",   "sin(", "1", ")">>,     <<"if",     "if true then ", "1", " else 0">>,
  <<"plus",   "",   "1", " + 1">>,    <<"pow",    "",   "2", "^1">>,
  <<"juxt",   "",   "2", " m">>,      <<"per",    "",   "1", " per 2">>,
  <<"conv",   "",   "1", " -> 1">>,   <<"apply",  "",   "1", " |> sin">>,
  <<"cmpand", "",   "true", " && true">>,  <<"field", "", "zq", ".a">>,
  <<"fnargs", "fn zf(", "x", "">>,    <<"callee", "(",  "sin", ")(1)">> >>

NestParts(f, n) == (IF f[2] = "" THEN << >> ELSE << P(f[2], n) >>) \o << P(f[3], 1) >>
                   \o (IF f[4] = "" THEN << >> ELSE << P(f[4], n) >>)
NestCase(f, n, sess) == [fam |-> "nest-" \o f[1], id |-> f[1] \o "/" \o ToString(n) \o "/" \o sess,
                         parts |-> NestParts(f, n), sess |-> sess, exact |-> "na", n |-> n, val |-> "", lit |-> "na", rep |-> 1]
NestCases == { NestCase(NestFamilies[i], Depths[j], s) : i \in 1..Len(NestFamilies), j \in 1..Len(Depths), s \in {"prelude", "fresh"} }

\* ---------------------------------------------------------------- 4 literals
\* <<id, parts as <<pattern, n>>...>>; the text of a literal case is also given to the number automaton of Lexer.tla
LitTexts == <<
  <<"1e308", <<P("1e308", 1)>>>>,        <<"1e309", <<P("1e309", 1)>>>>,       <<"1e-400", <<P("1e-400", 1)>>>>,
  <<"1e-324", <<P("1e-324", 1)>>>>,      <<"1e99999", <<P("1e", 1), P("9", 5)>>>>,
  <<"1e(400 digits)", <<P("1e", 1), P("9", 400)>>>>,
  <<"0x40", <<P("0x", 1), P("f", 40)>>>>, <<"0x16", <<P("0x", 1), P("f", 16)>>>>, <<"0x17", <<P("0x1", 1), P("0", 16)>>>>,
  <<"0b200", <<P("0b", 1), P("1", 200)>>>>, <<"0o60", <<P("0o", 1), P("7", 60)>>>>,
  <<"int400", <<P("7", 400)>>>>,          <<"frac400", <<P("0.", 1), P("3", 400)>>>>,
  <<"int20000", <<P("7", 20000)>>>>,
  <<"1_", <<P("1_", 1)>>>>,  <<"1__2", <<P("1__2", 1)>>>>,  <<"_1", <<P("_1", 1)>>>>,  <<"1_e1", <<P("1_e1", 1)>>>>,
  <<"0x", <<P("0x", 1)>>>>,  <<"0b2", <<P("0b2", 1)>>>>,    <<"0o8", <<P("0o8", 1)>>>>, <<"0x_f", <<P("0x_f", 1)>>>>,
  <<"1e", <<P("1e", 1)>>>>,  <<"1e+", <<P("1e+", 1)>>>>,    <<"1e1e1", <<P("1e1e1", 1)>>>>,
  <<".", <<P(".", 1)>>>>,    <<"1.", <<P("1.", 1)>>>>,      <<".5", <<P(".5", 1)>>>>,  <<"1..2", <<P("1..2", 1)>>>>,
  <<"1.e5", <<P("1.e5", 1)>>>>, <<"00", <<P("00", 1)>>>>,   <<"-0", <<P("-0", 1)>>>>,
  <<"2^63", <<P("9223372036854775808", 1)>>>>, <<"2^64", <<P("18446744073709551616", 1)>>>>,
  <<"2^127", <<P("170141183460469231731687303715884105728", 1)>>>>,
  <<"2^53+1", <<P("9007199254740993", 1)>>>> >>

\* the text as a sequence of one-character strings is needed for the automaton
RECURSIVE Chars(_)
RECURSIVE Rep(_, _)
Rep(cs, n) == IF n = 0 THEN << >> ELSE cs \o Rep(cs, n - 1)
\* one-character strings of a pattern (TLC cannot index into strings: the patterns are listed)
PatChars(s) ==
  CASE s = "1e308" -> <<"1","e","3","0","8">> [] s = "1e309" -> <<"1","e","3","0","9">> [] s = "1e-400" -> <<"1","e","-","4","0","0">>
    [] s = "1e-324" -> <<"1","e","-","3","2","4">> [] s = "1e" -> <<"1","e">> [] s = "9" -> <<"9">> [] s = "0x" -> <<"0","x">>
    [] s = "f" -> <<"f">> [] s = "0x1" -> <<"0","x","1">> [] s = "0" -> <<"0">> [] s = "0b" -> <<"0","b">> [] s = "1" -> <<"1">>
    [] s = "0o" -> <<"0","o">> [] s = "7" -> <<"7">> [] s = "0." -> <<"0",".">> [] s = "3" -> <<"3">>
    [] s = "1_" -> <<"1","_">> [] s = "1__2" -> <<"1","_","_","2">> [] s = "_1" -> <<"_","1">> [] s = "1_e1" -> <<"1","_","e","1">>
    [] s = "0b2" -> <<"0","b","2">> [] s = "0o8" -> <<"0","o","8">> [] s = "0x_f" -> <<"0","x","_","f">>
    [] s = "1e+" -> <<"1","e","+">> [] s = "1e1e1" -> <<"1","e","1","e","1">> [] s = "." -> <<".">> [] s = "1." -> <<"1",".">>
    [] s = ".5" -> <<".","5">> [] s = "1..2" -> <<"1",".",".","2">> [] s = "1.e5" -> <<"1",".","e","5">> [] s = "00" -> <<"0","0">>
    [] s = "-0" -> <<"-","0">>
    [] s = "9223372036854775808" -> <<"9","2","2","3","3","7","2","0","3","6","8","5","4","7","7","5","8","0","8">>
    [] s = "18446744073709551616" -> <<"1","8","4","4","6","7","4","4","0","7","3","7","0","9","5","5","1","6","1","6">>
    [] s = "170141183460469231731687303715884105728" ->
         <<"1","7","0","1","4","1","1","8","3","4","6","0","4","6","9","2","3","1","7","3","1","6","8","7","3","0","3","7","1","5","8","8","4","1","0","5","7","2","8">>
    [] s = "9007199254740993" -> <<"9","0","0","7","1","9","9","2","5","4","7","4","0","9","9","3">>
Chars(ps) == IF ps = << >> THEN << >> ELSE Rep(PatChars(ps[1][1]), IF ps[1][2] > 500 THEN 500 ELSE ps[1][2]) \o Chars(Tail(ps))

\* the automaton is run on texts of up to 500 characters; longer ones are literals by DigitExtends (a digit run stays a
\* digit run): the 20 000-digit integer is judged on a 500-digit prefix of the same shape
LitVerdict(ps) == LET cs == Chars(ps) IN
                  IF IsLiteral(IF Len(cs) > 500 THEN SubSeq(cs, 1, 500) ELSE cs) THEN "literal" ELSE "not-literal"

LitCase(l) == [fam |-> "literal", id |-> l[1], parts |-> l[2], sess |-> "prelude", exact |-> "na", n |-> 0, val |-> "",
               lit |-> LitVerdict(l[2]), rep |-> 1]
LitCases == { LitCase(LitTexts[i]) : i \in 1..Len(LitTexts) }

LiteralModelOK ==
  /\ LitVerdict(<<P("1e309", 1)>>) = "literal" /\ LitVerdict(<<P("1_", 1)>>) = "not-literal"
  /\ LitVerdict(<<P("0x", 1), P("f", 40)>>) = "literal" /\ LitVerdict(<<P("0x", 1)>>) = "not-literal"
  /\ LitVerdict(<<P("7", 400)>>) = "literal" /\ LitVerdict(<<P("1..2", 1)>>) = "not-literal"

\* ---------------------------------------------------------------- 5 size
\* constants: every number literal of an input becomes a constant of the virtual machine; operands are 16 bits
SizeCounts == <<1000, 30000, 70000>>
SizeCase(kind, n, parts, rep) == [fam |-> "size-" \o kind, id |-> kind \o "/" \o ToString(n) \o (IF rep > 1 THEN "x" \o ToString(rep) ELSE ""),
                                  parts |-> parts, sess |-> "fresh", exact |-> "na", n |-> n, val |-> "", lit |-> "na", rep |-> rep]
SizeCases(long) ==
     { SizeCase("list", SizeCounts[i], << P("[", 1), P("1, ", SizeCounts[i]), P("1]", 1) >>, 1) : i \in 1..Len(SizeCounts) }
  \cup { SizeCase("branch", SizeCounts[i], << P("if true then [", 1), P("1, ", SizeCounts[i]), P("1] else []", 1) >>, 1) : i \in 1..Len(SizeCounts) }
  \* the branch that is jumped over is longer than a 16-bit jump offset
  \cup { SizeCase("skipped-branch", SizeCounts[i], << P("if false then [", 1), P("1, ", SizeCounts[i]), P("1] else []", 1) >>, 1) : i \in 1..Len(SizeCounts) }
  \cup { SizeCase("strings", SizeCounts[i], << P("[", 1), P("\"a\", ", SizeCounts[i]), P("\"a\"]", 1) >>, 1) : i \in 1..Len(SizeCounts) }
  \cup { SizeCase("lines", SizeCounts[i], << P("1\n", SizeCounts[i]) >>, 1) : i \in 1..Len(SizeCounts) }
  \cup { SizeCase("lets", 1000, << P("let zq = 1\n", 1000) >>, 1) }
  \* one long session: the same 1000-literal input 70 times (70 000 literals in all) ...
  \cup { SizeCase("session", 1000, << P("[", 1), P("1, ", 999), P("1]", 1) >>, 70) }
  \* ... and (thorough) 70 000 one-literal inputs
  \cup (IF long THEN { SizeCase("session", 1, << P("1", 1) >>, 70000) } ELSE {})

\* ---------------------------------------------- 6 dimension-polymorphic arguments
\* The literals 0, inf and NaN have EVERY dimension: they pass the type check in any argument position of a function
\* whose parameters share a type parameter (mod<T>(a: T, b: T), atan2, clamp, ...), and the callee then receives a bare
\* number where it expects a quantity with the unit of its other argument.  Class = arity x tuple of argument classes;
\* the conformance step instantiates @F with every function of that arity that the standard library defines.
PolyArgs == <<"0", "inf", "NaN", "-0", "5 m", "3 s", "2">>
PolyArgs3 == <<"0", "inf", "5 m", "2">>
PolyCase(k, as) == [fam |-> "polyarg", id |-> "polyarg/" \o ToString(k) \o "/" \o as[1] \o (IF k > 1 THEN "," \o as[2] ELSE "") \o (IF k > 2 THEN "," \o as[3] ELSE ""),
                    parts |-> << P("@F", 1), P("(", 1), P(as[1], 1) >> \o (IF k > 1 THEN << P(", ", 1), P(as[2], 1) >> ELSE << >>)
                               \o (IF k > 2 THEN << P(", ", 1), P(as[3], 1) >> ELSE << >>) \o << P(")", 1) >>,
                    sess |-> "prelude", exact |-> "na", n |-> k, val |-> "", lit |-> "na", rep |-> 1]
PolyCases == { PolyCase(1, <<PolyArgs[i]>>) : i \in 1..Len(PolyArgs) }
        \cup { PolyCase(2, <<PolyArgs[i], PolyArgs[j]>>) : i \in 1..Len(PolyArgs), j \in 1..Len(PolyArgs) }
        \cup { PolyCase(3, <<PolyArgs3[i], PolyArgs3[j], PolyArgs3[k]>>) : i \in 1..Len(PolyArgs3), j \in 1..Len(PolyArgs3), k \in 1..Len(PolyArgs3) }

\* ------------------------------------------------- 7 the last result inside a function body
\* `ans` / `_` name the last result.  A function body that mentions one of them is type-checked when the function is
\* DEFINED (with the type the last result has then) and evaluated when it is CALLED (with the last result of that moment).
\* Class = kind of the last result at definition x use of it in the body x kind of the last result at the call.
\* Whatever the answer, it must be a value or a reported error.
AnsKinds == << <<"2 m", "ans + 1 m">>, <<"3 s", "_ * 2">>, <<"4", "ans^2">>, <<"\"str\"", "str_length(ans)">>, <<"true", "!ans">>,
               <<"[1, 2]", "len(ans)">>, <<"sin", "ans(0)">>, <<"now()", "ans + 1 s">> >>
AnsCase(i, plain, j) == [fam |-> "stale-ans", id |-> "stale-ans/" \o ToString(i) \o (IF plain THEN "p" ELSE "u") \o "/" \o ToString(j),
                         parts |-> << P(AnsKinds[i][1], 1), P("\nfn zfa() = ", 1), P(IF plain THEN "ans" ELSE AnsKinds[i][2], 1), P("\n", 1),
                                      P(AnsKinds[j][1], 1), P("\nzfa()", 1) >>,
                         sess |-> "prelude", exact |-> "na", n |-> 2, val |-> "", lit |-> "na", rep |-> 1]
AnsCases == { AnsCase(i, pl, j) : i \in 1..Len(AnsKinds), pl \in BOOLEAN, j \in 1..Len(AnsKinds) }

\* ------------------------------------------------- 8 the message of a failed assertion
\* assert_eq(a, b, eps) that fails prints a, b and their difference with as many decimal digits as eps has.  Classes:
\* comparand magnitude relative to that precision (at, just below and far below one unit of the last printed digit; signs)
\* x number of decimal digits of eps (0 .. 4, and a negative eps).  The assertion may hold or fail; the failure must be
\* REPORTED, i.e. its message must be rendered.
MsgVals == <<"1", "0.94", "0.5", "0.0094", "0.005", "0.00051", "0.000049", "-0.0094", "-0.6", "123456.789">>
MsgEps == <<"0", "1", "0.1", "0.01", "0.001", "0.0001", "0.25 - 5", "1e-17", "1e-30", "1e-116">>
MsgCase(i, j, k) == [fam |-> "assert-message", id |-> "assert-message/" \o MsgVals[i] \o "/" \o MsgVals[j] \o "/" \o MsgEps[k],
                     parts |-> << P("assert_eq(", 1), P(MsgVals[i], 1), P(", ", 1), P(MsgVals[j], 1), P(", ", 1), P(MsgEps[k], 1), P(")", 1) >>,
                     sess |-> "prelude", exact |-> "na", n |-> 3, val |-> "", lit |-> "na", rep |-> 1]
MsgCases == { MsgCase(i, j, k) : i \in 1..Len(MsgVals), j \in 1..Len(MsgVals), k \in 1..Len(MsgEps) }
=============================================================================
