------------------------------ MODULE NameSpace ------------------------------
(***************************************************************************)
(* The session's NAME SPACE as a state machine.                            *)
(*                                                                         *)
(* Numbat keeps three registries that decide what a written name means:    *)
(*   - the prefix parser's unit table (unit names and aliases, each with   *)
(*     the prefixes it accepts) and its set of "other identifiers"         *)
(*     (variables and functions),                                          *)
(*   - the type checker's value namespace (constant / function),           *)
(*   - the type checker's type namespace (dimension / struct).             *)
(* A definition is accepted only if the new name - and, for a unit, every  *)
(* prefixed spelling it would introduce - has no meaning yet; a rejected   *)
(* definition changes nothing.  Names are sequences of characters because  *)
(* the interesting clashes are between DIFFERENT decompositions of the     *)
(* same string:  dab = d+ab (deci-ab) = da+b (deca-b),  ab = a+b (atto-b), *)
(* decab = deca+b = d+ecab.                                                *)
(*                                                                         *)
(* Structured like the implementation: one action per statement kind, in   *)
(* the order of the pipeline stages (prefix transformer, then type         *)
(* checker), aliases of one unit statement registered one after another.   *)
(*                                                                         *)
(* Properties (checked by TLC on the model, then bound to the code):       *)
(*   Unambiguous  every string has at most one meaning as a unit           *)
(*   Disjoint     no string is both a variable/function and a unit         *)
(*   Stable       a meaning, once given, never changes or disappears       *)
(*                (except a variable's redefinition as a variable, a       *)
(*                function's as a function)                                *)
(***************************************************************************)
EXTENDS Integers, Sequences, FiniteSets, TLC, Json, SequencesExt

\* ---- names (character sequences)
Nm == [ b |-> <<"b">>, ab |-> <<"a","b">>, dab |-> <<"d","a","b">>, kb |-> <<"k","b">>,
        kilob |-> <<"k","i","l","o","b">>, decab |-> <<"d","e","c","a","b">>, ecab |-> <<"e","c","a","b">>,
        zq |-> <<"z","q">>, ans |-> <<"a","n","s">>, zx |-> <<"z","x">> ]
ValueNames == { Nm.b, Nm.ab, Nm.dab, Nm.kb, Nm.kilob, Nm.decab, Nm.ecab, Nm.zq, Nm.ans }
Reserved == { Nm.ans, <<"_">> }
\* every name has its own number, so that a probe's value identifies which definition answered
Code(n) == CASE n = Nm.b -> 2 [] n = Nm.ab -> 3 [] n = Nm.dab -> 5 [] n = Nm.kb -> 7 [] n = Nm.kilob -> 11
             [] n = Nm.decab -> 13 [] n = Nm.ecab -> 17 [] n = Nm.zq -> 19 [] OTHER -> 23

\* ---- the prefixes that can apply inside this universe of names (the full table is PrefixParser.tla's subject;
\* DESIGN §9.2 explains why no other real prefix can produce or decompose one of the strings used here)
PrefixTable == { [long |-> <<"k","i","l","o">>, short |-> <<"k">>, e |-> 3],
              [long |-> <<"d","e","c","i">>, short |-> <<"d">>, e |-> -1],
              [long |-> <<"d","e","c","a">>, short |-> <<"d","a">>, e |-> 1],
              [long |-> <<"m","i","l","l","i">>, short |-> <<"m">>, e |-> -3],
              [long |-> <<"a","t","t","o">>, short |-> <<"a">>, e |-> -18] }

\* extra spellings probed after every step
ProbeNames == (ValueNames \ {Nm.ans}) \cup { <<"m","b">>, <<"k","a","b">>, <<"k","i","l","o","a","b">>, <<"d","a","k","b">>,
                                            <<"k","k","b">>, <<"d","e","c","i","b">>, <<"d","k","b">> }

TypeNames == {"ZD", "ZE", "ZL"}
PreludeTypes == {"ZL", "ZT", "Scalar"}

\* ---- state
VARIABLES units,   \* alias -> [short, long, metric, full]       (prefix parser)
          others,  \* name -> "constant" | "function"            (prefix parser's other identifiers + value namespace)
          types,   \* type names in use                          (type namespace)
          hist     \* the statements accepted so far (a witness history for the abstract state)
vars == <<units, others, types, hist>>
AbsState == <<units, others, types>>

\* ---- the prefix parser
\* all readings of the string s as a unit: <<prefix exponent, alias>>
Decomps(U, s) ==
  { <<0, u>> : u \in {x \in DOMAIN U : x = s} } \cup
  UNION { { <<p.e, u>> : u \in {x \in DOMAIN U : U[x].metric /\ (  (U[x].long /\ p.long \o x = s)
                                                               \/ (U[x].short /\ p.short \o x = s))} } : p \in PrefixTable }
IsUnit(U, s) == Decomps(U, s) # {}

\* ensure_name_is_available: "reserved" | "clash" | "ok"
Avail(U, O, s, clashWithOthers) ==
  IF s \in Reserved THEN "reserved"
  ELSE IF clashWithOthers /\ s \in DOMAIN O THEN "clash"
  ELSE IF s \notin DOMAIN O /\ IsUnit(U, s) THEN "clash"       \* parse() looks at the other identifiers first
  ELSE "ok"

\* spellings that adding alias a with acceptance (short, long) and metric prefixes introduces, in checking order
Forms(a, short, long, metric) ==
  {a} \cup (IF metric THEN {p.long \o a : p \in {q \in PrefixTable : long}} \cup {p.short \o a : p \in {q \in PrefixTable : short}} ELSE {})

\* add_unit for one alias: the bare name is checked first (its error wins), then the prefixed spellings
AddAlias(U, O, a, short, long, metric, full) ==
  LET bare == Avail(U, O, a, TRUE)
      bad == {f \in Forms(a, short, long, metric) : Avail(U, O, f, TRUE) # "ok"} IN
  IF bare # "ok" THEN [r |-> bare, U |-> U]
  ELSE IF bad # {} THEN [r |-> IF \E f \in bad : Avail(U, O, f, TRUE) = "clash" THEN "clash" ELSE "reserved", U |-> U]
  ELSE [r |-> "ok", U |-> (a :> [short |-> short, long |-> long, metric |-> metric, full |-> full]) @@ U]

\* register_name_and_aliases: aliases one after another; `al` is the alias list in the implementation's order (name first)
RECURSIVE AddAliases(_, _, _, _, _)
AddAliases(U, O, al, metric, full) ==
  IF al = << >> THEN [r |-> "ok", U |-> U]
  ELSE LET one == AddAlias(U, O, al[1].n, al[1].short, al[1].long, metric, full) IN
       IF one.r # "ok" THEN one ELSE AddAliases(one.U, O, Tail(al), metric, full)

\* the alias list the implementation derives from the statement: the name itself first (accepting long prefixes unless an
\* alias entry with the same name says otherwise - that entry is swallowed), then the other aliases in written order
RECURSIVE OtherAliases(_, _)
OtherAliases(name, al) == IF al = << >> THEN << >>
                          ELSE IF al[1].n = name THEN OtherAliases(name, Tail(al)) ELSE <<al[1]>> \o OtherAliases(name, Tail(al))
RECURSIVE LastSelf(_, _, _)
LastSelf(name, al, dflt) == IF al = << >> THEN dflt
                            ELSE LastSelf(name, Tail(al), IF al[1].n = name THEN al[1] ELSE dflt)
AliasList(name, al) == <<LastSelf(name, al, [n |-> name, short |-> FALSE, long |-> TRUE])>> \o OtherAliases(name, al)

\* ---- statements
VarS(n) == [k |-> "var", n |-> n]
VarBadS(n) == [k |-> "varbad", n |-> n]
FnS(n, p) == [k |-> "fn", n |-> n, p |-> p]
UnitS(n, metric, al) == [k |-> "unit", n |-> n, metric |-> metric, al |-> al]
DimS(t) == [k |-> "dim", t |-> t]
StructS(t) == [k |-> "struct", t |-> t]
Al(n, short, long) == [n |-> n, short |-> short, long |-> long]

\* outcome classes: "ok", "nameres:clash", "nameres:reserved", "type:clash", "type:unknown"
\* result: [r, units, others, types]
Same(r) == [r |-> r, units |-> units, others |-> others, types |-> types]
ValueKind(s) == IF s.k = "fn" THEN "function" ELSE "constant"

Apply(s) ==
  CASE s.k \in {"var", "varbad", "fn"} ->
         \* prefix transformer: add_other_identifier; for a function then the parameters (in a scratch copy; only reserved names fail)
         LET a == Avail(units, others, s.n, FALSE) IN
         IF a = "reserved" THEN Same("nameres:reserved")
         ELSE IF a = "clash" THEN Same("nameres:clash")
         ELSE IF s.k = "fn" /\ s.p \in Reserved THEN Same("nameres:reserved")
         \* type checker: the initialiser, then the value namespace (same kind may be redefined)
         ELSE IF s.k = "varbad" THEN Same("type:unknown")
         ELSE IF s.n \in DOMAIN others /\ others[s.n] # ValueKind(s) THEN Same("type:clash")
         ELSE [r |-> "ok", units |-> units, others |-> (s.n :> ValueKind(s)) @@ others, types |-> types]
    [] s.k = "unit" ->
         LET res == AddAliases(units, others, AliasList(s.n, s.al), s.metric, s.n) IN
         IF res.r = "ok" THEN [r |-> "ok", units |-> res.U, others |-> others, types |-> types]
         ELSE Same("nameres:" \o res.r)
    [] s.k \in {"dim", "struct"} ->
         IF s.t \in types THEN Same("type:clash")
         ELSE [r |-> "ok", units |-> units, others |-> others, types |-> types \cup {s.t}]

\* ---- what a written name means (the probes)
\* value of `s -> zu`:  [ok, m, e] meaning m * 10^e;  ok = FALSE when it is not a quantity of dimension ZL
Meaning(U, O, s) ==
  IF s \in DOMAIN O THEN (IF O[s] = "constant" THEN [kind |-> "constant", m |-> 100 + Code(s), e |-> 0]
                                              ELSE [kind |-> "function", m |-> 200 + Code(s), e |-> 0])
  ELSE IF IsUnit(U, s) THEN LET d == CHOOSE d \in Decomps(U, s) : TRUE IN [kind |-> "unit", m |-> Code(U[d[2]].full), e |-> d[1]]
  ELSE [kind |-> "unknown", m |-> 0, e |-> 0]

\* ---- alphabet of statements
APs == { <<FALSE, TRUE>>, <<TRUE, FALSE>>, <<TRUE, TRUE>>, <<FALSE, FALSE>> }   \* <<short, long>>
UnitStmts1 == { UnitS(n, FALSE, << >>) : n \in ValueNames } \cup
              { UnitS(n, TRUE, IF ap = <<FALSE, TRUE>> THEN << >> ELSE <<Al(n, ap[1], ap[2])>>) : n \in ValueNames \ {Nm.ans}, ap \in APs }
AliasPairs == { <<Nm.b, Nm.ab>>, <<Nm.ab, Nm.b>>, <<Nm.b, Nm.kb>>, <<Nm.kb, Nm.b>>, <<Nm.b, Nm.dab>>, <<Nm.ecab, Nm.decab>>, <<Nm.zq, Nm.ans>> }
UnitStmts2 == { UnitS(pr[1], TRUE, <<Al(pr[1], s, TRUE), Al(pr[2], s, TRUE)>>) : pr \in AliasPairs, s \in BOOLEAN }
Stmts == { VarS(n) : n \in ValueNames } \cup { VarBadS(n) : n \in {Nm.b, Nm.zq, Nm.kb} }
         \cup { FnS(n, Nm.zx) : n \in ValueNames } \cup { FnS(Nm.zq, p) : p \in {Nm.b, Nm.kb, Nm.ans} }
         \cup UnitStmts1 \cup UnitStmts2
         \cup { DimS(t) : t \in TypeNames } \cup { StructS(t) : t \in {"ZD", "ZE"} }

CONSTANT MaxHist

Init == /\ units = << >> /\ others = << >> /\ types = PreludeTypes /\ hist = << >>

Submit(s) == LET res == Apply(s) IN
   /\ units' = res.units /\ others' = res.others /\ types' = res.types
   /\ hist' = IF res.r = "ok" THEN Append(hist, s) ELSE hist

Next == Len(hist) < MaxHist /\ \E s \in Stmts : Submit(s)
Spec == Init /\ [][Next]_vars

\* ---- properties
\* all strings that can be written in this universe
Strings == ValueNames \cup ProbeNames \cup { p.long \o n : p \in PrefixTable, n \in ValueNames } \cup { p.short \o n : p \in PrefixTable, n \in ValueNames }
Unambiguous == \A s \in Strings : Cardinality(Decomps(units, s)) <= 1
Disjoint == \A s \in DOMAIN others : ~IsUnit(units, s)
TypeOK == /\ DOMAIN units \subseteq ValueNames /\ DOMAIN others \subseteq ValueNames /\ types \subseteq TypeNames \cup PreludeTypes
          /\ Reserved \cap (DOMAIN units \cup DOMAIN others) = {}
\* a meaning never changes or disappears (constants and functions may be redefined as the same kind: same meaning here)
Stable == [][\A s \in Strings : Meaning(units, others, s).kind # "unknown" => Meaning(units', others', s) = Meaning(units, others, s)]_vars
\* (a rejected statement changes nothing by construction of Apply - `Same`; that the CODE does the same is what the
\* conformance step checks: every statement of the alphabet is tried in every reachable state, and random long histories
\* with rejected statements in the middle are validated by Trace_NameSpace.tla)
=============================================================================
