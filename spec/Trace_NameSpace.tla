--------------------------- MODULE Trace_NameSpace ---------------------------
(***************************************************************************)
(* J direction for NameSpace.tla: long random histories - accepted AND     *)
(* rejected definitions interleaved - recorded from the real interpreter   *)
(* are replayed through the specification's Apply.  One event per          *)
(* submitted statement:                                                    *)
(*   [reset, s (the statement), r (observed outcome class),                *)
(*    obs (for every probe spelling: kind, mantissa, exponent)]            *)
(* An event is accepted iff the specification, in its current state,       *)
(* predicts exactly that outcome and - after the step - exactly those      *)
(* meanings.  A rejected event is reported (BAD, line number) and the      *)
(* specification's own successor state is used to judge the rest.          *)
(***************************************************************************)
EXTENDS NameSpace, IOUtils

VARIABLES l, tr
tvars == <<vars, l, tr>>

MeaningsOK(U, O, obs) == \A i \in 1..Len(obs) :
    LET m == Meaning(U, O, obs[i].n) IN m.kind = obs[i].kind /\ (m.kind # "unknown" => (m.m = obs[i].m /\ m.e = obs[i].e))

TraceInit == Init /\ l = 1 /\ tr = ndJsonDeserialize(IOEnv.TRACE)
TraceNext ==
  /\ l <= Len(tr)
  /\ LET e == tr[l] IN
     IF e.reset
     THEN units' = << >> /\ others' = << >> /\ types' = PreludeTypes /\ hist' = << >>
     ELSE LET res == Apply(e.s) IN
          /\ units' = res.units /\ others' = res.others /\ types' = res.types /\ hist' = << >>
          /\ (IF res.r = e.r /\ MeaningsOK(res.units, res.others, e.obs) THEN TRUE
              ELSE PrintT(<<"BAD", ToJson([line |-> l, predicted |-> res.r])>>))
  /\ l' = l + 1 /\ UNCHANGED tr
TraceSpec == TraceInit /\ [][TraceNext]_tvars
TraceAccepted ==
    LET n == Len(ndJsonDeserialize(IOEnv.TRACE))
        d == TLCGet("stats").diameter - 1
    IN IF d = n THEN TRUE ELSE PrintT(<<"REJECTED", ToJson([matched |-> d, total |-> n])>>) /\ FALSE
=============================================================================
