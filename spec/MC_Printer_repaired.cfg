CONSTANTS MaxNodes = 5
          Wide = FALSE
          Variant = "repaired"
SPECIFICATION Spec
INVARIANTS CheckAndEmit
CHECK_DEADLOCK FALSE
