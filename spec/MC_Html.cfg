CONSTANTS WriterEscapes = TRUE
          MaxLen = 3
          Depth = 3
          Emit = "none"
          EmitE2E = "none"
          Level = 0
SPECIFICATION Spec
INVARIANTS InvFormatSafe InvNoUserMarkup InvBalanced InvEscape EmitCase
CHECK_DEADLOCK FALSE
