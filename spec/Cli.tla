-------------------------------- MODULE Cli --------------------------------
(***************************************************************************)
(* The non-interactive run loop of the `numbat` command (numbat-cli         *)
(* main.rs, Cli::run + main) as a small state machine over Session!Submit.  *)
(*                                                                         *)
(*   numbat [FILE] [-e CODE]...                                            *)
(*                                                                         *)
(* inputs  = the whole content of FILE as ONE input (if given), followed    *)
(*           by ALL -e arguments joined with newlines as ONE more input     *)
(*           (`expressions.iter().join("\n")`);                            *)
(* loop    = the inputs are submitted in that order to one session; the     *)
(*           first failing input ends the loop (`bail!`);                   *)
(* streams = for a successful input: the values handed to the print         *)
(*           callback (buffered until the input has succeeded), then the    *)
(*           result of the input (value of its last expression statement,   *)
(*           if any), one line each, on standard output; for a failing      *)
(*           input: nothing on standard output, a diagnostic on standard    *)
(*           error; main() adds "Interpreter stopped" on standard error and *)
(*           exits with status 1.                                           *)
(*                                                                         *)
(* The property (C22) is stated declaratively (Results / EveryInputSucceeded*)
(* / OkPrefixOutput, no loop) and model-checked against the loop.           *)
(***************************************************************************)
EXTENDS Session

CONSTANT StopAtFailure   \* TRUE: rule of main.rs (stop at the first failing input).  FALSE: hypothetical
                         \* rule "keep going, remember the failure" (run_result.and(..) without the bail!),
                         \* kept to show that the property distinguishes the two (vacuity self-test)

\* ------------------------------------------------------------ invocations
\* file : sequence of statements, << >> = no FILE argument (its lines are the statement texts)
\* exprs: sequence of -e arguments, each a non-empty sequence of statements (lines of that argument)
Invocation(file, exprs) == [file |-> file, exprs |-> exprs]

RECURSIVE JoinExprs(_)
JoinExprs(es) == IF es = << >> THEN << >> ELSE Head(es) \o JoinExprs(Tail(es))

\* `code_and_source` of Cli::run
CodeAndSource(i) ==
     (IF i.file  # << >> THEN << [src |-> "file", stmts |-> i.file] >> ELSE << >>)
  \o (IF i.exprs # << >> THEN << [src |-> "expr", stmts |-> JoinExprs(i.exprs)] >> ELSE << >>)

\* concrete texts for the conformance run
TextOrEmpty(ss) == IF ss = << >> THEN "" ELSE InputText(ss)
FileText(i)  == TextOrEmpty(i.file)
ExprTexts(i) == [k \in 1..Len(i.exprs) |-> InputText(i.exprs[k])]

\* ---------------------------------------------------------------- process
Boot(i) == [ st      |-> InitSt,             \* the session (after the prelude)
             queue   |-> CodeAndSource(i),   \* inputs not yet looked at
             stdout  |-> << >>,              \* lines written to standard output (values)
             stderr  |-> FALSE,              \* something was written to standard error
             failed  |-> FALSE,              \* run() is going to return Err
             exited  |-> FALSE,
             status  |-> 0,                  \* exit status (meaningful once exited)
             dropped |-> << >>,              \* prints of a failing input, thrown away with it (adopted rule, not C22)
             log     |-> << >> ]             \* what happened to each executed input (coverage only)

\* what parse_and_evaluate prints for a successful input: prints first, then the result
Emitted(r) == r.out \o (IF r.res # 0 THEN << r.res >> ELSE << >>)
LogRec(inp, r) == [src |-> inp.src, outcome |-> r.outcome, kind |-> r.kind, n |-> Len(inp.stmts)]

CanRun(q) == ~q.exited /\ q.queue # << >> /\ ~(q.failed /\ StopAtFailure)

\* one iteration of `for (code, code_source) in code_and_source`
RunInput(q) ==
  LET inp == Head(q.queue)
      r   == Submit(q.st, inp.stmts) IN
    IF r.outcome = "ok"
    THEN [q EXCEPT !.st = r.st, !.queue = Tail(@), !.stdout = @ \o Emitted(r), !.log = Append(@, LogRec(inp, r))]
    ELSE \* the prints collected so far (r.out) are dropped together with the input
         [q EXCEPT !.st = r.st, !.queue = Tail(@), !.stderr = TRUE, !.failed = TRUE, !.dropped = @ \o r.out,
                   !.log = Append(@, LogRec(inp, r))]

CanExit(q) == ~q.exited /\ ~CanRun(q)
\* main(): Err(e) => writeln!(stderr, ..); exit(1)
Exit(q) == [q EXCEPT !.exited = TRUE, !.status = IF q.failed THEN 1 ELSE 0, !.stderr = @ \/ q.failed]

Outcome(q) == [status |-> q.status, stdout |-> q.stdout, stderr |-> q.stderr]

\* the same loop as an operator (used to speak about *another* invocation inside a state predicate)
RECURSIVE RunToEnd(_)
RunToEnd(q) == IF q.exited THEN q ELSE IF CanRun(q) THEN RunToEnd(RunInput(q)) ELSE Exit(q)
CliOutcome(i) == Outcome(RunToEnd(Boot(i)))

\* ---------------------------------------------------------- state machine
VARIABLES inv, p

CliStart(i) == inv' = i /\ p' = Boot(i)
CliNext == \/ CanRun(p)  /\ p' = RunInput(p) /\ UNCHANGED inv
           \/ CanExit(p) /\ p' = Exit(p)     /\ UNCHANGED inv

\* ------------------------------------------- the property, declaratively
\* every input of the invocation submitted in order to one session, no loop control
RECURSIVE Results(_, _)
Results(st, inputs) == IF inputs = << >> THEN << >>
                       ELSE LET r == Submit(st, Head(inputs).stmts) IN << r >> \o Results(r.st, Tail(inputs))
AllResults(i) == Results(InitSt, CodeAndSource(i))
EveryInputSucceeded(i) == LET rs == AllResults(i) IN \A k \in 1..Len(rs) : rs[k].outcome = "ok"
RECURSIVE OkPrefixOutput(_)
OkPrefixOutput(rs) == IF rs = << >> \/ Head(rs).outcome # "ok" THEN << >>
                      ELSE Emitted(Head(rs)) \o OkPrefixOutput(Tail(rs))

\* status 0 iff every input succeeded
ExitFaithful == p.exited => (p.status = 0 <=> EveryInputSucceeded(inv))
\* standard output = prints and results of the successful part, in order, nothing else
StdoutFaithful == p.exited => p.stdout = OkPrefixOutput(AllResults(inv))
\* standard error is empty iff success; nothing is written there before a failure
StderrFaithful == /\ p.exited => (p.stderr <=> p.status # 0)
                  /\ p.stderr => p.failed
\* -e lines behave like a file containing the same lines (and vice versa)
OnlyExprs(i) == i.file = << >> /\ i.exprs # << >>
OnlyFile(i)  == i.file # << >> /\ i.exprs = << >>
Twin(i) == IF OnlyExprs(i) THEN Invocation(JoinExprs(i.exprs), << >>)
           ELSE Invocation(<< >>, [k \in 1..Len(i.file) |-> << i.file[k] >>])
FileEqExpr == (p.exited /\ (OnlyExprs(inv) \/ OnlyFile(inv))) => Outcome(p) = CliOutcome(Twin(inv))
\* the state machine and the operator form of the loop are the same thing
LoopIsOperator == p.exited => Outcome(p) = CliOutcome(inv)
=============================================================================
