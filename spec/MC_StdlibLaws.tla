---------------------------- MODULE MC_StdlibLaws ----------------------------
(***************************************************************************)
(* C23: model checking of StdlibLaws on the specification alone (MC) and   *)
(* case generation (G).                                                    *)
(*  MC  TableOK        the law table is well formed: every grid/extra      *)
(*                     point lies in the stated domain, every pair has     *)
(*                     both directions, ids unique, tolerance classes known *)
(*      CalendarInv    the integer calendar used to write instants is its  *)
(*                     own inverse and steps date by date (swept over      *)
(*                     years 1..9999 with stride CalStride)                *)
(*      SplitInv       for all chains, all sweeps, all N: the parts of     *)
(*                     Split add up to N, all but the first are below      *)
(*                     their ratio, none negative (SplitLaw); Split(N+1)   *)
(*                     is the odometer successor of Split(N); Expected     *)
(*                     satisfies the lenient Judge (the law as checked on  *)
(*                     recorded traces)                                    *)
(*  G   one CASE line per (row, grid point), (instant row, instant) and    *)
(*      (chain, sweep, N) with the texts / exact expected parts; one META  *)
(*      line with the tables (single source for the comparator).           *)
(***************************************************************************)
EXTENDS StdlibLaws, Json, FiniteSets

CONSTANTS MaxN,        \* unit_list: all N <= MaxN in the smallest unit (sweep 1); fractions of it for the others
          InstantN,    \* instants per instant row (grid over the row's day range)
          CalStride    \* calendar sweep stride in days

VARIABLES st
vars == <<st>>

Block == 100
Fan == 64
CalBlock == 1000
CalLo == -719162      \* 0001-01-01
CalHi == 2932896      \* 9999-12-31
AllChains == Chains \o ShortChains

\* m fraction bits, sign, all N <= max
Sweeps == << [m |-> 0, sign |-> 1, max |-> MaxN],
             [m |-> 0, sign |-> -1, max |-> MaxN \div 10],
             [m |-> 1, sign |-> 1, max |-> MaxN \div 10],
             [m |-> 3, sign |-> 1, max |-> MaxN \div 10],
             [m |-> 2, sign |-> -1, max |-> MaxN \div 10] >>

S(k, a, b, c) == [k |-> k, a |-> a, b |-> b, c |-> c]

\* what the block states cover (reported in META: unit_list inputs and calendar days checked by MC)
SplitCount == Len(AllChains) * ((Sweeps[1].max + 1) + (Sweeps[2].max + 1) + (Sweeps[3].max + 1) + (Sweeps[4].max + 1) + (Sweeps[5].max + 1))
CalCount == (CalHi - CalLo + CalStride - 1) \div CalStride

\* the tables (constant-level definitions)
db == [real |-> RealLaws, inst |-> InstantLaws, chains |-> AllChains, sweeps |-> Sweeps]

Init == st = S("start", 0, 0, 0)

\* One state per row / grid point / instant; one state per BLOCK of unit_list inputs and per block of calendar days
\* (the invariants quantify over the block: same coverage, 100x fewer states to fingerprint and queue).
Next ==
  \/ /\ st.k = "start"
     /\ \/ \E r \in 1..Len(db.real) : st' = S("row", r, 0, 0)
        \/ \E r \in 1..Len(db.inst) : st' = S("irow", r, 0, 0)
        \/ \E f \in 0..(Fan - 1) : st' = S("fan", f, 0, 0)
  \* invariants are evaluated by the worker that generates a state: the block states are spread over Fan
  \* intermediate states so that all workers take part
  \/ /\ st.k = "fan"
     /\ \/ \E c \in 1..Len(db.chains), s \in 1..Len(db.sweeps), blk \in 0..(MaxN \div Block) :
              /\ blk % Fan = st.a
              /\ blk * Block <= db.sweeps[s].max
              /\ st' = S("split", c, blk, s)
        \/ \E blk \in 0..((CalHi - CalLo) \div (CalBlock * CalStride)) :
              /\ blk % Fan = st.a
              /\ st' = S("cal", blk, 0, 0)
  \/ /\ st.k = "row"
     /\ \E p \in Params(db.real[st.a]) : st' = S("real", st.a, p[1], p[2])
  \/ /\ st.k = "irow"
     /\ \E j \in 0..InstantN : st' = S("instant", st.a, j, 0)

Spec == Init /\ [][Next]_vars

\* the inputs N of a split block
BlockNs(blk, max) == {n \in (blk * Block)..(blk * Block + Block - 1) : n <= max}
CalDays(blk) == {d \in {CalLo + (blk * CalBlock + i) * CalStride : i \in 0..(CalBlock - 1)} : d < CalHi}

TableOK == st.k = "start" =>
             /\ \A r \in 1..Len(db.real) : RowOK(db.real[r])
             /\ \A r \in 1..Len(db.inst) : ILawOK(db.inst[r])
             /\ PairsBothWays(db.real \o db.inst)
             /\ UniqueIds(db.real \o db.inst)
             /\ \A c \in 1..Len(db.chains) : /\ Len(db.chains[c].units) = Len(db.chains[c].ratios) + 1
                                              /\ \A i \in 1..Len(db.chains[c].ratios) : db.chains[c].ratios[i] >= 2
             /\ \A s \in 1..Len(Shorthands) : \E c \in 1..Len(db.chains) : db.chains[c].id = Shorthands[s].chain

CalendarInv == st.k = "cal" => \A d \in CalDays(st.a) : CalendarOK(d) /\ CalendarStep(d)

SplitInv == st.k = "split" =>
   LET c == AllChains[st.a]
       sw == Sweeps[st.c]
       rs == ExtRatios(c, sw.m) IN
   \A n \in BlockNs(st.b, sw.max) :
      LET e == Expected(c, sw.m, sw.sign, n) IN
      /\ SplitLaw(n, rs, Split(n, rs))
      /\ Odometer(n, rs)
      /\ Judge(c, sw.m, sw.sign, n, e, FALSE)
      /\ Judge(c, sw.m, sw.sign, n, e, TRUE)

InstantInv == st.k = "instant" =>
   LET r == db.inst[st.a]
       t == InstantOf(r, st.b, InstantN) IN
   /\ t[1] \in r.dlo..r.dhi /\ t[2] \in 0..86399 /\ t[3] \in 0..999999
   /\ CalendarOK(t[1])

\* split block: n0 and the expected parts of n0, n0+1, ... (in order)
SplitBlockCase ==
   LET c == AllChains[st.a]
       sw == Sweeps[st.c]
       ns == BlockNs(st.b, sw.max)
       n0 == st.b * Block IN
   [k |-> "splits", chain |-> c.id, m |-> sw.m, sign |-> sw.sign, n0 |-> n0,
    parts |-> [i \in 1..Cardinality(ns) |-> Expected(c, sw.m, sw.sign, n0 + i - 1)]]

Emit ==
  /\ st.k = "start" => PrintT(<<"META", ToJson([real |-> db.real, inst |-> db.inst, chains |-> db.chains, tol |-> TolClasses,
                                                 shorthands |-> Shorthands, splits |-> SplitCount, caldays |-> CalCount])>>)
  /\ st.k = "real" => PrintT(<<"CASE", ToJson(RealCase(db.real[st.a], <<st.b, st.c>>))>>)
  /\ st.k = "instant" => PrintT(<<"CASE", ToJson(InstantCase(db.inst[st.a], InstantOf(db.inst[st.a], st.b, InstantN)))>>)
  /\ st.k = "split" => PrintT(<<"CASE", ToJson(SplitBlockCase)>>)
=============================================================================
