SPECIFICATION Spec
INVARIANTS TypeOK Total Prompt StageOfClass EndIsObs EmitEnd
PROPERTY Termination
CHECK_DEADLOCK FALSE
