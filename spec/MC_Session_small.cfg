CONSTANTS RollbackImports = TRUE
          Depth = 2
          Alphabet = "small"
          Emit = "none"
SPECIFICATION Spec
INVARIANTS Bounded BatchEq SaveReplayEq TypeErrorSilent EmitCase
PROPERTY FailAtomic
CHECK_DEADLOCK FALSE
