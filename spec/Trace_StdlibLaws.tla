--------------------------- MODULE Trace_StdlibLaws ---------------------------
(***************************************************************************)
(* Trace validation for C23 (J direction): every line records one call of  *)
(* the real unit_list on a random input sign * n / 2^m of the smallest     *)
(* unit of one of the integer chains of StdlibLaws (harness: nv-stdlib      *)
(* record):                                                                *)
(*   chain, m, sign, n   the input,                                        *)
(*   outcome             "ok" or the error class,                          *)
(*   exact               every observed part is a whole number (the last   *)
(*                       one a whole multiple of 2^-m) below 2^31,         *)
(*   units_ok            part i is expressed in unit i of the chain,       *)
(*   parts               then: the observed parts as integers (last one    *)
(*                       scaled by 2^m).                                   *)
(* A line is accepted iff the call succeeded, the parts are in the chain's *)
(* units and StdlibLaws!Judge holds: Strict - they are exactly the spec's  *)
(* Split; otherwise - the literal law of the property on integer-scaled    *)
(* data (the parts add up to the original, all whole, none of the wrong    *)
(* sign).  The check gives the strict spec only the lines whose result the *)
(* comparator did not already classify as a lawful representation          *)
(* difference (MODEL-DRIFT).  Lines with exact = FALSE are outside the      *)
(* integer model; they are accepted here and judged by the comparator with *)
(* the stated tolerance (they are counted by the check).                   *)
(* Lines are independent: the trace position is the only state.            *)
(* Trace file: environment variable TRACE (ndjson).                        *)
(***************************************************************************)
EXTENDS StdlibLaws, Json, IOUtils, TLCExt

CONSTANT Strict

tr == TLCEval(ndJsonDeserialize(IOEnv.TRACE))
AllChains == TLCEval(Chains \o ShortChains)

VARIABLES l
tvars == <<l>>

TraceInit == l = 1

ChainOf(id) == CHOOSE c \in {AllChains[i] : i \in 1..Len(AllChains)} : c.id = id

Accept(ev) == /\ \E i \in 1..Len(AllChains) : AllChains[i].id = ev.chain
              /\ ev.m \in 0..10 /\ ev.sign \in {1, -1} /\ ev.n >= 0
              /\ ev.outcome = "ok"
              /\ ev.exact => /\ ev.units_ok
                             /\ Judge(ChainOf(ev.chain), ev.m, ev.sign, ev.n, ev.parts, Strict)

TraceNext == /\ l <= Len(tr)
             /\ Accept(tr[l])
             /\ l' = l + 1

TraceSpec == TraceInit /\ [][TraceNext]_tvars

TraceAccepted ==
    LET n == Len(tr)
        d == TLCGet("stats").diameter - 1
    IN IF d = n THEN TRUE
       ELSE /\ PrintT(<<"REJECTED", ToJson([matched |-> d, total |-> n])>>)
            /\ FALSE
=============================================================================
