---------------------------- MODULE MC_PrefixTable ----------------------------
(***************************************************************************)
(* C13 on the REAL unit table.  The standard prelude, as dumped from the   *)
(* current tree (UnitTableData, generated), is taken as one state of the   *)
(* PrefixParser machine: units = every alias of every prelude unit with    *)
(* its declared prefix forms, others = the variables and functions of the  *)
(* session, prefix table = StdPrefixes (plus what the code accepts beyond  *)
(* it).  TLC enumerates the complete set of (alias, prefix spelling)       *)
(* combinations - accepted by the alias or not - builds each identifier,   *)
(* computes the set of its readings with the operators of PrefixParser and *)
(* requires at most one; and every (unit, prefix) that can occur in output *)
(* with the text it is displayed as, which must read back as that pair.    *)
(* One CASE line per case carries the prediction for the harness (G).      *)
(***************************************************************************)
EXTENDS PrefixParser, Json, UnitTableData

RealPrefixes == StdPrefixes \o GenExtraPrefixes

VARIABLES db,     \* the dumped table (constant)
          cur     \* the case in hand: [m, i, j]
vars == <<units, order, others, shadow, pf, db, cur>>

Cur(m, i, j) == [m |-> m, i |-> i, j |-> j]

\* alias text |-> its index in the dumped alias list
IndexOf(A) == [t \in { A[i].text : i \in 1..Len(A) } |-> CHOOSE k \in 1..Len(A) : A[k].text = t]
\* alias |-> [unit, short, long, metric, binary], from the dumped records
UnitsFrom(A, G, ix) ==
    [t \in DOMAIN ix |-> [unit |-> G[A[ix[t]].u].name, short |-> A[ix[t]].short, long |-> A[ix[t]].long,
                          metric |-> G[A[ix[t]].u].metric, binary |-> G[A[ix[t]].u].binary]]

Init == \E A \in {GenAliases} : \E G \in {GenUnits} : \E T \in {TableOf(RealPrefixes)} : \E ix \in {IndexOf(GenAliases)} :
          /\ Assert(WellFormed(T), "a prefix spelling occurs twice in the table")
          /\ Assert(Cardinality({ A[i].text : i \in 1..Len(A) }) = Len(A), "an alias occurs twice in the dumped unit table")
          /\ units = UnitsFrom(A, G, ix)
          /\ order = << >>
          /\ others = GenOthers
          /\ shadow = {}
          /\ pf = T
          /\ db = [aliases |-> A, units |-> G, ix |-> ix,
                   \* one representative form index per prefix value (kind, exp)
                   reps |-> { j \in 1..Len(T.seq) : \A k \in 1..(j - 1) : ~(T.seq[k].kind = T.seq[j].kind /\ T.seq[k].exp = T.seq[j].exp) }]
          /\ cur = Cur("start", 0, 0)

InfoOfAlias(i) == units[db.aliases[i].text]

\* can unit u occur with the prefix value of form j, i.e. does one of its aliases accept a spelling of that value?
CanOccur(u, j) ==
    \E i \in 1..Len(db.aliases) : /\ db.aliases[i].u = u
                                  /\ \E k \in 1..Len(pf.seq) : /\ pf.seq[k].kind = pf.seq[j].kind
                                                               /\ pf.seq[k].exp = pf.seq[j].exp
                                                               /\ AcceptsForm(InfoOfAlias(i), pf.seq[k])

Next == /\ UNCHANGED <<units, order, others, shadow, pf, db>>
        /\ \/ /\ cur.m = "start"
              /\ \/ \E i \in 1..Len(db.aliases) : cur' = Cur("id", i, 0)
                 \/ \E u \in 1..Len(db.units) : cur' = Cur("unit", u, 0)
           \/ /\ cur.m = "id" /\ cur.j = 0
              /\ \E j \in 1..Len(pf.seq) : cur' = Cur("id", cur.i, j)
           \/ /\ cur.m = "unit"
              /\ \E j \in db.reps : CanOccur(cur.i, j) /\ cur' = Cur("show", cur.i, j)

Spec == Init /\ [][Next]_vars

-----------------------------------------------------------------------------
\* "id" cases: alias cur.i behind prefix form cur.j (0: no prefix)
CurForm == IF cur.j = 0 THEN NoForm ELSE pf.seq[cur.j]
CurAlias == db.aliases[cur.i].text
CurId == CurForm.text \o CurAlias
CurAccepted == AcceptsForm(InfoOfAlias(cur.i), CurForm)
CurReading == [kind |-> CurForm.kind, exp |-> CurForm.exp, alias |-> CurAlias, unit |-> units[CurAlias].unit]

\* no identifier has two readings
AtMostOneReading == cur.m = "id" => Cardinality(UnitReadings(CurId)) <= 1
\* ... nor is it both a unit and a variable/function
NotAlsoOther == cur.m = "id" => (CurId \in others => UnitReadings(CurId) = {})
\* an accepted combination denotes exactly prefix x unit; one that is not accepted is not read as that unit
Denotes == cur.m = "id" => IF CurAccepted THEN Readings(CurId) = {CurReading}
                           ELSE CurReading \notin Readings(CurId)

\* "show" cases: unit cur.i with the prefix value of form cur.j
ShowUnit == db.units[cur.i]
ShowHasText == /\ ShowUnit.canon \in DOMAIN units
               /\ SpellingsOf(pf, pf.seq[cur.j].kind, pf.seq[cur.j].exp, ShowForm(units, ShowUnit.canon)) # {}
CurShown == ShowText(units, pf, pf.seq[cur.j].kind, pf.seq[cur.j].exp, ShowUnit.canon)
ShownReading == [kind |-> pf.seq[cur.j].kind, exp |-> pf.seq[cur.j].exp, alias |-> ShowUnit.canon, unit |-> ShowUnit.name]
\* a prefixed unit in output reads back as the same prefixed unit
ShowReadsBackReal == cur.m = "show" => (ShowHasText /\ Readings(CurShown) = {ShownReading})

\* a reading as <<kind, exp, index of the alias>>
ReadingsJson(id) == { <<r.kind, r.exp, db.ix[r.alias]>> : r \in UnitReadings(id) }

EmitCase ==
    /\ cur.m = "id" =>
         PrintT(<<"CASE", ToJson([t |-> "id", id |-> CurId, a |-> cur.i, f |-> cur.j, acc |-> CurAccepted,
                                  oth |-> CurId \in others, rd |-> ReadingsJson(CurId)])>>)
    /\ cur.m = "show" =>
         PrintT(<<"CASE", ToJson([t |-> "show", u |-> cur.i, kind |-> pf.seq[cur.j].kind, exp |-> pf.seq[cur.j].exp,
                                  ok |-> ShowHasText,
                                  txt |-> IF ShowHasText THEN CurShown ELSE << >>,
                                  rd |-> IF ShowHasText THEN ReadingsJson(CurShown) ELSE {}])>>)
    /\ cur.m = "start" =>
         PrintT(<<"META", ToJson([forms |-> pf.seq, aliases |-> Len(db.aliases), units |-> Len(db.units)])>>)
=============================================================================
