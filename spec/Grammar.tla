------------------------------- MODULE Grammar -------------------------------
(***************************************************************************)
(* The documented expression grammar of Numbat as an executable parser on  *)
(* token sequences (tokens: Lexer.tla).                                    *)
(*                                                                         *)
(* Written from the documentation, not from parser.rs's code:              *)
(*  - book/src/basics/operations.md: the precedence table (high to low)    *)
(*        x²  |  x!  |  x^y x**y  |  x y  |  -x  |  x per y  |  x / y      *)
(*        |  x * y  |  x - y  |  x + y  |  comparisons  |  !x  |  &&       *)
(*        |  ||  |  ->  |  if-then-else  |  x |> f                         *)
(*    and its prose (implicit multiplication binds tighter than division,  *)
(*    `per` tighter than `/`);                                             *)
(*  - the grammar comment at the top of numbat/src/parser.rs, which gives  *)
(*    the shape of each level (associativity, what may follow `^`, call    *)
(*    and field suffixes, arguments, lists);                               *)
(*  - book pages on conversions, conditionals, lists, structs, number      *)
(*    notation (`273 |> base(3)`: the right-hand side of `|>` may be a     *)
(*    call to which the left-hand side is appended as last argument).      *)
(*                                                                         *)
(* Grammar (token level; whitespace is not a token, see Lexer.tla part 2): *)
(*   expression    ::= postfix_apply                                       *)
(*   postfix_apply ::= condition ( "|>" call )*      call = identifier or  *)
(*                                                   function call         *)
(*   condition     ::= "if" conversion "then" condition "else" condition   *)
(*                   | conversion                                          *)
(*   conversion    ::= logical_or ( arrow logical_or )*                    *)
(*   logical_or    ::= logical_and ( "||" logical_and )*                   *)
(*   logical_and   ::= logical_neg ( "&&" logical_neg )*                   *)
(*   logical_neg   ::= "!" logical_neg | comparison                        *)
(*   comparison    ::= term ( cmp term )*                                  *)
(*   term          ::= factor ( ("+"|"-") factor )*                        *)
(*   factor        ::= per_factor ( ("*"|"/") per_factor )*   [1]          *)
(*   per_factor    ::= unary ( "per" unary )*                              *)
(*   unary         ::= ("-"|"+") unary | ifactor                           *)
(*   ifactor       ::= power ( power )*               juxtaposition        *)
(*   power         ::= factorial ( "^" "-"? power )?                       *)
(*   factorial     ::= unicode_power "!"*                                  *)
(*   unicode_power ::= call uexp?                                          *)
(*   call          ::= primary ( "(" arguments? ")" | "." identifier )*    *)
(*   arguments     ::= expression ( "," expression )*                      *)
(*   primary       ::= number | identifier | boolean | list                *)
(*                   | "(" expression ")"                                  *)
(*   list          ::= "[" "]" | "[" expression ( "," expression )* "]"    *)
(* (strings, struct instantiation and `?` are primaries too; not modelled) *)
(*                                                                         *)
(* [1] the comment writes `factor ::= unary (("*"|"/") per_factor)*`; the  *)
(*     first operand must be a per_factor too (book: `per` binds tighter   *)
(*     than `/`), an obvious slip.                                         *)
(*                                                                         *)
(* Reading parameter m: the book's table has separate rows for `/` above   *)
(* `*` and for `-` above `+`; the comment puts each pair on one level,     *)
(* left-associative.  m = "doc" is the comment's reading (the default),    *)
(* m = "table" the literal reading of the rows.  MC_Grammar checks that    *)
(* the two readings accept the same inputs and give trees that are equal   *)
(* up to x*(y/z) = (x*y)/z and x+(y-z) = (x+y)-z (AssocNormal below).      *)
(*                                                                         *)
(* Every nonterminal is an operator  N(m, ts)  returning                   *)
(*   [ok |-> BOOLEAN, tree |-> syntax tree, rest |-> remaining tokens].    *)
(* Parse(ts) is the tree, or REJECT unless the whole sequence is consumed. *)
(*                                                                         *)
(* Trees (1:1 with numbat::verif::parse_sexpr):                            *)
(*   <<"num", v>> <<"id", v>> <<"bool", v>>                                *)
(*   <<"neg", t>> <<"not", t>> <<"fact", n, t>>                            *)
(*   <<op, l, r>>  op in mul div add sub pow conv lt gt le ge eq ne and or *)
(*   <<"call", f, <<args>>>>  <<"field", t, name>>  <<"if", c, t, e>>      *)
(*   <<"list", <<elements>>>>                                              *)
(* A parenthesised expression, a unary plus and the spelling of an         *)
(* operator leave no trace; x² is <<"pow", x, <<"num", "2">>>>; x |> f is  *)
(* <<"call", f, <<x>>>> and x |> f(a) is <<"call", f, <<a, x>>>>.          *)
(***************************************************************************)
EXTENDS Lexer

REJECT == <<"REJECT">>

Fail == [ok |-> FALSE, tree |-> << >>, rest |-> << >>]
Ok(t, r) == [ok |-> TRUE, tree |-> t, rest |-> r]

\* kind of the next token
K(ts) == IF ts = << >> THEN "eof" ELSE Head(ts).k

\* tokens that can begin a primary (hence continue an implicit multiplication)
PrimaryStart == {"num", "id", "bool", "lp", "lb"}

BinTag(k) == CASE k = "arrow" -> "conv" [] k = "plus" -> "add" [] k = "minus" -> "sub"
               [] k \in {"div", "per"} -> "div" [] OTHER -> k    \* or and mul lt gt le ge eq ne

\* operators of each left-associative binary level
LevelOps(m, lvl) ==
  CASE lvl = "conversion"  -> {"arrow"}
    [] lvl = "logical_or"  -> {"or"}
    [] lvl = "logical_and" -> {"and"}
    [] lvl = "comparison"  -> CmpKinds
    [] lvl = "term"        -> IF m = "table" THEN {"plus"} ELSE {"plus", "minus"}
    [] lvl = "term_sub"    -> {"minus"}                      \* m = "table" only
    [] lvl = "factor"      -> IF m = "table" THEN {"mul"} ELSE {"mul", "div"}
    [] lvl = "factor_div"  -> {"div"}                        \* m = "table" only
    [] lvl = "per_factor"  -> {"per"}

RECURSIVE PostfixApply(_, _), ApplyLoop(_, _, _), Condition(_, _), Conversion(_, _), LogicalOr(_, _),
          LogicalAnd(_, _), LogicalNeg(_, _), Comparison(_, _), Term(_, _), TermSub(_, _), Factor(_, _),
          FactorDiv(_, _), PerFactor(_, _), Unary(_, _), IFactor(_, _), JuxLoop(_, _, _), Power(_, _),
          Factorial(_, _), UnicodePower(_, _), Call(_, _), CallLoop(_, _, _), Arguments(_, _, _, _),
          Primary(_, _), Operand(_, _, _), BinLoop(_, _, _, _)

\* operand ( op operand )*   for the level lvl, left-associative
BinLevel(m, lvl, ts) == LET a == Operand(m, lvl, ts) IN
                        IF a.ok THEN BinLoop(m, lvl, a.tree, a.rest) ELSE Fail
BinLoop(m, lvl, left, ts) ==
  IF K(ts) \in LevelOps(m, lvl)
  THEN LET b == Operand(m, lvl, Tail(ts)) IN
       IF b.ok THEN BinLoop(m, lvl, <<BinTag(K(ts)), left, b.tree>>, b.rest) ELSE Fail
  ELSE Ok(left, ts)
\* the next tighter level
Operand(m, lvl, ts) ==
  CASE lvl = "conversion"  -> LogicalOr(m, ts)
    [] lvl = "logical_or"  -> LogicalAnd(m, ts)
    [] lvl = "logical_and" -> LogicalNeg(m, ts)
    [] lvl = "comparison"  -> Term(m, ts)
    [] lvl = "term"        -> IF m = "table" THEN TermSub(m, ts) ELSE Factor(m, ts)
    [] lvl = "term_sub"    -> Factor(m, ts)
    [] lvl = "factor"      -> IF m = "table" THEN FactorDiv(m, ts) ELSE PerFactor(m, ts)
    [] lvl = "factor_div"  -> PerFactor(m, ts)
    [] lvl = "per_factor"  -> Unary(m, ts)

\* postfix_apply ::= condition ( "|>" call )*
PostfixApply(m, ts) == LET c == Condition(m, ts) IN
                       IF c.ok THEN ApplyLoop(m, c.tree, c.rest) ELSE Fail
ApplyLoop(m, left, ts) ==
  IF K(ts) = "apply"
  THEN LET r == Call(m, Tail(ts)) IN
       IF ~r.ok THEN Fail
       ELSE IF r.tree[1] = "id" THEN ApplyLoop(m, <<"call", r.tree, <<left>>>>, r.rest)
       ELSE IF r.tree[1] = "call" THEN ApplyLoop(m, <<"call", r.tree[2], Append(r.tree[3], left)>>, r.rest)
       ELSE Fail
  ELSE Ok(left, ts)

\* condition ::= "if" conversion "then" condition "else" condition | conversion
Condition(m, ts) ==
  IF K(ts) = "if"
  THEN LET c == Conversion(m, Tail(ts)) IN
       IF ~c.ok \/ K(c.rest) # "then" THEN Fail
       ELSE LET t == Condition(m, Tail(c.rest)) IN
            IF ~t.ok \/ K(t.rest) # "else" THEN Fail
            ELSE LET e == Condition(m, Tail(t.rest)) IN
                 IF e.ok THEN Ok(<<"if", c.tree, t.tree, e.tree>>, e.rest) ELSE Fail
  ELSE Conversion(m, ts)

Conversion(m, ts) == BinLevel(m, "conversion", ts)
LogicalOr(m, ts)  == BinLevel(m, "logical_or", ts)
LogicalAnd(m, ts) == BinLevel(m, "logical_and", ts)

\* logical_neg ::= "!" logical_neg | comparison
LogicalNeg(m, ts) ==
  IF K(ts) = "bang"
  THEN LET r == LogicalNeg(m, Tail(ts)) IN IF r.ok THEN Ok(<<"not", r.tree>>, r.rest) ELSE Fail
  ELSE Comparison(m, ts)

Comparison(m, ts) == BinLevel(m, "comparison", ts)
Term(m, ts)       == BinLevel(m, "term", ts)
TermSub(m, ts)    == BinLevel(m, "term_sub", ts)
Factor(m, ts)     == BinLevel(m, "factor", ts)
FactorDiv(m, ts)  == BinLevel(m, "factor_div", ts)
PerFactor(m, ts)  == BinLevel(m, "per_factor", ts)

\* unary ::= ("-"|"+") unary | ifactor          (a unary plus leaves no node)
Unary(m, ts) ==
  IF K(ts) = "minus"
  THEN LET r == Unary(m, Tail(ts)) IN IF r.ok THEN Ok(<<"neg", r.tree>>, r.rest) ELSE Fail
  ELSE IF K(ts) = "plus" THEN Unary(m, Tail(ts))
  ELSE IFactor(m, ts)

\* ifactor ::= power ( power )*       implicit multiplication, left-associative
IFactor(m, ts) == LET p == Power(m, ts) IN IF p.ok THEN JuxLoop(m, p.tree, p.rest) ELSE Fail
JuxLoop(m, left, ts) ==
  IF K(ts) \in PrimaryStart
  THEN LET p == Power(m, ts) IN
       IF p.ok THEN JuxLoop(m, <<"mul", left, p.tree>>, p.rest) ELSE Fail
  ELSE Ok(left, ts)

\* power ::= factorial ( "^" "-"? power )?      right-associative; only a minus may follow "^"
Power(m, ts) ==
  LET f == Factorial(m, ts) IN
  IF ~f.ok THEN Fail
  ELSE IF K(f.rest) = "pow"
       THEN LET r1 == Tail(f.rest) IN
            IF K(r1) = "minus"
            THEN LET e == Power(m, Tail(r1)) IN
                 IF e.ok THEN Ok(<<"pow", f.tree, <<"neg", e.tree>>>>, e.rest) ELSE Fail
            ELSE LET e == Power(m, r1) IN
                 IF e.ok THEN Ok(<<"pow", f.tree, e.tree>>, e.rest) ELSE Fail
       ELSE f

\* factorial ::= unicode_power "!"*          n marks = one n-fold factorial
RECURSIVE CountBangs(_)
CountBangs(ts) == IF K(ts) = "bang" THEN 1 + CountBangs(Tail(ts)) ELSE 0
Factorial(m, ts) ==
  LET u == UnicodePower(m, ts) IN
  IF ~u.ok THEN Fail
  ELSE LET n == CountBangs(u.rest) IN
       IF n = 0 THEN u ELSE Ok(<<"fact", n, u.tree>>, SubSeq(u.rest, n + 1, Len(u.rest)))

\* unicode_power ::= call uexp?
UnicodePower(m, ts) ==
  LET c == Call(m, ts) IN
  IF ~c.ok THEN Fail
  ELSE IF K(c.rest) = "uexp" THEN Ok(<<"pow", c.tree, <<"num", Head(c.rest).v>>>>, Tail(c.rest))
  ELSE c

\* call ::= primary ( "(" arguments? ")" | "." identifier )*
Call(m, ts) == LET p == Primary(m, ts) IN IF p.ok THEN CallLoop(m, p.tree, p.rest) ELSE Fail
CallLoop(m, f, ts) ==
  IF K(ts) = "lp"
  THEN IF K(Tail(ts)) = "rp" THEN CallLoop(m, <<"call", f, << >>>>, Tail(Tail(ts)))
       ELSE LET a == Arguments(m, "rp", << >>, Tail(ts)) IN
            IF a.ok THEN CallLoop(m, <<"call", f, a.tree>>, a.rest) ELSE Fail
  ELSE IF K(ts) = "dot"
       THEN IF K(Tail(ts)) = "id" THEN CallLoop(m, <<"field", f, ts[2].v>>, Tail(Tail(ts))) ELSE Fail
       ELSE Ok(f, ts)

\* expression ( "," expression )* close       tree = the sequence of argument trees
Arguments(m, close, acc, ts) ==
  LET e == PostfixApply(m, ts) IN
  IF ~e.ok THEN Fail
  ELSE IF K(e.rest) = "comma" THEN Arguments(m, close, Append(acc, e.tree), Tail(e.rest))
  ELSE IF K(e.rest) = close THEN Ok(Append(acc, e.tree), Tail(e.rest))
  ELSE Fail

\* primary ::= number | identifier | boolean | list | "(" expression ")"
Primary(m, ts) ==
  CASE K(ts) \in {"num", "id", "bool"} -> Ok(<<Head(ts).k, Head(ts).v>>, Tail(ts))
    [] K(ts) = "lp" -> LET e == PostfixApply(m, Tail(ts)) IN
                       IF e.ok /\ K(e.rest) = "rp" THEN Ok(e.tree, Tail(e.rest)) ELSE Fail
    [] K(ts) = "lb" -> IF K(Tail(ts)) = "rb" THEN Ok(<<"list", << >>>>, Tail(Tail(ts)))
                       ELSE LET a == Arguments(m, "rb", << >>, Tail(ts)) IN
                            IF a.ok THEN Ok(<<"list", a.tree>>, a.rest) ELSE Fail
    [] OTHER -> Fail

Expression(m, ts) == PostfixApply(m, ts)

ParseM(m, ts) == LET r == PostfixApply(m, ts) IN IF r.ok /\ r.rest = << >> THEN r.tree ELSE REJECT
Parse(ts) == ParseM("doc", ts)

-----------------------------------------------------------------------------
(* The two readings of the table agree up to re-association of * with / and of + with -. *)
BinaryTags == {"mul", "div", "add", "sub", "pow", "conv", "lt", "gt", "le", "ge", "eq", "ne", "and", "or"}

RECURSIVE AssocNormal(_), AssocRoot(_, _, _), AssocSeq(_)
\* x * (y / z) -> (x * y) / z ;  x + (y - z) -> (x + y) - z   (children already normal)
AssocRoot(tag, l, r) ==
  IF tag = "mul" /\ r[1] = "div" THEN <<"div", AssocRoot("mul", l, r[2]), r[3]>>
  ELSE IF tag = "add" /\ r[1] = "sub" THEN <<"sub", AssocRoot("add", l, r[2]), r[3]>>
  ELSE <<tag, l, r>>
AssocSeq(s) == IF s = << >> THEN << >> ELSE <<AssocNormal(Head(s))>> \o AssocSeq(Tail(s))
AssocNormal(t) ==
  CASE t[1] \in {"num", "id", "bool", "REJECT"} -> t
    [] t[1] \in {"neg", "not"} -> <<t[1], AssocNormal(t[2])>>
    [] t[1] = "fact"  -> <<"fact", t[2], AssocNormal(t[3])>>
    [] t[1] \in BinaryTags -> AssocRoot(t[1], AssocNormal(t[2]), AssocNormal(t[3]))
    [] t[1] = "call"  -> <<"call", AssocNormal(t[2]), AssocSeq(t[3])>>
    [] t[1] = "field" -> <<"field", AssocNormal(t[2]), t[3]>>
    [] t[1] = "if"    -> <<"if", AssocNormal(t[2]), AssocNormal(t[3]), AssocNormal(t[4])>>
    [] t[1] = "list"  -> <<"list", AssocSeq(t[2])>>

ReadingsAgree(ts) ==
  LET a == ParseM("doc", ts)
      b == ParseM("table", ts)
  IN  /\ (a = REJECT) = (b = REJECT)
      /\ AssocNormal(a) = AssocNormal(b)

-----------------------------------------------------------------------------
(* The other direction: from a tree to tokens.                               *)
(* A STYLE tree is a tree that also says how each node is written:           *)
(*   <<"jux", l, r>>      a product written by juxtaposition                 *)
(*   <<"divper", l, r>>   a quotient written with `per`                      *)
(*   <<"powu", t, v>>     a power written with a Unicode exponent v          *)
(*   <<"apply", x, f, <<args>>>>   f(args, x) written  x |> f(args)  (f an   *)
(*                        identifier leaf; `x |> f` when args is empty)      *)
(* all other nodes as in trees.  Plain(st) forgets the style.                *)
(* Unparse(st, full) writes st with the fewest parentheses the grammar       *)
(* allows (full = FALSE) or with parentheses around every operand that is    *)
(* not a leaf (full = TRUE).  MC_GrammarTrees checks                         *)
(*      Printable(st, full) => Parse(Unparse(st, full)) = Plain(st).         *)
(***************************************************************************)
RECURSIVE Plain(_), PlainSeq(_)
PlainSeq(s) == IF s = << >> THEN << >> ELSE <<Plain(Head(s))>> \o PlainSeq(Tail(s))
Plain(st) ==
  CASE st[1] \in {"num", "id", "bool"} -> st
    [] st[1] \in {"neg", "not"} -> <<st[1], Plain(st[2])>>
    [] st[1] = "fact"   -> <<"fact", st[2], Plain(st[3])>>
    [] st[1] = "jux"    -> <<"mul", Plain(st[2]), Plain(st[3])>>
    [] st[1] = "divper" -> <<"div", Plain(st[2]), Plain(st[3])>>
    [] st[1] = "powu"   -> <<"pow", Plain(st[2]), <<"num", st[3]>>>>
    [] st[1] \in BinaryTags -> <<st[1], Plain(st[2]), Plain(st[3])>>
    [] st[1] = "call"   -> <<"call", Plain(st[2]), PlainSeq(st[3])>>
    [] st[1] = "apply"  -> <<"call", Plain(st[3]), Append(PlainSeq(st[4]), Plain(st[2]))>>
    [] st[1] = "field"  -> <<"field", Plain(st[2]), st[3]>>
    [] st[1] = "if"     -> <<"if", Plain(st[2]), Plain(st[3]), Plain(st[4])>>
    [] st[1] = "list"   -> <<"list", PlainSeq(st[2])>>

\* the grammar level a node belongs to (17 = primary ... 1 = postfix_apply)
LevelOf(st) ==
  CASE st[1] \in {"num", "id", "bool", "list"} -> 17
    [] st[1] \in {"call", "field"} -> 16
    [] st[1] = "powu"   -> 15
    [] st[1] = "fact"   -> 14
    [] st[1] = "pow"    -> 13
    [] st[1] = "jux"    -> 12
    [] st[1] = "neg"    -> 11
    [] st[1] = "divper" -> 10
    [] st[1] \in {"mul", "div"} -> 9
    [] st[1] \in {"add", "sub"} -> 8
    [] st[1] \in {"lt", "gt", "le", "ge", "eq", "ne"} -> 7
    [] st[1] = "not"    -> 6
    [] st[1] = "and"    -> 5
    [] st[1] = "or"     -> 4
    [] st[1] = "conv"   -> 3
    [] st[1] = "if"     -> 2
    [] st[1] = "apply"  -> 1
\* least level of the left / right operand of a binary node
LeftMin(tag) ==
  CASE tag = "pow" -> 14 [] tag = "jux" -> 12 [] tag = "divper" -> 10 [] tag \in {"mul", "div"} -> 9
    [] tag \in {"add", "sub"} -> 8 [] tag \in {"lt", "gt", "le", "ge", "eq", "ne"} -> 7
    [] tag = "and" -> 5 [] tag = "or" -> 4 [] tag = "conv" -> 3
RightMin(tag) ==
  CASE tag = "pow" -> 13 [] tag = "jux" -> 13 [] tag = "divper" -> 11 [] tag \in {"mul", "div"} -> 10
    [] tag \in {"add", "sub"} -> 9 [] tag \in {"lt", "gt", "le", "ge", "eq", "ne"} -> 8
    [] tag = "and" -> 6 [] tag = "or" -> 5 [] tag = "conv" -> 4
OpToken(tag) ==
  CASE tag = "mul" -> Tok("mul", "") [] tag = "div" -> Tok("div", "") [] tag = "divper" -> Tok("per", "")
    [] tag = "add" -> Tok("plus", "") [] tag = "sub" -> Tok("minus", "") [] tag = "pow" -> Tok("pow", "")
    [] tag = "conv" -> Tok("arrow", "") [] OTHER -> Tok(tag, "")      \* lt gt le ge eq ne and or

LP == Tok("lp", "")
RP == Tok("rp", "")
IsLeaf(st) == st[1] \in {"num", "id", "bool"}
RECURSIVE Bangs(_)
Bangs(n) == IF n = 0 THEN << >> ELSE <<Tok("bang", "")>> \o Bangs(n - 1)

RECURSIVE Body(_, _), Opnd(_, _, _), CommaSep(_, _)
\* st as an operand where the grammar wants level >= min
Opnd(st, min, full) ==
  IF LevelOf(st) < min \/ (full /\ ~IsLeaf(st)) THEN <<LP>> \o Body(st, full) \o <<RP>> ELSE Body(st, full)
CommaSep(s, full) ==
  IF s = << >> THEN << >>
  ELSE IF Len(s) = 1 THEN Opnd(s[1], 1, full)
  ELSE Opnd(s[1], 1, full) \o <<Tok("comma", "")>> \o CommaSep(Tail(s), full)
Body(st, full) ==
  CASE IsLeaf(st) -> <<Tok(st[1], st[2])>>
    [] st[1] = "neg"   -> <<Tok("minus", "")>> \o Opnd(st[2], 11, full)
    [] st[1] = "not"   -> <<Tok("bang", "")>> \o Opnd(st[2], 6, full)
    [] st[1] = "fact"  -> Opnd(st[3], 15, full) \o Bangs(st[2])
    [] st[1] = "powu"  -> Opnd(st[2], 16, full) \o <<Tok("uexp", st[3])>>
    [] st[1] = "pow"   -> \* a^-x needs no parentheses around -x
         IF st[3][1] = "neg" /\ ~full
         THEN Opnd(st[2], 14, full) \o <<Tok("pow", ""), Tok("minus", "")>> \o Opnd(st[3][2], 13, full)
         ELSE Opnd(st[2], 14, full) \o <<Tok("pow", "")>> \o Opnd(st[3], 13, full)
    [] st[1] = "jux"   -> \* the right operand is never parenthesised: `a (b)` is a call
         Opnd(st[2], 12, full) \o Opnd(st[3], 13, FALSE)
    [] st[1] \in BinaryTags \cup {"divper"} ->
         Opnd(st[2], LeftMin(st[1]), full) \o <<OpToken(st[1])>> \o Opnd(st[3], RightMin(st[1]), full)
    [] st[1] = "call"  -> Opnd(st[2], 16, full) \o <<LP>> \o CommaSep(st[3], full) \o <<RP>>
    [] st[1] = "apply" -> Opnd(st[2], 1, full) \o <<Tok("apply", "")>> \o Body(st[3], full)
                          \o (IF st[4] = << >> THEN << >> ELSE <<LP>> \o CommaSep(st[4], full) \o <<RP>>)
    [] st[1] = "field" -> Opnd(st[2], 16, full) \o <<Tok("dot", ""), Tok("id", st[3])>>
    [] st[1] = "if"    -> <<Tok("if", "")>> \o Opnd(st[2], 3, full) \o <<Tok("then", "")>> \o Opnd(st[3], 2, full)
                          \o <<Tok("else", "")>> \o Opnd(st[4], 2, full)
    [] st[1] = "list"  -> <<Tok("lb", "")>> \o CommaSep(st[2], full) \o <<Tok("rb", "")>>

Unparse(st, full) == Body(st, full)

\* A product can be written by juxtaposition only if its right operand needs no parentheses and
\* does not begin with "(" (it would be read as a call); apply needs an identifier as function.
RECURSIVE Printable(_, _), PrintableSeq(_, _)
PrintableSeq(s, full) == \A i \in 1..Len(s) : Printable(s[i], full)
Printable(st, full) ==
  CASE IsLeaf(st) -> TRUE
    [] st[1] \in {"neg", "not"} -> Printable(st[2], full)
    [] st[1] = "fact"  -> st[2] >= 1 /\ Printable(st[3], full)
    [] st[1] = "powu"  -> st[3] \in UExpValues /\ Printable(st[2], full)
    [] st[1] = "jux"   -> /\ Printable(st[2], full) /\ Printable(st[3], FALSE)
                          /\ LevelOf(st[3]) >= 13
                          /\ Head(Body(st[3], FALSE)).k # "lp"
    [] st[1] \in BinaryTags \cup {"divper"} -> Printable(st[2], full) /\ Printable(st[3], full)
    [] st[1] = "call"  -> Printable(st[2], full) /\ PrintableSeq(st[3], full)
    [] st[1] = "apply" -> st[3][1] = "id" /\ Printable(st[2], full) /\ PrintableSeq(st[4], full)
    [] st[1] = "field" -> Printable(st[2], full)
    [] st[1] = "if"    -> Printable(st[2], full) /\ Printable(st[3], full) /\ Printable(st[4], full)
    [] st[1] = "list"  -> PrintableSeq(st[2], full)

RoundTrip(st, full) == Printable(st, full) => Parse(Unparse(st, full)) = Plain(st)
=============================================================================
