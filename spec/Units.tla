-------------------------------- MODULE Units --------------------------------
(***************************************************************************)
(* Exact dimensional arithmetic over a unit table (C03, C04, C05, C11,     *)
(* C12, C21).  A unit is a base unit or is derived by a direct definition  *)
(*     u = f_u * prod_i (prefix_i * v_i)^(e_i).                            *)
(* The specification never computes a floating-point number: magnitudes    *)
(* are SYMBOLIC monomials over generators                                  *)
(*     "f:<unit>" (direct factor of a derived unit), "10", "2" (prefixes)  *)
(* with rational exponents, times an exact rational coefficient built from *)
(* the literals.  The conformance side evaluates the monomials in f64 and  *)
(* applies the stated tolerance.                                           *)
(* The table `db` is supplied by the caller (dump of the current tree):    *)
(*   db[u] = [base |-> BOOLEAN, def |-> << [u, pk, pe, n, d] ... >>]       *)
(***************************************************************************)
EXTENDS Rat, FiniteSets, TLC

\* ---- sparse vectors / monomials: functions from names to non-zero rationals
Emp == [x \in {} |-> R(0)]
Get(m, g) == IF g \in DOMAIN m THEN m[g] ELSE R(0)
Clean(m) == [g \in {x \in DOMAIN m : ~RIsZero(m[x])} |-> m[g]]
MAdd(a, b) == Clean([g \in DOMAIN a \cup DOMAIN b |-> RAdd(Get(a, g), Get(b, g))])
MScale(a, r) == Clean([g \in DOMAIN a |-> RMul(a[g], r)])
MNeg(a) == MScale(a, R(-1))
One(g) == [x \in {g} |-> R(1)]

\* prefix as a monomial: 10^pe or 2^pe
PrefixMono(pk, pe) == IF pe = 0 THEN Emp ELSE [x \in {IF pk = "binary" THEN "2" ELSE "10"} |-> R(pe)]

\* ---- transitive closure of the definitions: [vec over base units, mono over generators]
RECURSIVE Closure(_, _)
RECURSIVE DefFold(_, _, _)
DefFold(db, fs, i) ==
  IF i > Len(fs) THEN [vec |-> Emp, mono |-> Emp]
  ELSE LET f == fs[i]
           c == Closure(db, f.u)
           e == <<f.n, f.d>>
           rest == DefFold(db, fs, i + 1) IN
       [vec |-> MAdd(MScale(c.vec, e), rest.vec),
        mono |-> MAdd(MScale(MAdd(c.mono, PrefixMono(f.pk, f.pe)), e), rest.mono)]
Closure(db, u) ==
  IF db[u].base THEN [vec |-> One(u), mono |-> Emp]
  ELSE LET r == DefFold(db, db[u].def, 1) IN [vec |-> r.vec, mono |-> MAdd(One("f:" \o u), r.mono)]

\* ---- quantities: a SUM of terms  coef * mono  over a common base-unit vector
\* a written unit factor: [u, pk, pe] raised to exponent e
Term(coef, mono) == [coef |-> coef, mono |-> mono]
\* denotation of  lit * (prefix u)^e   given the closure table clo
\* the literal is itself a generator "n:<decimal text>" so that fractional powers stay symbolic
LeafDen(clo, lit, u, pk, pe, e) ==
  [vec |-> MScale(clo[u].vec, e),
   terms |-> << Term(R(1), MAdd(One("n:" \o lit), MScale(MAdd(clo[u].mono, PrefixMono(pk, pe)), e))) >>]

RECURSIVE CrossTerms(_, _, _)
CrossTerms(ts, us, i) ==   \* all products t * u
  IF i > Len(ts) THEN << >>
  ELSE [j \in 1..Len(us) |-> Term(RMul(ts[i].coef, us[j].coef), MAdd(ts[i].mono, us[j].mono))] \o CrossTerms(ts, us, i + 1)
DMul(a, b) == [vec |-> MAdd(a.vec, b.vec), terms |-> CrossTerms(a.terms, b.terms, 1)]
\* division by a single-term quantity only
DInvTerm(t) == Term(RInv(t.coef), MNeg(t.mono))
DDiv(a, b) == [vec |-> MAdd(a.vec, MNeg(b.vec)), terms |-> CrossTerms(a.terms, << DInvTerm(b.terms[1]) >>, 1)]
DNegate(a) == [a EXCEPT !.terms = [i \in 1..Len(a.terms) |-> Term(RNeg(a.terms[i].coef), a.terms[i].mono)]]
SameDim(a, b) == a.vec = b.vec
DAdd(a, b) == [vec |-> a.vec, terms |-> a.terms \o b.terms]          \* requires SameDim
DSub(a, b) == DAdd(a, DNegate(b))
\* rational power of a single-term quantity with coefficient 1
DPow(a, r) == [vec |-> MScale(a.vec, r), terms |-> << Term(R(1), MScale(a.terms[1].mono, r)) >>]

\* JSON rendering helpers
MonoJson(m) == [g \in DOMAIN m |-> m[g]]
DenJson(a) == [vec |-> MonoJson(a.vec),
               terms |-> [i \in 1..Len(a.terms) |-> [coef |-> a.terms[i].coef, mono |-> MonoJson(a.terms[i].mono)]]]
=============================================================================
