CONSTANTS MaxLen = 6
          CharSet = "based"
SPECIFICATION Spec
INVARIANTS AutomatonIsDocumented DigitExtends EmitCase
CHECK_DEADLOCK FALSE
