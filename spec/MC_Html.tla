------------------------------ MODULE MC_Html ------------------------------
(***************************************************************************)
(* Bounded model of Html.tla (C20).  One TLC run                           *)
(*  - model-checks FormatSafe on every (format type, text) with text of up *)
(*    to MaxLen characters over Alphabet, and NoUserMarkup on every        *)
(*    sequence of up to Depth writer actions (MC);                         *)
(*  - prints one CASE line per explored case with the predicted output,    *)
(*    to be executed on the real HtmlFormatter / HtmlWriter (G);           *)
(*  - prints the end-to-end inputs (templates of every error stage         *)
(*    instantiated with metacharacter payloads in strings, comments,       *)
(*    invalid tokens and identifier positions) as E lines.                 *)
(***************************************************************************)
EXTENDS Html, Json

CONSTANTS MaxLen,     \* formatter: texts of up to MaxLen characters
          Depth,      \* writer: action sequences of up to Depth actions
          Emit,       \* "all" | "none": print CASE lines
          EmitE2E,    \* "quick" | "thorough" | "none": print the end-to-end inputs
          Level       \* 0, 1, 2: size of the writer's action alphabet (13, 16, 20 actions)

Alphabet == {"a", "<", ">", "&", "\"", "'"}

\* texts handed to write(): the empty text, single characters, a tag; at higher levels more characters, something
\* that already looks like a character reference (must be escaped again), the renderer's own closing tag
WriteTexts == {<<>>, <<"a">>, <<"<">>, <<">">>, <<"&">>, <<"\"">>, <<"<", "a", ">">>}
              \cup (IF Level >= 1 THEN {<<"'">>, <<"&", "l", "t", ";">>} ELSE {})
              \cup (IF Level >= 2 THEN {<<"<", "/", "s", "p", "a", "n", ">">>, <<"a", "&">>} ELSE {})

Spec3(fg, bold) == [set |-> TRUE, fg |-> fg, bold |-> bold]
\* colour settings: one per class, red-and-bold (red wins) and one plain; at higher levels another colour and bold
\* (bold), blue-and-bold, an empty setting
SetColors == {Spec3("red", FALSE), Spec3("red", TRUE), Spec3("blue", FALSE), Spec3("none", TRUE), Spec3("other", FALSE)}
             \cup (IF Level >= 1 THEN {Spec3("other", TRUE)} ELSE {})
             \cup (IF Level >= 2 THEN {Spec3("blue", TRUE), Spec3("none", FALSE)} ELSE {})

VARIABLES mode,   \* "fmt": a formatter case [ft, fs];  "wr": a writer behaviour
          ft, fs, \* format type, text
          hist    \* writer: the actions so far
vars == <<mode, ft, fs, hist, color, buf, written>>

Init == /\ WInit /\ hist = <<>>
        /\ \/ mode = "wr" /\ ft = "-" /\ fs = <<>>
           \/ mode = "fmt" /\ ft \in FormatTypes /\ fs = <<>>

FmtNext == /\ mode = "fmt" /\ Len(fs) < MaxLen
           /\ \E c \in Alphabet : fs' = Append(fs, c)
           /\ UNCHANGED <<mode, ft, hist, wvars>>

WrNext == /\ mode = "wr" /\ Len(hist) < Depth
          /\ \/ \E c \in SetColors : SetColor(c) /\ hist' = Append(hist, [op |-> "set", fg |-> c.fg, bold |-> c.bold, s |-> <<>>])
             \/ Reset /\ hist' = Append(hist, [op |-> "reset", fg |-> "none", bold |-> FALSE, s |-> <<>>])
             \/ \E s \in WriteTexts : Write(s) /\ hist' = Append(hist, [op |-> "write", fg |-> "none", bold |-> FALSE, s |-> s])
          /\ UNCHANGED <<mode, ft, fs>>

Next == FmtNext \/ WrNext
Spec == Init /\ [][Next]_vars

-----------------------------------------------------------------------------
\* MC
InvFormatSafe == mode = "fmt" => FormatSafe(ft, fs)
InvNoUserMarkup == mode = "wr" => NoUserMarkup
InvBalanced == Balanced(buf) /\ (mode = "fmt" => Balanced(FormatPart(ft, fs)))
\* escaping is injective and never produces markup characters
InvEscape == mode = "fmt" => /\ \A i \in 1..Len(Escape(fs)) : Escape(fs)[i] \notin {"<", ">"}
                             /\ Unescape(Escape(fs), 1) = fs
                             /\ Strip(Escape(fs), 1) = Escape(fs)

\* the buffer a writer that copies text verbatim (the code as found) would hold after the same actions
RECURSIVE RawRun(_, _)
RawRun(h, c) == IF h = <<>> THEN <<>>
                ELSE LET a == Head(h) IN
                     IF a.op = "write" THEN ChunkWith(c, a.s, FALSE) \o RawRun(Tail(h), c)
                     ELSE IF a.op = "set" THEN RawRun(Tail(h), Spec3(a.fg, a.bold))
                     ELSE RawRun(Tail(h), NoColor)

\* G: one line per case.  Texts stay sequences of characters: joining them with \o inside TLC interns every
\* intermediate string and is ten times slower (measured 67 s against 7 s for 88 565 cases).
EmitCase == Emit = "all" =>
   IF mode = "fmt"
   THEN PrintT(<<"CASE", ToJson([k |-> "fmt", t |-> ft, s |-> fs, out |-> FormatPart(ft, fs)])>>)
   ELSE PrintT(<<"CASE", ToJson([k |-> "wr", acts |-> hist, out |-> buf, raw |-> RawRun(hist, NoColor),
                                 txt |-> written])>>)

-----------------------------------------------------------------------------
\* End-to-end inputs.  A payload has the form it takes inside a string literal (str) and bare (raw).
Payloads ==
  { [id |-> "b",      raw |-> "<b>",                           str |-> "<b>"],
    [id |-> "amp",    raw |-> "a&b",                           str |-> "a&b"],
    [id |-> "script", raw |-> "</span><script>x</script>",     str |-> "</span><script>x</script>"],
    [id |-> "plain",  raw |-> "plain",                         str |-> "plain"] }
  \cup (IF EmitE2E = "thorough" THEN
  { [id |-> "img",    raw |-> "<img src=x onerror=alert(1)>",  str |-> "<img src=x onerror=alert(1)>"],
    [id |-> "ent",    raw |-> "&lt;i&gt;",                     str |-> "&lt;i&gt;"],
    [id |-> "quotes", raw |-> "'q'\"",                         str |-> "'q'\\\""],
    [id |-> "gt",     raw |-> "1>0",                           str |-> "1>0"] } ELSE {})

T(name, stage, steps) == [name |-> name, stage |-> stage, steps |-> steps]
Q(p) == "\"" \o p.str \o "\""      \* the payload as a string literal
C(p) == "  # " \o p.raw             \* the payload as a trailing comment

\* stage: the outcome expected of the last step ("any": depends on the payload); the steps of a template are
\* submitted one after the other to one session; a step "info X" is the `info` command
StrTemplates(p) ==
  { T("str_result",   "ok",       << Q(p) >>),
    T("str_print",    "ok",       << "print(" \o Q(p) \o ")" >>),
    T("str_let",      "ok",       << "let xq_s = " \o Q(p), "xq_s" >>),
    T("str_list",     "ok",       << "[" \o Q(p) \o ", " \o Q(p) \o "]" >>),
    T("str_struct",   "ok",       << "struct Xq_T { xq_a: String }", "Xq_T { xq_a: " \o Q(p) \o " }" >>),
    T("str_fn",       "ok",       << "str_append(" \o Q(p) \o ", " \o Q(p) \o ")" >>),
    T("str_interp",   "ok",       << "let xq_s = " \o Q(p), "\"v={xq_s}!\"" >>),
    T("str_decor",    "ok",       << "@name(" \o Q(p) \o ")\n@url(" \o Q(p) \o ")\nunit xq_u", "xq_u", "info xq_u" >>),
    T("str_descr",    "ok",       << "@description(" \o Q(p) \o ")\nfn xq_f(x) = x", "xq_f(1)", "info xq_f" >>),
    T("str_usererr",  "runtime",  << "error(" \o Q(p) \o ")" >>),
    T("str_usererr2", "runtime",  << "fn xq_f(x: Scalar) -> Scalar = error(" \o Q(p) \o ")", "xq_f(1) + 1" >>),
    T("str_div0",     "runtime",  << "str_length(" \o Q(p) \o ") / 0" >>),
    T("str_type",     "type",     << Q(p) \o " + 1" >>),
    T("str_annot",    "type",     << "let xq_x: Length = " \o Q(p) >>),
    T("str_conv",     "type",     << Q(p) \o " -> m" >>),
    T("str_unknown",  "type",     << "zunknown(" \o Q(p) \o ")" >>),
    T("str_assert",   "runtime",  << "assert(" \o Q(p) \o " == \"zz\")" >>),
    T("str_asserteq", "runtime",  << "assert_eq(str_length(" \o Q(p) \o "), 1000)" >>),
    T("str_parse",    "resolver", << Q(p) \o " )" >>),
    T("str_open",     "resolver", << "\"" \o p.str >>),
    T("str_clash",    "nameres",  << "let xq_s = " \o Q(p), "unit xq_s" >>),
    T("str_module",   "resolver", << Q(p) \o "\nuse zz::nomod" >>) }

CmtTemplates(p) ==
  { T("cmt_ok",       "ok",       << "1 + 1" \o C(p) >>),
    T("cmt_parse",    "resolver", << "1 + " \o C(p) >>),
    T("cmt_parse2",   "resolver", << "let = 1" \o C(p) >>),
    T("cmt_module",   "resolver", << "use zz::nomod" \o C(p) >>),
    T("cmt_clash",    "nameres",  << "let xq_q = 1" \o C(p), "unit xq_q" \o C(p) >>),
    T("cmt_reserved", "nameres",  << "let _ = 1" \o C(p) >>),
    T("cmt_type",     "type",     << "1 m + 1 s" \o C(p) >>),
    T("cmt_unknown",  "type",     << "zunknown + 1" \o C(p) >>),
    T("cmt_div0",     "runtime",  << "1 / 0" \o C(p) >>),
    T("cmt_usererr",  "runtime",  << "error(\"boom\")" \o C(p) >>),
    T("cmt_assert",   "runtime",  << "assert(1 == 2)" \o C(p) >>),
    T("cmt_asserteq", "runtime",  << "assert_eq(1, 2)" \o C(p) >>),
    T("cmt_asserteq3","runtime",  << "assert_eq(1 m, 2 m, 1 cm)" \o C(p) >>),
    T("cmt_above",    "type",     << "# " \o p.raw \o "\n1 m + 1 s" >>) }

TokTemplates(p) ==
  { T("tok_alone",    "any",      << p.raw >>),
    T("tok_operand",  "any",      << "1 + " \o p.raw >>),
    T("tok_let",      "any",      << "let xq_x = " \o p.raw >>),
    T("tok_after",    "any",      << "fn xq_f(x) = x " \o p.raw >>) }

IdTemplates(p) ==
  { T("id_let",       "any",      << "let " \o p.raw \o " = 1", p.raw >>),
    T("id_fn",        "any",      << "fn " \o p.raw \o "() = 1" >>),
    T("id_unit",      "any",      << "unit " \o p.raw >>),
    T("id_dim",       "any",      << "dimension " \o p.raw >>),
    T("id_use",       "any",      << "use " \o p.raw >>),
    T("id_annot",     "any",      << "let xq_x: " \o p.raw \o " = 1" >>),
    T("id_struct",    "any",      << "struct " \o p.raw \o " {}" >>),
    T("id_call",      "any",      << p.raw \o "(1)" >>) }

E2E == UNION { { [name |-> t.name, payload |-> p.id, raw |-> p.raw, stage |-> t.stage, steps |-> t.steps]
                 : t \in StrTemplates(p) \cup CmtTemplates(p) \cup TokTemplates(p) \cup IdTemplates(p) }
               : p \in Payloads }

ASSUME EmitE2E # "none" => \A e \in E2E : PrintT(<<"E", ToJson(e)>>)
=============================================================================
