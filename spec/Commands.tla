------------------------------ MODULE Commands ------------------------------
(***************************************************************************)
(* The REPL command layer (numbat/src/command.rs) on top of the session:   *)
(* a line is either a command (help, info, list, clear, save, reset, quit  *)
(* with aliases ? and exit) or an input for Session!Submit.  Beyond the    *)
(* listed properties: this extends the specification to the part of the    *)
(* system the CLI/web front ends drive.                                    *)
(*                                                                         *)
(* Classify(cfg, words) mirrors the documented behaviour of                *)
(* CommandRunner::try_run_command (book: cli/usage.md "Commands"):         *)
(*   - a line whose first word is not a command name, or names a command   *)
(*     the front end did not enable, is NOT a command (it is interpreted); *)
(*   - an enabled command with wrong arguments is an error and is never    *)
(*     interpreted as code;                                                *)
(*   - otherwise the command runs: Continue / Return (quit) / Reset.       *)
(***************************************************************************)
EXTENDS Naturals, Sequences, TLC

\* cfg: which commands the front end enabled
\*   [print, clear, save, reset, quit : BOOLEAN]
CmdKind(w) == CASE w \in {"help", "?"} -> "help" [] w = "info" -> "info" [] w = "list" -> "list" [] w = "clear" -> "clear"
                [] w = "save" -> "save" [] w = "reset" -> "reset" [] w \in {"quit", "exit"} -> "quit" [] OTHER -> "none"
Enabled(cfg, k) == CASE k \in {"help", "info", "list"} -> cfg.print [] k = "clear" -> cfg.clear [] k = "save" -> cfg.save
                     [] k = "reset" -> cfg.reset [] k = "quit" -> cfg.quit [] OTHER -> FALSE
ListArgs == {"functions", "dimensions", "variables", "units"}

\* result: [cls, what]  cls in {"not-a-command", "error", "continue", "return", "reset"}
R(cls, what) == [cls |-> cls, what |-> what]
Classify(cfg, ws) ==
  IF ws = << >> THEN R("not-a-command", "")
  ELSE LET k == CmdKind(ws[1])
           n == Len(ws) - 1 IN
    IF k = "none" \/ ~Enabled(cfg, k) THEN R("not-a-command", "")
    ELSE CASE k = "help" -> IF n = 0 THEN R("continue", "help") ELSE IF n > 1 THEN R("error", "help: too many arguments")
                            ELSE IF ws[2] = "commands" THEN R("continue", "help commands") ELSE R("error", "help: bad argument")
           [] k = "info" -> IF n = 1 THEN R("continue", "info " \o ws[2]) ELSE R("error", "info: exactly one argument")
           [] k = "list" -> IF n = 0 THEN R("continue", "list") ELSE IF n > 1 THEN R("error", "list: too many arguments")
                            ELSE IF ws[2] \in ListArgs THEN R("continue", "list " \o ws[2]) ELSE R("error", "list: bad argument")
           [] k = "clear" -> IF n = 0 THEN R("continue", "clear") ELSE R("error", "clear: takes 0 arguments")
           [] k = "save" -> IF n = 0 THEN R("continue", "save history.nbt") ELSE IF n = 1 THEN R("continue", "save " \o ws[2])
                            ELSE R("error", "save: too many arguments")
           [] k = "reset" -> IF n = 0 THEN R("reset", "reset") ELSE R("error", "reset: takes 0 arguments")
           [] k = "quit" -> IF n = 0 THEN R("return", "quit") ELSE R("error", "quit: takes 0 arguments")

\* design-level properties (checked by TLC over all lines of the model)
\* a command with bad arguments is never silently interpreted as code, and vice versa
NeverBoth(cfg, ws) == LET r == Classify(cfg, ws) IN
   (r.cls = "not-a-command") <=> (ws = << >> \/ CmdKind(ws[1]) = "none" \/ ~Enabled(cfg, CmdKind(ws[1])))
\* enabling more commands never turns a command into code
Monotone(cfg1, cfg2, ws) == (\A f \in {"print", "clear", "save", "reset", "quit"} : cfg1[f] => cfg2[f]) =>
   (Classify(cfg1, ws).cls # "not-a-command" => Classify(cfg2, ws).cls = Classify(cfg1, ws).cls)
=============================================================================
