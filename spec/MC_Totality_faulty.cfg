SPECIFICATION SpecFaulty
INVARIANTS TypeOK Total
CHECK_DEADLOCK FALSE
