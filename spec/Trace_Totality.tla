---------------------------- MODULE Trace_Totality ----------------------------
(***************************************************************************)
(* C08, J direction: every recorded event - one per input of the seeded     *)
(* random driver (grammar-based programs, corpus mutations, extreme         *)
(* literals, random UTF-8, random bytes) - must be an allowed end state of  *)
(* the pipeline machine of Totality.tla:                                    *)
(*   outcome = cls in GoodOutcomes (a result or a reported error of one of  *)
(*   the four classes), stage = "done" (rendered completely), within the    *)
(*   time limit.                                                            *)
(* Event: {"class", "len", "outcome", "cls", "stage", "ms", "limit",        *)
(*         "recursive"}; ms / limit are CPU milliseconds; recursive = the   *)
(* input defines or calls a function written in Numbat that may recurse     *)
(* (decided textually by the check): the property promises promptness only  *)
(* for inputs WITHOUT unbounded recursion, so a time-out / memory           *)
(* exhaustion of such an input is not judged.                               *)
(* Lenient = FALSE: stop at the first event that is not accepted            *)
(* (acceptance by POSTCONDITION on the number of lines consumed);           *)
(* Lenient = TRUE: print a BAD line for every such event and go on.         *)
(***************************************************************************)
EXTENDS Totality, TLC, Json, IOUtils

CONSTANT Lenient

VARIABLES l, tr
tvars == <<l, tr, vars>>

AcceptsJ(e) == \/ Accepts(e)
               \/ (e.recursive /\ e.outcome \in {"timeout", "oom"})

TInit == /\ l = 1
         /\ tr = ndJsonDeserialize(IOEnv.TRACE)
         /\ Init
TNext == /\ l <= Len(tr)
         /\ \/ AcceptsJ(tr[l])
            \/ /\ Lenient
               /\ ~AcceptsJ(tr[l])
               /\ PrintT(<<"BAD", ToJson([line |-> l, verdict |-> Verdict(tr[l])])>>)
         /\ l' = l + 1
         /\ UNCHANGED <<tr, vars>>
TraceSpec == TInit /\ [][TNext]_tvars

TraceAccepted ==
    LET n == Len(ndJsonDeserialize(IOEnv.TRACE))
        d == TLCGet("stats").diameter - 1
    IN IF d = n THEN TRUE
       ELSE /\ PrintT(<<"REJECTED", ToJson([matched |-> d, total |-> n])>>)
            /\ FALSE
=============================================================================
