------------------------------ MODULE Modules ------------------------------
(***************************************************************************)
(* Module graphs as data, and the resolver's inlining rule over them.      *)
(*                                                                         *)
(* Session.tla fixes seven synthetic modules (ModBody).  Here the module   *)
(* table is a parameter B (module name |-> body, a sequence of Session     *)
(* statements: `use`s and definitions); InlineG(B, ss, imp) is the very    *)
(* rule of Session!Inline (resolver.rs inlining_pass: depth first, a       *)
(* module is marked imported when it is ENTERED, an already imported       *)
(* module is skipped) with the list of imported modules kept as a sequence *)
(* in order of entry, as Resolver::imported_modules is.  SessionLink       *)
(* states that both rules agree on Session's own module table.             *)
(*                                                                         *)
(* A graph is a function u : 1..N -> Seq(1..N) (direct `use`s of every     *)
(* module, in textual order).  Module i of a graph has the body            *)
(*     use u[i][1] ... use u[i][k] ; let x_i = i                           *)
(* i.e. its uses first and then its own definitions (true for all 62       *)
(* standard-library modules, checked by the dump), the single definition   *)
(* standing for the block of names the module defines itself.              *)
(*                                                                         *)
(* C17 at the level of the rule (checked by MC_Modules over all graphs     *)
(* with <= 4 modules, and on the graph of the real standard library):      *)
(*   Loaded      the modules loaded are exactly the reachability closure   *)
(*   Once        every body is inlined exactly once                        *)
(*   DepsFirst   the body of a module that lies on no cycle comes after the *)
(*               bodies of all its dependencies                            *)
(*   OrderIndep  the set of definitions does not depend on the order of    *)
(*               the top-level uses                                        *)
(*   SplitEq     one `use` per input = all of them in one input            *)
(*   Reimport    importing a loaded module again changes nothing           *)
(***************************************************************************)
EXTENDS Session

Rng(s) == {s[i] : i \in DOMAIN s}

\* ------------------------------------------------------------ the rule
BodyBroken(b) == \E i \in DOMAIN b : b[i].t = "parseerr"

RECURSIVE InlineG(_, _, _)
InlineG(B, ss, imp) ==
  IF ss = << >> THEN [err |-> "", ss |-> << >>, imp |-> imp]
  ELSE LET s == Head(ss) IN
    IF s.t = "use"
    THEN IF s.m \in Rng(imp) THEN InlineG(B, Tail(ss), imp)
         ELSE IF s.m \notin DOMAIN B THEN [err |-> "unknown_module", ss |-> << >>, imp |-> imp]
         ELSE LET imp1 == Append(imp, s.m) IN      \* marked imported when entered
              IF BodyBroken(B[s.m]) THEN [err |-> "parse", ss |-> << >>, imp |-> imp1]
              ELSE LET r == InlineG(B, B[s.m], imp1) IN
                   IF r.err # "" THEN r
                   ELSE LET r2 == InlineG(B, Tail(ss), r.imp) IN
                        IF r2.err # "" THEN r2
                        ELSE [err |-> "", ss |-> r.ss \o r2.ss, imp |-> r2.imp]
    ELSE LET r2 == InlineG(B, Tail(ss), imp) IN
         IF r2.err # "" THEN r2 ELSE [r2 EXCEPT !.ss = << s >> \o @]

\* --------------------------------------------- link to Session!Inline
SessionBodies == [m \in KnownMods |-> IF ModParseError(m) THEN << ParseErr >> ELSE ModBody(m)]
LinkAlphabet == {Use(m) : m \in Mods} \cup {Let("za", 1)}
LinkInputs == UNION {[1..n -> LinkAlphabet] : n \in 1..3}
SameResult(r, g) == /\ r.err = g.err
                    /\ r.ss = g.ss
                    /\ r.imp = Rng(g.imp)
                    /\ Len(g.imp) = Cardinality(Rng(g.imp))
SessionLink ==
  \A i1 \in LinkInputs :
     LET r == Inline(i1, {})
         g == InlineG(SessionBodies, i1, << >>) IN
       /\ SameResult(r, g)
       /\ \A m \in Mods :      \* a second input on the resulting import list
            SameResult(Inline(<< Use(m) >>, r.imp), InlineG(SessionBodies, << Use(m) >>, g.imp))

\* re-import at the level of the whole session: state unchanged, nothing printed (Session's own modules)
SessionReimportNoop ==
  \A i1 \in {in \in LinkInputs : Len(in) <= 2} :
     LET r == Submit(InitSt, i1) IN
       \A m \in r.st.imported :
          LET r2 == Submit(r.st, << Use(m) >>) IN
            r2.outcome = "ok" /\ r2.st = r.st /\ r2.out = << >> /\ Obs(r2.st) = Obs(r.st)

\* ------------------------------------------------------------- graphs
\* (modules of a graph are named by their index; the harness spells module i as zm<i> and its variable zm<i>_x)
GBody(u, i) == [j \in 1..Len(u[i]) |-> Use(u[i][j])] \o << Let("x", i) >>
Bodies(u) == [i \in DOMAIN u |-> GBody(u, i)]
UseSeq(t) == [j \in 1..Len(t) |-> Use(t[j])]

\* result of a run in terms of module indices: post = order in which the bodies (definitions) are emitted,
\* pre = order in which the modules are entered (Resolver::imported_modules)
Abstract(r) == [err |-> r.err, post |-> [j \in 1..Len(r.ss) |-> r.ss[j].k], pre |-> r.imp]
\* B = Bodies(u) is passed in so that callers can compute it once per graph
RunB(B, t) == Abstract(InlineG(B, UseSeq(t), << >>))
Run(u, t) == RunB(Bodies(u), t)
\* t2 submitted as a later input of a session whose import list is imp; pre = the whole import list afterwards
RunAfterB(B, imp, t2) == Abstract(InlineG(B, UseSeq(t2), imp))

\* ------------------------------------- reachability, stated independently
RECURSIVE Closure(_, _)
Closure(u, S) == LET S2 == S \cup UNION {Rng(u[m]) : m \in S} IN IF S2 = S THEN S ELSE Closure(u, S2)
ReachPlus(u, m) == Closure(u, Rng(u[m]))           \* reachable by at least one edge
ReachTable(u) == [m \in DOMAIN u |-> ReachPlus(u, m)]
Acyclic(u) == \A m \in DOMAIN u : m \notin ReachPlus(u, m)

Pos(s, x) == CHOOSE j \in DOMAIN s : s[j] = x
NoDup(s) == Len(s) = Cardinality(Rng(s))

\* ---------------------------------------------------------- properties
\* (r = RunB(B, t) and rp = ReachTable(u) passed in)
Loaded(u, t, r)    == r.err = "" /\ Rng(r.pre) = Closure(u, Rng(t)) /\ Rng(r.post) = Rng(r.pre)
Once(r)            == NoDup(r.post) /\ NoDup(r.pre)
\* a module that lies on no cycle comes after ALL its (transitive) dependencies.  The stronger reading
\* "d before m whenever m reaches d and d does not reach m" is FALSE for the rule (TLC, 3 modules):
\* 1 -> 2, 2 -> 1, 2 -> 3 and `use 2`: 2 is entered, 1 is inlined completely (its use of 2 is skipped),
\* then 3, then 2's own body: 1 precedes its dependency 3 because 1 sits on the cycle 1 <-> 2.
DepsFirst(rp, r)   == \A m \in Rng(r.post) : m \notin rp[m] =>
                         \A d \in rp[m] : d \in Rng(r.post) /\ Pos(r.post, d) < Pos(r.post, m)
\* the stronger reading, kept to show the counterexample (vacuity self-test of the model checking run)
DepsFirstStrong(rp, r) == \A m \in Rng(r.post) : \A d \in rp[m] :
                         m \notin rp[d] => (d \in Rng(r.post) /\ Pos(r.post, d) < Pos(r.post, m))
Perms(n) == {p \in [1..n -> 1..n] : \A i, j \in 1..n : i # j => p[i] # p[j]}
OrderIndep(B, t, r) == \A p \in Perms(Len(t)) :
                         LET r2 == RunB(B, [j \in 1..Len(t) |-> t[p[j]]]) IN
                           r2.err = "" /\ Rng(r2.post) = Rng(r.post) /\ Rng(r2.pre) = Rng(r.pre)
SplitEq(B, t, r)   == \A c \in 0..Len(t) :
                         LET r1 == RunB(B, SubSeq(t, 1, c))
                             r2 == RunAfterB(B, r1.pre, SubSeq(t, c + 1, Len(t))) IN
                           r1.err = "" /\ r2.err = "" /\ r1.post \o r2.post = r.post /\ r2.pre = r.pre
Reimport(B, r)     == \A m \in Rng(r.pre) :
                         LET r2 == RunAfterB(B, r.pre, << m >>) IN
                           r2.err = "" /\ r2.post = << >> /\ r2.pre = r.pre
AllProps(u, B, rp, t, r) == Loaded(u, t, r) /\ Once(r) /\ DepsFirst(rp, r) /\ OrderIndep(B, t, r)
                            /\ SplitEq(B, t, r) /\ Reimport(B, r)
=============================================================================
