--------------------------- MODULE MC_PrefixParser ---------------------------
(***************************************************************************)
(* Bounded exploration of the PrefixParser state machine: every sequence   *)
(* of up to Depth additions over a small alphabet of unit declarations,    *)
(* global names and shadowing names chosen so that prefix/name collisions  *)
(* are reachable.  MC: the invariants of PrefixParser.tla.  G: one CASE    *)
(* line per reached state (up to EmitDepth additions): the additions, the  *)
(* additions the rule rejects in that state, and the reading of every      *)
(* probe identifier.                                                       *)
(***************************************************************************)
EXTENDS PrefixParser, Json

CONSTANTS Alphabets,  \* subset of {"short", "long", "binary", "mixed"}: explored side by side (one initial state each)
          Depth, EmitDepth

VARIABLES al,      \* the alphabet of this behaviour
          hist,    \* indices (into acts) of the accepted additions so far
          acts,    \* the alphabet's additions (constant)
          probes   \* identifiers whose reading is predicted in every CASE (constant)
vars == <<units, order, others, shadow, pf, al, hist, acts, probes>>

U(name, ap, kinds) == [op |-> "unit", name |-> Chars(name), text |-> name, ap |-> ap, kinds |-> kinds]
O(name) == [op |-> "other", name |-> Chars(name), text |-> name, ap |-> "-", kinds |-> "-"]
S(name) == [op |-> "shadow", name |-> Chars(name), text |-> name, ap |-> "-", kinds |-> "-"]
InfoOf(a) == [unit |-> a.name, short |-> a.ap \in {"short", "both"}, long |-> a.ap \in {"long", "both"},
              metric |-> a.kinds \in {"metric", "both"}, binary |-> a.kinds \in {"binary", "both"}]

\* one- and two-letter collisions: m+m, d+a = da, d+am = da+m, k+m
ShortActs == << U("m", "short", "metric"), U("m", "none", "metric"), U("a", "short", "metric"), U("am", "short", "metric"),
                U("am", "none", "metric"), U("mm", "none", "metric"), U("da", "none", "metric"), U("da", "short", "metric"),
                U("dam", "long", "metric"), U("km", "none", "metric"),
                O("m"), O("km"), O("dam"), O("da"), S("m"), S("km") >>
\* long spellings against short ones: milli+m = m+illim, kilo+m = k+ilom, kibi+m = k+ibim
LongActs == << U("m", "long", "metric"), U("m", "both", "metric"), U("m", "long", "binary"), U("m", "both", "both"),
               U("illim", "short", "metric"), U("illim", "none", "metric"), U("ilom", "short", "metric"),
               U("ibim", "short", "metric"), U("ibim", "long", "binary"), U("millim", "none", "metric"), U("kibim", "long", "metric"),
               O("millim"), O("kilom"), O("kibim"), O("m"), S("kibim"), S("illim") >>
\* binary against metric short spellings: Ki+m, G+im = Gi+m, and kinds not declared
BinaryActs == << U("m", "short", "binary"), U("m", "short", "both"), U("m", "short", "metric"), U("im", "short", "metric"),
                 U("im", "short", "binary"), U("im", "none", "both"), U("Gim", "none", "metric"), U("Kim", "long", "both"),
                 U("i", "short", "both"), O("Gim"), O("Kim"), O("Gm"), O("ans"), S("Gim"), S("ans"), S("m") >>
MixedActs == << U("m", "short", "metric"), U("m", "both", "both"), U("m", "long", "binary"), U("a", "short", "metric"),
                U("am", "short", "metric"), U("dam", "none", "metric"), U("im", "short", "metric"), U("ibim", "short", "metric"),
                U("illim", "both", "metric"), U("Gim", "long", "metric"), U("mm", "long", "both"),
                O("mm"), O("dam"), O("Gim"), O("kibim"), O("millim"), O("_"), S("m"), S("dam") >>

ActsOf(a) == CASE a = "short" -> ShortActs [] a = "long" -> LongActs [] a = "binary" -> BinaryActs [] a = "mixed" -> MixedActs

NamesOf(A) == { A[i].name : i \in 1..Len(A) }
LettersOf(A) == UNION { Range(n) : n \in NamesOf(A) }
\* probe identifiers: every name, and every name behind every prefix spelling written with letters of the alphabet
\* (any other spelling cannot take part in a collision between these names) plus two controls
ProbesFor(N, L, F) == N \cup { f.text \o n : f \in { g \in Range(F) : Range(g.text) \subseteq L \cup {"c", "M"} }, n \in N }

\* (values bound once by \E: TLC would re-evaluate a definition at every use)
Init == /\ PInit
        /\ hist = << >>
        /\ \E a \in Alphabets : \E A \in {ActsOf(a)} : \E N \in {NamesOf(A)} : \E L \in {LettersOf(A)} :
             /\ al = a
             /\ acts = A
             /\ probes = ProbesFor(N, L, FormsOf(PrefixTable))

Accepted(a) == CASE a.op = "unit" -> CanAddUnit(a.name, InfoOf(a))
                 [] a.op = "other" -> CanAddOther(a.name)
                 [] OTHER -> CanAddShadowing(a.name)

Apply(a) == CASE a.op = "unit" -> AddUnit(a.name, InfoOf(a))
              [] a.op = "other" -> AddOther(a.name)
              [] OTHER -> a.name \notin shadow /\ AddShadowing(a.name)

Next == /\ Len(hist) < Depth
        /\ \E i \in 1..Len(acts) : Apply(acts[i]) /\ hist' = Append(hist, i)
        /\ UNCHANGED <<al, acts, probes>>

Spec == Init /\ [][Next]_vars

-----------------------------------------------------------------------------
\* G: shadowing bindings exist only inside a function body, so only histories whose shadowing additions come last
\* can be replayed on a real session
ShadowLast == \A i, j \in 1..Len(hist) : (i < j /\ acts[hist[i]].op = "shadow") => acts[hist[j]].op = "shadow"

ReadingJson(id) == { [id |-> Str(id), kind |-> r.kind, exp |-> r.exp, alias |-> Str(r.alias), unit |-> Str(r.unit)] : r \in Readings(id) }

ActJson(a) == [op |-> a.op, name |-> a.text, ap |-> a.ap, kinds |-> a.kinds]
EmitMeta == hist = << >> =>
    PrintT(<<"META", ToJson([al |-> al, acts |-> [i \in 1..Len(acts) |-> ActJson(acts[i])], probes |-> { Str(p) : p \in probes },
                             std |-> IF al = CHOOSE x \in Alphabets : TRUE THEN FormsOf(StdPrefixes) ELSE << >>])>>)

EmitCase == (Len(hist) <= EmitDepth /\ ShadowLast) =>
    PrintT(<<"CASE", ToJson([al |-> al, adds |-> hist,
                             rej |-> { i \in 1..Len(acts) : ~Accepted(acts[i]) },
                             oth |-> { Str(x) : x \in others \ shadow },
                             rd |-> UNION { ReadingJson(id) : id \in probes }])>>)
=============================================================================
