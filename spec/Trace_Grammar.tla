----------------------------- MODULE Trace_Grammar -----------------------------
(***************************************************************************)
(* C10, J direction: every recorded line  (token sequence, what the real    *)
(* parser made of its text: a tree as nested arrays, or ["REJECT"])  must   *)
(* agree with Parse of Grammar.tla.                                         *)
(* Line format: {"toks": [[kind, value], ...], "out": tree}                 *)
(* Trace file: environment variable TRACE (ndjson).                         *)
(* Lenient = FALSE: stop at the first line that disagrees (acceptance by    *)
(* POSTCONDITION on the number of lines consumed).  Lenient = TRUE: print   *)
(* a CASE line for every disagreeing line and go on (used to collect all    *)
(* disagreements once a trace has been rejected).                           *)
(***************************************************************************)
EXTENDS Grammar, TLC, Json, IOUtils

CONSTANT Lenient

VARIABLES l, tr
vars == <<l, tr>>

ToToks(a) == [i \in 1..Len(a) |-> Tok(a[i][1], a[i][2])]

Agrees(e) == Parse(ToToks(e.toks)) = e.out

Init == /\ l = 1
        /\ tr = ndJsonDeserialize(IOEnv.TRACE)

Next == /\ l <= Len(tr)
        /\ \/ Agrees(tr[l])
           \/ /\ Lenient
              /\ ~Agrees(tr[l])
              /\ PrintT(<<"CASE", ToJson([line |-> l, expected |-> Parse(ToToks(tr[l].toks))])>>)
        /\ l' = l + 1
        /\ UNCHANGED tr

TraceSpec == Init /\ [][Next]_vars

TraceAccepted ==
    LET n == Len(ndJsonDeserialize(IOEnv.TRACE))
        d == TLCGet("stats").diameter - 1
    IN IF d = n THEN TRUE
       ELSE /\ PrintT(<<"REJECTED", ToJson([matched |-> d, total |-> n])>>)
            /\ FALSE
=============================================================================
