--------------------------- MODULE MC_GrammarTrees ---------------------------
(***************************************************************************)
(* C10, tree part: ALL style trees (Grammar.tla, second half) with at most  *)
(* MaxNodes nodes over a family of constructors.                            *)
(* MC (a property of the specification itself):                             *)
(*   RoundTripInv   writing a tree with the fewest parentheses the grammar  *)
(*                  allows, or with parentheses around every operand, and   *)
(*                  parsing the tokens gives the tree back                  *)
(*                  Parse(Unparse(st, full)) = Plain(st)                    *)
(* G: each tree is printed with both token sequences and the tree; the      *)
(*    harness writes them in all spelling classes and runs the real parser. *)
(* Trees are enumerated in Polish notation: ps is a prefix of the           *)
(* constructor sequence, need the number of subtrees still missing.         *)
(* The leaf at position i is the identifier v<i> / the number i.            *)
(***************************************************************************)
EXTENDS Grammar, TLC, Json

CONSTANTS MaxNodes,   \* most nodes per tree (the small family 4 gets one more)
          Family      \* index of the constructor family, or 0 for all of them in one run

Families == <<
  \* 1 arithmetic: every way of writing products, quotients, powers, signs
  <<"id", "num", "neg", "fact1", "fact2", "powu2", "powum1", "mul", "jux", "div", "divper", "add", "sub", "pow">>,
  \* 2 logic, comparison, conversion, conditionals
  <<"id", "true", "not", "neg", "lt", "eq", "and", "or", "conv", "add", "if">>,
  \* 3 calls, fields, |>, lists against the postfix operators and juxtaposition
  <<"id", "num", "list0", "call0", "call1", "call2", "field", "apply0", "apply1", "list1", "list2", "jux", "powu2", "fact1", "neg">>,
  \* 4 the two ends of the table together
  <<"id", "neg", "not", "jux", "pow", "divper", "conv", "if", "apply0", "add", "eq", "and", "call1">> >>

Arity(c) ==
  CASE c \in {"id", "num", "true", "list0"} -> 0
    [] c \in {"neg", "not", "fact1", "fact2", "powu2", "powum1", "field", "call0", "apply0", "list1"} -> 1
    [] c \in {"if", "call2"} -> 3
    [] OTHER -> 2

VARIABLES fam, ps, need
vars == <<fam, ps, need>>

NodesFor(f) == IF f = 4 THEN MaxNodes + 1 ELSE MaxNodes

Init == /\ fam \in (IF Family = 0 THEN 1..Len(Families) ELSE {Family})
        /\ ps = << >> /\ need = 1
Next == /\ need > 0
        /\ \E i \in 1..Len(Families[fam]) :
             LET c == Families[fam][i] IN
               /\ Len(ps) + need + Arity(c) <= NodesFor(fam)     \* the tree can still be completed
               /\ ps' = Append(ps, c)
               /\ need' = need - 1 + Arity(c)
        /\ UNCHANGED fam
Spec == Init /\ [][Next]_vars

\* decode the constructor sequence from position i: [t |-> style tree, n |-> next position]
RECURSIVE Dec(_, _)
Dec(s, i) ==
  LET c == s[i]
      is == ToString(i)
  IN
  IF Arity(c) = 0 THEN
     [t |-> CASE c = "id" -> <<"id", "v" \o is>> [] c = "num" -> <<"num", is>>
              [] c = "true" -> <<"bool", "true">> [] c = "list0" -> <<"list", << >>>>,
      n |-> i + 1]
  ELSE LET a == Dec(s, i + 1) IN
  IF Arity(c) = 1 THEN
     [t |-> CASE c \in {"neg", "not"} -> <<c, a.t>>
              [] c = "fact1" -> <<"fact", 1, a.t>> [] c = "fact2" -> <<"fact", 2, a.t>>
              [] c = "powu2" -> <<"powu", a.t, "2">> [] c = "powum1" -> <<"powu", a.t, "-1">>
              [] c = "field" -> <<"field", a.t, "f" \o is>>
              [] c = "call0" -> <<"call", a.t, << >>>>
              [] c = "apply0" -> <<"apply", a.t, <<"id", "g" \o is>>, << >>>>
              [] c = "list1" -> <<"list", <<a.t>>>>,
      n |-> a.n]
  ELSE LET b == Dec(s, a.n) IN
  IF Arity(c) = 2 THEN
     [t |-> CASE c = "call1" -> <<"call", a.t, <<b.t>>>>
              [] c = "apply1" -> <<"apply", a.t, <<"id", "g" \o is>>, <<b.t>>>>
              [] c = "list2" -> <<"list", <<a.t, b.t>>>>
              [] OTHER -> <<c, a.t, b.t>>,
      n |-> b.n]
  ELSE LET d == Dec(s, b.n) IN
     [t |-> CASE c = "if" -> <<"if", a.t, b.t, d.t>>
              [] c = "call2" -> <<"call", a.t, <<b.t, d.t>>>>,
      n |-> d.n]

StyleTree == Dec(ps, 1).t

TokStr(t) == IF t.v = "" THEN t.k ELSE t.k \o ":" \o t.v
RECURSIVE TokSeqStr(_)
TokSeqStr(ts) == IF ts = << >> THEN "" ELSE IF Len(ts) = 1 THEN TokStr(ts[1])
                 ELSE TokStr(ts[1]) \o " " \o TokSeqStr(Tail(ts))

RoundTripInv == need = 0 => LET st == StyleTree IN RoundTrip(st, FALSE) /\ RoundTrip(st, TRUE)

EmitCase == need = 0 =>
  LET st == StyleTree IN
  PrintT(<<"CASE", ToJson([fam |-> fam,
                           m |-> IF Printable(st, FALSE) THEN TokSeqStr(Unparse(st, FALSE)) ELSE "-",
                           f |-> IF Printable(st, TRUE) THEN TokSeqStr(Unparse(st, TRUE)) ELSE "-",
                           e |-> Plain(st)])>>)
=============================================================================
