-------------------------------- MODULE Assert --------------------------------
(***************************************************************************)
(* C21: the assertion procedures decide exactly their documented predicate *)
(* (book: basics/testing-debugging.md).  Quantities are integer multiples  *)
(* of units from families with integer ratios, so the predicate is exact:  *)
(* InSmallest(n, u) = n * ratio(u).  A failing assertion aborts its input: *)
(* the marker statements after it do not run (Session roll-back, C06).     *)
(***************************************************************************)
EXTENDS Integers, Sequences, TLC

\* families: unit text |-> ratio to the smallest unit of the family
Families == << << [u |-> "s", r |-> 1], [u |-> "min", r |-> 60], [u |-> "h", r |-> 3600] >>,
               << [u |-> "bit", r |-> 1], [u |-> "byte", r |-> 8], [u |-> "KiB", r |-> 8192] >>,
               << [u |-> "m", r |-> 1], [u |-> "km", r |-> 1000], [u |-> "Mm", r |-> 1000000] >> >>

Abs(x) == IF x < 0 THEN -x ELSE x
\* quantity: [nan, n, r, u]
Qn(n, f) == [nan |-> FALSE, n |-> n, r |-> f.r, u |-> f.u]
QNaN(f) == [nan |-> TRUE, n |-> 0, r |-> f.r, u |-> f.u]
QText(q) == IF q.nan THEN "NaN " \o q.u ELSE (IF q.n < 0 THEN "(" \o ToString(q.n) \o " " \o q.u \o ")" ELSE ToString(q.n) \o " " \o q.u)

\* assert_eq(a, b): a converted to b's unit equals b; NaN is never equal
Eq2(a, b) == ~a.nan /\ ~b.nan /\ a.n * a.r = b.n * b.r
\* assert_eq(a, b, eps): |a - b| <= eps, all in eps's unit
Eq3(a, b, e) == ~a.nan /\ ~b.nan /\ ~e.nan /\ Abs(a.n * a.r - b.n * b.r) <= e.n * e.r

Outcome2(a, b) == IF Eq2(a, b) THEN "ok" ELSE "AssertEq2Failed"
Outcome3(a, b, e) == IF Eq3(a, b, e) THEN "ok" ELSE "AssertEq3Failed"
OutcomeB(c) == IF c THEN "ok" ELSE "AssertFailed"

\* the input: assertion, then two marker statements; what the session shows afterwards
Program(asrt, id) == asrt \o "\nprint(\"zmark\")\nlet v_mark_" \o ToString(id) \o " = 1"
MarkerPrinted(outcome) == outcome = "ok"
MarkerDefined(outcome) == outcome = "ok"
=============================================================================
