------------------------------ MODULE Session ------------------------------
(***************************************************************************)
(* The Numbat session object (numbat::Context) as a state machine.         *)
(*                                                                         *)
(* Submit(st, input) mirrors Context::interpret_with_settings:             *)
(*   Resolve   parse the whole input, inline `use` statements depth-first  *)
(*   Names     register names statement by statement (prefix transformer)  *)
(*   Check     type-check statement by statement                           *)
(*   Run       execute statement by statement                              *)
(* with a roll-back of everything at the first failure (C06).  Statements  *)
(* are abstract templates; Text(s) is their concrete Numbat text, so the   *)
(* conformance harness needs no knowledge of the language.                 *)
(*                                                                         *)
(* Properties: C06 (FailAtomic), C07 (BatchEq), parts of C02/C21/C22/C24.  *)
(***************************************************************************)
EXTENDS Naturals, Sequences, FiniteSets, TLC

CONSTANT RollbackImports  \* TRUE: a failing input also restores the resolver's list of imported
                          \* modules (the rule the property demands); FALSE: the rule of the
                          \* pinned tree before the fix (kept to show the design-level counterexample)

Names == {"za", "zb", "zc"}                      \* pool of user identifiers, shared across kinds
ModVars == {"ma_x", "mb_x", "mc_x", "md_x", "mf_x", "mf_y", "mg_x"}
Ids == Names \cup ModVars
Cap(n) == IF n = "za" THEN "Za" ELSE IF n = "zb" THEN "Zb" ELSE IF n = "zc" THEN "Zc" ELSE "Zx"
KnownMods == {"ma", "mb", "mc", "md", "me", "mf", "mg"}
Mods == KnownMods \cup {"mz"}              \* mz does not exist

\* text executed once at the start of every session (a tiny prelude: two base dimensions/units)
PreludeText == "dimension ZL\ndimension ZT\nunit zu: ZL\nunit zv: ZT\n@metric_prefixes\nunit zw: ZL\ndimension Scalar = 1\nfn value_of<T: Dim>(x: T) -> Scalar"

\* ---------------------------------------------------------------- statements
St(t, a, b, k, m) == [t |-> t, a |-> a, b |-> b, k |-> k, m |-> m]
Let(a, k)      == St("let", a, "", k, "")        \* let a = k
LetRef(a, b)   == St("letref", a, b, 0, "")      \* let a = b + 1
LetDiv0(a)     == St("letdiv0", a, "", 0, "")    \* let a = 1/0            (run-time failure)
LetTyErr(a)    == St("lettyerr", a, "", 0, "")   \* let a = 1 zu + 1 zv    (type failure)
LetAns         == St("letans", "", "", 0, "")    \* let ans = 1            (reserved identifier)
Fn(a, k)       == St("fn", a, "", k, "")         \* fn a() = k
FnRef(a, b)    == St("fnref", a, b, 0, "")       \* fn a() = b + 0         (captures variable b)
FnCall(a, b)   == St("fncall", a, b, 0, "")      \* fn a() = b()           (early-bound call)
Expr(a)        == St("expr", a, "", 0, "")       \* a + 0
Call(a)        == St("call", a, "", 0, "")       \* a()
AnsE           == St("anse", "", "", 0, "")      \* ans + 1
QExpr          == St("qexpr", "", "", 0, "")     \* 4 kilozw / (2 zw): raw value 2 kilozw/zw, DISPLAYED (simplified) as 2000
AnsVal         == St("ansval", "", "", 0, "")    \* value_of(ans): the magnitude of the last result as it was computed
UnitDef(a)     == St("unitdef", a, "", 0, "")    \* unit a
UnitDer(a)     == St("unitder", a, "", 0, "")    \* unit a = 2 zu         (derived unit: unit registry + constant)
UnitUse(a)     == St("unituse", a, "", 0, "")    \* (3 a -> zu) / zu      (6 for a derived unit a; a type error otherwise)
DimDef(a)      == St("dimdef", a, "", 0, "")     \* dimension Cap(a)
StructDef      == St("structdef", "", "", 0, "") \* struct Sa { f: ZL }
PrintS(a)      == St("print", a, "", 0, "")      \* print(a + 0)
AssertEq(a, k) == St("asserteq", a, "", k, "")   \* assert_eq(a + 0, k)
Use(m)         == St("use", "", "", 0, m)        \* use m
ExprDiv0       == St("exprdiv0", "", "", 0, "")  \* 1 / 0                  (an EXPRESSION statement that fails at run time)
ParseErr       == St("parseerr", "", "", 0, "")  \* let = 1

Text(s) ==
  CASE s.t = "let"       -> "let " \o s.a \o " = " \o ToString(s.k)
    [] s.t = "letref"    -> "let " \o s.a \o " = " \o s.b \o " + 1"
    [] s.t = "letdiv0"   -> "let " \o s.a \o " = 1/0"
    [] s.t = "lettyerr"  -> "let " \o s.a \o " = 1 zu + 1 zv"
    [] s.t = "letans"    -> "let ans = 1"
    [] s.t = "fn"        -> "fn " \o s.a \o "() = " \o ToString(s.k)
    [] s.t = "fnref"     -> "fn " \o s.a \o "() = " \o s.b \o " + 1 - 1"
    [] s.t = "fncall"    -> "fn " \o s.a \o "() = " \o s.b \o "()"
    [] s.t = "expr"      -> s.a \o " + 1 - 1"
    [] s.t = "call"      -> s.a \o "()"
    [] s.t = "anse"      -> "ans + 1"
    [] s.t = "qexpr"     -> "4 kilozw / (2 zw)"
    [] s.t = "ansval"    -> "value_of(ans)"
    [] s.t = "unitdef"   -> "unit " \o s.a
    [] s.t = "unitder"   -> "unit " \o s.a \o " = 2 zu"
    [] s.t = "unituse"   -> "(3 " \o s.a \o " -> zu) / zu"
    [] s.t = "dimdef"    -> "dimension " \o Cap(s.a)
    [] s.t = "structdef" -> "struct Sa { f: ZL }"
    [] s.t = "print"     -> "print(" \o s.a \o " + 1 - 1)"
    [] s.t = "asserteq"  -> "assert_eq(" \o s.a \o " + 1 - 1, " \o ToString(s.k) \o ")"
    [] s.t = "use"       -> "use " \o s.m
    [] s.t = "exprdiv0"  -> "1 / 0"
    [] s.t = "parseerr"  -> "let = 1"

RECURSIVE InputText(_)
InputText(ss) == IF Len(ss) = 1 THEN Text(ss[1]) ELSE Text(ss[1]) \o "\n" \o InputText(Tail(ss))

\* ------------------------------------------------------------------ modules
ModParseError(m) == m = "me"
ModBody(m) ==
  CASE m = "ma" -> << Let("ma_x", 11) >>
    [] m = "mb" -> << Use("ma"), LetRef("mb_x", "ma_x") >>
    [] m = "mc" -> << Use("md"), Let("mc_x", 13) >>
    [] m = "md" -> << Use("mc"), Let("md_x", 14) >>
    [] m = "mf" -> << Let("mf_x", 15), LetDiv0("mf_y") >>
    [] m = "mg" -> << LetTyErr("mg_x") >>
    [] OTHER   -> << >>
ModText(m) == IF m = "me" THEN "let me_x = 1\nlet = 2" ELSE InputText(ModBody(m))

\* ------------------------------------------------------------------- state
InitSt == [ imported |-> {},
            units    |-> {},                       \* unit names (prefix parser)
            uder     |-> {},                       \* those of them that are derived from zu (convertible to zu)
            others   |-> {},                       \* variable / function names (prefix parser)
            vkind    |-> [i \in Ids |-> "none"],   \* value namespace: none | var | fn
            val      |-> [i \in Ids |-> 0],        \* value of the innermost binding (0 = none)
            fnv      |-> [i \in Ids |-> 0],        \* value returned by the newest function of that name
            dims     |-> {},                       \* dimension registry (incl. those created by `unit x`)
            xdims    |-> {},                       \* dimensions defined with `dimension X`
            tns      |-> {},                       \* type namespace (dimensions, structs)
            ans      |-> 0,                        \* last result (0 = none), as a scalar
            ansmag   |-> 0 ]                       \* magnitude of the last result in the unit it was computed in
                                                   \* (`ans` is the computed value, not its simplified display)

\* ---------------------------------------------------------------- Resolve
\* resolver.rs inlining_pass: depth first, a module is marked imported when entered
RECURSIVE Inline(_, _)
Inline(ss, imp) ==
  IF ss = << >> THEN [err |-> "", ss |-> << >>, imp |-> imp]
  ELSE LET s == Head(ss) IN
    IF s.t = "use"
    THEN IF s.m \in imp THEN Inline(Tail(ss), imp)
         ELSE IF s.m \notin KnownMods THEN [err |-> "unknown_module", ss |-> << >>, imp |-> imp]
         ELSE LET imp1 == imp \cup {s.m} IN
              IF ModParseError(s.m) THEN [err |-> "parse", ss |-> << >>, imp |-> imp1]
              ELSE LET r == Inline(ModBody(s.m), imp1) IN
                   IF r.err # "" THEN r
                   ELSE LET r2 == Inline(Tail(ss), r.imp) IN
                        IF r2.err # "" THEN r2
                        ELSE [err |-> "", ss |-> r.ss \o r2.ss, imp |-> r2.imp]
    ELSE LET r2 == Inline(Tail(ss), imp) IN
         IF r2.err # "" THEN r2 ELSE [r2 EXCEPT !.ss = << s >> \o @]

Defines(s) == s.t \in {"let", "letref", "letdiv0", "lettyerr", "fn", "fnref", "fncall"}

\* ------------------------------------------------------------------ Names
\* prefix_transformer.rs / prefix_parser.rs: [err, w]
Stage1(w, s) ==
  IF s.t = "letans" THEN [err |-> "reserved", w |-> w]
  ELSE IF Defines(s)
       THEN IF s.a \in w.units THEN [err |-> "clash", w |-> w]
            ELSE [err |-> "", w |-> [w EXCEPT !.others = @ \cup {s.a}]]
  ELSE IF s.t \in {"unitdef", "unitder"}
       THEN IF s.a \in w.units \cup w.others THEN [err |-> "clash", w |-> w]
            ELSE [err |-> "", w |-> [w EXCEPT !.units = @ \cup {s.a}]]
  ELSE [err |-> "", w |-> w]

\* ------------------------------------------------------------------ Check
IsVar(w, i) == w.vkind[i] = "var"
IsFn(w, i)  == w.vkind[i] = "fn"
Ok(w)   == [err |-> "", w |-> w]
Bad(w, e) == [err |-> e, w |-> w]

Stage2(w, s) ==
  CASE s.t \in {"let", "letdiv0"} ->
         IF IsFn(w, s.a) THEN Bad(w, "value_namespace") ELSE Ok([w EXCEPT !.vkind[s.a] = "var"])
    [] s.t = "letref" ->
         IF ~IsVar(w, s.b) THEN Bad(w, "expr")
         ELSE IF IsFn(w, s.a) THEN Bad(w, "value_namespace") ELSE Ok([w EXCEPT !.vkind[s.a] = "var"])
    [] s.t = "lettyerr" -> Bad(w, "dimension_mismatch")
    [] s.t = "fn" ->
         IF IsVar(w, s.a) THEN Bad(w, "value_namespace") ELSE Ok([w EXCEPT !.vkind[s.a] = "fn"])
    [] s.t = "fnref" ->
         IF IsVar(w, s.a) THEN Bad(w, "value_namespace")
         ELSE IF ~IsVar(w, s.b) THEN Bad(w, "expr") ELSE Ok([w EXCEPT !.vkind[s.a] = "fn"])
    [] s.t = "fncall" ->
         IF IsVar(w, s.a) THEN Bad(w, "value_namespace")
         ELSE IF ~IsFn(w, s.b) THEN Bad(w, "expr") ELSE Ok([w EXCEPT !.vkind[s.a] = "fn"])
    [] s.t \in {"expr", "print", "asserteq"} ->
         IF ~IsVar(w, s.a) THEN Bad(w, "expr")
         ELSE IF s.t = "expr" THEN Ok([w EXCEPT !.hasans = TRUE]) ELSE Ok(w)
    [] s.t = "call" -> IF ~IsFn(w, s.a) THEN Bad(w, "expr") ELSE Ok([w EXCEPT !.hasans = TRUE])
    [] s.t \in {"anse", "ansval"} -> IF ~w.hasans THEN Bad(w, "expr") ELSE Ok(w)
    [] s.t \in {"qexpr", "exprdiv0"} -> Ok([w EXCEPT !.hasans = TRUE])
    [] s.t = "unitdef" ->
         IF Cap(s.a) \in w.dims THEN Bad(w, "registry") ELSE Ok([w EXCEPT !.dims = @ \cup {Cap(s.a)}])
    [] s.t = "unitder" -> Ok([w EXCEPT !.uder = @ \cup {s.a}])
    [] s.t = "unituse" -> IF s.a \in w.uder THEN Ok([w EXCEPT !.hasans = TRUE]) ELSE Bad(w, "expr")
    [] s.t = "dimdef" ->
         IF Cap(s.a) \in w.tns THEN Bad(w, "type_namespace")
         ELSE IF Cap(s.a) \in w.dims THEN Bad(w, "registry")
         ELSE Ok([w EXCEPT !.tns = @ \cup {Cap(s.a)}, !.dims = @ \cup {Cap(s.a)}, !.xdims = @ \cup {Cap(s.a)}])
    [] s.t = "structdef" ->
         IF "Sa" \in w.tns THEN Bad(w, "type_namespace") ELSE Ok([w EXCEPT !.tns = @ \cup {"Sa"}])
    [] OTHER -> Ok(w)

\* -------------------------------------------------------------------- Run
Stage3(w, s) ==
  CASE s.t = "let"      -> Ok([w EXCEPT !.val[s.a] = s.k])
    [] s.t = "letref"   -> Ok([w EXCEPT !.val[s.a] = w.val[s.b] + 1])
    [] s.t \in {"letdiv0", "exprdiv0"} -> Bad(w, "division_by_zero")
    [] s.t = "fn"       -> Ok([w EXCEPT !.fnv[s.a] = s.k])
    [] s.t = "fnref"    -> Ok([w EXCEPT !.fnv[s.a] = w.val[s.b]])
    [] s.t = "fncall"   -> Ok([w EXCEPT !.fnv[s.a] = w.fnv[s.b]])
    [] s.t = "expr"     -> Ok([w EXCEPT !.res = w.val[s.a], !.ans = w.val[s.a], !.ansmag = w.val[s.a]])
    [] s.t = "call"     -> Ok([w EXCEPT !.res = w.fnv[s.a], !.ans = w.fnv[s.a], !.ansmag = w.fnv[s.a]])
    [] s.t = "anse"     -> Ok([w EXCEPT !.res = w.ans + 1, !.ans = w.ans + 1, !.ansmag = w.ans + 1])
    [] s.t = "qexpr"    -> Ok([w EXCEPT !.res = 2000, !.ans = 2000, !.ansmag = 2])
    [] s.t = "ansval"   -> Ok([w EXCEPT !.res = w.ansmag, !.ans = w.ansmag])
    [] s.t = "unituse"  -> Ok([w EXCEPT !.res = 6, !.ans = 6, !.ansmag = 6])
    [] s.t = "print"    -> Ok([w EXCEPT !.out = Append(@, w.val[s.a])])
    [] s.t = "asserteq" -> IF w.val[s.a] = s.k THEN Ok(w) ELSE Bad(w, "assert_eq")
    [] OTHER            -> Ok(w)

\* fold a stage over the statements; stops at the first error
RECURSIVE Fold1(_, _)
Fold1(w, ss) == IF ss = << >> THEN Ok(w)
                ELSE LET r == Stage1(w, Head(ss)) IN IF r.err # "" THEN r ELSE Fold1(r.w, Tail(ss))
RECURSIVE Fold2(_, _)
Fold2(w, ss) == IF ss = << >> THEN Ok(w)
                ELSE LET r == Stage2(w, Head(ss)) IN IF r.err # "" THEN r ELSE Fold2(r.w, Tail(ss))
RECURSIVE Fold3(_, _)
Fold3(w, ss) == IF ss = << >> THEN Ok(w)
                ELSE LET r == Stage3(w, Head(ss)) IN IF r.err # "" THEN r ELSE Fold3(r.w, Tail(ss))

Work(st) == [imported |-> st.imported, units |-> st.units, uder |-> st.uder, others |-> st.others, vkind |-> st.vkind,
             val |-> st.val, fnv |-> st.fnv, dims |-> st.dims, xdims |-> st.xdims, tns |-> st.tns,
             ans |-> st.ans, ansmag |-> st.ansmag, hasans |-> st.ans # 0, out |-> << >>, res |-> 0]
Unwork(w) == [imported |-> w.imported, units |-> w.units, uder |-> w.uder, others |-> w.others, vkind |-> w.vkind,
              val |-> w.val, fnv |-> w.fnv, dims |-> w.dims, xdims |-> w.xdims, tns |-> w.tns, ans |-> w.ans,
              ansmag |-> w.ansmag]

\* roll-back: everything except (in the un-repaired rule) the resolver's import list
Failed(st, imp, outcome, kind, out) ==
  [outcome |-> outcome, kind |-> kind, out |-> out, res |-> 0,
   st |-> IF RollbackImports THEN st ELSE [st EXCEPT !.imported = imp]]

\* Context::interpret_with_settings
Submit(st, input) ==
  IF \E i \in 1..Len(input) : input[i].t = "parseerr"
  THEN Failed(st, st.imported, "resolver", "parse", << >>)
  ELSE LET r0 == Inline(input, st.imported) IN
    IF r0.err # "" THEN Failed(st, r0.imp, "resolver", r0.err, << >>)
    ELSE LET w0 == [Work(st) EXCEPT !.imported = r0.imp]
             r1 == Fold1(w0, r0.ss) IN
      IF r1.err # "" THEN Failed(st, r0.imp, "nameres", r1.err, << >>)
      ELSE LET r2 == Fold2(r1.w, r0.ss) IN
        IF r2.err # "" THEN Failed(st, r0.imp, "type", r2.err, << >>)
        ELSE LET r3 == Fold3(r2.w, r0.ss) IN
          \* printed output of statements before the failing one has already been emitted
          IF r3.err # "" THEN Failed(st, r0.imp, "runtime", r3.err, r3.w.out)
          ELSE [outcome |-> "ok", kind |-> "", out |-> r3.w.out, res |-> r3.w.res, st |-> Unwork(r3.w)]

\* ------------------------------------------------------------ observation
\* what a user can observe of a session without changing it
VarNames(st) == {i \in Ids : st.vkind[i] = "var"}
FnNames(st)  == {i \in Ids : st.vkind[i] = "fn"}
\* probes: hypothetical inputs evaluated on a copy of the session
ProbeInputs == << <<Expr("za")>>, <<Expr("zb")>>, <<Expr("zc")>>, <<Call("za")>>, <<Call("zb")>>, <<Call("zc")>>, <<AnsE>>, <<AnsVal>>,
                  <<Expr("ma_x")>>, <<Expr("mb_x")>>, <<Expr("mc_x")>>, <<Expr("md_x")>>, <<Expr("mf_x")>>,
                  <<Use("ma")>>, <<Use("mb")>>, <<Use("mc")>>, <<Use("md")>>, <<Use("me")>>, <<Use("mf")>>,
                  <<Use("mg")>>, <<Use("mz")>>,
                  <<UnitDef("za")>>, <<UnitDef("zb")>>, <<DimDef("za")>>, <<DimDef("zb")>>, <<StructDef>>,
                  <<Let("za", 1)>>, <<Fn("zb", 1)>>, <<UnitUse("za")>>, <<UnitUse("zc")>>, <<UnitDer("zc")>> >>
ProbeOf(st, p) == LET r == Submit(st, p) IN [outcome |-> r.outcome, res |-> r.res, vars |-> VarNames(r.st)]
Obs(st) == [vars |-> VarNames(st), fns |-> FnNames(st), units |-> st.units, dims |-> st.xdims,
            probes |-> [i \in 1..Len(ProbeInputs) |-> ProbeOf(st, ProbeInputs[i])]]

\* C06 at the level of the rule: a failing input leaves every observation unchanged
FailAtomicAt(st, input) == LET r == Submit(st, input) IN r.outcome # "ok" => Obs(r.st) = Obs(st)
=============================================================================
