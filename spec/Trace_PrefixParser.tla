-------------------------- MODULE Trace_PrefixParser --------------------------
(***************************************************************************)
(* Trace validation for C13 (J direction).  The harness defines units and  *)
(* variables with random (collision-prone) names on a fresh real session   *)
(* and records, per attempt, whether the session accepted it and how the   *)
(* real prefix parser then resolves a sample of identifiers.  Every event  *)
(* must be a step of the PrefixParser machine over the FULL prefix table:  *)
(* accepted iff the availability rule enables the addition, and every      *)
(* recorded resolution equals the (unique) reading in the successor state. *)
(* Event: [op \in {"unit","other"}, name, short, long, metric, binary, ok, *)
(*         probes: sequence of [id, r]],  r = << >> or <<[kind,exp,alias]>>*)
(* Trace file: environment variable TRACE (ndjson).                        *)
(***************************************************************************)
EXTENDS PrefixParser, Json, IOUtils

VARIABLES l,    \* index of the next event
          tr    \* the recorded trace (constant)
tvars == <<units, order, others, shadow, pf, l, tr>>

TraceInit == /\ PInit
             /\ l = 1
             /\ tr = ndJsonDeserialize(IOEnv.TRACE)

InfoOfEvent(e) == [unit |-> e.name, short |-> e.short, long |-> e.long, metric |-> e.metric, binary |-> e.binary]

Step(e) ==
    \/ e.op = "unit" /\ e.ok /\ AddUnit(e.name, InfoOfEvent(e))
    \/ e.op = "unit" /\ ~e.ok /\ ~CanAddUnit(e.name, InfoOfEvent(e)) /\ UNCHANGED pvars
    \/ e.op = "other" /\ e.ok /\ AddOther(e.name)
    \/ e.op = "other" /\ ~e.ok /\ ~CanAddOther(e.name) /\ UNCHANGED pvars

\* the recorded resolutions against the readings in the successor state (primes on the state variables only:
\* the event itself is the current one)
Brief(R) == { [kind |-> r.kind, exp |-> r.exp, alias |-> r.alias] : r \in R }
ProbesAgreeNext(e) ==
    \A i \in 1..Len(e.probes) :
        LET R == Brief(ReadingsIn(units', others', pf', e.probes[i].id)) IN
        /\ Cardinality(R) <= 1
        /\ AsSeq01(R) = e.probes[i].r

TraceNext == /\ l <= Len(tr)
             /\ Step(tr[l])
             /\ ProbesAgreeNext(tr[l])
             /\ l' = l + 1
             /\ UNCHANGED tr

TraceSpec == TraceInit /\ [][TraceNext]_tvars

TraceAccepted ==
    LET n == Len(ndJsonDeserialize(IOEnv.TRACE))
        d == TLCGet("stats").diameter - 1
    IN IF d = n THEN TRUE
       ELSE /\ PrintT(<<"REJECTED", ToJson([matched |-> d, total |-> n])>>)
            /\ FALSE
=============================================================================
