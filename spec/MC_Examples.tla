---------------------------- MODULE MC_Examples ----------------------------
(***************************************************************************)
(* Two session records: a parent that grows by ordinary inputs and a clone *)
(* on which examples run.  Every input of the alphabet - succeeding,       *)
(* defining names, importing modules, printing, failing at every stage -   *)
(* is tried as an example after every parent history of <= Depth inputs.   *)
(*   CloneIndependent  an Example step leaves the parent's observation     *)
(*                     (names, values, probes, effect of every import)     *)
(*                     unchanged, and a later Example starts from the      *)
(*                     parent again, not from the previous clone           *)
(*   ExampleTotal      the outcome is ok or one of the error classes       *)
(*   SameAsSubmit      the clone ends exactly where the parent would have  *)
(*                     ended had the input been submitted to it            *)
(***************************************************************************)
EXTENDS Examples

CONSTANT Depth

VARIABLES parent, clone, last, n
vars == <<parent, clone, last, n>>

Grow == { <<Let("za", 1)>>, <<Fn("zb", 2)>>, <<Use("mb")>>, <<UnitDef("zc")>>, <<Let("za", 1), Expr("za")>> }
ExampleInputs ==
  { <<Expr("za")>>, <<Call("zb")>>, <<Let("zb", 2), Expr("zb")>>, <<Fn("za", 1), Call("za")>>, <<Use("ma"), Expr("ma_x")>>,
    <<Use("mc")>>, <<PrintS("za")>>, <<LetDiv0("za")>>, <<LetTyErr("za")>>, <<ParseErr>>, <<Use("mz")>>, <<Use("mf")>>,
    <<AssertEq("za", 1)>>, <<AssertEq("za", 2)>>, <<AnsE>>, <<UnitDef("za")>>, <<DimDef("za")>>, <<LetAns>> }

NoRun == [outcome |-> "none", kind |-> "", changed |-> FALSE]

Init == parent = InitSt /\ clone = InitSt /\ last = NoRun /\ n = 0

GrowStep == /\ n < Depth
            /\ \E input \in Grow :
                 LET r == Submit(parent, input) IN
                   /\ r.outcome = "ok"
                   /\ parent' = r.st
            /\ n' = n + 1
            /\ UNCHANGED <<clone, last>>

ExampleStep == \E input \in ExampleInputs :
                 LET x == ExampleRun(parent, input) IN
                   /\ parent' = x.parent
                   /\ clone' = x.clone
                   /\ last' = [outcome |-> x.outcome, kind |-> x.kind, changed |-> x.clone # parent]
                   /\ UNCHANGED n

Next == GrowStep \/ ExampleStep
Spec == Init /\ [][Next]_vars

\* (steps with n unchanged are exactly the Example steps)
CloneIndependent == [][ n' = n => parent' = parent ]_vars        \* hence Obs(parent') = Obs(parent)
ExampleTotal == last.outcome \in {"none", "ok", "resolver", "nameres", "type", "runtime"}
SameAsSubmit == [][ n' = n => \E input \in ExampleInputs : clone' = Submit(parent, input).st ]_vars
\* a failing example leaves even the clone as the parent was (C06 on the clone)
FailedCloneIsParent == [][ (n' = n /\ last'.outcome \notin {"none", "ok"}) => Obs(clone') = Obs(parent) ]_vars
\* verdicts of the property on the modelled examples: a failing example is rejected unless exempt
Verdicts == /\ Accepted("ok", "sqrt", FALSE)
            /\ ~Accepted("runtime", "sqrt", FALSE) /\ ~Accepted("type", "head", FALSE) /\ ~Accepted("import", "rgb", FALSE)
            /\ ~Accepted("panic", "sqrt", FALSE)
            /\ Accepted("runtime", "args", TRUE) /\ Accepted("runtime", "args", FALSE) /\ Accepted("type", "tail", TRUE)
=============================================================================
