CONSTANT MaxHist = 0
SPECIFICATION TraceSpec
INVARIANTS Unambiguous Disjoint
POSTCONDITION TraceAccepted
CHECK_DEADLOCK FALSE
