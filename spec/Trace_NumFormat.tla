--------------------------- MODULE Trace_NumFormat ---------------------------
(***************************************************************************)
(* Trace validation for C14 (J direction, also used to judge G cases whose *)
(* f64 is not exactly the decimal of the case).  Every line records one    *)
(* call of the real formatter:                                             *)
(*   cls/neg/ds/e  the displayed value as its shortest round-trip digits   *)
(*                 (Rust `{:e}` of the f64 the real pipeline computed),    *)
(*   alts          further shortest representations [ds, e] of the same    *)
(*                 f64 (the f64 lies exactly between two decimals of the   *)
(*                 shortest length; Rust and ryu pick different ones):     *)
(*                 the line is judged for any of them,                     *)
(*   sep/thr/sig   the format options (sep as a sequence of characters),   *)
(*   text          the displayed text as a sequence of characters,         *)
(*   panic         the formatter panicked (no text),                       *)
(*   lex           text minus separator is ONE numeric literal / keyword   *)
(*                 (optionally negated) for the real tokenizer + parser,   *)
(*   lexeq         the value the real parser gives that literal is the     *)
(*                 correctly rounded f64 of the same characters,           *)
(*   rawok         (sep "_") the text with separators is such a literal of *)
(*                 the same value, too,                                    *)
(*   rcls/rneg/rds/re  that value as shortest round-trip digits.           *)
(* The line is accepted iff NumFormat!Judge holds for the text (exact      *)
(* decimal reading by the specification's own ReadBack), the real lexer    *)
(* agreed (lex, lexeq, rawok) and, where a decimal of <= 15 digits in the  *)
(* normal range determines its f64 uniquely, the real read-back value IS   *)
(* the specification's read-back value.  Lines are independent: the trace  *)
(* position is the only state.                                             *)
(* Trace file: environment variable TRACE (ndjson).                        *)
(***************************************************************************)
EXTENDS NumFormat, Json, IOUtils, TLC, TLCExt

\* Strict = TRUE additionally demands the implementation's notation rule (positional iff
\* 1e-6 <= |rounded value| < 1e6): representation, not part of C14 -> only MODEL-DRIFT.
CONSTANT Strict

\* the recorded trace: a constant-level definition, evaluated once (TLCEval); holding it in a state variable
\* makes TLC fingerprint the whole trace in every state (quadratic; measured 70 events/s instead of thousands)
tr == TLCEval(ndJsonDeserialize(IOEnv.TRACE))

VARIABLES l     \* index of the next event to consume
tvars == <<l>>

TraceInit == l = 1

EvX(ev) == [cls |-> ev.cls, neg |-> ev.neg, ds |-> ev.ds, e |-> ev.e]
AltX(ev) == {[cls |-> "fin", neg |-> ev.neg, ds |-> ev.alts[i].ds, e |-> ev.alts[i].e] : i \in 1..Len(ev.alts)}
EvO(ev) == [sep |-> ev.sep, thr |-> ev.thr, sig |-> ev.sig]
EvR(ev) == [cls |-> ev.rcls, neg |-> ev.rneg, ds |-> ev.rds, e |-> ev.re]

\* the real parser's value of the text against the specification's exact reading of it
RBA(ev, rb) ==
    rb.ok =>
         IF rb.v.cls # "fin" THEN Canon(EvR(ev)) = rb.v
         ELSE (Len(rb.v.ds) <= 15 /\ rb.v.e \in -300..300) => Canon(EvR(ev)) = rb.v
ReadBackAgrees(ev) == RBA(ev, ReadBack(ev.text, ev.sep))

WellFormed(ev) == /\ ev.sig >= 1
                  /\ ev.cls \in {"fin", "inf", "nan"}
                  /\ \A i \in 1..Len(ev.ds) : ev.ds[i] \in 0..9

Accept(ev) == /\ WellFormed(ev)
              /\ ~ev.panic
              /\ ev.lex /\ ev.lexeq /\ ev.rawok
              /\ \E xx \in {EvX(ev)} \cup AltX(ev) :
                    /\ Judge(xx, EvO(ev), ev.text)
                    /\ Strict => NotationOK(xx, EvO(ev), ev.text)
              /\ ReadBackAgrees(ev)

TraceNext == /\ l <= Len(tr)
             /\ Accept(tr[l])
             /\ l' = l + 1

TraceSpec == TraceInit /\ [][TraceNext]_tvars

TraceAccepted ==
    LET n == Len(tr)
        d == TLCGet("stats").diameter - 1
    IN IF d = n THEN TRUE
       ELSE /\ PrintT(<<"REJECTED", ToJson([matched |-> d, total |-> n])>>)
            /\ FALSE
=============================================================================
