------------------------------ MODULE Examples ------------------------------
(***************************************************************************)
(* C24: documented usage examples as a Session-level action.               *)
(*                                                                         *)
(* The documentation generator (numbat/examples/inspect.rs) and the check  *)
(* run every `@example` of a standard-library function on a COPY of one    *)
(* shared session (prelude + currency units):                              *)
(*     Example(parent, input):  clone := parent; Submit(clone, input)      *)
(* The parent session is not touched, whatever the example does - define   *)
(* names (`let xs = ...`, `fn f(x) = ...`), import its function's module,  *)
(* print, fail.  The property demands outcome "ok" for every example       *)
(* except those that depend on the process environment.                    *)
(***************************************************************************)
EXTENDS Session

\* functions whose value depends on the process environment (command-line arguments)
EnvFunctions == {"args"}

\* an example is exempt when it documents such a function or its text calls one
Exempt(fn, mentionsEnv) == fn \in EnvFunctions \/ mentionsEnv

\* verdict on one executed example
Accepted(outcome, fn, mentionsEnv) == outcome = "ok" \/ Exempt(fn, mentionsEnv)

\* the action: both sessions after running `input` as an example of a session `parent`
ExampleRun(parent, input) ==
  LET r == Submit(parent, input) IN
    [parent |-> parent, clone |-> r.st, outcome |-> r.outcome, kind |-> r.kind, out |-> r.out, res |-> r.res]
=============================================================================
