------------------------------- MODULE Html -------------------------------
(***************************************************************************)
(* HTML rendering (numbat/src/html_formatter.rs), property C20:            *)
(* "HTML rendering never emits user-controlled markup".                    *)
(*                                                                         *)
(* Text is a sequence of 1-character strings.  The module states           *)
(*  - Escape(s): the escaping of text that becomes HTML *text content*      *)
(*    (& < > are replaced; quotes are harmless outside attributes and the  *)
(*    renderer never puts text into an attribute);                         *)
(*  - FormatPart(type, s): how one piece of markup is rendered              *)
(*    (HtmlFormatter::format_part);                                        *)
(*  - the HtmlWriter (the termcolor::WriteColor sink diagnostics are       *)
(*    emitted into) as a state machine: colour state + buffer, actions     *)
(*    SetColor / Reset / Write / New;                                      *)
(*  - the tag grammar of the output: the only tags are the renderer's own  *)
(*    <span class="numbat-CLASS"> and </span>; Strip removes them, Clean   *)
(*    says that what is left contains no < > and no bare &, Unescape       *)
(*    decodes it.                                                          *)
(* Property (NoUserMarkup, FormatSafe): Clean(Strip(output)) and           *)
(* Unescape(Strip(output)) = the text that was written, in order.          *)
(*                                                                         *)
(* WriterEscapes = TRUE is the rule the property demands (Write escapes).  *)
(* WriterEscapes = FALSE is the rule of the code as found (Write copies    *)
(* the bytes verbatim); with it NoUserMarkup is violated - this names the  *)
(* deviation exactly and shows the invariant is not vacuous.               *)
(***************************************************************************)
EXTENDS Integers, Sequences, TLC

CONSTANT WriterEscapes

-----------------------------------------------------------------------------
\* escaping of text content
EscChar(c) == CASE c = "&" -> <<"&", "a", "m", "p", ";">>
                [] c = "<" -> <<"&", "l", "t", ";">>
                [] c = ">" -> <<"&", "g", "t", ";">>
                [] OTHER   -> <<c>>

RECURSIVE Escape(_)
Escape(s) == IF s = <<>> THEN <<>> ELSE EscChar(Head(s)) \o Escape(Tail(s))

-----------------------------------------------------------------------------
\* the renderer's own tags
OpenPre  == <<"<", "s", "p", "a", "n", " ", "c", "l", "a", "s", "s", "=", "\"", "n", "u", "m", "b", "a", "t", "-">>
OpenPost == <<"\"", ">">>
CloseTag == <<"<", "/", "s", "p", "a", "n", ">">>
Open(cls) == OpenPre \o cls \o OpenPost
Span(cls, body) == Open(cls) \o body \o CloseTag

NoClass == <<>>
FormatTypes == {"Whitespace", "Emphasized", "Dimmed", "Text", "String", "Keyword", "Value", "Unit",
                "Identifier", "TypeIdentifier", "Operator", "Decorator"}

ClassOf(t) ==
  CASE t = "Whitespace"     -> NoClass
    [] t = "Text"           -> NoClass
    [] t = "Emphasized"     -> <<"e", "m", "p", "h", "a", "s", "i", "z", "e", "d">>
    [] t = "Dimmed"         -> <<"d", "i", "m", "m", "e", "d">>
    [] t = "String"         -> <<"s", "t", "r", "i", "n", "g">>
    [] t = "Keyword"        -> <<"k", "e", "y", "w", "o", "r", "d">>
    [] t = "Value"          -> <<"v", "a", "l", "u", "e">>
    [] t = "Unit"           -> <<"u", "n", "i", "t">>
    [] t = "Identifier"     -> <<"i", "d", "e", "n", "t", "i", "f", "i", "e", "r">>
    [] t = "TypeIdentifier" -> <<"t", "y", "p", "e", "-", "i", "d", "e", "n", "t", "i", "f", "i", "e", "r">>
    [] t = "Operator"       -> <<"o", "p", "e", "r", "a", "t", "o", "r">>
    [] t = "Decorator"      -> <<"d", "e", "c", "o", "r", "a", "t", "o", "r">>

\* HtmlFormatter::format_part: nothing for empty text, escaped text, wrapped in a span if the type has a class
FormatPart(t, s) == IF s = <<>> THEN <<>>
                    ELSE IF ClassOf(t) = NoClass THEN Escape(s)
                    ELSE Span(ClassOf(t), Escape(s))

-----------------------------------------------------------------------------
\* HtmlWriter: colour state and buffer
NoColor == [set |-> FALSE, fg |-> "none", bold |-> FALSE]
Fgs == {"none", "red", "blue", "other"}
ColorSpecs == [set : {TRUE}, fg : Fgs, bold : BOOLEAN]

DiagRed  == <<"d", "i", "a", "g", "n", "o", "s", "t", "i", "c", "-", "r", "e", "d">>
DiagBlue == <<"d", "i", "a", "g", "n", "o", "s", "t", "i", "c", "-", "b", "l", "u", "e">>
DiagBold == <<"d", "i", "a", "g", "n", "o", "s", "t", "i", "c", "-", "b", "o", "l", "d">>

\* red and blue foregrounds win over bold; any other colour setting is plain text
WriterClass(c) == IF ~c.set THEN NoClass
                  ELSE IF c.fg = "red" THEN DiagRed
                  ELSE IF c.fg = "blue" THEN DiagBlue
                  ELSE IF c.bold THEN DiagBold
                  ELSE NoClass

\* what one write(s) appends under colour state c (esc: does the writer escape?)
ChunkWith(c, s, esc) == LET body == IF esc THEN Escape(s) ELSE s
                        IN IF WriterClass(c) = NoClass THEN body ELSE Span(WriterClass(c), body)
Chunk(c, s) == ChunkWith(c, s, WriterEscapes)

VARIABLES color,    \* NoColor or an element of ColorSpecs
          buf,      \* the HTML produced so far
          written   \* history variable: all text handed to write, concatenated
wvars == <<color, buf, written>>

WInit == color = NoColor /\ buf = <<>> /\ written = <<>>

SetColor(c) == color' = c /\ UNCHANGED <<buf, written>>
Reset == color' = NoColor /\ UNCHANGED <<buf, written>>
Write(s) == /\ buf' = buf \o Chunk(color, s)
            /\ written' = written \o s
            /\ UNCHANGED color
\* HtmlWriter::new()
New == color' = NoColor /\ buf' = <<>> /\ written' = <<>>

-----------------------------------------------------------------------------
\* the tag grammar of rendered output
IsAt(p, s, i) == i + Len(p) - 1 <= Len(s) /\ SubSeq(s, i, i + Len(p) - 1) = p

ClassChars == {"a", "b", "c", "d", "e", "f", "g", "h", "i", "j", "k", "l", "m", "n", "o", "p", "q", "r", "s",
               "t", "u", "v", "w", "x", "y", "z", "-"}

\* first index >= i whose character is not a class-name character
RECURSIVE ClassEnd(_, _)
ClassEnd(s, i) == IF i <= Len(s) /\ s[i] \in ClassChars THEN ClassEnd(s, i + 1) ELSE i

\* length of a renderer span-open tag starting at i (0: there is none)
OpenLen(s, i) == IF IsAt(OpenPre, s, i)
                 THEN LET j == ClassEnd(s, i + Len(OpenPre))
                      IN IF j > i + Len(OpenPre) /\ IsAt(OpenPost, s, j) THEN j + Len(OpenPost) - i ELSE 0
                 ELSE 0

\* the output with the renderer's own tags removed
RECURSIVE Strip(_, _)
Strip(s, i) == IF i > Len(s) THEN <<>>
               ELSE LET n == OpenLen(s, i) IN
                    IF n > 0 THEN Strip(s, i + n)
                    ELSE IF IsAt(CloseTag, s, i) THEN Strip(s, i + Len(CloseTag))
                    ELSE <<s[i]>> \o Strip(s, i + 1)

\* character references a renderer may use for the characters of the alphabet
Entities == { [e |-> <<"&", "a", "m", "p", ";">>, c |-> "&"],
              [e |-> <<"&", "l", "t", ";">>, c |-> "<"],
              [e |-> <<"&", "g", "t", ";">>, c |-> ">"],
              [e |-> <<"&", "q", "u", "o", "t", ";">>, c |-> "\""],
              [e |-> <<"&", "a", "p", "o", "s", ";">>, c |-> "'"],
              [e |-> <<"&", "#", "3", "9", ";">>, c |-> "'"],
              [e |-> <<"&", "#", "x", "2", "7", ";">>, c |-> "'"] }

EntAt(t, i) == {x \in Entities : IsAt(x.e, t, i)}

\* no markup characters outside the renderer's tags, every & starts a character reference
Clean(t) == \A i \in 1..Len(t) : /\ t[i] # "<"
                                 /\ t[i] # ">"
                                 /\ t[i] = "&" => EntAt(t, i) # {}

RECURSIVE Unescape(_, _)
Unescape(t, i) == IF i > Len(t) THEN <<>>
                  ELSE IF t[i] = "&" /\ EntAt(t, i) # {}
                       THEN LET x == CHOOSE x \in EntAt(t, i) : TRUE
                            IN <<x.c>> \o Unescape(t, i + Len(x.e))
                       ELSE <<t[i]>> \o Unescape(t, i + 1)

\* `out` is a safe rendering of the text `txt`
Safe(out, txt) == LET t == Strip(out, 1) IN Clean(t) /\ Unescape(t, 1) = txt

\* C20 for the writer: in every reachable state the buffer is a safe rendering of what was written
NoUserMarkup == Safe(buf, written)

\* C20 for the formatter
FormatSafe(t, s) == Safe(FormatPart(t, s), s)

\* spans of the renderer are balanced and not nested (not part of C20; kept as a fact about the rule)
RECURSIVE Depths(_, _, _)
Depths(s, i, d) == IF i > Len(s) THEN <<d>>
                   ELSE LET n == OpenLen(s, i) IN
                        IF n > 0 THEN <<d>> \o Depths(s, i + n, d + 1)
                        ELSE IF IsAt(CloseTag, s, i) THEN <<d>> \o Depths(s, i + Len(CloseTag), d - 1)
                        ELSE Depths(s, i + 1, d)
Balanced(s) == LET ds == Depths(s, 1, 1) IN ds[Len(ds)] = 1 /\ \A k \in 1..Len(ds) : ds[k] \in {1, 2}
=============================================================================
