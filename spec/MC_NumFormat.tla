---------------------------- MODULE MC_NumFormat ----------------------------
(***************************************************************************)
(* C14: bounded exploration of NumFormat.tla.                              *)
(*  MC: on every generated (value, options) pair the reference formatter   *)
(*      reads back as the rounded value / as the integer itself, Judge     *)
(*      accepts it and rejects a corrupted text.                           *)
(*  G:  one CASE line per pair with what the property predicts: the exact  *)
(*      text on the integer / keyword branch, the admissible read-back     *)
(*      values (and the notation class, drift only) on the float branch.   *)
(* Case space: ALL canonical digit strings of length <= MaxLen, plus       *)
(* boundary patterns of length 5..17, times every exponent EMin..EMax of   *)
(* the first digit, times a table of option sets; sign by a parity hash.   *)
(***************************************************************************)
EXTENDS NumFormat, TLC, Json

CONSTANTS MaxLen,      \* all digit strings up to this length
          ELo, EHi,    \* exponent (of the first digit) range is (ELo - 100)..(EHi - 100)
                       \* (configuration files have no negative numbers)
          Mode,        \* "short": all short strings; "patterns": boundary patterns; "main": both;
                       \* "extreme": settings beyond the sane range
          OptPick,     \* "all": every option set of the table; "hash": one option set per case (by a hash)
          WideMod,     \* boundary patterns: 1 = every option set of the wide table, m = every m-th (by a hash)
          Emit         \* "cases" | "none"

EMin == ELo - 100
EMax == EHi - 100

VARIABLES stage,   \* "seed" -> "str" (-> "str" by appending a digit) -> "case"
          cls, ds, e, oi, grow, tab
vars == <<stage, cls, ds, e, oi, grow, tab>>

---------------------------------------------------------------------------
(* option tables; sep is the separator as a string (for the harness), the spec uses its characters *)

SepChars(s) == CASE s = "" -> <<>> [] s = "_" -> <<"_">> [] s = "," -> <<",">> [] s = " " -> <<" ">>
                 [] s = "'" -> <<"'">> [] s = "~~" -> <<"~", "~">>
                 [] s = "~~~~~~~~~" -> <<"~", "~", "~", "~", "~", "~", "~", "~", "~">>
O(s, t, g) == [sep |-> s, thr |-> t, sig |-> g]

ShortOpts == << O("'", 9, 1), O(",", 4, 2), O("", 6, 3), O(" ", 0, 4), O("_", 6, 6) >>
WideOpts == << O("_", 6, 6), O(",", 4, 1), O("", 6, 2), O(" ", 0, 3), O("'", 9, 4), O("~~", 5, 5),
               O("_", 1, 7), O(",", 3, 8), O("_", 12, 9), O(" ", 16, 10), O("'", 17, 11), O("_", 7, 12),
               O(",", 15, 13), O("_", 10, 14), O("", 0, 15), O("_", 16, 16), O(",", 2, 17), O("_", 13, 20) >>
\* settings the configuration file accepts (usize / any string) but that are far outside the usual range
ExtremeOpts == << O("_", 6, 256), O("_", 6, 257), O(",", 4, 258), O("_", 6, 1024), O("~~~~~~~~~", 6, 6) >>

AllOpts == ShortOpts \o WideOpts \o ExtremeOpts
OptIdx(t) == CASE t = "short" -> 1..Len(ShortOpts)
               [] t = "wide" -> (Len(ShortOpts) + 1)..(Len(ShortOpts) + Len(WideOpts))
               [] t = "extreme" -> (Len(ShortOpts) + Len(WideOpts) + 1)..Len(AllOpts)
SpecOpt(k) == [sep |-> SepChars(AllOpts[k].sep), thr |-> AllOpts[k].thr, sig |-> AllOpts[k].sig]

ASSUME PrintT(<<"META", ToJson([opts |-> AllOpts])>>)

---------------------------------------------------------------------------
(* boundary patterns (canonical digit strings) *)

Rep(d, k) == [i \in 1..k |-> d]
Ramp == <<1, 2, 3, 4, 5, 6, 7, 8, 9, 0, 1, 2, 3, 4, 5, 6, 7>>
P253 == <<9, 0, 0, 7, 1, 9, 9, 2, 5, 4, 7, 4, 0, 9>>      \* 2^53 = 9007199254740992
P252 == <<4, 5, 0, 3, 5, 9, 9, 6, 2, 7, 3, 7, 0, 4>>      \* 2^52 = 4503599627370496

Patterns ==
    {Rep(9, k) : k \in 5..17}                                          \* 9...9
    \cup {Rep(9, k) \o t : k \in 1..15, t \in {<<5>>, <<4>>, <<4, 9>>, <<5, 1>>}}  \* carry at the rounding position
    \cup {<<1>> \o Rep(0, k) \o t : k \in 3..14, t \in {<<1>>, <<5>>, <<4>>, <<5, 1>>, <<4, 9>>}}  \* 100.00001
    \cup {SubSeq(Ramp, 1, k) : k \in 5..17 \ {10}}
    \cup {SubSeq(Ramp, 1, k) \o <<5>> : k \in 4..15 \ {10}}            \* a decimal tie after k digits
    \cup {SubSeq(Ramp, 1, k) \o <<5, 1>> : k \in 4..14 \ {10}}
    \cup {Rep(5, k) : k \in 5..17} \cup {<<4>> \o Rep(9, k) : k \in 4..16}
    \cup {P253 \o t : t \in {<<9, 2>>, <<9, 1>>, <<9, 3>>, <<9, 4>>, <<9>>, <<8, 9>>, <<9, 2, 5>>}}  \* around 2^53
    \cup {P252 \o t : t \in {<<9, 6>>, <<9, 5>>, <<9, 7>>, <<9, 6, 5>>, <<9, 5, 5>>}}                \* around 2^52
    \cup {<<3, 1, 4, 1, 5, 9, 2, 6, 5, 3, 5, 8, 9, 7, 9>>, <<2, 7, 1, 8, 2, 8, 1, 8, 2, 8, 4, 5, 9, 0, 4, 5>>,
          <<1, 7, 9, 7, 6, 9, 3, 1, 3, 4, 8, 6, 2, 3, 1, 5, 7>>, <<2, 2, 2, 5, 0, 7, 3, 8, 5, 8, 5, 0, 7, 2, 0, 1, 4>>,
          <<1, 0, 0, 0, 0, 0, 0, 0, 0, 0, 0, 0, 0, 0, 0, 0, 2>>}

ExtremeSeeds == {<<1, 5>>, <<5, 5>>, <<1, 2, 5>>, <<1, 2, 3, 4, 5, 6, 7, 8, 9>>, <<9, 9, 9, 9, 9, 9, 9, 5>>, <<7>>}

Seed(c, d, g, t) == [c |-> c, d |-> d, g |-> g, t |-> t]
Seeds ==
    IF Mode = "extreme"
    THEN {Seed("fin", d, FALSE, "extreme") : d \in ExtremeSeeds}
    ELSE (IF Mode \in {"main", "short"}
          THEN {Seed("fin", <<d>>, TRUE, "short") : d \in 1..9}
               \cup {Seed("fin", <<0>>, FALSE, "short"), Seed("inf", <<0>>, FALSE, "short"),
                     Seed("nan", <<0>>, FALSE, "short")}
          ELSE {})
         \cup (IF Mode \in {"main", "patterns"} THEN {Seed("fin", d, FALSE, "wide") : d \in Patterns} ELSE {})

RECURSIVE SumSeq(_)
SumSeq(s) == IF s = <<>> THEN 0 ELSE Head(s) + SumSeq(Tail(s))
Hash(d, ee) == SumSeq(d) + 3 * Len(d) + ee + 1000

---------------------------------------------------------------------------
Init == /\ stage = "seed" /\ e = 0 /\ oi = 0
        /\ \E s \in Seeds : cls = s.c /\ ds = s.d /\ grow = s.g /\ tab = s.t

\* canonical digit strings only are cases (no trailing zero; <<0>> is zero)
CanonDigits == cls # "fin" \/ ds[Len(ds)] # 0 \/ ds = <<0>>
Picks == IF OptPick = "hash" /\ tab = "short" /\ Len(ds) = MaxLen
         THEN {(Hash(ds, e) % Len(ShortOpts)) + 1}
         ELSE IF tab = "wide" THEN {k \in OptIdx(tab) : (Hash(ds, e) + k) % WideMod = 0}
         ELSE OptIdx(tab)

Next == \/ /\ stage = "seed"
           /\ \E ee \in (IF cls = "fin" /\ ds # <<0>> THEN EMin..EMax ELSE {0}) : e' = ee
           /\ stage' = "str"
           /\ UNCHANGED <<cls, ds, oi, grow, tab>>
        \/ /\ stage = "str" /\ grow /\ Len(ds) < MaxLen
           /\ \E d \in 0..9 : ds' = Append(ds, d)
           /\ UNCHANGED <<stage, cls, e, oi, grow, tab>>
        \/ /\ stage = "str" /\ CanonDigits
           /\ \E k \in Picks : oi' = k
           /\ stage' = "case"
           /\ UNCHANGED <<cls, ds, e, grow, tab>>

Spec == Init /\ [][Next]_vars

---------------------------------------------------------------------------
(* the case of a state *)

Emittable == stage = "case"

Negative == IF cls = "nan" THEN FALSE ELSE (Hash(ds, e) + oi) % 2 = 1
XS == [cls |-> cls, neg |-> Negative /\ (cls = "inf" \/ ds # <<0>>), ds |-> ds, e |-> e]
OS == SpecOpt(oi)

RECURSIVE StrCat(_)
StrCat(s) == IF s = <<>> THEN "" ELSE Head(s) \o StrCat(Tail(s))

\* a number as a literal string, e.g. "-1.25e-7"
Lit(r) == StrCat((IF r.neg THEN <<"-">> ELSE <<>>) \o <<DigitChar(r.ds[1])>>
                 \o (IF Len(r.ds) > 1 THEN <<".">> \o Chars(Tail(r.ds)) ELSE <<>>)
                 \o <<"e">> \o (IF r.e < 0 THEN <<"-">> ELSE <<>>) \o NatChars(IF r.e < 0 THEN -r.e ELSE r.e))

Finite == cls = "fin"

\* everything below is parameterised by the (once evaluated) case: x = XS, o = OS, t = Format(x, o)
\* (TLC re-evaluates zero-arity definitions and LETs on every reference; binding by \A v \in {expr} does not)
BranchOf(x) == IF x.cls # "fin" THEN "K" ELSE IF IntBranch(x) THEN "I" ELSE "F"

CaseRec(x, o, t, b, r) ==
    [d |-> StrCat(Chars(ds)), e |-> e, n |-> IF x.neg THEN 1 ELSE 0, c |-> cls, o |-> oi, k |-> b,
     t |-> IF b = "F" THEN "" ELSE StrCat(t),
     a |-> IF b # "F" THEN <<>>
           ELSE <<Lit(r)>> \o (IF IsTie(x, o.sig) THEN <<Lit(RoundDown(x, o.sig))>> ELSE <<>>),
     p |-> IF b = "F" /\ Positional(r) THEN 1 ELSE 0]

---------------------------------------------------------------------------
(* MC: the property on the specification's own formatter *)

Ok(v) == [ok |-> TRUE, v |-> v]

\* integers below 2^53 are displayed with all their digits and read back as themselves
PIntReadBack(x, o, t, b, r) == b = "I" =>
    /\ ReadBack(t, o.sep) = Ok(Canon(x))
    /\ Strip(t, o.sep) = SignChars(x) \o Chars(IntDigits(x))

\* everything else reads back as the value rounded to `sig` significant digits
PFloatReadBack(x, o, t, b, r) == b = "F" => ReadBack(t, o.sep) = Ok(r)

PKeywords(x, o, t, b, r) == b = "K" => ReadBack(t, o.sep) = Ok(Canon(x))

\* the relation that judges the implementation accepts the reference formatter ...
PJudgeAccepts(x, o, t, b, r) == Judge(x, o, t) /\ NotationOK(x, o, t)

\* ... and is not vacuous: changing the leading digit of the displayed text is always rejected
Corrupt(t) == IF \E i \in 1..Len(t) : IsDigitChar(t[i]) /\ t[i] # "0"
              THEN LET i == CHOOSE i \in 1..Len(t) : IsDigitChar(t[i]) /\ t[i] # "0"
                                                     /\ \A j \in 1..(i - 1) : ~(IsDigitChar(t[j]) /\ t[j] # "0")
                   IN [t EXCEPT ![i] = DigitChar((DigitVal(t[i]) % 9) + 1)]
              ELSE t \o <<"1">>
PJudgeRejects(x, o, t, b, r) == b # "K" => ~Judge(x, o, Corrupt(t))

\* rounding: at most `sig` digits, idempotent, one of the two neighbours, only 5..9 rounds up
PRound(x, o, t, b, r) == (b # "K" /\ ~IsZero(x)) =>
    LET n == o.sig
    IN /\ Len(r.ds) <= n
       /\ RoundSig(r, n) = r
       /\ r \in {RoundDown(x, n), RoundUp(x, n)}
       /\ (Len(x.ds) > n /\ x.ds[n + 1] < 5) => r = RoundDown(x, n)
       /\ Len(x.ds) <= n => r = Canon(x)

OnCase(P(_, _, _, _, _)) ==
    Emittable => \A x \in {XS} : \A o \in {OS} : \A t \in {Format(x, o)} : \A b \in {BranchOf(x)} :
                 \A r \in {IF b = "K" THEN x ELSE RoundSig(x, o.sig)} : P(x, o, t, b, r)

InvIntReadBack == OnCase(PIntReadBack)
InvFloatReadBack == OnCase(PFloatReadBack)
InvKeywords == OnCase(PKeywords)
InvJudgeAccepts == OnCase(PJudgeAccepts)
InvJudgeRejects == OnCase(PJudgeRejects)
InvRound == OnCase(PRound)

\* all of the above and the CASE line with one evaluation of the case (used by the check; the single
\* invariants are kept for diagnosis)
PAll(x, o, t, b, r) ==
    /\ PIntReadBack(x, o, t, b, r) /\ PFloatReadBack(x, o, t, b, r) /\ PKeywords(x, o, t, b, r)
    /\ PJudgeAccepts(x, o, t, b, r) /\ PJudgeRejects(x, o, t, b, r) /\ PRound(x, o, t, b, r)
    /\ Emit = "cases" => PrintT(<<"CASE", ToJson(CaseRec(x, o, t, b, r))>>)
InvAll == OnCase(PAll)
=============================================================================
