CONSTANTS NH = 3
          Elems = {1, 2, 3}
          MaxLen = 64
          Strict = TRUE
SPECIFICATION TraceSpec
INVARIANTS TypeOK Refines EqOk EndIsLen RcOk NoPanic
POSTCONDITION TraceAccepted
CHECK_DEADLOCK FALSE
