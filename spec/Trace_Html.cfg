CONSTANTS WriterEscapes = TRUE
SPECIFICATION TraceSpec
INVARIANTS TraceNoUserMarkup
POSTCONDITION TraceAccepted
CHECK_DEADLOCK FALSE
