CONSTANTS Variant = "pinned"
SPECIFICATION Spec
INVARIANTS CheckAndEmit
CHECK_DEADLOCK FALSE
