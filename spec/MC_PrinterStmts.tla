--------------------------- MODULE MC_PrinterStmts ---------------------------
(***************************************************************************)
(* C15: the statement forms of the echo.  A fixed list of statement        *)
(* templates (variables with inferred / annotated / polymorphic types,     *)
(* functions with generic and inferred signatures and where clauses, units *)
(* with every decorator, dimensions, structs, strings with escapes and     *)
(* interpolation, temperature sugar); each carries the input text and the  *)
(* typed statement the checker produces for it (Printer.tla's forms).      *)
(* MC: StmtRoundTrip(Variant, s): the echo of s, read by the statement     *)
(*     grammar, is accepted and means s.  Fails for "pinned" (TLC shows    *)
(*     the first defective template), holds for "repaired".                *)
(* G:  one CASE line per template: input, probes, the echo predicted by    *)
(*     the pinned and the repaired rules, the spec-level verdicts and the  *)
(*     rule defects involved.  (That the input really has the typed form   *)
(*     written here is validated by the replay: the real echo must be the  *)
(*     predicted one.)                                                     *)
(***************************************************************************)
EXTENDS Printer, Json

CONSTANT Variant

Known == {"Scalar", "Length", "Time", "Mass", "Velocity", "Area", "Activity", "Frequency", "Temperature"}

N(v) == <<"num", v>>
V(v) == <<"id", v>>
M == <<"unit", "m", "metre">>
S == <<"unit", "s", "second">>
KG == <<"unit", "kg", "kilogram">>
CM == <<"unit", "cm", "centimetre">>
Bin(op, l, r) == <<op, l, r>>
CallN(f, args) == <<"call", V(f), args>>
Two(u) == Bin("mul", N("2"), u)

TI(n) == <<"tid", n>>
Vec(fs) == <<"tvec", fs>>
F(n, a, b) == <<n, a, b>>
Ann(T) == <<"ann", T>>
Inf(T) == <<"inf", << >>, << >>, T>>
Named(names) == <<"inf", << >>, names, <<"tone">>>>
Poly(q, T) == <<"inf", q, << >>, T>>
Length == Named(<<"Length">>)
Scalar == Inf(Vec(<< >>))
A1 == Vec(<<F("A", 1, 1)>>)
B1 == Vec(<<F("B", 1, 1)>>)
Some(e) == <<"some", e>>
Chars(s) == s      \* (sequences of 1-character strings are written out below)

Tpl(i, s, pr) == [i |-> i, s |-> s, pr |-> pr]

Templates == <<
  \* ---- variables
  Tpl("let zqa = 2 m", <<"slet", "zqa", Length, Two(M)>>, << >>),
  Tpl("let zqa: Length = 2 m", <<"slet", "zqa", Ann(TI("Length")), Two(M)>>, << >>),
  Tpl("let zqa = 2 m / s", <<"slet", "zqa", Named(<<"Velocity">>), Bin("div", Two(M), S)>>, << >>),
  Tpl("let zqa = 2 m * s", <<"slet", "zqa", Inf(Vec(<<F("Length", 1, 1), F("Time", 1, 1)>>)), Bin("mul", Two(M), S)>>, << >>),
  Tpl("let zqa = 2 m^2 * s^-3 * kg^(1/2)",
    <<"slet", "zqa", Inf(Vec(<<F("Length", 2, 1), F("Mass", 1, 2), F("Time", -3, 1)>>)),
      Bin("mul", Bin("mul", Bin("mul", N("2"), Bin("pow", M, N("2"))), Bin("pow", S, <<"neg", N("3")>>)),
          Bin("pow", KG, Bin("div", N("1"), N("2"))))>>, << >>),
  Tpl("let zqa = 0", <<"slet", "zqa", Poly(<< <<"A", TRUE>> >>, A1), N("0")>>, <<"zqa + 1 m", "zqa + 1 s">>),
  Tpl("let zqa = []", <<"slet", "zqa", Poly(<< <<"A", FALSE>> >>, <<"tlist", A1>>), <<"list", << >>>>>>, << >>),
  Tpl("let zqa = sqrt", <<"slet", "zqa", Poly(<< <<"A", TRUE>> >>, <<"tfn", <<Vec(<<F("A", 2, 1)>>)>>, A1>>), V("sqrt")>>, <<"zqa(4 m^2)">>),
  Tpl("let zqa = 1 / s", <<"slet", "zqa", Named(<<"Activity", "Frequency">>), Bin("div", N("1"), S)>>, << >>),
  Tpl("let zqa: Length^(1/2) = (2 m)^(1/2)",
    <<"slet", "zqa", Ann(<<"tpow", TI("Length"), 1, 2>>), Bin("pow", Two(M), Bin("div", N("1"), N("2")))>>, << >>),
  Tpl("let zqa: Length^-2 = 1 / m^2",
    <<"slet", "zqa", Ann(<<"tpow", TI("Length"), -2, 1>>), Bin("div", N("1"), Bin("pow", M, N("2")))>>, << >>),
  Tpl("let zqa: Length * Time / Mass = 2 m s / kg",
    <<"slet", "zqa", Ann(<<"tdiv", <<"tmul", TI("Length"), TI("Time")>>, TI("Mass")>>), Bin("div", Bin("mul", Two(M), S), KG)>>, << >>),
  Tpl("let zqa: Length / (Time * Mass) = 2 m / (s kg)",
    <<"slet", "zqa", Ann(<<"tdiv", TI("Length"), <<"tmul", TI("Time"), TI("Mass")>>>>), Bin("div", Two(M), Bin("mul", S, KG))>>, << >>),
  Tpl("let zqa = true", <<"slet", "zqa", Inf(<<"tbool">>), <<"bool", "true">>>>, << >>),
  Tpl("let zqa = \"a{2 m}b \\n \\\" {{ }} \\\\ {2:.3f}\"",
    <<"slet", "zqa", Inf(<<"tstring">>),
      <<"str", << <<"fix", <<"a">>>>, <<"ipl", Two(M), "">>, <<"fix", <<"b", " ", "\n", " ", "\"", " ", "{", " ", "}", " ", "\\", " ">>>>,
                  <<"ipl", N("2"), ":.3f">> >> >> >>, << >>),
  Tpl("let zqa = [1 m, 2 m]", <<"slet", "zqa", Inf(<<"tlist", TI("Length")>>), <<"list", <<Bin("mul", N("1"), M), Two(M)>>>>>>, << >>),
  Tpl("let zqa: List<Length> = [2 m]", <<"slet", "zqa", Ann(<<"tlist", TI("Length")>>), <<"list", <<Two(M)>>>>>>, << >>),
  Tpl("let zqa: Fn[(Length) -> Length] = abs", <<"slet", "zqa", Ann(<<"tfn", <<TI("Length")>>, TI("Length")>>), V("abs")>>, <<"zqa(-2 m)">>),
  \* ---- functions
  Tpl("fn zqf(x) = x", <<"sfn", "zqf", << <<"A", FALSE>> >>, << <<"x", Inf(A1)>> >>, Inf(A1), Some(V("x")), << >>>>,
    <<"zqf(2 m)", "zqf(true)", "zqf(\"s\")">>),
  Tpl("fn zqf(x) = 2 x", <<"sfn", "zqf", << <<"A", TRUE>> >>, << <<"x", Inf(A1)>> >>, Inf(A1), Some(Two(V("x"))), << >>>>,
    <<"zqf(2 m)", "zqf(3)", "zqf(true)">>),
  Tpl("fn zqf(x: Length) -> Length = 2 x",
    <<"sfn", "zqf", << >>, << <<"x", Ann(TI("Length"))>> >>, Ann(TI("Length")), Some(Two(V("x"))), << >>>>, <<"zqf(2 m)", "zqf(3)">>),
  Tpl("fn zqf<D: Dim>(x: D) -> D^2 = x * x",
    <<"sfn", "zqf", << <<"D", TRUE>> >>, << <<"x", Ann(TI("D"))>> >>, Ann(<<"tpow", TI("D"), 2, 1>>), Some(Bin("mul", V("x"), V("x"))), << >>>>,
    <<"zqf(2 m)", "zqf(3 s)">>),
  Tpl("fn zqf(x, y) = x / y^2",
    <<"sfn", "zqf", << <<"A", TRUE>>, <<"B", TRUE>> >>, << <<"x", Inf(A1)>>, <<"y", Inf(B1)>> >>, Inf(Vec(<<F("A", 1, 1), F("B", -2, 1)>>)),
      Some(Bin("div", V("x"), Bin("pow", V("y"), N("2")))), << >>>>, <<"zqf(2 m, 2 s)">>),
  Tpl("fn zqf(x) = sqrt(x)",
    <<"sfn", "zqf", << <<"A", TRUE>> >>, << <<"x", Inf(Vec(<<F("A", 2, 1)>>))>> >>, Inf(A1), Some(CallN("sqrt", <<V("x")>>)), << >>>>,
    <<"zqf(4 m^2)", "zqf(9)">>),
  Tpl("fn zqf(x) = (x / s) + x^2",
    <<"sfn", "zqf", << >>, << <<"x", Named(<<"Activity", "Frequency">>)>> >>, Inf(Vec(<<F("Time", -2, 1)>>)),
      Some(Bin("add", Bin("div", V("x"), S), Bin("pow", V("x"), N("2")))), << >>>>, <<"zqf(2 / s)">>),
  Tpl("fn zqf(x: Length) = y + z\n  where y = 2 x\n    and z = y * 2",
    <<"sfn", "zqf", << >>, << <<"x", Ann(TI("Length"))>> >>, Length, Some(Bin("add", V("y"), V("z"))),
      << <<"y", Length, Two(V("x"))>>, <<"z", Length, Bin("mul", V("y"), N("2"))>> >> >>, <<"zqf(2 m)">>),
  Tpl("fn zqf(xs) = head(xs)",
    <<"sfn", "zqf", << <<"A", FALSE>> >>, << <<"xs", Inf(<<"tlist", A1>>)>> >>, Inf(A1), Some(CallN("head", <<V("xs")>>)), << >>>>,
    <<"zqf([2 m])", "zqf([\"a\"])">>),
  Tpl("fn zqf(b) = if b then 1 else 2",
    <<"sfn", "zqf", << >>, << <<"b", Inf(<<"tbool">>)>> >>, Scalar, Some(<<"if", V("b"), N("1"), N("2")>>), << >>>>, <<"zqf(true)">>),
  Tpl("fn zqf() = 2 m", <<"sfn", "zqf", << >>, << >>, Length, Some(Two(M)), << >>>>, <<"zqf()">>),
  Tpl("fn zqf(f, x) = f(x)",
    <<"sfn", "zqf", << <<"A", FALSE>>, <<"B", FALSE>> >>, << <<"f", Inf(<<"tfn", <<B1>>, A1>>)>>, <<"x", Inf(B1)>> >>, Inf(A1),
      Some(<<"call", V("f"), <<V("x")>>>>), << >>>>, <<"zqf(sqrt, 4 m^2)", "zqf(str_length, \"abc\")">>),
  Tpl("fn zqf(x: Length) -> Length = (if x > 2 m then x else 2 m) -> cm",
    <<"sfn", "zqf", << >>, << <<"x", Ann(TI("Length"))>> >>, Ann(TI("Length")),
      Some(Bin("conv", <<"if", Bin("gt", V("x"), Two(M)), V("x"), Two(M)>>, CM)), << >>>>, <<"zqf(5 m)", "zqf(1 m)">>),
  \* ---- units
  Tpl("unit zqu", <<"sunit", << >>, "zqu", <<"implicit", "Zqu">>, None>>, <<"2 zqu", "2 zqu^2">>),
  Tpl("unit zqu: Length", <<"sunit", << >>, "zqu", Ann(TI("Length")), None>>, <<"2 zqu + 1 m">>),
  Tpl("unit zqu = 2 m", <<"sunit", << >>, "zqu", Length, Some(Two(M))>>, <<"3 zqu -> m">>),
  Tpl("@metric_prefixes\n@aliases(zqv: short, zqw)\nunit zqu: Length = 2 m",
    <<"sunit", << <<"metric_prefixes">>, <<"aliases", << <<"zqv", "short">>, <<"zqw", "">> >> >> >>, "zqu", Ann(TI("Length")), Some(Two(M))>>,
    <<"3 kzqv -> m", "3 zqw -> m", "3 kilozqu -> m">>),
  Tpl("@name(\"Foo bar\")\n@url(\"https://x.y/z\")\n@aliases(zqv: both, zqw: long, zqq: none)\n@binary_prefixes\nunit zqu: Length",
    <<"sunit", << <<"name", <<"F", "o", "o", " ", "b", "a", "r">>>>, <<"url", <<"h", "t", "t", "p", "s", ":", "/", "/", "x", ".", "y", "/", "z">>>>,
                  <<"aliases", << <<"zqv", "both">>, <<"zqw", "long">>, <<"zqq", "none">> >> >>, <<"binary_prefixes">> >>,
      "zqu", Ann(TI("Length")), None>>, <<"3 kibizqw -> zqu">>),
  Tpl("@description(\"a \\\"q\\\" \\\\ {{b}}\")\n@abbreviation\nunit zqu: Length = 8 m",
    <<"sunit", << <<"description", <<"a", " ", "\"", "q", "\"", " ", "\\", " ", "{", "b", "}">>>>, <<"abbreviation">> >>, "zqu", Ann(TI("Length")), Some(Bin("mul", N("8"), M))>>,
    <<"1 zqu -> m">>),
  Tpl("@name(\"Foo bar\")\nunit zqu", <<"sunit", << <<"name", <<"F", "o", "o", " ", "b", "a", "r">>>> >>, "zqu", <<"implicit", "Zqu">>, None>>, <<"2 zqu">>),
  \* ---- dimensions
  Tpl("dimension Zqd", <<"sdim", "Zqd", << >>>>, << >>),
  Tpl("dimension Zqd = Length / Time", <<"sdim", "Zqd", << <<"tdiv", TI("Length"), TI("Time")>> >> >>, <<"let zqa: Zqd = 2 m / s">>),
  Tpl("dimension Zqd = Length^2 * Time^(-1/2) = Area / Time^(1/2)",
    <<"sdim", "Zqd", << <<"tmul", <<"tpow", TI("Length"), 2, 1>>, <<"tpow", TI("Time"), -1, 2>>>>, <<"tdiv", TI("Area"), <<"tpow", TI("Time"), 1, 2>>>> >> >>, << >>),
  Tpl("dimension Zqd = Length^2 / (Time * Mass)",
    <<"sdim", "Zqd", << <<"tdiv", <<"tpow", TI("Length"), 2, 1>>, <<"tmul", TI("Time"), TI("Mass")>>>> >> >>, << >>),
  \* ---- structs
  Tpl("struct Zqt { a: Length, b: Bool }", <<"sstruct", "Zqt", << >>, << <<"a", Inf(TI("Length"))>>, <<"b", Inf(<<"tbool">>)>> >> >>,
    <<"Zqt { a: 2 m, b: true }.a">>),
  Tpl("struct Zqt {}", <<"sstruct", "Zqt", << >>, << >>>>, <<"Zqt {}">>),
  Tpl("struct Zqt { a: Length^2 / Time }", <<"sstruct", "Zqt", << >>, << <<"a", Inf(Vec(<<F("Length", 2, 1), F("Time", -1, 1)>>))>> >> >>,
    <<"Zqt { a: 2 m^2 / s }.a">>),
  Tpl("struct Zqt<D: Dim> { a: D, b: List<D> }",
    <<"sstruct", "Zqt", << <<"D", TRUE>> >>, << <<"a", Inf(TI("D"))>>, <<"b", Inf(<<"tlist", TI("D")>>)>> >> >>, <<"Zqt { a: 2 m, b: [2 m] }.a">>),
  \* ---- expression statements with sugar and procedures
  Tpl("print(\"a{2 m}\")", <<"sexpr", CallN("print", << <<"str", << <<"fix", <<"a">>>>, <<"ipl", Two(M), "">> >> >> >>)>>, << >>),
  Tpl("assert_eq(2 m, 200 cm)", <<"sexpr", CallN("assert_eq", <<Two(M), Bin("mul", N("200"), CM)>>)>>, << >>),
  Tpl("2 °C", <<"sexpr", CallN("from_celsius", <<N("2")>>)>>, << >>),
  Tpl("-2 °C", <<"sexpr", CallN("from_celsius", << <<"neg", N("2")>> >>)>>, << >>),
  Tpl("(2 + 3) °F", <<"sexpr", CallN("from_fahrenheit", <<Bin("add", N("2"), N("3"))>>)>>, << >>),
  Tpl("2 °C -> °F", <<"sexpr", CallN("°F", <<CallN("from_celsius", <<N("2")>>)>>)>>, << >>),
  Tpl("fahrenheit(2 °C)", <<"sexpr", CallN("fahrenheit", <<CallN("from_celsius", <<N("2")>>)>>)>>, << >>),
  Tpl("2 m per s", <<"sexpr", Bin("div", Two(M), S)>>, << >>),
  Tpl("2 m |> sqr", <<"sexpr", CallN("sqr", <<Two(M)>>)>>, << >>),
  Tpl("2 m -> sqr", <<"sexpr", <<"call", V("sqr"), <<Two(M)>>>>>>, << >>),
  Tpl("m²", <<"sexpr", Bin("pow", M, N("2"))>>, << >>),
  Tpl("m^-3", <<"sexpr", Bin("pow", M, <<"neg", N("3")>>)>>, << >>),
  Tpl("+2 m", <<"sexpr", Two(M)>>, << >>)
>>

VARIABLE k
Init == k = 0
Next == k < Len(Templates) /\ k' = k + 1
Spec == Init /\ [][Next]_k

\* rule defects of the statement forms that the echo of s runs into (the repairs "repaired" makes)
RtTags(rt, quantifiers) ==
  CASE rt[1] = "ann" -> {}
    [] rt[1] = "implicit" -> {"stmt/implicit-dimension"}
    [] rt[1] = "inf" -> (IF quantifiers /\ rt[2] # << >> THEN {"stmt/polymorphic-annotation"} ELSE {})
                        \cup (IF Len(rt[3]) >= 2 /\ ~(quantifiers /\ rt[2] # << >>) THEN {"stmt/dimension-alternatives"} ELSE {})
ExprTags(e) == { d[1] \o "/" \o d[2] : d \in UsedDiff("arg", e) }
StmtTags(s) ==
  CASE s[1] = "sexpr" -> ExprTags(s[2])
    [] s[1] = "slet" -> RtTags(s[3], TRUE) \cup ExprTags(s[4])
    [] s[1] = "sfn" -> UNION { RtTags(s[4][i][2], FALSE) : i \in 1..Len(s[4]) } \cup RtTags(s[5], FALSE)
                       \cup (IF s[6] = None THEN {} ELSE ExprTags(s[6][2]))
                       \cup UNION { RtTags(s[7][i][2], FALSE) \cup ExprTags(s[7][i][3]) : i \in 1..Len(s[7]) }
    [] s[1] = "sunit" -> RtTags(s[4], FALSE) \cup (IF s[5] = None THEN {} ELSE ExprTags(s[5][2]))
    [] s[1] \in {"sdim", "sstruct"} -> {}
TagSeq(X) == LET RECURSIVE Lst(_)
                 Lst(Y) == IF Y = {} THEN << >> ELSE LET e == CHOOSE x \in Y : TRUE IN <<e>> \o Lst(Y \ {e})
             IN Lst(X)

\* one evaluation per template and variant: [text, reads back, text of the echo of the echo ("-" if it does not read back)]
Verdict(v, s) ==
  LET W == [t |-> "", ok |-> FALSE, t2 |-> ""] IN
  CHOOSE w \in { LET ps == PrintStmt(v, s)
                     r == ReadStmt(ps)
                     ok == Separated(ps) /\ StmtReadBack(r, s, Known)
                 IN [t |-> TextOf(ps), ok |-> ok, t2 |-> IF ok THEN TextOf(PrintStmt(v, Reread(s, r))) ELSE "-"] } : TRUE

CheckAndEmit == k > 0 =>
  \A t \in {Templates[k]} : \A wp \in {Verdict("pinned", t.s)} : \A wr \in {Verdict("repaired", t.s)} :
     /\ PrintT(<<"CASE", ToJson([n |-> k, i |-> t.i, pr |-> t.pr, p |-> wp.t, r |-> IF wr.t = wp.t THEN "=" ELSE wr.t,
                                 ok |-> wp.ok, okr |-> wr.ok, p2 |-> IF wp.t2 = wp.t THEN "=" ELSE wp.t2,
                                 r2 |-> IF wr.t2 = wr.t THEN "=" ELSE wr.t2, d |-> TagSeq(StmtTags(t.s))])>>)
     \* the echo reads back, and echoing what was read gives the same text
     /\ (IF Variant = "pinned" THEN wp.ok /\ wp.t2 = wp.t ELSE wr.ok /\ wr.t2 = wr.t)

ASSUME EscapeSound
ASSUME PrinterSpellingsKnown
ASSUME PrintT(<<"META", ToJson([setup |-> << >>, n |-> Len(Templates)])>>)
=============================================================================
