----------------------------- MODULE MC_Typing -----------------------------
(***************************************************************************)
(* Case generation for C01/C02: all programs                               *)
(*     <catalogue of function/struct definitions>; let v_a = E1 [; let v_b = E2(za)] *)
(* with E1 ranging over all expression trees of the classes below, each    *)
(* printed with the type predicted by Typing.tla (or the rejection).       *)
(***************************************************************************)
EXTENDS Typing, Json

CONSTANTS Tier   \* "quick" | "thorough"

VARIABLES stage, seed, cs
vars == <<stage, seed, cs>>

Two == Num(2, 1, "2")
Zero == Num(0, 1, "0")
Half == Num(1, 2, "0.5")
LeavesSmall == {Two, Zero, U("m"), U("s"), U("km")}
LeavesAll == LeavesSmall \cup {U("cm"), U("min"), U("kg"), U("N"), U("Hz"), U("percent"), Half, NonFinite("inf"), NonFinite("NaN")}
Leaves == IF Tier = "quick" THEN LeavesSmall \cup {U("kg"), U("N"), U("percent"), NonFinite("inf")} ELSE LeavesAll
BinOps == {"add", "sub", "mul", "div", "conv", "lt", "eq"}

\* constant exponents: integer, fractional, composite, and rejected ones
One == Num(1, 1, "1")
Three == Num(3, 1, "3")
ConstExps == { Two, Three, Neg(One), Bin("div", One, Two), Bin("div", One, Three), Bin("div", Three, Two),
               Bin("sub", Bin("mul", Two, Three), Num(4, 1, "4")), Bin("pow", Two, Neg(One)),
               Bin("add", Num(1, 10, "0.1"), Num(2, 10, "0.2")), Bin("div", One, Bin("add", One, Two)),
               Bin("div", One, Zero), U("m"), Bin("pow", Two, Half), Half, Zero }

D1(L) == { Bin(op, x, y) : op \in BinOps, x \in L, y \in L } \cup { Bin("pow", x, c) : x \in L, c \in ConstExps }
         \cup { Neg(x) : x \in L }
D1Small == { Bin(op, x, y) : op \in {"add", "mul", "div"}, x \in LeavesSmall, y \in LeavesSmall }
           \cup { Bin("pow", x, c) : x \in {U("m"), U("s")}, c \in {Two, Bin("div", One, Two), Neg(One), Zero, Bin("sub", One, One)} }

\* contexts for the second statement (za is the variable defined by the first)
Za == V("v_a")
Ans == V("ans")
Ctx == { Bin("add", Za, U("m")), Bin("mul", Za, U("s")), Bin("conv", Za, U("cm")), Bin("pow", Za, Two),
         Bin("lt", Za, U("s")), CallF("f_len", <<Za>>), CallF("f_sq", <<Za>>), CallF("f_inf", <<Za>>), CallF("f_sqrt", <<Za>>),
         HeadOf(List2(Za, U("m"))), Fld(Mk(Za, U("s")), "a"), If(Bin("lt", Za, U("m")), Za, U("km")),
         Bin("div", Za, Za), Bin("pow", Za, Bin("div", One, Two)), Bin("add", Za, U("kg")), Bin("add", Za, Bin("div", U("m"), U("s"))),
         List2(Za, U("kg")), CallF("f_sum", <<Za, U("s")>>) }

NoExpr == E("none", << >>, "", <<0, 1>>, "")
Seeds == { [cls |-> c, l |-> x] : c \in {"d1", "d2l", "d2r", "call", "agg", "two", "if", "udef", "ans"}, x \in Leaves }

Completions(s) ==
  CASE s.cls = "d1" -> { [e1 |-> e, e2 |-> NoExpr] : e \in { Bin(op, s.l, y) : op \in BinOps, y \in Leaves }
                                                          \cup { Bin("pow", s.l, c) : c \in ConstExps } \cup { Neg(s.l), s.l } }
    [] s.cls = "d2l" -> { [e1 |-> Bin(op, d, s.l), e2 |-> NoExpr] : op \in BinOps, d \in D1Small }
    [] s.cls = "d2r" -> { [e1 |-> Bin(op, s.l, d), e2 |-> NoExpr] : op \in BinOps, d \in D1Small }
    [] s.cls = "call" -> { [e1 |-> CallF(f, <<s.l>>), e2 |-> NoExpr] : f \in {"f_len", "f_sq", "f_inf", "f_where", "f_sqrt", "f_shp", "f_shw"} }
                         \cup { [e1 |-> CallF(f, <<s.l, y>>), e2 |-> NoExpr] : y \in Leaves, f \in {"f_sum", "f_quot", "f_mix"} }
                         \cup { [e1 |-> CallF(f, <<d>>), e2 |-> NoExpr] : f \in {"f_len", "f_sq", "f_inf", "f_sqrt"},
                                                                       d \in { Bin(op, s.l, y) : op \in {"mul", "div"}, y \in LeavesSmall } }
    [] s.cls = "agg" -> { [e1 |-> HeadOf(List2(s.l, y)), e2 |-> NoExpr] : y \in Leaves }
                        \cup { [e1 |-> Fld(Mk(s.l, y), f), e2 |-> NoExpr] : y \in Leaves, f \in {"a", "b"} }
                        \cup { [e1 |-> List2(s.l, y), e2 |-> NoExpr] : y \in LeavesSmall }
                        \* a field of a struct that comes out of a generic function: its type is settled only by unification
                        \cup { [e1 |-> Fld(HeadOf(List2(Mk(s.l, y), Mk(U("m"), U("s")))), f), e2 |-> NoExpr] : y \in LeavesSmall, f \in {"a", "b"} }
                        \cup { [e1 |-> Bin(op, Fld(HeadOf(List2(Mk(s.l, U("s")), Mk(U("m"), U("s")))), f), z), e2 |-> NoExpr] :
                                    op \in {"add", "mul"}, f \in {"a", "b"}, z \in LeavesSmall }
                        \cup { [e1 |-> List2(Mk(s.l, y), Mk(U("m"), U("s"))), e2 |-> c] : y \in {U("s"), U("m")},
                                    c \in { Fld(HeadOf(Za), "a"), Bin("add", Fld(HeadOf(Za), "a"), U("s")), Bin("add", Fld(HeadOf(Za), "b"), U("s")),
                                            Bin("mul", Fld(HeadOf(Za), "a"), Fld(HeadOf(Za), "b")), Bin("lt", Fld(HeadOf(Za), "b"), U("m")) } }
    [] s.cls = "if" -> { [e1 |-> If(Bin("lt", s.l, y), z, w), e2 |-> NoExpr] : y \in LeavesSmall, z \in LeavesSmall, w \in Leaves }
                       \cup { [e1 |-> If(s.l, Two, Two), e2 |-> NoExpr] }
    \* user-defined units: a second base unit of an existing dimension, a derived unit, a unit of a derived dimension
    [] s.cls = "udef" -> { [e1 |-> Bin(op, s.l, U(u)), e2 |-> NoExpr] : op \in BinOps, u \in {"zbu", "zdu", "zau"} }
                         \cup { [e1 |-> Bin(op, U(u), s.l), e2 |-> NoExpr] : op \in {"sub", "div", "conv"}, u \in {"zbu", "zdu", "zau"} }
                         \cup { [e1 |-> Bin("pow", U(u), Two), e2 |-> Bin("add", Za, Bin("mul", s.l, s.l))] : u \in {"zbu", "zdu"} }
    \* the last result: an EXPRESSION statement (typed through generic / inferred functions, or directly), then a use of `ans`
    [] s.cls = "ans" -> { [e1 |-> d, e2 |-> c] :
                             d \in { s.l, Bin("mul", s.l, U("s")), CallF("f_sq", <<s.l>>), CallF("f_inf", <<s.l>>), CallF("f_sqrt", <<Bin("mul", s.l, s.l)>>),
                                     CallF("f_sum", <<s.l, s.l>>), Fld(HeadOf(List2(Mk(s.l, U("s")), Mk(U("m"), U("s")))), "a") },
                             c \in { Ans, Bin("mul", Ans, U("m")), CallF("f_len", <<Ans>>), Bin("pow", Ans, Two) }
                                   \cup { Bin("add", Ans, y) : y \in LeavesSmall } \cup { Bin("lt", y, Ans) : y \in {U("s"), U("m"), Two} } }
    [] s.cls = "two" -> { [e1 |-> d, e2 |-> c] : d \in { Bin(op, s.l, y) : op \in {"add", "mul", "div"}, y \in LeavesSmall }
                                                    \cup { s.l, Bin("pow", s.l, Two), Bin("pow", s.l, Bin("div", One, Two)), Bin("pow", s.l, Zero) }
                                                    \cup { CallF(f, <<s.l, y>>) : f \in {"f_quot", "f_mix"}, y \in {U("s"), U("m"), Two} },
                                               c \in Ctx }

Init == stage = 0 /\ seed = [cls |-> "", l |-> NoExpr] /\ cs = [e1 |-> NoExpr, e2 |-> NoExpr]
Next == \/ /\ stage = 0
           /\ \E s \in Seeds : seed' = s /\ stage' = 1 /\ UNCHANGED cs
        \/ /\ stage = 1
           /\ \E c \in Completions(seed) : cs' = c /\ stage' = 2 /\ UNCHANGED seed
Spec == Init /\ [][Next]_vars

EmptyEnv == [x \in {} |-> Poly]
T1 == TypeOf(EmptyEnv, cs.e1)
\* a variable bound to a polymorphic literal is generalised: every use may pick its own dimension
Env2 == [x \in {"v_a", "ans"} |-> T1]
RECURSIVE UsesAns(_)
UsesAns(e) == (e.op = "var" /\ e.name = "ans") \/ \E i \in 1..Len(e.args) : UsesAns(e.args[i])
\* cases of class `ans`: the first statement is the bare expression; skipped when its type is polymorphic (the type of `ans`
\* after a dimension-polymorphic literal is not part of this fragment)
AnsCase == cs.e2.op # "none" /\ UsesAns(cs.e2)
T2 == IF cs.e2.op = "none" THEN Poly ELSE IF IsErr(T1) THEN T1 ELSE TypeOf(Env2, cs.e2)

ASSUME PrintT(<<"META", ToJson([setup |-> [i \in 1..15 |->
            CASE i = 1 -> StructText [] i = 2 -> FnDef("f_len").text [] i = 3 -> FnDef("f_sq").text [] i = 4 -> FnDef("f_sum").text
              [] i = 5 -> FnDef("f_inf").text [] i = 6 -> FnDef("f_where").text [] i = 7 -> FnDef("f_sqrt").text
              [] i = 8 -> FnDef("f_quot").text [] i = 9 -> FnDef("f_mix").text
              [] i = 10 -> FnDef("f_shp").text [] i = 11 -> FnDef("f_shw").text
              [] OTHER -> UnitDefTexts[i - 11]]])>>)

\* MC sanity of the rule set itself: typing is total and well-formed
TypeTotal == stage = 2 => T1.k \in {"dim", "poly", "bool", "list", "polylist", "struct", "slist", "err"}

EmitCase == (stage = 2 /\ ~(AnsCase /\ T1.k = "poly")) =>
   PrintT(<<"CASE", ToJson([s1 |-> (IF AnsCase THEN "" ELSE "let v_a = ") \o Show(cs.e1), t1 |-> TypeJson(T1), expr1 |-> AnsCase,
                            s2 |-> IF cs.e2.op = "none" THEN "" ELSE "let v_b = " \o Show(cs.e2),
                            t2 |-> TypeJson(T2)])>>)
=============================================================================
