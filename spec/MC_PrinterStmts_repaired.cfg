CONSTANTS Variant = "repaired"
SPECIFICATION Spec
INVARIANTS CheckAndEmit
CHECK_DEADLOCK FALSE
