CONSTANTS Tier = "quick"
INIT DInit
NEXT DNext
CHECK_DEADLOCK FALSE
