------------------------------- MODULE Lexer -------------------------------
(***************************************************************************)
(* Tokens of Numbat's expression language, as documented.                  *)
(*                                                                         *)
(* Sources (the documentation, not the tokenizer's code):                  *)
(*   book/src/basics/operations.md      operator spellings                 *)
(*   book/src/basics/conversions.md     `->` `→` `➞` `to`                  *)
(*   book/src/basics/number-notation.md number forms                       *)
(*   book/src/examples/example-numbat_syntax.md  ("'·' or '⋅' works as     *)
(*                                       well", `2**3`, `2³`, `2^-3`)      *)
(*   grammar comment at the top of numbat/src/parser.rs (terminal symbols, *)
(*                                       number / hex_number / integer)    *)
(*                                                                         *)
(* Part 1: token kinds and the table of concrete spellings per kind.       *)
(* Part 2: which adjacent spellings need a separator (whitespace is        *)
(*         otherwise insignificant; it is NOT a token).                    *)
(* Part 3: the number-literal automaton over characters, with value.       *)
(*                                                                         *)
(* The table contains non-ASCII characters: run TLC with                   *)
(*   JAVA_TOOL_OPTIONS="-Dfile.encoding=UTF-8 -Dstdout.encoding=UTF-8"     *)
(* when it is printed (the check does).                                    *)
(*                                                                         *)
(* Text is a sequence of 1-character strings (TLC cannot index strings).   *)
(* The module has no constants and no variables; it is EXTENDed by         *)
(* Grammar.tla and by the model-checking / trace modules.                  *)
(***************************************************************************)
EXTENDS Integers, Sequences

-----------------------------------------------------------------------------
(* Part 1: token kinds *)

\* A token is a record [k |-> kind, v |-> payload]; the payload is a string: the identifier's
\* name, a label of the number's value, "true"/"false", the exponent "1".."9","-1".."-9" of a
\* Unicode exponent, and "" for all other kinds.
Tok(k, v) == [k |-> k, v |-> v]

OperandKinds == {"num", "id", "bool"}
BracketKinds == {"lp", "rp", "lb", "rb", "comma", "dot"}
CmpKinds     == {"lt", "gt", "le", "ge", "eq", "ne"}
OperatorKinds == {"plus", "minus", "mul", "div", "per", "pow", "bang", "uexp", "arrow",
                  "and", "or", "apply"} \cup CmpKinds
KeywordKinds == {"if", "then", "else"}
TokenKinds == OperandKinds \cup BracketKinds \cup OperatorKinds \cup KeywordKinds

UExpValues == {"1", "2", "3", "4", "5", "6", "7", "8", "9",
               "-1", "-2", "-3", "-4", "-5", "-6", "-7", "-8", "-9"}

\* The table of spellings.  cls: "ascii" | "unicode" | "keyword";  w: TRUE for word-like
\* spellings (letters/digits: they merge with a neighbouring word);  doc: TRUE if the spelling is
\* shown in the book or in the grammar comment, FALSE for spellings only observed in the tokenizer
\* (they are listed so that the binding can check that they mean what they seem to mean).
Sp(k, s, cls, w, doc) == [k |-> k, s |-> s, cls |-> cls, w |-> w, doc |-> doc]

Spellings == <<
  Sp("lp", "(", "ascii", FALSE, TRUE),      Sp("rp", ")", "ascii", FALSE, TRUE),
  Sp("lb", "[", "ascii", FALSE, TRUE),      Sp("rb", "]", "ascii", FALSE, TRUE),
  Sp("comma", ",", "ascii", FALSE, TRUE),   Sp("dot", ".", "ascii", FALSE, TRUE),
  Sp("plus", "+", "ascii", FALSE, TRUE),
  Sp("minus", "-", "ascii", FALSE, TRUE),   Sp("minus", "−", "unicode", FALSE, FALSE),
  Sp("mul", "*", "ascii", FALSE, TRUE),     Sp("mul", "×", "unicode", FALSE, TRUE),
  Sp("mul", "·", "unicode", FALSE, TRUE),   Sp("mul", "⋅", "unicode", FALSE, TRUE),
  Sp("div", "/", "ascii", FALSE, TRUE),     Sp("div", "÷", "unicode", FALSE, TRUE),
  Sp("per", "per", "keyword", TRUE, TRUE),
  Sp("pow", "^", "ascii", FALSE, TRUE),     Sp("pow", "**", "ascii", FALSE, TRUE),
  Sp("bang", "!", "ascii", FALSE, TRUE),
  Sp("arrow", "->", "ascii", FALSE, TRUE),  Sp("arrow", "→", "unicode", FALSE, TRUE),
  Sp("arrow", "➞", "unicode", FALSE, TRUE), Sp("arrow", "to", "keyword", TRUE, TRUE),
  Sp("lt", "<", "ascii", FALSE, TRUE),      Sp("gt", ">", "ascii", FALSE, TRUE),
  Sp("le", "<=", "ascii", FALSE, TRUE),     Sp("le", "≤", "unicode", FALSE, TRUE),
  Sp("ge", ">=", "ascii", FALSE, TRUE),     Sp("ge", "≥", "unicode", FALSE, TRUE),
  Sp("eq", "==", "ascii", FALSE, TRUE),     Sp("eq", "⩵", "unicode", FALSE, FALSE),
  Sp("ne", "!=", "ascii", FALSE, TRUE),     Sp("ne", "≠", "unicode", FALSE, TRUE),
  Sp("and", "&&", "ascii", FALSE, TRUE),    Sp("or", "||", "ascii", FALSE, TRUE),
  Sp("apply", "|>", "ascii", FALSE, TRUE),
  Sp("if", "if", "keyword", TRUE, TRUE),    Sp("then", "then", "keyword", TRUE, TRUE),
  Sp("else", "else", "keyword", TRUE, TRUE) >>

\* value-carrying kinds
BoolSpelling(v) == v                              \* "true", "false" (keywords, word-like)
UExpDigit(d) == CASE d = "1" -> "¹" [] d = "2" -> "²" [] d = "3" -> "³" [] d = "4" -> "⁴"
                  [] d = "5" -> "⁵" [] d = "6" -> "⁶" [] d = "7" -> "⁷" [] d = "8" -> "⁸"
                  [] d = "9" -> "⁹"
UExpSpelling(v) == CASE v = "-1" -> "⁻¹" [] v = "-2" -> "⁻²" [] v = "-3" -> "⁻³" [] v = "-4" -> "⁻⁴"
                     [] v = "-5" -> "⁻⁵" [] v = "-6" -> "⁻⁶" [] v = "-7" -> "⁻⁷" [] v = "-8" -> "⁻⁸"
                     [] v = "-9" -> "⁻⁹" [] OTHER -> UExpDigit(v)
\* (Unicode exponents have no ASCII spelling; `⁰`, `⁺¹` and a second exponent character are not
\* part of the documented token: unicode_power ::= call ( "⁻"? ("¹"|…|"⁹") )? )

\* Reserved words cannot be identifiers (keywords of the expression language that appear here).
ReservedWords == {"per", "to", "if", "then", "else", "true", "false", "NaN", "inf"}

\* Notations in which a number may be written (book: number-notation.md).  Used by the harness
\* when it chooses how to write a value; acceptance and value of each concrete text are decided
\* by the automaton of part 3.
NumNotations == {"integer", "separators", "float", "leading-dot", "trailing-dot", "scientific",
                 "hex", "octal", "binary", "non-finite"}

-----------------------------------------------------------------------------
(* Part 2: separators.                                                       *)
(* Whitespace (blank, tab) between tokens is not significant, with these     *)
(* exceptions, all of them lexical:                                          *)
(*  (a) two word-like spellings must be separated (`a b`, `2 3`, `a per b`); *)
(*      a decimal integer may be followed directly by an identifier (`2a`)   *)
(*      - the harness uses that form only for the plain integer notation;    *)
(*  (b) symbol pairs that would fuse into a different token;                 *)
(*  (c) the field-access dot must be followed immediately by the field name; *)
(*      a dot followed by anything else is the start of a number (`.5`) or   *)
(*      a lexical error, and a number followed directly by a dot is the      *)
(*      number `2.`: so a "dot" token exists only glued to a following       *)
(*      identifier, and a separator is required between a number and a dot.  *)
(* Newline and `;` separate statements and are not whitespace.               *)
(***************************************************************************)
FusingList == << <<"-", ">">>, <<"-", ">=">>, <<"<", "==">>, <<">", "==">>, <<"!", "==">>,
                 <<"*", "*">>, <<"*", "**">> >>
FusingPairs == { FusingList[i] : i \in 1..Len(FusingList) }

\* a, b: records [s, w] (spelling, word-like)
NeedSep(a, b) == (a.w /\ b.w) \/ (<<a.s, b.s>> \in FusingPairs)

-----------------------------------------------------------------------------
(* Part 3: number literals.                                                  *)
(*   number     ::= digits ("." digits?)? ([eE] [+-]? digits)?  |  "." digits ([eE][+-]? digits)? *)
(*   digits     ::= [0-9] ([0-9_]* [0-9])?       (`_` only as a separator between digits:        *)
(*                                                 book "12_345 - with decimal separators",      *)
(*                                                 comment `integer ::= [0-9]([0-9_]*[0-9])?`)   *)
(*   hex_number ::= "0x" hexdigits, oct_number ::= "0o" octdigits, bin_number ::= "0b" bindigits *)
(*                  (at least one digit; `_` as separator observed, not documented)              *)
(* The automaton reads a whole text; the text is ONE number literal iff it ends in an accepting   *)
(* state.  (A text that is not one literal may still be several tokens, e.g. `1e` = 1 × e, or a   *)
(* lexical error, e.g. `1_`: the documentation does not say which, the automaton does neither.)   *)
(***************************************************************************)
DecDigits == {"0", "1", "2", "3", "4", "5", "6", "7", "8", "9"}
OctDigits == {"0", "1", "2", "3", "4", "5", "6", "7"}
BinDigits == {"0", "1"}
HexDigits == DecDigits \cup {"a", "b", "c", "d", "e", "f", "A", "B", "C", "D", "E", "F"}

DigitValue(c) ==
  CASE c = "0" -> 0 [] c = "1" -> 1 [] c = "2" -> 2 [] c = "3" -> 3 [] c = "4" -> 4
    [] c = "5" -> 5 [] c = "6" -> 6 [] c = "7" -> 7 [] c = "8" -> 8 [] c = "9" -> 9
    [] c \in {"a", "A"} -> 10 [] c \in {"b", "B"} -> 11 [] c \in {"c", "C"} -> 12
    [] c \in {"d", "D"} -> 13 [] c \in {"e", "E"} -> 14 [] c \in {"f", "F"} -> 15

\* shared shape of a digit run: state `d` (after a digit), `d_` (after separators)
IntLike(c) == IF c \in DecDigits THEN "int" ELSE IF c = "_" THEN "int_" ELSE IF c = "." THEN "frac0"
              ELSE IF c \in {"e", "E"} THEN "exp0" ELSE "dead"

LitStep(q, c) ==
  CASE q = "start" -> IF c = "0" THEN "zero" ELSE IF c \in DecDigits THEN "int"
                      ELSE IF c = "." THEN "dot0" ELSE "dead"
    [] q = "zero"  -> IF c = "x" THEN "hex0" ELSE IF c = "o" THEN "oct0" ELSE IF c = "b" THEN "bin0"
                      ELSE IntLike(c)
    [] q = "int"   -> IntLike(c)
    [] q = "int_"  -> IF c \in DecDigits THEN "int" ELSE IF c = "_" THEN "int_" ELSE "dead"
    [] q = "frac0" -> IF c \in DecDigits THEN "frac" ELSE IF c \in {"e", "E"} THEN "exp0" ELSE "dead"
    [] q = "dot0"  -> IF c \in DecDigits THEN "frac" ELSE "dead"
    [] q = "frac"  -> IF c \in DecDigits THEN "frac" ELSE IF c = "_" THEN "frac_"
                      ELSE IF c \in {"e", "E"} THEN "exp0" ELSE "dead"
    [] q = "frac_" -> IF c \in DecDigits THEN "frac" ELSE IF c = "_" THEN "frac_" ELSE "dead"
    [] q = "exp0"  -> IF c \in {"+", "-"} THEN "exp1" ELSE IF c \in DecDigits THEN "exp" ELSE "dead"
    [] q = "exp1"  -> IF c \in DecDigits THEN "exp" ELSE "dead"
    [] q = "exp"   -> IF c \in DecDigits THEN "exp" ELSE IF c = "_" THEN "exp_" ELSE "dead"
    [] q = "exp_"  -> IF c \in DecDigits THEN "exp" ELSE IF c = "_" THEN "exp_" ELSE "dead"
    [] q = "hex0"  -> IF c \in HexDigits THEN "hex" ELSE "dead"
    [] q = "hex"   -> IF c \in HexDigits THEN "hex" ELSE IF c = "_" THEN "hex_" ELSE "dead"
    [] q = "hex_"  -> IF c \in HexDigits THEN "hex" ELSE IF c = "_" THEN "hex_" ELSE "dead"
    [] q = "oct0"  -> IF c \in OctDigits THEN "oct" ELSE "dead"
    [] q = "oct"   -> IF c \in OctDigits THEN "oct" ELSE IF c = "_" THEN "oct_" ELSE "dead"
    [] q = "oct_"  -> IF c \in OctDigits THEN "oct" ELSE IF c = "_" THEN "oct_" ELSE "dead"
    [] q = "bin0"  -> IF c \in BinDigits THEN "bin" ELSE "dead"
    [] q = "bin"   -> IF c \in BinDigits THEN "bin" ELSE IF c = "_" THEN "bin_" ELSE "dead"
    [] q = "bin_"  -> IF c \in BinDigits THEN "bin" ELSE IF c = "_" THEN "bin_" ELSE "dead"
    [] OTHER       -> "dead"

LitAccepting == {"zero", "int", "frac0", "frac", "exp", "hex", "oct", "bin"}

RECURSIVE LitRun(_, _)
LitRun(q, cs) == IF cs = << >> \/ q = "dead" THEN q ELSE LitRun(LitStep(q, Head(cs)), Tail(cs))

IsLiteral(cs) == LitRun("start", cs) \in LitAccepting

\* kind of an accepted literal
LitKind(cs) == LET q == LitRun("start", cs) IN
   CASE q \in {"zero", "int"} -> "integer" [] q \in {"frac0", "frac"} -> "float" [] q = "exp" -> "scientific"
     [] q = "hex" -> "hex" [] q = "oct" -> "octal" [] q = "bin" -> "binary" [] OTHER -> "none"

\* value: for decimal forms the text without separators (a decimal numeral; the harness reads it as
\* the nearest f64), for the other bases the integer
RECURSIVE Concat(_)
Concat(cs) == IF cs = << >> THEN "" ELSE Head(cs) \o Concat(Tail(cs))
RECURSIVE DropSeparators(_)
DropSeparators(cs) == IF cs = << >> THEN << >>
                      ELSE (IF Head(cs) = "_" THEN << >> ELSE << Head(cs) >>) \o DropSeparators(Tail(cs))
RECURSIVE BaseValue(_, _, _)
BaseValue(base, acc, cs) == IF cs = << >> THEN acc
                            ELSE IF Head(cs) = "_" THEN BaseValue(base, acc, Tail(cs))
                            ELSE BaseValue(base, acc * base + DigitValue(Head(cs)), Tail(cs))

LitBase(cs) == LET k == LitKind(cs) IN
   CASE k = "hex" -> 16 [] k = "octal" -> 8 [] k = "binary" -> 2 [] OTHER -> 10
\* decimal numeral (string) of an accepted decimal literal
LitDecimalText(cs) == Concat(DropSeparators(cs))
\* integer value of an accepted based literal (<= 7 digits in the model: fits TLC's integers)
LitBasedValue(cs) == BaseValue(LitBase(cs), 0, SubSeq(cs, 3, Len(cs)))

-----------------------------------------------------------------------------
(* The same language once more, literally as the documentation writes it, to  *)
(* check the automaton against it (MC_Lexer: AutomatonIsDocumentedRegex):     *)
(*   number ::= D ("." D?)? ([eE][+-]? D)?   with D = [0-9] followed by any   *)
(*              number of [0-9_]   (the comment's regular expression)         *)
(*   plus the book's `.234` form, plus "`_` separates digits".                *)
(***************************************************************************)
DigitOrSep == DecDigits \cup {"_"}
RECURSIVE SkipWhile(_, _)
SkipWhile(S, cs) == IF cs # << >> /\ Head(cs) \in S THEN SkipWhile(S, Tail(cs)) ELSE cs

\* D = one of [0-9], then any number of [0-9_] : returns the rest, or <<"fail">>
DocDigits(cs) == IF cs # << >> /\ Head(cs) \in DecDigits THEN SkipWhile(DigitOrSep, Tail(cs)) ELSE <<"fail">>
DocExponent(cs) ==   \* optional ([eE][+-]? D), then the end
   IF cs = << >> THEN TRUE
   ELSE IF Head(cs) \in {"e", "E"}
        THEN LET r == IF Tail(cs) # << >> /\ Head(Tail(cs)) \in {"+", "-"} THEN Tail(Tail(cs)) ELSE Tail(cs)
             IN DocDigits(r) = << >>
        ELSE FALSE
DocFraction(cs) ==   \* optional ("." D?), then the exponent part
   IF cs # << >> /\ Head(cs) = "."
   THEN LET r == Tail(cs) IN
        IF r # << >> /\ Head(r) \in DecDigits THEN DocExponent(DocDigits(r)) ELSE DocExponent(r)
   ELSE DocExponent(cs)
MatchesDocNumber(cs) ==
   IF cs # << >> /\ Head(cs) = "."
   THEN (Tail(cs) # << >> /\ Head(Tail(cs)) \in DecDigits /\ DocExponent(DocDigits(Tail(cs))))   \* `.234`
   ELSE LET r == DocDigits(cs) IN r # <<"fail">> /\ DocFraction(r)

\* every `_` has a digit or `_` on both sides and every run of [0-9_] begins and ends with a digit
SeparatorsSeparateDigits(cs) ==
   \A i \in 1..Len(cs) : cs[i] = "_" =>
        /\ i > 1 /\ cs[i-1] \in DigitOrSep
        /\ i < Len(cs) /\ cs[i+1] \in DigitOrSep
=============================================================================
