CONSTANTS MaxNodes = 5
          Wide = FALSE
          Variant = "pinned"
SPECIFICATION Spec
INVARIANTS CheckAndEmit
CHECK_DEADLOCK FALSE
