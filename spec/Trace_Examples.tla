--------------------------- MODULE Trace_Examples ---------------------------
(***************************************************************************)
(* Trace validation for C24 (J direction).  The harness enumerates every   *)
(* `@example` of every standard-library function of the current tree and   *)
(* runs it on a clone of ONE session with `use prelude` and                *)
(* `use units::currencies` (test exchange rates), the way the              *)
(* documentation generator does (the function's module is imported first   *)
(* if the session does not have it).  Events (ndjson, env TRACE):          *)
(*   start    examples = number of examples found, parent = digest of the  *)
(*            parent session's name lists and import list                  *)
(*   example  idx, fn, code, outcome, kind, mentions_env (the text calls   *)
(*            an environment function), parent = the parent's digest after *)
(*            the run                                                      *)
(*   end      count, parent, parent_obs_same (full observation of the      *)
(*            parent - values, signatures, unit table - as at the start)   *)
(* Spec step for an example event: Examples!ExampleRun on a clone; the     *)
(* parent is UNCHANGED, so its recorded digest must still be the one of    *)
(* the start event; the verdict is Examples!Accepted.  An event the spec   *)
(* does not accept is reported (BAD line) and judging continues, so every  *)
(* failing example is listed; the trace is accepted iff every line was     *)
(* consumed, none was BAD, and the number of examples is the announced one.*)
(***************************************************************************)
EXTENDS Examples, Json, IOUtils, TLCExt

tr == TLCEval(ndJsonDeserialize(IOEnv.TRACE))

VARIABLES l,      \* index of the next event
          pobs,   \* digest of the parent session (set by start)
          cnt,    \* examples consumed
          total   \* examples announced by start
tvars == <<l, pobs, cnt, total>>

TraceInit == l = 1 /\ pobs = "" /\ cnt = 0 /\ total = 0

Flag(why) == PrintT(<<"BAD", ToJson([line |-> l, why |-> why])>>)

EvStart(e) == /\ e.ev = "start"
            /\ l = 1
            /\ pobs' = e.parent
            /\ total' = e.examples
            /\ cnt' = 0

EvExample(e) == /\ e.ev = "example"
                /\ l > 1
                /\ (IF Accepted(e.outcome, e.fn, e.mentions_env) THEN TRUE ELSE Flag("outcome"))
                /\ (IF e.parent = pobs THEN TRUE ELSE Flag("parent-changed"))       \* Example leaves the parent UNCHANGED
                /\ (IF e.idx = cnt + 1 THEN TRUE ELSE Flag("enumeration"))
                /\ cnt' = cnt + 1
                /\ UNCHANGED <<pobs, total>>

EvEnd(e) == /\ e.ev = "end"
          /\ l > 1
          /\ (IF e.count = cnt /\ cnt = total THEN TRUE ELSE Flag("count"))
          /\ (IF e.parent = pobs /\ e.parent_obs_same THEN TRUE ELSE Flag("parent-changed"))
          /\ UNCHANGED <<pobs, cnt, total>>

TraceNext == /\ l <= Len(tr)
             /\ (EvStart(tr[l]) \/ EvExample(tr[l]) \/ EvEnd(tr[l]))
             /\ l' = l + 1

TraceSpec == TraceInit /\ [][TraceNext]_tvars

TraceAccepted ==
    LET n == Len(tr)
        d == TLCGet("stats").diameter - 1
    IN IF d = n /\ tr[n].ev = "end" THEN TRUE
       ELSE /\ PrintT(<<"REJECTED", ToJson([matched |-> d, total |-> n])>>)
            /\ FALSE
=============================================================================
