----------------------------- MODULE MC_Overflow -----------------------------
(***************************************************************************)
(* C08, G (ii): TLC enumerates the boundary classes of Overflow.tla - every *)
(* combination of shape x magnitude classes, operand x factorial order,     *)
(* family x nesting depth x session kind, the literal and size classes -    *)
(* and prints one CASE line per class with the input as <<pattern, n>>      *)
(* pairs and what the class model requires:                                 *)
(*   req    (META) the allowed outcomes: Totality!GoodOutcomes              *)
(*   exact  "overflow": the exact exponent is not representable - a value   *)
(*          cannot be right, a reported error is required                   *)
(*   val    the documented value of a multifactorial                        *)
(*   lit    "literal": the text is ONE number literal of the documented     *)
(*          automaton - it must get past the parser                         *)
(* MC: the class models themselves (ModelsOK) and, per case,                *)
(* CaseWellFormed.                                                          *)
(***************************************************************************)
EXTENDS Overflow, TLC, Json

CONSTANT Long      \* TRUE: include the 70 000-input session (thorough tier)
VARIABLE c

\* the class models themselves (an invariant evaluated once, on one successor state, by a worker thread: TLC evaluates
\* ASSUMEs and everything about initial states on the main thread, whose stack is too small for the 400-character literals)
ModelsOK == (c.fam = "literal" /\ c.id = "1e308") => ExponentAlgebraOK /\ MultifactorialOK /\ LiteralModelOK

AllCases == ExpCases \cup FactCases \cup HugeFactCases \cup NestCases \cup LitCases \cup SizeCases(Long) \cup PolyCases \cup AnsCases \cup MsgCases

Init == c = [fam |-> "init"]
Next == c.fam = "init" /\ c' \in AllCases
Spec == Init /\ [][Next]_c

CaseWellFormed == c.fam # "init" =>
  /\ c.parts # << >>
  /\ \A i \in 1..Len(c.parts) : c.parts[i][2] >= 1
  /\ c.sess \in {"fresh", "prelude"}
  /\ c.exact \in {"na", "float", "representable", "overflow"}
  /\ c.lit \in {"na", "literal", "not-literal"}
  /\ (c.fam = "factorial" => c.val # "")

EmitCase == c.fam # "init" => PrintT(<<"CASE", ToJson(c)>>)

\* the same required outcome set as for every other input (Totality.tla)
ASSUME PrintT(<<"META", ToJson([req |-> {"ok", "resolver", "nameres", "type", "runtime"},
                                 families |-> [i \in 1..Len(NestFamilies) |-> NestFamilies[i][1]],
                                 depths |-> Depths, orders |-> Orders, mags |-> Mags])>>)
=============================================================================
