------------------------------- MODULE List -------------------------------
(***************************************************************************)
(* Shared-storage lists (numbat/src/list.rs), property C18.                *)
(*                                                                         *)
(* Concrete state mirrors the implementation: a heap of reference-counted  *)
(* allocations (Arc<VecDeque<T>>), handles = (allocation, optional view),  *)
(* make_mut = copy-on-write when the strong count is not 1.  Every action  *)
(* also updates the abstract value abs[h] \in Seq(Elems) by the semantics  *)
(* of a plain immutable sequence.  The property is the refinement          *)
(* invariant Conc(h) = abs[h] for every live handle.                       *)
(* Indices are 0-based in the implementation; el[i+1] is alloc[i].         *)
(***************************************************************************)
EXTENDS Naturals, Sequences, FiniteSets, TLC

CONSTANTS NH,        \* number of handle slots
          Elems,     \* element values
          MaxLen     \* bound on the allocation length (keeps the graph finite)

H == 1..NH
AllocIds == 1..NH

VARIABLES heap,   \* [AllocIds -> [live, el, rc]]
          hd,     \* [H -> [live, a, hasview, s, e]]
          abs,    \* [H -> Seq(Elems)]   abstract value of each live handle
          panic,  \* an index-out-of-bounds / assertion would fire in the implementation
          last    \* the operation that led to this state (label for replay)

vars == <<heap, hd, abs, panic, last>>

DeadH == [live |-> FALSE, a |-> 0, hasview |-> FALSE, s |-> 0, e |-> 0]
DeadA == [live |-> FALSE, el |-> <<>>, rc |-> 0]
NoOp  == [op |-> "init", h |-> 0, g |-> 0, x |-> 0, res |-> "-"]

Init == /\ heap = [a \in AllocIds |-> DeadA]
        /\ hd = [h \in H |-> DeadH]
        /\ abs = [h \in H |-> <<>>]
        /\ panic = FALSE
        /\ last = NoOp

Live(h) == hd[h].live
El(h) == heap[hd[h].a].el
Start(h) == IF hd[h].hasview THEN hd[h].s ELSE 0
End(h) == IF hd[h].hasview THEN hd[h].e ELSE Len(El(h))
\* NumbatList::len
LenImpl(h) == IF hd[h].hasview THEN hd[h].e - hd[h].s ELSE Len(El(h))
\* NumbatList::iter: alloc.iter().skip(start).take(end - start)
Conc(h) == LET n == Len(El(h))
               lo == Start(h) + 1
               cnt == IF End(h) >= Start(h) THEN End(h) - Start(h) ELSE 0
               hi == IF lo + cnt - 1 <= n THEN lo + cnt - 1 ELSE n
           IN IF lo > n THEN <<>> ELSE SubSeq(El(h), lo, hi)

FreshAlloc == CHOOSE a \in AllocIds : ~heap[a].live /\ \A b \in AllocIds : (~heap[b].live) => a <= b

Release(hp, a) == IF hp[a].rc = 1 THEN [hp EXCEPT ![a] = DeadA]
                  ELSE [hp EXCEPT ![a].rc = @ - 1]

\* make_mut: returns <<heap, handle record>> after copy-on-write
MakeMut(h) ==
    IF heap[hd[h].a].rc # 1
    THEN LET a2 == FreshAlloc
             hp1 == Release(heap, hd[h].a)
         IN << [hp1 EXCEPT ![a2] = [live |-> TRUE, el |-> Conc(h), rc |-> 1]],
               [live |-> TRUE, a |-> a2, hasview |-> FALSE, s |-> 0, e |-> 0] >>
    ELSE << heap, hd[h] >>

New(h) == /\ ~Live(h)
          /\ LET a == FreshAlloc IN
               /\ heap' = [heap EXCEPT ![a] = [live |-> TRUE, el |-> <<>>, rc |-> 1]]
               /\ hd' = [hd EXCEPT ![h] = [live |-> TRUE, a |-> a, hasview |-> FALSE, s |-> 0, e |-> 0]]
          /\ abs' = [abs EXCEPT ![h] = <<>>]
          /\ UNCHANGED panic
          /\ last' = [op |-> "new", h |-> h, g |-> 0, x |-> 0, res |-> "-"]

Clone(h, g) == /\ Live(h) /\ ~Live(g)
               /\ hd' = [hd EXCEPT ![g] = hd[h]]
               /\ heap' = [heap EXCEPT ![hd[h].a].rc = @ + 1]
               /\ abs' = [abs EXCEPT ![g] = abs[h]]
               /\ UNCHANGED panic
               /\ last' = [op |-> "clone", h |-> h, g |-> g, x |-> 0, res |-> "-"]

Drop(h) == /\ Live(h)
           /\ heap' = Release(heap, hd[h].a)
           /\ hd' = [hd EXCEPT ![h] = DeadH]
           /\ abs' = [abs EXCEPT ![h] = <<>>]
           /\ UNCHANGED panic
           /\ last' = [op |-> "drop", h |-> h, g |-> 0, x |-> 0, res |-> "-"]

TailOp(h) == /\ Live(h)
           /\ IF LenImpl(h) = 0
              THEN /\ UNCHANGED <<heap, hd, abs, panic>>
                   /\ last' = [op |-> "tail", h |-> h, g |-> 0, x |-> 0, res |-> "err"]
              ELSE /\ hd' = [hd EXCEPT ![h] =
                        IF @.hasview THEN [@ EXCEPT !.s = @ + 1]
                        ELSE [@ EXCEPT !.hasview = TRUE, !.s = 1, !.e = Len(El(h))]]
                   /\ abs' = [abs EXCEPT ![h] = IF @ = <<>> THEN <<>> ELSE Tail(@)]
                   /\ UNCHANGED <<heap, panic>>
                   /\ last' = [op |-> "tail", h |-> h, g |-> 0, x |-> 0, res |-> "ok"]

\* head(self): consumes the handle
HeadOp(h) == /\ Live(h)
             /\ LET front == Start(h)
                    r == IF front < Len(El(h)) THEN El(h)[front + 1] ELSE 0
                IN last' = [op |-> "head", h |-> h, g |-> 0, x |-> 0,
                            res |-> IF r = 0 THEN "none" ELSE ToString(r)]
             /\ heap' = Release(heap, hd[h].a)
             /\ hd' = [hd EXCEPT ![h] = DeadH]
             /\ abs' = [abs EXCEPT ![h] = <<>>]
             /\ UNCHANGED panic

PushFront(h, x) ==
    /\ Live(h)
    /\ Len(El(h)) < MaxLen
    /\ LET mm == MakeMut(h)
           hp == mm[1]
           r  == mm[2]
           el == hp[r.a].el
       IN IF r.hasview
          THEN IF r.s = 0
               THEN /\ heap' = [hp EXCEPT ![r.a].el = <<x>> \o el]
                    /\ hd' = [hd EXCEPT ![h] = [r EXCEPT !.e = @ + 1]]
               ELSE /\ heap' = [hp EXCEPT ![r.a].el = [el EXCEPT ![r.s] = x]]
                    /\ hd' = [hd EXCEPT ![h] = [r EXCEPT !.s = @ - 1]]
          ELSE /\ heap' = [hp EXCEPT ![r.a].el = <<x>> \o el]
               /\ hd' = [hd EXCEPT ![h] = r]
    /\ abs' = [abs EXCEPT ![h] = <<x>> \o @]
    /\ UNCHANGED panic
    /\ last' = [op |-> "push_front", h |-> h, g |-> 0, x |-> x, res |-> "-"]

PushBack(h, x) ==
    /\ Live(h)
    /\ Len(El(h)) < MaxLen
    /\ LET mm == MakeMut(h)
           hp == mm[1]
           r  == mm[2]
           el == hp[r.a].el
       IN IF r.hasview
          THEN IF r.e = Len(el)
               THEN /\ heap' = [hp EXCEPT ![r.a].el = Append(el, x)]
                    /\ hd' = [hd EXCEPT ![h] = [r EXCEPT !.e = @ + 1]]
                    /\ UNCHANGED panic
               ELSE \* `*end += 1; inner[*end] = element` (0-based index end+1)
                    IF r.e + 2 <= Len(el)
                    THEN /\ heap' = [hp EXCEPT ![r.a].el = [el EXCEPT ![r.e + 2] = x]]
                         /\ hd' = [hd EXCEPT ![h] = [r EXCEPT !.e = @ + 1]]
                         /\ UNCHANGED panic
                    ELSE /\ panic' = TRUE
                         /\ heap' = hp
                         /\ hd' = [hd EXCEPT ![h] = r]
          ELSE /\ heap' = [hp EXCEPT ![r.a].el = Append(el, x)]
               /\ hd' = [hd EXCEPT ![h] = r]
               /\ UNCHANGED panic
    /\ abs' = [abs EXCEPT ![h] = Append(@, x)]
    /\ last' = [op |-> "push_back", h |-> h, g |-> 0, x |-> x, res |-> "-"]

Next == \/ \E h \in H : New(h) \/ Drop(h) \/ TailOp(h) \/ HeadOp(h)
        \/ \E h, g \in H : Clone(h, g)
        \/ \E h \in H, x \in Elems : PushFront(h, x) \/ PushBack(h, x)

Spec == Init /\ [][Next]_vars

-----------------------------------------------------------------------------
\* PartialEq for NumbatList
EqImpl(h, g) ==
    IF LenImpl(h) # LenImpl(g) THEN FALSE
    ELSE IF hd[h].a = hd[g].a /\ hd[h].hasview = hd[g].hasview
              /\ (hd[h].hasview => (hd[h].s = hd[g].s /\ hd[h].e = hd[g].e))
         THEN TRUE
         ELSE Conc(h) = Conc(g)

TypeOK == /\ \A h \in H : Live(h) => heap[hd[h].a].live
          /\ panic \in BOOLEAN

\* C18: each list value holds exactly the elements a plain immutable sequence would hold
Refines == \A h \in H : Live(h) => (Conc(h) = abs[h] /\ LenImpl(h) = Len(abs[h]))

EqOk == \A h, g \in H : (Live(h) /\ Live(g)) => (EqImpl(h, g) = (abs[h] = abs[g]))

\* why the "end # len" branch of push_back is unreachable
EndIsLen == \A h \in H : (Live(h) /\ hd[h].hasview) =>
               (hd[h].e = Len(El(h)) /\ hd[h].s <= hd[h].e)

RcOk == \A a \in AllocIds :
          /\ heap[a].live <=> (\E h \in H : Live(h) /\ hd[h].a = a)
          /\ heap[a].rc = Cardinality({h \in H : Live(h) /\ hd[h].a = a})

NoPanic == ~panic

\* an operation on one handle never changes the abstract value of another
Isolation == [][\A g \in H : (g # last'.h /\ g # last'.g /\ Live(g) /\ Live(g)') => abs'[g] = abs[g]
                              /\ Conc(g)' = Conc(g)]_vars
\* state without the replay label (VIEW for state-coverage runs)
ViewNoLast == <<heap, hd, abs, panic>>
=============================================================================
