------------------------------- MODULE MC_Cli -------------------------------
(***************************************************************************)
(* Bounded exploration of Cli.tla.  TLC generates every invocation          *)
(*   program  = every sequence of 1..MaxLen statement templates (Alphabet)  *)
(*   form     = every split point k: the first k statements are the FILE,   *)
(*              the rest are -e arguments (k = 0: -e only, k = n: file      *)
(*              only), the -e part given one statement per -e or as a       *)
(*              single multi-line -e                                        *)
(* runs the CLI state machine on it, checks the C22 properties (MC) and     *)
(* prints one CASE line per finished invocation with the predicted exit     *)
(* status, standard-output lines and standard-error flag (G direction).     *)
(***************************************************************************)
EXTENDS Cli, Json

CONSTANTS MaxLen, Alphabet, Emit

VARIABLES prog, phase
vars == <<prog, phase, inv, p>>

\* succeeding statements and one failure per stage: parse error, unknown module, parse error inside a
\* module, reserved name, name clash, type errors (dimension mismatch, unknown identifier, value namespace),
\* type error / run-time error inside a module, division by zero, failing assertion
Full == { Let("za", 1), LetRef("zb", "za"), Fn("zb", 2), Expr("za"), Expr("zb"), Call("zb"), AnsE, PrintS("za"),
          AssertEq("za", 1), AssertEq("za", 2), LetDiv0("zc"), LetTyErr("zc"), LetAns, UnitDef("za"), ParseErr,
          Use("mb"), Expr("mb_x"), Use("mz"), Use("me"), Use("mf"), Use("mg") }
Mid  == { Let("za", 1), LetRef("zb", "za"), Expr("za"), Expr("zb"), AnsE, PrintS("za"), AssertEq("za", 2), LetDiv0("zc"),
          LetTyErr("zc"), UnitDef("za"), ParseErr, Use("mb"), Expr("mb_x"), Use("mz") }
Core == { Let("za", 1), PrintS("za"), Expr("za"), LetDiv0("zb"), ParseErr, Use("mf"), AssertEq("za", 2), UnitDef("za") }
Stmts == CASE Alphabet = "full" -> Full [] Alphabet = "mid" -> Mid [] OTHER -> Core

Group(ss, g) == IF ss = << >> THEN << >>
                ELSE IF g = "one" THEN << ss >> ELSE [j \in 1..Len(ss) |-> << ss[j] >>]
Forms(pr) == { Invocation(SubSeq(pr, 1, k), Group(SubSeq(pr, k + 1, Len(pr)), g)) : k \in 0..Len(pr), g \in {"each", "one"} }

\* constants of the model the conformance run needs (texts only), printed once
ASSUME PrintT(<<"META", ToJson([prelude |-> PreludeText, modules |-> [m \in KnownMods |-> ModText(m)]])>>)

Idle == Invocation(<< >>, << >>)
Init == prog = << >> /\ phase = "build" /\ inv = Idle /\ p = Boot(Idle)

Next == \/ /\ phase = "build" /\ Len(prog) < MaxLen
           /\ \E s \in Stmts : prog' = Append(prog, s)
           /\ UNCHANGED <<phase, inv, p>>
        \/ /\ phase = "build" /\ prog # << >>
           /\ \E i \in Forms(prog) : CliStart(i)
           /\ phase' = "run" /\ UNCHANGED prog
        \/ /\ phase = "run" /\ CliNext
           /\ UNCHANGED <<prog, phase>>

Spec == Init /\ [][Next]_vars

Done == phase = "run" /\ p.exited

\* values stay small (exact small integers on both sides)
Bounded == \A i \in Ids : p.st.val[i] <= 20 /\ p.st.fnv[i] <= 20

\* the properties of Cli.tla only speak about finished invocations
MC_ExitFaithful   == Done => ExitFaithful
MC_StdoutFaithful == Done => StdoutFaithful
MC_StderrFaithful == phase = "run" => StderrFaithful
MC_FileEqExpr     == Done => FileEqExpr
MC_LoopIsOperator == Done => LoopIsOperator
\* the run loop always terminates with an exit status: no finished process can move, every other one can
Progress == phase = "run" => (p.exited <=> ~(CanRun(p) \/ CanExit(p)))

-----------------------------------------------------------------------------
\* G direction: one line per finished invocation
EmitCase == (Emit = "all" /\ Done) =>
   PrintT(<<"CASE", ToJson([hasfile |-> inv.file # << >>, file |-> FileText(inv), exprs |-> ExprTexts(inv),
                            lines |-> [k \in 1..Len(prog) |-> Text(prog[k])],
                            status |-> p.status, stdout |-> p.stdout, stderr |-> p.stderr, log |-> p.log,
                            \* not part of C22 (adopted rules of the run loop), used to classify deviations as drift:
                            \* prints of the failing input, and what the inputs never executed would have done
                            dropped |-> p.dropped,
                            after |-> LET rs == Results(p.st, p.queue) IN
                                        [k \in 1..Len(rs) |-> [ok |-> rs[k].outcome = "ok", out |-> rs[k].out,
                                                               res |-> rs[k].res]]])>>)
=============================================================================
