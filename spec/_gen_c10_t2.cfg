CONSTANTS MaxNodes = 5
          Family = 4
SPECIFICATION Spec
INVARIANTS RoundTripInv EmitCase
CHECK_DEADLOCK FALSE
