------------------------------ MODULE Totality ------------------------------
(***************************************************************************)
(* C08: "No input crashes or hangs the interpreter."                       *)
(*                                                                         *)
(* The processing of ONE input by a front end (CLI / web) as a state       *)
(* machine over the pipeline stages of Context::interpret_with_settings    *)
(* (the same four stages as Session.tla: Resolve, Names, Check, Run),      *)
(* followed by what the front end does with the answer:                    *)
(*   a result  -> echo of the statements, printed output, result markup    *)
(*   an error  -> Display text, ErrorDiagnostic::diagnostics, codespan      *)
(*                emit to the terminal / to the HTML writer                *)
(* Every stage either passes or FAILS WITH ITS OWN ERROR CLASS             *)
(*   resolve -> resolver, names -> nameres, check -> type, run -> runtime  *)
(* (the outcome classes of Session.tla).  The property is TOTALITY:        *)
(*   every behaviour ends (Termination), within the step budget (Prompt),  *)
(*   in a state whose outcome is "ok" or one of the four error classes     *)
(*   and whose answer has been rendered completely (Total).                *)
(* "panic", "timeout", "crash", "oom" are explicit outcomes of the machine: *)
(* they are what an implementation shows when a stage or a rendering step  *)
(* aborts (Abort) or does not return (Stall).  The specification proper    *)
(* (Spec) has no such step; SpecFaulty adds them, and MC_Totality checks   *)
(* that Total / Prompt hold for Spec and are VIOLATED for SpecFaulty, i.e. *)
(* that the statement is not vacuous.                                      *)
(*                                                                         *)
(* The conformance harness observes, per input, exactly the end state of   *)
(* this machine: obs = [outcome, cls, stage, ms, limit]  (see Accepts).    *)
(***************************************************************************)
EXTENDS Naturals, Sequences

Stages == <<"resolve", "names", "check", "run">>
ErrClassOf(s) == CASE s = "resolve" -> "resolver" [] s = "names" -> "nameres"
                   [] s = "check" -> "type" [] s = "run" -> "runtime"
ErrClasses   == {"resolver", "nameres", "type", "runtime"}
GoodOutcomes == {"ok"} \cup ErrClasses
BadOutcomes  == {"panic", "timeout", "crash", "oom"}   \* oom: stopped by the memory limit
Outcomes     == GoodOutcomes \cup BadOutcomes

\* what a front end renders, in order ("done" = everything rendered)
RenderSteps(cls) == IF cls = "ok" THEN <<"render-echo", "render-print", "render-value">>
                    ELSE <<"render-display", "render-diagnostics", "render-term", "render-html">>
\* Render(err) is defined for every error kind (and for a result):
RenderDefined == \A c \in GoodOutcomes : Len(RenderSteps(c)) > 0

\* abstract time: one tick per stage / rendering step; an input that does not recurse needs at most
\* 4 stages + 4 rendering steps + begin
Budget == 9

VARIABLES pc,       \* "idle" | "stage" | "render" | "end"
          si,       \* index of the current stage (pc = "stage") / rendering step (pc = "render")
          cls,      \* outcome class of the interpretation proper: "" until known
          outcome,  \* final outcome: "" until the end
          at,       \* where the machine stopped: "done", or the stage / rendering step that aborted
          clock
vars == <<pc, si, cls, outcome, at, clock>>

Init == pc = "idle" /\ si = 0 /\ cls = "" /\ outcome = "" /\ at = "" /\ clock = 0

Tick == clock' = clock + 1

Begin == /\ pc = "idle"
         /\ pc' = "stage" /\ si' = 1 /\ Tick
         /\ UNCHANGED <<cls, outcome, at>>

\* the current stage accepts the input
StagePass ==
    /\ pc = "stage"
    /\ IF si < Len(Stages)
       THEN pc' = "stage" /\ si' = si + 1 /\ UNCHANGED cls
       ELSE pc' = "render" /\ si' = 1 /\ cls' = "ok"
    /\ Tick /\ UNCHANGED <<outcome, at>>

\* the current stage reports an error of its class; everything is rolled back (Session.tla), the error is rendered
StageFail ==
    /\ pc = "stage"
    /\ cls' = ErrClassOf(Stages[si])
    /\ pc' = "render" /\ si' = 1
    /\ Tick /\ UNCHANGED <<outcome, at>>

RenderStep ==
    /\ pc = "render"
    /\ IF si < Len(RenderSteps(cls))
       THEN pc' = "render" /\ si' = si + 1 /\ UNCHANGED <<outcome, at>>
       ELSE pc' = "end" /\ si' = 0 /\ outcome' = cls /\ at' = "done"
    /\ Tick /\ UNCHANGED cls

Next == Begin \/ StagePass \/ StageFail \/ RenderStep

Spec == Init /\ [][Next]_vars /\ WF_vars(Next)

\* ---- what must never happen (steps of a faulty implementation)
Where == IF pc = "stage" THEN "interpret" ELSE RenderSteps(cls)[si]
Abort(b) == /\ pc \in {"stage", "render"}
            /\ b \in {"panic", "crash", "oom"}
            /\ pc' = "end" /\ outcome' = b /\ at' = Where /\ si' = 0
            /\ Tick /\ UNCHANGED cls
Stall == /\ pc \in {"stage", "render"}          \* a step that does not return: time passes, nothing else
         /\ clock <= Budget + 1
         /\ Tick /\ UNCHANGED <<pc, si, cls, outcome, at>>
GiveUp == /\ pc \in {"stage", "render"}          \* the watchdog ends a stalled run
          /\ clock > Budget
          /\ pc' = "end" /\ outcome' = "timeout" /\ at' = Where /\ si' = 0
          /\ UNCHANGED <<cls, clock>>
NextFaulty == Next \/ (\E b \in {"panic", "crash", "oom"} : Abort(b)) \/ Stall \/ GiveUp
SpecFaulty == Init /\ [][NextFaulty]_vars /\ WF_vars(NextFaulty)

\* ---- the property
TypeOK == /\ pc \in {"idle", "stage", "render", "end"}
          /\ cls \in GoodOutcomes \cup {""}
          /\ outcome \in Outcomes \cup {""}
Total  == pc = "end" => /\ outcome \in GoodOutcomes       \* a result or a reported error ...
                        /\ outcome = cls                  \* ... the one the pipeline produced ...
                        /\ at = "done"                    \* ... completely rendered
Prompt == clock <= Budget
Termination == <>(pc = "end")
\* an error of class c comes from the stage of that class and from no other
StageOfClass == pc = "render" /\ cls \in ErrClasses => \E i \in 1..Len(Stages) : ErrClassOf(Stages[i]) = cls

-----------------------------------------------------------------------------
\* The observation of one input by the harness, and its verdict.  An observation is the end state of the
\* machine: [outcome, cls, stage (= at), ms, limit].  (A child that died or was killed has outcome crash / timeout.)
EndObs == {[outcome |-> o, cls |-> o, stage |-> "done"] : o \in GoodOutcomes}
Accepts(e) == /\ [outcome |-> e.outcome, cls |-> e.cls, stage |-> e.stage] \in EndObs
              /\ e.ms <= e.limit
\* why an observation is rejected (for the report)
Verdict(e) == IF Accepts(e) THEN "ok"
              ELSE IF e.outcome \in BadOutcomes THEN e.outcome
              ELSE IF e.outcome \in GoodOutcomes /\ e.ms > e.limit THEN "slow"
              ELSE "malformed"
=============================================================================
