CONSTANTS StrictKind = FALSE
          Ulps = 2
SPECIFICATION TraceSpec
POSTCONDITION TraceAccepted
VIEW Pos
CHECK_DEADLOCK FALSE
