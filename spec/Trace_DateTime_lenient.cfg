CONSTANTS StrictKind = FALSE
          Ulps = 2
SPECIFICATION TraceSpec
POSTCONDITION TraceAccepted
CHECK_DEADLOCK FALSE
