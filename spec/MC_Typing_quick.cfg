CONSTANTS Tier = "quick"
SPECIFICATION Spec
INVARIANTS TypeTotal EmitCase
CHECK_DEADLOCK FALSE
