----------------------------- MODULE Trace_Printer -----------------------------
(***************************************************************************)
(* C15, J direction: every recorded line                                    *)
(*   {tree: typed expression tree (nested arrays, Printer.tla's forms),     *)
(*    outcome: "ok" or how the input was rejected (then nothing is judged), *)
(*    echo: the real echo, reok: the echo was accepted in the pre-state     *)
(*    with the same type and value, reecho: the echo of the echo}           *)
(* must agree with the echo rules:  the echo is the text the rules give     *)
(* (either table), and where the rules say that this text reads back, it    *)
(* did, and the echo of the echo is the text the rules predict.             *)
(* Lenient = FALSE: stop at the first disagreeing line (POSTCONDITION on    *)
(* the lines consumed).  Lenient = TRUE: a BAD line per disagreement, and   *)
(* go on.  In both modes a CASE line is printed for every line whose echo   *)
(* the rules say does NOT read back (the rule defects, classified by the    *)
(* check with the table entries involved).                                  *)
(***************************************************************************)
EXTENDS Printer, Json, IOUtils

CONSTANT Lenient

VARIABLES l, tr
vars == <<l, tr>>

TagSeq(S) == LET RECURSIVE Lst(_)
                 Lst(X) == IF X = {} THEN << >> ELSE LET e == CHOOSE x \in X : TRUE IN <<e[1] \o "/" \o e[2]>> \o Lst(X \ {e})
             IN Lst(S)

\* [b: which table the echo follows ("pinned" | "repaired" | "none"), ok: the rules say it reads back, t2: second echo]
Judge(e) ==
  LET t == e.tree
      pp == PrintExpr("pinned", t)
      pr == PrintExpr("repaired", t)
      b == IF TextOf(pp) = e.echo THEN "pinned" ELSE IF TextOf(pr) = e.echo THEN "repaired" ELSE "none"
      ps == IF b = "repaired" THEN pr ELSE pp
  IN [b |-> b, ok |-> PiecesReadBack(ps, t), t2 |-> TextOf(SecondEcho(IF b = "repaired" THEN "repaired" ELSE "pinned", t)),
      p |-> TextOf(pp), r |-> TextOf(pr), p2 |-> TextOf(SecondEcho("pinned", t)), r2 |-> TextOf(SecondEcho("repaired", t))]

Agrees(e, j) == e.outcome # "ok" \/ (j.b # "none" /\ (j.ok => e.reok /\ e.reecho = j.t2))

Init == /\ l = 1
        /\ tr = ndJsonDeserialize(IOEnv.TRACE)

Next == /\ l <= Len(tr)
        /\ \E j \in {IF tr[l].outcome = "ok" THEN Judge(tr[l]) ELSE [b |-> "skip", ok |-> TRUE, t2 |-> "", p |-> "", r |-> "", p2 |-> "", r2 |-> ""]} :
             /\ \/ Agrees(tr[l], j)
                \/ /\ Lenient
                   /\ ~Agrees(tr[l], j)
                   /\ PrintT(<<"BAD", ToJson([line |-> l, b |-> j.b, p |-> j.p, r |-> j.r, ok |-> j.ok, t2 |-> j.t2, p2 |-> j.p2, r2 |-> j.r2,
                                           d |-> TagSeq(UsedDiff("arg", tr[l].tree)), ra |-> Reassociated(tr[l].tree)])>>)
             /\ (tr[l].outcome = "ok" /\ ~j.ok) =>
                   PrintT(<<"CASE", ToJson([line |-> l, b |-> j.b, p |-> j.p, r |-> j.r, p2 |-> j.p2, r2 |-> j.r2, d |-> TagSeq(UsedDiff("arg", tr[l].tree)),
                                            ra |-> Reassociated(tr[l].tree)])>>)
        /\ l' = l + 1
        /\ UNCHANGED tr

TraceSpec == Init /\ [][Next]_vars

TraceAccepted ==
    LET n == Len(ndJsonDeserialize(IOEnv.TRACE))
        d == TLCGet("stats").diameter - 1
    IN IF d = n THEN TRUE
       ELSE /\ PrintT(<<"REJECTED", ToJson([matched |-> d, total |-> n])>>)
            /\ FALSE
=============================================================================
