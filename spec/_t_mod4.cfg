CONSTANTS RollbackImports = TRUE
          N = 4
          UseChoice = "subsets"
          MaxUses = 3
          MaxTops = 3
          EmitTops = 0
SPECIFICATION Spec
INVARIANTS InvLoaded InvOnce InvDepsFirst InvOrderIndep InvSplit InvReimport InvAcyclicTopo InvOperatorForms InvSessionLink EmitCase
CHECK_DEADLOCK FALSE
