------------------------------ MODULE Pipeline ------------------------------
(***************************************************************************)
(* The composed pipeline on TOKENS (DESIGN §8): an input is a token         *)
(* sequence; it is parsed by the documented grammar (Grammar.tla), typed by *)
(* dimensional analysis (Typing.tla) and - for unit-free integer           *)
(* expressions - evaluated by the reference evaluator (Eval.tla).          *)
(* Predicted outcome of `let v_a = <text>`:                                *)
(*    "resolver" (parse error) | "type" | "ok" with the dimension and,     *)
(*    where defined, the integer value.                                    *)
(* Binds the three layers to each other: a tree the grammar accepts must be *)
(* typable or rejected with a type error; it never panics (C08), it has     *)
(* exactly the documented grouping (C10), the documented dimension (C02)    *)
(* and value (C09).                                                        *)
(***************************************************************************)
EXTENDS Naturals, Sequences, TLC, Json

G == INSTANCE Grammar
T == INSTANCE Typing
V == INSTANCE Eval

CONSTANTS MaxLen, Alphabet

Units == {"m", "s"}
NumVal(v) == CASE v = "2" -> 2 [] v = "3" -> 3 [] OTHER -> 1

\* ---- tokens and their ASCII text
Tk(k, v) == [k |-> k, v |-> v]
TokText(t) ==
  CASE t.k \in {"num", "id"} -> t.v
    [] t.k = "plus" -> "+" [] t.k = "minus" -> "-" [] t.k = "mul" -> "*" [] t.k = "div" -> "/" [] t.k = "pow" -> "^"
    [] t.k = "lp" -> "(" [] t.k = "rp" -> ")" [] t.k = "arrow" -> "->" [] t.k = "lt" -> "<" [] t.k = "eq" -> "=="
    [] t.k = "if" -> "if" [] t.k = "then" -> "then" [] t.k = "else" -> "else"
RECURSIVE Text(_)
Text(ts) == IF ts = << >> THEN "" ELSE IF Len(ts) = 1 THEN TokText(ts[1]) ELSE TokText(ts[1]) \o " " \o Text(Tail(ts))

AlphaCore == { Tk("num", "2"), Tk("num", "3"), Tk("id", "m"), Tk("id", "s"), Tk("id", "zq"), Tk("plus", ""), Tk("minus", ""),
               Tk("mul", ""), Tk("div", ""), Tk("pow", ""), Tk("lp", ""), Tk("rp", ""), Tk("arrow", ""), Tk("lt", ""), Tk("eq", "") }
AlphaIf == { Tk("num", "2"), Tk("id", "m"), Tk("id", "s"), Tk("lt", ""), Tk("plus", ""), Tk("mul", ""), Tk("if", ""), Tk("then", ""), Tk("else", ""),
             Tk("lp", ""), Tk("rp", "") }
AlphaArith == { Tk("num", "2"), Tk("num", "3"), Tk("plus", ""), Tk("minus", ""), Tk("mul", ""), Tk("lp", ""), Tk("rp", ""), Tk("lt", ""), Tk("eq", ""),
                Tk("pow", ""), Tk("id", "m") }
Alpha == CASE Alphabet = "core" -> AlphaCore [] Alphabet = "if" -> AlphaIf [] OTHER -> AlphaArith

\* ---- adapters from the grammar's trees
Supported == {"num", "id", "neg", "add", "sub", "mul", "div", "pow", "conv", "lt", "gt", "le", "ge", "eq", "ne", "if"}
RECURSIVE AllSupported(_)
AllSupported(t) == /\ t[1] \in Supported
                   /\ CASE t[1] \in {"num", "id"} -> TRUE
                        [] t[1] = "neg" -> AllSupported(t[2])
                        [] t[1] = "if" -> AllSupported(t[2]) /\ AllSupported(t[3]) /\ AllSupported(t[4])
                        [] OTHER -> AllSupported(t[2]) /\ AllSupported(t[3])
RECURSIVE ToT(_)
ToT(t) ==
  CASE t[1] = "num" -> T!Num(NumVal(t[2]), 1, t[2])
    [] t[1] = "id" -> IF t[2] \in Units THEN T!U(t[2]) ELSE T!V(t[2])
    [] t[1] = "neg" -> T!Neg(ToT(t[2]))
    [] t[1] = "if" -> T!If(ToT(t[2]), ToT(t[3]), ToT(t[4]))
    [] t[1] \in {"gt", "le", "ge"} -> T!Bin("lt", ToT(t[2]), ToT(t[3]))
    [] t[1] = "ne" -> T!Bin("eq", ToT(t[2]), ToT(t[3]))
    [] OTHER -> T!Bin(t[1], ToT(t[2]), ToT(t[3]))
\* the evaluator's fragment: unit-free integers with + - * comparisons, negation and conditionals
RECURSIVE Evaluable(_)
Evaluable(t) == CASE t[1] = "num" -> TRUE
                  [] t[1] = "neg" -> Evaluable(t[2])
                  [] t[1] = "if" -> Evaluable(t[2]) /\ Evaluable(t[3]) /\ Evaluable(t[4])
                  [] t[1] \in {"add", "sub", "mul", "lt", "gt", "eq", "ne"} -> Evaluable(t[2]) /\ Evaluable(t[3])
                  [] OTHER -> FALSE
RECURSIVE ToV(_)
ToV(t) == CASE t[1] = "num" -> V!Lit(NumVal(t[2]))
            [] t[1] = "neg" -> V!Neg(ToV(t[2]))
            [] t[1] = "if" -> V!IfE(ToV(t[2]), ToV(t[3]), ToV(t[4]))
            [] OTHER -> V!Op2(t[1], ToV(t[2]), ToV(t[3]))

\* ---- the prediction
EmptyTEnv == [x \in {} |-> T!Poly]
Predict(ts) ==
  LET tree == G!Parse(ts) IN
  IF tree = G!REJECT THEN [outcome |-> "resolver", type |-> T!TypeJson(T!Err("parse")), hasval |-> FALSE, val |-> 0, bool |-> FALSE]
  ELSE IF ~AllSupported(tree) THEN [outcome |-> "skip", type |-> T!TypeJson(T!Err("outside the composed fragment")), hasval |-> FALSE, val |-> 0, bool |-> FALSE]
  ELSE LET ty == T!TypeOf(EmptyTEnv, ToT(tree)) IN
       IF T!IsErr(ty) THEN [outcome |-> "type", type |-> T!TypeJson(ty), hasval |-> FALSE, val |-> 0, bool |-> FALSE]
       ELSE IF Evaluable(tree)
            THEN LET v == V!Eval(V!EmptyEnv, ToV(tree), 4) IN
                 [outcome |-> "ok", type |-> T!TypeJson(ty), hasval |-> v.k = "int", val |-> IF v.k = "int" THEN v.v ELSE 0,
                  bool |-> v.k = "bool" /\ v.v]
            ELSE [outcome |-> "ok", type |-> T!TypeJson(ty), hasval |-> FALSE, val |-> 0, bool |-> FALSE]

VARIABLES ts
Init == ts = << >>
Next == Len(ts) < MaxLen /\ \E t \in Alpha : ts' = Append(ts, t)
Spec == Init /\ [][Next]_ts

\* cross-layer consistency on the specification: an evaluable tree that type-checks has a value of the predicted kind
LayersAgree == LET p == Predict(ts) IN
   (ts # << >> /\ p.outcome = "ok" /\ Evaluable(G!Parse(ts))) => ((p.type.k = "bool") <=> ~p.hasval)
EmitCase == ts # << >> => LET p == Predict(ts) IN
   (p.outcome # "skip" => PrintT(<<"CASE", ToJson([text |-> Text(ts), outcome |-> p.outcome, type |-> p.type, hasval |-> p.hasval, val |-> p.val])>>))
=============================================================================
