---- MODULE MC_Session_TTrace_1790036211 ----
EXTENDS Sequences, TLCExt, MC_Session, Toolbox, Naturals, TLC

_expression ==
    LET MC_Session_TEExpression == INSTANCE MC_Session_TEExpression
    IN MC_Session_TEExpression!expression
----

_trace ==
    LET MC_Session_TETrace == INSTANCE MC_Session_TETrace
    IN MC_Session_TETrace!trace
----

_inv ==
    ~(
        TLCGet("level") = Len(_TETrace)
        /\
        st = ([val |-> [za |-> 0, zb |-> 0, ma_x |-> 0, mb_x |-> 0, mc_x |-> 0, md_x |-> 0, mf_x |-> 0, mf_y |-> 0, mg_x |-> 0], fnv |-> [za |-> 0, zb |-> 0, ma_x |-> 0, mb_x |-> 0, mc_x |-> 0, md_x |-> 0, mf_x |-> 0, mf_y |-> 0, mg_x |-> 0], units |-> {}, dims |-> {}, imported |-> {"mf"}, others |-> {}, vkind |-> [za |-> "none", zb |-> "none", ma_x |-> "none", mb_x |-> "none", mc_x |-> "none", md_x |-> "none", mf_x |-> "none", mf_y |-> "none", mg_x |-> "none"], xdims |-> {}, tns |-> {}, ans |-> 0])
        /\
        hist = (<<[text |-> "let zb = za + 1", stmts |-> <<[t |-> "letref", a |-> "zb", b |-> "za", k |-> 0, m |-> ""]>>, outcome |-> "type", kind |-> "expr", out |-> <<>>, res |-> 0], [text |-> "use mf", stmts |-> <<[t |-> "use", a |-> "", b |-> "", k |-> 0, m |-> "mf"]>>, outcome |-> "runtime", kind |-> "division_by_zero", out |-> <<>>, res |-> 0]>>)
    )
----

_init ==
    /\ hist = _TETrace[1].hist
    /\ st = _TETrace[1].st
----

_next ==
    /\ \E i,j \in DOMAIN _TETrace:
        /\ \/ /\ j = i + 1
              /\ i = TLCGet("level")
        /\ hist  = _TETrace[i].hist
        /\ hist' = _TETrace[j].hist
        /\ st  = _TETrace[i].st
        /\ st' = _TETrace[j].st

\* Uncomment the ASSUME below to write the states of the error trace
\* to the given file in Json format. Note that you can pass any tuple
\* to `JsonSerialize`. For example, a sub-sequence of _TETrace.
    \* ASSUME
    \*     LET J == INSTANCE Json
    \*         IN J!JsonSerialize("MC_Session_TTrace_1790036211.json", _TETrace)

=============================================================================

 Note that you can extract this module `MC_Session_TEExpression`
  to a dedicated file to reuse `expression` (the module in the 
  dedicated `MC_Session_TEExpression.tla` file takes precedence 
  over the module `MC_Session_TEExpression` below).

---- MODULE MC_Session_TEExpression ----
EXTENDS Sequences, TLCExt, MC_Session, Toolbox, Naturals, TLC

expression == 
    [
        \* To hide variables of the `MC_Session` spec from the error trace,
        \* remove the variables below.  The trace will be written in the order
        \* of the fields of this record.
        hist |-> hist
        ,st |-> st
        
        \* Put additional constant-, state-, and action-level expressions here:
        \* ,_stateNumber |-> _TEPosition
        \* ,_histUnchanged |-> hist = hist'
        
        \* Format the `hist` variable as Json value.
        \* ,_histJson |->
        \*     LET J == INSTANCE Json
        \*     IN J!ToJson(hist)
        
        \* Lastly, you may build expressions over arbitrary sets of states by
        \* leveraging the _TETrace operator.  For example, this is how to
        \* count the number of times a spec variable changed up to the current
        \* state in the trace.
        \* ,_histModCount |->
        \*     LET F[s \in DOMAIN _TETrace] ==
        \*         IF s = 1 THEN 0
        \*         ELSE IF _TETrace[s].hist # _TETrace[s-1].hist
        \*             THEN 1 + F[s-1] ELSE F[s-1]
        \*     IN F[_TEPosition - 1]
    ]

=============================================================================



Parsing and semantic processing can take forever if the trace below is long.
 In this case, it is advised to uncomment the module below to deserialize the
 trace from a generated binary file.

\*
\*---- MODULE MC_Session_TETrace ----
\*EXTENDS IOUtils, MC_Session, TLC
\*
\*trace == IODeserialize("MC_Session_TTrace_1790036211.bin", TRUE)
\*
\*=============================================================================
\*

---- MODULE MC_Session_TETrace ----
EXTENDS MC_Session, TLC

trace == 
    <<
    ([st |-> [val |-> [za |-> 0, zb |-> 0, ma_x |-> 0, mb_x |-> 0, mc_x |-> 0, md_x |-> 0, mf_x |-> 0, mf_y |-> 0, mg_x |-> 0], fnv |-> [za |-> 0, zb |-> 0, ma_x |-> 0, mb_x |-> 0, mc_x |-> 0, md_x |-> 0, mf_x |-> 0, mf_y |-> 0, mg_x |-> 0], units |-> {}, dims |-> {}, imported |-> {}, others |-> {}, vkind |-> [za |-> "none", zb |-> "none", ma_x |-> "none", mb_x |-> "none", mc_x |-> "none", md_x |-> "none", mf_x |-> "none", mf_y |-> "none", mg_x |-> "none"], xdims |-> {}, tns |-> {}, ans |-> 0],hist |-> <<>>]),
    ([st |-> [val |-> [za |-> 0, zb |-> 0, ma_x |-> 0, mb_x |-> 0, mc_x |-> 0, md_x |-> 0, mf_x |-> 0, mf_y |-> 0, mg_x |-> 0], fnv |-> [za |-> 0, zb |-> 0, ma_x |-> 0, mb_x |-> 0, mc_x |-> 0, md_x |-> 0, mf_x |-> 0, mf_y |-> 0, mg_x |-> 0], units |-> {}, dims |-> {}, imported |-> {}, others |-> {}, vkind |-> [za |-> "none", zb |-> "none", ma_x |-> "none", mb_x |-> "none", mc_x |-> "none", md_x |-> "none", mf_x |-> "none", mf_y |-> "none", mg_x |-> "none"], xdims |-> {}, tns |-> {}, ans |-> 0],hist |-> <<[text |-> "let zb = za + 1", stmts |-> <<[t |-> "letref", a |-> "zb", b |-> "za", k |-> 0, m |-> ""]>>, outcome |-> "type", kind |-> "expr", out |-> <<>>, res |-> 0]>>]),
    ([st |-> [val |-> [za |-> 0, zb |-> 0, ma_x |-> 0, mb_x |-> 0, mc_x |-> 0, md_x |-> 0, mf_x |-> 0, mf_y |-> 0, mg_x |-> 0], fnv |-> [za |-> 0, zb |-> 0, ma_x |-> 0, mb_x |-> 0, mc_x |-> 0, md_x |-> 0, mf_x |-> 0, mf_y |-> 0, mg_x |-> 0], units |-> {}, dims |-> {}, imported |-> {"mf"}, others |-> {}, vkind |-> [za |-> "none", zb |-> "none", ma_x |-> "none", mb_x |-> "none", mc_x |-> "none", md_x |-> "none", mf_x |-> "none", mf_y |-> "none", mg_x |-> "none"], xdims |-> {}, tns |-> {}, ans |-> 0],hist |-> <<[text |-> "let zb = za + 1", stmts |-> <<[t |-> "letref", a |-> "zb", b |-> "za", k |-> 0, m |-> ""]>>, outcome |-> "type", kind |-> "expr", out |-> <<>>, res |-> 0], [text |-> "use mf", stmts |-> <<[t |-> "use", a |-> "", b |-> "", k |-> 0, m |-> "mf"]>>, outcome |-> "runtime", kind |-> "division_by_zero", out |-> <<>>, res |-> 0]>>])
    >>
----


=============================================================================

---- CONFIG MC_Session_TTrace_1790036211 ----
CONSTANTS
    RollbackImports = FALSE
    Depth = 2
    Alphabet = "small"
    Emit = FALSE

INVARIANT
    _inv

CHECK_DEADLOCK
    \* CHECK_DEADLOCK off because of PROPERTY or INVARIANT above.
    FALSE

INIT
    _init

NEXT
    _next

CONSTANT
    _TETrace <- _trace

ALIAS
    _expression
=============================================================================
\* Generated on Tue Sep 22 00:16:53 UTC 2026