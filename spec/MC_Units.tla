------------------------------ MODULE MC_Units ------------------------------
(***************************************************************************)
(* C03 case generation over the unit table dumped from the current tree    *)
(* (module _gen_UnitTable, written by the check at run time):              *)
(*   UnitDef  : unit name -> direct definition                             *)
(*   Forms    : << [text, u, pk, pe] ... >>   written forms (alias+prefix)  *)
(*   Partners : indices into Forms used as second operands of * and /      *)
(* Every case is printed with its exact symbolic denotation.               *)
(***************************************************************************)
EXTENDS Units, _gen_UnitTable, Json, Sequences

VARIABLES stage, i, cs, clo
vars == <<stage, i, cs, clo>>

NoCase == [text |-> "", den |-> [vec |-> Emp, terms |-> << >>], cls |-> ""]
F(k) == Forms[k]
Leaf(lit, k, e) == LeafDen(clo, lit, F(k).u, F(k).pk, F(k).pe, e)
Q(lit, k) == lit \o " " \o F(k).text
Exps == << [t |-> "^2", e |-> <<2, 1>>], [t |-> "^(-1)", e |-> <<-1, 1>>], [t |-> "^(1/2)", e |-> <<1, 2>>], [t |-> "^3", e |-> <<3, 1>>],
           [t |-> "^(1/3)", e |-> <<1, 3>>], [t |-> "^(4/3)", e |-> <<4, 3>>], [t |-> "^(-3/2)", e |-> <<-3, 2>>], [t |-> "^(3/4)", e |-> <<3, 4>>] >>
\* roots whose unit keeps a non-integral exponent, added to the same root of another spelling: forces a conversion between them
Roots == << [t |-> "^(1/3)", e |-> <<1, 3>>], [t |-> "^(2/3)", e |-> <<2, 3>>], [t |-> "^(1/2)", e |-> <<1, 2>>], [t |-> "^(-1/4)", e |-> <<-1, 4>>] >>

Completions(k) ==
     { [text |-> Q("3", k), den |-> Leaf("3", k, R(1)), cls |-> "single"] }
  \cup { [text |-> "(" \o Q("1", k) \o ")" \o Exps[x].t, den |-> DPow(Leaf("1", k, R(1)), Exps[x].e), cls |-> "power"] : x \in 1..Len(Exps) }
  \cup { [text |-> "(" \o Q("4", k) \o ")^(1/2)", den |-> DPow(Leaf("4", k, R(1)), <<1, 2>>), cls |-> "power"] }
  \cup { [text |-> Q("3", k) \o " + " \o Q("0.25", j), den |-> DAdd(Leaf("3", k, R(1)), Leaf("0.25", j, R(1))), cls |-> "sum"]
            : j \in {x \in SumPartners : clo[F(x).u].vec = clo[F(k).u].vec} }
  \cup { [text |-> Q("3", k) \o " - " \o Q("1e6", j), den |-> DSub(Leaf("3", k, R(1)), Leaf("1e6", j, R(1))), cls |-> "sum"]
            : j \in {x \in SumPartners : clo[F(x).u].vec = clo[F(k).u].vec} }
  \cup { [text |-> "(" \o Q("8", k) \o ")" \o Roots[x].t \o " + (" \o Q("27", j) \o ")" \o Roots[x].t,
          den |-> DAdd(DPow(Leaf("8", k, R(1)), Roots[x].e), DPow(Leaf("27", j, R(1)), Roots[x].e)), cls |-> "rootsum"]
            : x \in 1..Len(Roots), j \in {y \in SumPartners : clo[F(y).u].vec = clo[F(k).u].vec} }
  \cup { [text |-> Q("3", k) \o " * " \o Q("2", j), den |-> DMul(Leaf("3", k, R(1)), Leaf("2", j, R(1))), cls |-> "product"] : j \in Partners }
  \cup { [text |-> Q("1e-6", k) \o " / (" \o Q("2", j) \o ")", den |-> DDiv(Leaf("1e-6", k, R(1)), Leaf("2", j, R(1))), cls |-> "product"] : j \in Partners }
  \cup { [text |-> "(" \o Q("3", k) \o " + " \o Q("3", k) \o ") * " \o Q("2", j) \o " / (" \o Q("5", j2) \o ")^2",
          den |-> DDiv(DMul(DAdd(Leaf("3", k, R(1)), Leaf("3", k, R(1))), Leaf("2", j, R(1))), DPow(Leaf("5", j2, R(1)), <<2, 1>>)),
          cls |-> "mixed"] : j \in Partners2, j2 \in Partners2 }

Init == stage = 0 /\ i = 0 /\ cs = NoCase /\ clo = [u \in DOMAIN UnitDef |-> Closure(UnitDef, u)]
Next == \/ stage = 0 /\ \E k \in 1..Len(Forms) : i' = k /\ stage' = 1 /\ UNCHANGED <<cs, clo>>
        \/ stage = 1 /\ \E c \in Completions(i) : cs' = c /\ stage' = 2 /\ UNCHANGED <<i, clo>>
Spec == Init /\ [][Next]_vars

\* MC on the specification: the denotation does not depend on how a unit is written
\* (alias choice: all forms of the same (u, pk, pe) denote the same)
AliasInvariant == stage = 1 => \A k \in 1..Len(Forms) :
     (F(k).u = F(i).u /\ F(k).pk = F(i).pk /\ F(k).pe = F(i).pe) => Leaf("3", k, R(1)) = Leaf("3", i, R(1))
\* rewriting a derived unit into its definition does not change the denotation
RECURSIVE DefDen(_, _)
DefDen(fs, n) == IF n > Len(fs) THEN [vec |-> Emp, mono |-> Emp]
                 ELSE LET f == fs[n]
                          r == DefDen(fs, n + 1) IN
                      [vec |-> MAdd(MScale(clo[f.u].vec, <<f.n, f.d>>), r.vec),
                       mono |-> MAdd(MScale(MAdd(clo[f.u].mono, PrefixMono(f.pk, f.pe)), <<f.n, f.d>>), r.mono)]
RewriteInvariant == stage = 1 =>
     LET u == F(i).u IN
       UnitDef[u].base \/ (LET d == DefDen(UnitDef[u].def, 1) IN
                            clo[u].vec = d.vec /\ clo[u].mono = MAdd(One("f:" \o u), d.mono))

EmitCase == stage = 2 => PrintT(<<"CASE", ToJson([text |-> cs.text, cls |-> cs.cls, den |-> DenJson(cs.den)])>>)
=============================================================================
