------------------------------- MODULE MC_Lexer -------------------------------
(***************************************************************************)
(* C10, number literals: all texts of length <= MaxLen over a character     *)
(* alphabet through the literal automaton of Lexer.tla.                     *)
(* MC:  AutomatonIsDocumented  the automaton accepts a decimal text exactly *)
(*      when the text matches the documented regular expression (or the     *)
(*      `.234` form) and its `_` separate digits.                           *)
(* G:   one CASE line per text: is it one literal, of which kind, with      *)
(*      which value; the harness asks the real tokenizer and parser.        *)
(***************************************************************************)
EXTENDS Lexer, TLC, Json

CONSTANTS MaxLen, CharSet    \* "dec" | "based"

Chars == IF CharSet = "dec" THEN <<"0", "1", "_", ".", "e", "E", "+", "-">>
         ELSE <<"0", "1", "2", "7", "8", "f", "_", ".", "e">>

VARIABLE cs
Init == IF CharSet = "dec" THEN cs = << >>
        ELSE cs \in {<<"0", "x">>, <<"0", "o">>, <<"0", "b">>}
Next == /\ Len(cs) < MaxLen
        /\ \E i \in 1..Len(Chars) : cs' = Append(cs, Chars[i])
Spec == Init /\ [][Next]_cs

AutomatonIsDocumented ==
  (IsLiteral(cs) /\ LitBase(cs) = 10) <=> (MatchesDocNumber(cs) /\ SeparatorsSeparateDigits(cs))

\* a text that is a literal stays one when a digit is appended, unless it ends the based digits
DigitExtends == (IsLiteral(cs) /\ LitBase(cs) = 10) => IsLiteral(Append(cs, "1"))

EmitCase == cs # << >> =>
  LET lit == IsLiteral(cs) IN
  PrintT(<<"CASE", ToJson([s |-> Concat(cs), lit |-> lit, kind |-> LitKind(cs),
                           dec |-> IF lit /\ LitBase(cs) = 10 THEN LitDecimalText(cs) ELSE "",
                           val |-> IF lit /\ LitBase(cs) # 10 THEN LitBasedValue(cs) ELSE -1])>>)
=============================================================================
