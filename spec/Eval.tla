-------------------------------- MODULE Eval --------------------------------
(***************************************************************************)
(* Reference evaluator (big-step) for the Numbat core language, written    *)
(* from the language chapters of the book (variables, functions, where     *)
(* clauses, conditionals, strings, structs, lists).  Independent of        *)
(* bytecode_interpreter.rs / vm.rs: this is "what the source means" (C09). *)
(*                                                                         *)
(* Rules: lexical scoping - a name refers to its innermost binding; a      *)
(* function body sees the bindings visible where the function was defined  *)
(* (globals are immutable, so it sees their values at definition time) and *)
(* itself (recursion); arguments, struct fields, list elements and string   *)
(* parts are evaluated left to right and keep their source order; struct   *)
(* fields are matched by name, not by position.                            *)
(***************************************************************************)
EXTENDS Integers, Sequences, TLC

\* ------------------------------------------------------------------ values
VInt(n)   == [k |-> "int", v |-> n, n |-> ""]
VBool(b)  == [k |-> "bool", v |-> b, n |-> ""]
VStr(s)   == [k |-> "str", v |-> s, n |-> ""]
VList(xs) == [k |-> "list", v |-> xs, n |-> ""]
VStruct(name, fs) == [k |-> "struct", v |-> fs, n |-> name]   \* fs: <<[f, val]>> in DECLARED field order
VFn(name, clo) == [k |-> "fn", v |-> clo, n |-> name]
VErr(e)   == [k |-> "err", v |-> e, n |-> ""]
IsErr(x)  == x.k = "err"

\* ------------------------------------------------------------- expressions
Ex(op, args, name, num) == [op |-> op, args |-> args, name |-> name, num |-> num]
Lit(n)      == Ex("num", << >>, "", n)
BoolLit(b)  == Ex("bool", << >>, IF b THEN "true" ELSE "false", 0)
Var(x)      == Ex("var", << >>, x, 0)
Op2(op, a, b) == Ex(op, <<a, b>>, "", 0)
Not(a)      == Ex("not", <<a>>, "", 0)
Neg(a)      == Ex("neg", <<a>>, "", 0)
IfE(c, a, b) == Ex("if", <<c, a, b>>, "", 0)
Call(f, as) == Ex("call", as, f, 0)              \* f(a1, ..) with f a name
CallV(c, as) == Ex("callv", <<c>> \o as, "", 0)  \* (callable expression)(a1, ..)
Pipe(a, f)  == Ex("pipe", <<a>>, f, 0)           \* a |> f
StrE(parts) == Ex("str", parts, "", 0)           \* parts: Ex("fixed", <<>>, text, 0) or any expression (interpolated)
Fixed(s)    == Ex("fixed", << >>, s, 0)
Mk(name, fields) == Ex("mk", [i \in 1..Len(fields) |-> fields[i].e], name, [i \in 1..Len(fields) |-> fields[i].f])
Fld(a, f)   == Ex("fld", <<a>>, f, 0)
ListE(xs)   == Ex("list", xs, "", 0)

\* struct declarations: name -> sequence of field names in declared order (supplied by the program)
\* ---------------------------------------------------------------- printing
OpTxt(op) == CASE op = "add" -> " + " [] op = "sub" -> " - " [] op = "mul" -> " * " [] op = "lt" -> " < " [] op = "gt" -> " > "
               [] op = "eq" -> " == " [] op = "ne" -> " != " [] op = "and" -> " && " [] op = "or" -> " || "
RECURSIVE ShowE(_)
RECURSIVE ShowArgs(_, _)
ShowArgs(as, i) == IF i > Len(as) THEN "" ELSE (IF i > 1 THEN ", " ELSE "") \o ShowE(as[i]) \o ShowArgs(as, i + 1)
RECURSIVE ShowParts(_, _)
ShowParts(ps, i) == IF i > Len(ps) THEN ""
                    ELSE (IF ps[i].op = "fixed" THEN ps[i].name ELSE "{" \o ShowE(ps[i]) \o "}") \o ShowParts(ps, i + 1)
RECURSIVE ShowFields(_, _, _)
ShowFields(es, fs, i) == IF i > Len(es) THEN "" ELSE (IF i > 1 THEN ", " ELSE "") \o fs[i] \o ": " \o ShowE(es[i]) \o ShowFields(es, fs, i + 1)
ShowE(e) ==
  CASE e.op = "num" -> (IF e.num < 0 THEN "(" \o ToString(e.num) \o ")" ELSE ToString(e.num))
    [] e.op \in {"bool", "var"} -> e.name
    [] e.op \in {"add", "sub", "mul", "lt", "gt", "eq", "ne", "and", "or"} -> "(" \o ShowE(e.args[1]) \o OpTxt(e.op) \o ShowE(e.args[2]) \o ")"
    [] e.op = "not" -> "(!" \o ShowE(e.args[1]) \o ")"
    [] e.op = "neg" -> "(-" \o ShowE(e.args[1]) \o ")"
    [] e.op = "if" -> "(if " \o ShowE(e.args[1]) \o " then " \o ShowE(e.args[2]) \o " else " \o ShowE(e.args[3]) \o ")"
    [] e.op = "call" -> e.name \o "(" \o ShowArgs(e.args, 1) \o ")"
    [] e.op = "callv" -> "(" \o ShowE(e.args[1]) \o ")(" \o ShowArgs(Tail(e.args), 1) \o ")"
    [] e.op = "pipe" -> "(" \o ShowE(e.args[1]) \o " |> " \o e.name \o ")"
    [] e.op = "str" -> "\"" \o ShowParts(e.args, 1) \o "\""
    [] e.op = "mk" -> e.name \o " { " \o ShowFields(e.args, e.num, 1) \o " }"
    [] e.op = "fld" -> ShowE(e.args[1]) \o "." \o e.name
    [] e.op = "list" -> "[" \o ShowArgs(e.args, 1) \o "]"

\* how a value is displayed inside an interpolated string (ints, bools, strings only in the generated programs)
ValText(x) == CASE x.k = "int" -> ToString(x.v) [] x.k = "bool" -> (IF x.v THEN "true" ELSE "false") [] x.k = "str" -> x.v [] OTHER -> "?"

\* ------------------------------------------------------------- environment
\* env = [vars |-> << [n, v] ... >> (innermost last), fns |-> << [n, c] ... >> (newest last), structs |-> name -> field order]
Lookup(bs, x) == LET idx == {i \in 1..Len(bs) : bs[i].n = x} IN
                 IF idx = {} THEN VErr("unknown " \o x)
                 ELSE bs[CHOOSE i \in idx : \A j \in idx : j <= i].v
HasB(bs, x) == \E i \in 1..Len(bs) : bs[i].n = x
GetB(bs, x) == bs[CHOOSE i \in 1..Len(bs) : bs[i].n = x /\ \A j \in 1..Len(bs) : bs[j].n = x => j <= i].v
Bind(env, x, v) == [env EXCEPT !.vars = Append(@, [n |-> x, v |-> v])]
\* closure: [params, body, wheres: <<[n, e]>>, vars, fns] - the environment of the definition
Closure(params, body, wheres, env) == [params |-> params, body |-> body, wheres |-> wheres, vars |-> env.vars, fns |-> env.fns, structs |-> env.structs]

RECURSIVE Eval(_, _, _)
RECURSIVE EvalSeq(_, _, _, _)
RECURSIVE Apply(_, _, _, _)
RECURSIVE BindWheres(_, _, _, _)

\* evaluate es[i..] left to right: sequence of values, or the first error
EvalSeq(env, es, i, fuel) ==
  IF i > Len(es) THEN << >>
  ELSE LET v == Eval(env, es[i], fuel) IN
       IF IsErr(v) THEN <<v>> ELSE <<v>> \o EvalSeq(env, es, i + 1, fuel)
FirstErr(vs) == IF \E i \in 1..Len(vs) : IsErr(vs[i]) THEN vs[CHOOSE i \in 1..Len(vs) : IsErr(vs[i]) /\ \A j \in 1..(i - 1) : ~IsErr(vs[j])] ELSE VErr("")

BindWheres(env, ws, i, fuel) ==
  IF i > Len(ws) THEN env
  ELSE LET v == Eval(env, ws[i].e, fuel) IN
       IF IsErr(v) THEN [env EXCEPT !.vars = Append(@, [n |-> "$err", v |-> v])]
       ELSE BindWheres(Bind(env, ws[i].n, v), ws, i + 1, fuel)

\* call closure c (known under the name f) with argument values
Apply(f, c, argv, fuel) ==
  IF fuel = 0 THEN VErr("fuel")
  ELSE IF Len(argv) # Len(c.params) THEN VErr("arity")
  ELSE LET base == [vars |-> c.vars, fns |-> Append(c.fns, [n |-> f, v |-> c]), structs |-> c.structs]   \* itself: recursion
           RECURSIVE BindParams(_, _)
           BindParams(e, i) == IF i > Len(argv) THEN e ELSE BindParams(Bind(e, c.params[i], argv[i]), i + 1)
           penv == BindParams(base, 1)
           wenv == BindWheres(penv, c.wheres, 1, fuel - 1)       IN IF HasB(wenv.vars, "$err") THEN GetB(wenv.vars, "$err") ELSE Eval(wenv, c.body, fuel - 1)

ListFn(name) == name \in {"head", "tail", "len", "cons", "cons_end"}
ApplyListFn(name, argv) ==
  CASE name = "len"  -> IF argv[1].k = "list" THEN VInt(Len(argv[1].v)) ELSE VErr("type")
    [] name = "head" -> IF argv[1].k = "list" THEN (IF argv[1].v = << >> THEN VErr("empty list") ELSE Head(argv[1].v)) ELSE VErr("type")
    [] name = "tail" -> IF argv[1].k = "list" THEN (IF argv[1].v = << >> THEN VErr("empty list") ELSE VList(Tail(argv[1].v))) ELSE VErr("type")
    [] name = "cons" -> IF argv[2].k = "list" THEN VList(<<argv[1]>> \o argv[2].v) ELSE VErr("type")
    [] name = "cons_end" -> IF argv[2].k = "list" THEN VList(Append(argv[2].v, argv[1])) ELSE VErr("type")

Arith(op, a, b) ==
  IF a.k # "int" \/ b.k # "int" THEN VErr("type")
  ELSE CASE op = "add" -> VInt(a.v + b.v) [] op = "sub" -> VInt(a.v - b.v) [] op = "mul" -> VInt(a.v * b.v)
         [] op = "lt" -> VBool(a.v < b.v) [] op = "gt" -> VBool(a.v > b.v)

Eval(env, e, fuel) ==
  CASE e.op = "num" -> VInt(e.num)
    [] e.op = "bool" -> VBool(e.name = "true")
    [] e.op = "var" ->
         LET v == Lookup(env.vars, e.name) IN
         IF ~IsErr(v) THEN v
         ELSE IF HasB(env.fns, e.name) THEN VFn(e.name, GetB(env.fns, e.name)) ELSE v      \* a function used as a value
    [] e.op \in {"add", "sub", "mul", "lt", "gt"} ->
         LET vs == EvalSeq(env, e.args, 1, fuel) IN
         IF Len(vs) < 2 \/ IsErr(vs[Len(vs)]) THEN FirstErr(vs) ELSE Arith(e.op, vs[1], vs[2])
    [] e.op \in {"eq", "ne"} ->
         LET vs == EvalSeq(env, e.args, 1, fuel) IN
         IF Len(vs) < 2 \/ IsErr(vs[Len(vs)]) THEN FirstErr(vs)
         ELSE VBool(IF e.op = "eq" THEN vs[1] = vs[2] ELSE vs[1] # vs[2])
    [] e.op \in {"and", "or"} ->
         LET vs == EvalSeq(env, e.args, 1, fuel) IN
         IF Len(vs) < 2 \/ IsErr(vs[Len(vs)]) THEN FirstErr(vs)
         ELSE IF vs[1].k # "bool" \/ vs[2].k # "bool" THEN VErr("type")
         ELSE VBool(IF e.op = "and" THEN vs[1].v /\ vs[2].v ELSE vs[1].v \/ vs[2].v)
    [] e.op = "not" -> LET v == Eval(env, e.args[1], fuel) IN IF IsErr(v) THEN v ELSE IF v.k # "bool" THEN VErr("type") ELSE VBool(~v.v)
    [] e.op = "neg" -> LET v == Eval(env, e.args[1], fuel) IN IF IsErr(v) THEN v ELSE IF v.k # "int" THEN VErr("type") ELSE VInt(-v.v)
    [] e.op = "if" ->
         LET c == Eval(env, e.args[1], fuel) IN
         IF IsErr(c) THEN c ELSE IF c.k # "bool" THEN VErr("type")
         ELSE IF c.v THEN Eval(env, e.args[2], fuel) ELSE Eval(env, e.args[3], fuel)     \* only the taken branch is evaluated
    [] e.op \in {"call", "pipe"} ->
         LET vs == EvalSeq(env, e.args, 1, fuel) IN
         IF Len(vs) < Len(e.args) \/ (vs # << >> /\ IsErr(vs[Len(vs)])) THEN FirstErr(vs)
         ELSE LET lv == Lookup(env.vars, e.name) IN       \* a variable holding a function shadows a function name
              IF ~IsErr(lv) THEN (IF lv.k = "fn" THEN Apply(lv.n, lv.v, vs, fuel) ELSE VErr("not callable"))
              ELSE IF HasB(env.fns, e.name) THEN Apply(e.name, GetB(env.fns, e.name), vs, fuel)
                   ELSE IF ListFn(e.name) THEN ApplyListFn(e.name, vs) ELSE VErr("unknown function " \o e.name)
    [] e.op = "callv" ->
         LET vs == EvalSeq(env, Tail(e.args), 1, fuel)
             c == Eval(env, e.args[1], fuel) IN
         IF Len(vs) < Len(e.args) - 1 \/ (vs # << >> /\ IsErr(vs[Len(vs)])) THEN FirstErr(vs)
         ELSE IF IsErr(c) THEN c ELSE IF c.k # "fn" THEN VErr("not callable") ELSE Apply(c.n, c.v, vs, fuel)
    [] e.op = "str" ->
         LET vs == EvalSeq(env, [i \in 1..Len(e.args) |-> IF e.args[i].op = "fixed" THEN Lit(0) ELSE e.args[i]], 1, fuel) IN
         IF Len(vs) < Len(e.args) \/ (vs # << >> /\ IsErr(vs[Len(vs)])) THEN FirstErr(vs)
         ELSE LET RECURSIVE Join(_)
                  Join(i) == IF i > Len(e.args) THEN ""
                             ELSE (IF e.args[i].op = "fixed" THEN e.args[i].name ELSE ValText(vs[i])) \o Join(i + 1)
              IN VStr(Join(1))
    [] e.op = "mk" ->
         LET vs == EvalSeq(env, e.args, 1, fuel)
             decl == env.structs[e.name] IN
         IF Len(vs) < Len(e.args) \/ (vs # << >> /\ IsErr(vs[Len(vs)])) THEN FirstErr(vs)
         ELSE VStruct(e.name, [i \in 1..Len(decl) |->
                 [f |-> decl[i], val |-> vs[CHOOSE j \in 1..Len(e.num) : e.num[j] = decl[i]]]])
    [] e.op = "fld" ->
         LET s == Eval(env, e.args[1], fuel) IN
         IF IsErr(s) THEN s ELSE IF s.k # "struct" THEN VErr("type")
         ELSE s.v[CHOOSE i \in 1..Len(s.v) : s.v[i].f = e.name].val
    [] e.op = "list" ->
         LET vs == EvalSeq(env, e.args, 1, fuel) IN
         IF Len(vs) < Len(e.args) \/ (vs # << >> /\ IsErr(vs[Len(vs)])) THEN FirstErr(vs) ELSE VList(vs)

\* ---------------------------------------------------------------- programs
\* statement: [t |-> "let", n, e] | [t |-> "fn", n, params, body, wheres] | [t |-> "struct", n, fields] | [t |-> "expr", e]
EmptyEnv == [vars |-> << >>, fns |-> << >>, structs |-> [x \in {} |-> << >>]]
RECURSIVE Run(_, _, _, _)
\* returns [env, res]: the value of the last expression statement (or an error)
Run(env, stmts, i, fuel) ==
  IF i > Len(stmts) THEN [env |-> env, res |-> VErr("no result")]
  ELSE LET s == stmts[i] IN
    CASE s.t = "let" -> LET v == Eval(env, s.e, fuel) IN
                        IF IsErr(v) THEN [env |-> env, res |-> v] ELSE Run(Bind(env, s.n, v), stmts, i + 1, fuel)
      [] s.t = "fn" -> Run([env EXCEPT !.fns = Append(@, [n |-> s.n, v |-> Closure(s.params, s.body, s.wheres, env)])], stmts, i + 1, fuel)
      [] s.t = "struct" -> Run([env EXCEPT !.structs = [x \in DOMAIN @ \cup {s.n} |-> IF x = s.n THEN s.fields ELSE @[x]]], stmts, i + 1, fuel)
      [] s.t = "expr" -> LET v == Eval(env, s.e, fuel) IN
                         IF IsErr(v) \/ i = Len(stmts) THEN [env |-> env, res |-> v] ELSE Run(env, stmts, i + 1, fuel)

RECURSIVE ShowList(_, _)
ShowList(xs, i) == IF i > Len(xs) THEN "" ELSE (IF i > 1 THEN ", " ELSE "") \o xs[i] \o ShowList(xs, i + 1)
RECURSIVE ShowWheres(_, _)
ShowWheres(ws, i) == IF i > Len(ws) THEN "" ELSE (IF i = 1 THEN " where " ELSE " and ") \o ws[i].n \o " = " \o ShowE(ws[i].e) \o ShowWheres(ws, i + 1)
ShowStmt(s) ==
  CASE s.t = "let" -> "let " \o s.n \o " = " \o ShowE(s.e)
    [] s.t = "fn" -> "fn " \o s.n \o "(" \o ShowList(s.params, 1) \o ") = " \o ShowE(s.body) \o ShowWheres(s.wheres, 1)
    [] s.t = "struct" -> "struct " \o s.n \o " { " \o ShowList([i \in 1..Len(s.fields) |-> s.fields[i] \o ": Scalar"], 1) \o " }"
    [] s.t = "expr" -> ShowE(s.e)

\* JSON-friendly value (closures are not printed)
RECURSIVE ValJson(_)
ValJson(x) ==
  CASE x.k \in {"int", "bool", "str"} -> [k |-> x.k, v |-> x.v]
    [] x.k = "list" -> [k |-> "list", v |-> [i \in 1..Len(x.v) |-> ValJson(x.v[i])]]
    [] x.k = "struct" -> [k |-> "struct", n |-> x.n, v |-> [i \in 1..Len(x.v) |-> [f |-> x.v[i].f, val |-> ValJson(x.v[i].val)]]]
    [] x.k = "fn" -> [k |-> "fn", n |-> x.n]
    [] x.k = "err" -> [k |-> "err", v |-> x.v]
=============================================================================
