---- MODULE _t_Dbg ----
EXTENDS MC_VM
DProg == Catalogue \o << Let("w_c", Call("f_inc", <<Lit(2)>>)), Let("w_d", Call("f_sub", <<Var("w_c"), Lit(2)>>)),
        ExprS(Op2("add", Op2("mul", Var("w_c"), Lit(100)), Var("w_d"))) >>
DP == Compile(DProg)
DInit == stage = 0 /\ seed = 0 /\ prog = 0 /\ rep = 0
DNext == stage = 0 /\ stage' = 1 /\ UNCHANGED <<seed, prog, rep>> /\ PrintT(DP.chunks[1]) /\ PrintT(DP.chunks[2]) /\ PrintT(RunVM(DP, 5000))
====
