CONSTANTS RollbackImports = TRUE
          N = 1
          UseChoice = "subsets"
          MaxUses = 3
          MaxTops = 3
          EmitTops = 2
SPECIFICATION Spec
INVARIANTS InvLoaded InvOnce InvDepsFirst InvOrderIndep InvSplit InvReimport InvAcyclicTopo InvOperatorForms InvSessionLink EmitCase
CHECK_DEADLOCK FALSE
