------------------------------ MODULE Compile ------------------------------
(***************************************************************************)
(* The bytecode compiler of numbat (bytecode_interpreter.rs:               *)
(* compile_statement / compile_expression plus the program-store helpers   *)
(* of vm.rs) for the core language of Eval.tla (C09).  It mirrors the      *)
(* STRUCTURE of the code:                                                  *)
(*   - one chunk per function, chunk 0 = "<main>"; byte offsets (opcode 1  *)
(*     byte, every operand 2 bytes);                                       *)
(*   - a constants table to which every literal appends (no sharing);      *)
(*   - identifiers: innermost scope searched from the end -> GetLocal      *)
(*     slot, else the globals searched from the end -> GetUpvalue slot,    *)
(*     else a function name -> LoadConstant of a function reference;       *)
(*   - JumpIfFalse / Jump emitted with a placeholder and patched with the  *)
(*     distance from the end of the jump instruction to the target;        *)
(*   - direct calls resolved at compile time (newest chunk of that name,   *)
(*     the chunk under construction included), foreign functions by index  *)
(*     into the table of foreign callables, everything else CallCallable;  *)
(*   - struct fields pushed in REVERSED declared order;                    *)
(*   - strings: every part pushes a string constant, or the value followed *)
(*     by a format-specifier constant; JoinString <number of parts>.       *)
(* Program store (what VM.tla executes and what the `vm_program` hook      *)
(* decodes from the real VM):                                              *)
(*   chunks  <<[i, n, code, len]>>   i = chunk index (0-based), n = name,  *)
(*           code = <<[o, op, a]>> (o = byte offset, a = operands)         *)
(*   consts  <<[i, tv]>>             tv = the value LoadConstant pushes    *)
(*   structs <<[i, n, f]>>           f = field names in declared order     *)
(*   ffi     <<[i, n]>>              registered foreign callables          *)
(*   names   <<[i, n]>>              index and name of every chunk         *)
(***************************************************************************)
EXTENDS Eval

VFnRef(kind, name) == [k |-> "fn", v |-> kind, n |-> name]       \* kind: "normal" | "foreign" | "tz"
VFmt(spec, has) == [k |-> "fmt", v |-> spec, n |-> IF has THEN "some" ELSE "none"]
VOpq(text) == [k |-> "opq", v |-> text, n |-> ""]                \* a value the model does not look into

\* numbering of what exists in the VM before the program is compiled
\* (g0 globals = stack slots, c0 constants, f0 chunks, s0 struct infos, a0 call-argument records, ip0 bytes in <main>)
ZeroBase == [g0 |-> 0, c0 |-> 0, f0 |-> 1, s0 |-> 0, a0 |-> 0, ip0 |-> 0]
ListFnSeq == <<"head", "tail", "len", "cons", "cons_end">>
ListFfi == [j \in 1..Len(ListFnSeq) |-> [i |-> j - 1, n |-> ListFnSeq[j]]]

\* position (1-based) of the LAST element equal to x, 0 if none (Rust: rposition)
RPos(names, x) == LET idx == {j \in 1..Len(names) : names[j] = x} IN
                  IF idx = {} THEN 0 ELSE CHOOSE j \in idx : \A m \in idx : m <= j

\* ------------------------------------------------------------ compiler state
\* cs = [chunks, cur, consts, glob, scope, infn, kinds, fns, structs, nargs, rets, base, ffi]
\*   glob  names of the global bindings (locals[0]); scope names of the function-level bindings (locals[1])
\*   kinds <<[n, k]>> what a global name currently denotes for the type checker ("var" | "fn"), newest last
\*   fns   names in BytecodeInterpreter::functions (inserted AFTER the body has been compiled)
\*   rets  <<[o, g]>> for every Return emitted into <main>: its offset and the number of globals defined so far
CInit(base, ffi) ==
  [chunks |-> << [i |-> 0, n |-> "<main>", code |-> << >>, len |-> base.ip0] >>, cur |-> 1, consts |-> << >>,
   glob |-> << >>, scope |-> << >>, infn |-> FALSE, kinds |-> << >>, fns |-> {}, structs |-> << >>, nargs |-> 0,
   rets |-> << >>, base |-> base, ffi |-> ffi]

CEmit(cs, op, a) ==
  LET ch == cs.chunks[cs.cur] IN
  [cs EXCEPT !.chunks[cs.cur] = [ch EXCEPT !.code = Append(ch.code, [o |-> ch.len, op |-> op, a |-> a]),
                                           !.len = ch.len + 1 + 2 * Len(a)]]
COffset(cs) == cs.chunks[cs.cur].len
CCount(cs) == Len(cs.chunks[cs.cur].code)
\* patch_u16_value_at: overwrite the operand of the instruction at position pos of the current chunk
CPatch(cs, pos, val) == [cs EXCEPT !.chunks[cs.cur].code[pos].a = <<val>>]

\* add_constant + LoadConstant
CLoadConst(cs, tv) ==
  LET idx == cs.base.c0 + Len(cs.consts) IN
  CEmit([cs EXCEPT !.consts = Append(cs.consts, [i |-> idx, tv |-> tv])], "LoadConstant", <<idx>>)

\* get_function_idx: newest chunk of that name (the one being compiled included)
CFunctionIdx(cs, name) ==
  LET idx == {j \in 1..Len(cs.chunks) : cs.chunks[j].n = name} IN
  cs.chunks[CHOOSE j \in idx : \A m \in idx : m <= j].i
CFfiIdx(cs, name) == LET idx == {j \in 1..Len(cs.ffi) : cs.ffi[j].n = name} IN
                     IF idx = {} THEN -1 ELSE cs.ffi[CHOOSE j \in idx : TRUE].i
\* what the type checker's environment says about a called name: innermost binding decides
CIsFunctionName(cs, name) ==
  IF cs.infn /\ RPos(cs.scope, name) > 0 THEN FALSE
  ELSE LET p == RPos([j \in 1..Len(cs.kinds) |-> cs.kinds[j].n], name) IN
       IF p > 0 THEN cs.kinds[p].k = "fn" ELSE CFfiIdx(cs, name) >= 0
CStruct(cs, name) == cs.structs[CHOOSE j \in 1..Len(cs.structs) : cs.structs[j].n = name]
\* the struct type of the accessed expression is known to the type checker; here: the newest struct with that field
CFieldIdx(cs, f) ==
  LET idx == {j \in 1..Len(cs.structs) : \E m \in 1..Len(cs.structs[j].f) : cs.structs[j].f[m] = f}
      s == cs.structs[CHOOSE j \in idx : \A m \in idx : m <= j] IN
  (CHOOSE m \in 1..Len(s.f) : s.f[m] = f) - 1

BinOpName(op) == CASE op = "add" -> "Add" [] op = "sub" -> "Subtract" [] op = "mul" -> "Multiply" [] op = "lt" -> "LessThan"
                   [] op = "gt" -> "GreaterThan" [] op = "eq" -> "Equal" [] op = "ne" -> "NotEqual"
                   [] op = "and" -> "LogicalAnd" [] op = "or" -> "LogicalOr"

RECURSIVE CompE(_, _)
RECURSIVE CompSeq(_, _, _)
RECURSIVE CompParts(_, _, _)
RECURSIVE CompFieldsRev(_, _, _, _)

\* compile es[i..] left to right
CompSeq(cs, es, i) == IF i > Len(es) THEN cs ELSE CompSeq(CompE(cs, es[i]), es, i + 1)

\* string parts in source order
CompParts(cs, ps, i) ==
  IF i > Len(ps) THEN cs
  ELSE IF ps[i].op = "fixed" THEN CompParts(CLoadConst(cs, VStr(ps[i].name)), ps, i + 1)
  ELSE CompParts(CLoadConst(CompE(cs, ps[i]), VFmt("", FALSE)), ps, i + 1)

\* field values in reversed DECLARED order: decl[j], j = Len(decl) .. 1
CompFieldsRev(cs, e, decl, j) ==
  IF j = 0 THEN cs
  ELSE CompFieldsRev(CompE(cs, e.args[CHOOSE m \in 1..Len(e.num) : e.num[m] = decl[j]]), e, decl, j - 1)

CompIdent(cs, name) ==
  LET inner == IF cs.infn THEN cs.scope ELSE cs.glob
      p == RPos(inner, name)
      g == RPos(cs.glob, name) IN
  IF p > 0 THEN CEmit(cs, "GetLocal", <<(IF cs.infn THEN 0 ELSE cs.base.g0) + p - 1>>)
  ELSE IF g > 0 THEN CEmit(cs, "GetUpvalue", <<cs.base.g0 + g - 1>>)
  \* (the code consults BytecodeInterpreter::functions, which learns a name only AFTER its body has been compiled: a function
  \*  that mentions ITSELF as a value hits unreachable!("Unknown identifier") unless an earlier definition of that name
  \*  exists - finding C09-function-passes-itself-as-value-panics; the model states the evident intent)
  ELSE IF name \in cs.fns \/ (cs.infn /\ cs.chunks[cs.cur].n = name) THEN CLoadConst(cs, VFnRef("normal", name))
  ELSE IF CFfiIdx(cs, name) >= 0 THEN CLoadConst(cs, VFnRef("foreign", name))
  ELSE CEmit(cs, "UNREACHABLE-unknown-identifier", <<>>)

\* callee given by name with already compiled arguments
CompCallNamed(cs, name, nargs) ==
  IF CIsFunctionName(cs, name)
  THEN IF CFfiIdx(cs, name) >= 0
       THEN CEmit([cs EXCEPT !.nargs = cs.nargs + 1], "FFICallFunction", <<CFfiIdx(cs, name), nargs, cs.base.a0 + cs.nargs>>)
       ELSE CEmit(cs, "Call", <<CFunctionIdx(cs, name), nargs>>)
  ELSE LET c1 == CompIdent(cs, name) IN
       CEmit([c1 EXCEPT !.nargs = c1.nargs + 1], "CallCallable", <<nargs, c1.base.a0 + c1.nargs>>)

CompE(cs, e) ==
  CASE e.op = "num" -> CLoadConst(cs, VInt(e.num))
    [] e.op = "bool" -> CLoadConst(cs, VBool(e.name = "true"))
    [] e.op = "var" -> CompIdent(cs, e.name)
    [] e.op \in {"add", "sub", "mul", "lt", "gt", "eq", "ne", "and", "or"} ->
         CEmit(CompE(CompE(cs, e.args[1]), e.args[2]), BinOpName(e.op), << >>)
    [] e.op = "not" -> CEmit(CompE(cs, e.args[1]), "LogicalNeg", << >>)
    [] e.op = "neg" -> CEmit(CompE(cs, e.args[1]), "Negate", << >>)
    [] e.op = "if" ->
         LET c1 == CompE(cs, e.args[1])
             jfpos == CCount(c1) + 1
             jfoff == COffset(c1)
             c3 == CompE(CEmit(c1, "JumpIfFalse", <<65535>>), e.args[2])
             jpos == CCount(c3) + 1
             joff == COffset(c3)
             c4 == CEmit(c3, "Jump", <<65535>>)
             \* else_block_offset - (if_jump_offset + 2), if_jump_offset = offset of the operand = jfoff + 1
             c6 == CompE(CPatch(c4, jfpos, COffset(c4) - (jfoff + 3)), e.args[3])
         IN CPatch(c6, jpos, COffset(c6) - (joff + 3))
    [] e.op \in {"call", "pipe"} -> CompCallNamed(CompSeq(cs, e.args, 1), e.name, Len(e.args))
    [] e.op = "callv" ->
         LET c1 == CompE(CompSeq(cs, Tail(e.args), 1), e.args[1]) IN
         CEmit([c1 EXCEPT !.nargs = c1.nargs + 1], "CallCallable", <<Len(e.args) - 1, c1.base.a0 + c1.nargs>>)
    [] e.op = "str" -> CEmit(CompParts(cs, e.args, 1), "JoinString", <<Len(e.args)>>)
    [] e.op = "mk" ->
         LET s == CStruct(cs, e.name) IN
         CEmit(CompFieldsRev(cs, e, s.f, Len(s.f)), "BuildStructInstance", <<s.i, Len(e.args)>>)
    [] e.op = "fld" -> CEmit(CompE(cs, e.args[1]), "AccessStructField", <<CFieldIdx(cs, e.name)>>)
    [] e.op = "list" -> CEmit(CompSeq(cs, e.args, 1), "BuildList", <<Len(e.args)>>)

\* compile_define_variable in the current scope
CompDefine(cs, name, e) ==
  LET c1 == CompE(cs, e) IN
  IF c1.infn THEN [c1 EXCEPT !.scope = Append(c1.scope, name)]
  ELSE [c1 EXCEPT !.glob = Append(c1.glob, name), !.kinds = Append(c1.kinds, [n |-> name, k |-> "var"])]

RECURSIVE CompWheres(_, _, _)
CompWheres(cs, ws, i) == IF i > Len(ws) THEN cs ELSE CompWheres(CompDefine(cs, ws[i].n, ws[i].e), ws, i + 1)

CompStmt(cs, s) ==
  CASE s.t = "expr" ->
         LET c1 == CompE(cs, s.e) IN
         CEmit([c1 EXCEPT !.rets = Append(c1.rets, [o |-> COffset(c1), g |-> Len(c1.glob)])], "Return", << >>)
    [] s.t = "let" -> CompDefine(cs, s.n, s.e)
    [] s.t = "fn" ->
         LET \* the type checker already knows the name inside the body (recursion); begin_function: new chunk
             c0 == [cs EXCEPT !.chunks = Append(cs.chunks, [i |-> cs.base.f0 + Len(cs.chunks) - 1, n |-> s.n, code |-> << >>, len |-> 0]),
                              !.cur = Len(cs.chunks) + 1, !.scope = s.params, !.infn = TRUE,
                              !.kinds = Append(cs.kinds, [n |-> s.n, k |-> "fn"])]
             c2 == CEmit(CompE(CompWheres(c0, s.wheres, 1), s.body), "Return", << >>)
         IN [c2 EXCEPT !.cur = 1, !.scope = << >>, !.infn = FALSE, !.fns = c2.fns \cup {s.n}]
    [] s.t = "struct" ->
         \* add_struct_info: an IndexMap entry; an existing entry of that name is kept
         IF \E j \in 1..Len(cs.structs) : cs.structs[j].n = s.n THEN cs
         ELSE [cs EXCEPT !.structs = Append(cs.structs, [i |-> cs.base.s0 + Len(cs.structs), n |-> s.n, f |-> s.fields])]

RECURSIVE CompStmts(_, _, _)
CompStmts(cs, stmts, i) == IF i > Len(stmts) THEN cs ELSE CompStmts(CompStmt(cs, stmts[i]), stmts, i + 1)

\* the program store after compiling all statements (interpret_statements compiles everything, then runs)
CompileWith(stmts, base, ffi) ==
  LET cs == CompStmts(CInit(base, ffi), stmts, 1) IN
  [chunks |-> cs.chunks, names |-> [j \in 1..Len(cs.chunks) |-> [i |-> cs.chunks[j].i, n |-> cs.chunks[j].n]],
   consts |-> cs.consts, structs |-> cs.structs, ffi |-> cs.ffi, rets |-> cs.rets,
   nglobals |-> Len(cs.glob), g0 |-> base.g0, ip0 |-> base.ip0, top0 |-> "-"]
Compile(stmts) == CompileWith(stmts, ZeroBase, ListFfi)

\* ------------------------------------------------- static properties of a program store
CodeEnd(ch) == ch.len
\* every jump is patched, goes FORWARD and lands on an instruction of the same chunk
JumpsForward(p) ==
  \A c \in 1..Len(p.chunks) : \A j \in 1..Len(p.chunks[c].code) :
    LET ins == p.chunks[c].code[j] IN
    ins.op \in {"Jump", "JumpIfFalse"} =>
      /\ ins.a[1] # 65535
      /\ LET target == ins.o + 3 + ins.a[1] IN
         /\ target > ins.o
         /\ \E m \in (j + 1)..Len(p.chunks[c].code) : p.chunks[c].code[m].o = target
\* every chunk but <main> ends with Return; every direct call names an existing chunk
ChunksClosed(p) ==
  \A c \in 1..Len(p.chunks) :
    /\ p.chunks[c].i # 0 => (p.chunks[c].code # << >> /\ p.chunks[c].code[Len(p.chunks[c].code)].op = "Return")
    /\ \A j \in 1..Len(p.chunks[c].code) :
         p.chunks[c].code[j].op = "Call" => \E d \in 1..Len(p.chunks) : p.chunks[d].i = p.chunks[c].code[j].a[1]
=============================================================================
