CONSTANTS NH = 3
          Elems = {1, 2, 3}
          MaxLen = 64
          Strict = FALSE
SPECIFICATION TraceSpec
POSTCONDITION TraceAccepted
CHECK_DEADLOCK FALSE
