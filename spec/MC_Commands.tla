----------------------------- MODULE MC_Commands -----------------------------
(* all lines of <= 3 words over the command vocabulary x all 32 front-end configurations *)
EXTENDS Commands, Json
VARIABLES stage, cfg, ws
vars == <<stage, cfg, ws>>
Words == {"help", "?", "info", "list", "clear", "save", "reset", "quit", "exit", "commands", "functions", "dimensions",
          "variables", "units", "zq", "1"}
Cfgs == [print : BOOLEAN, clear : BOOLEAN, save : BOOLEAN, reset : BOOLEAN, quit : BOOLEAN]
Lines == {<< >>} \cup {<<a>> : a \in Words} \cup {<<a, b>> : a \in Words, b \in Words}
         \cup {<<a, b, c>> : a \in {"help", "?", "info", "list", "save", "clear", "quit", "zq"}, b \in Words, c \in {"commands", "units", "zq"}}
Init == stage = 0 /\ cfg = [print |-> FALSE, clear |-> FALSE, save |-> FALSE, reset |-> FALSE, quit |-> FALSE] /\ ws = << >>
Next == \/ stage = 0 /\ \E c \in Cfgs : cfg' = c /\ stage' = 1 /\ UNCHANGED ws
        \/ stage = 1 /\ \E l \in Lines : ws' = l /\ stage' = 2 /\ UNCHANGED cfg
Spec == Init /\ [][Next]_vars
InvNeverBoth == stage = 2 => NeverBoth(cfg, ws)
InvMonotone == stage = 2 => \A c2 \in Cfgs : Monotone(cfg, c2, ws)
EmitCase == stage = 2 => PrintT(<<"CASE", ToJson([cfg |-> cfg, words |-> ws, cls |-> Classify(cfg, ws).cls, what |-> Classify(cfg, ws).what])>>)
=============================================================================
