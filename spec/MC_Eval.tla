------------------------------- MODULE MC_Eval -------------------------------
(***************************************************************************)
(* C09 case generation: a fixed catalogue of definitions (captured         *)
(* globals, shadowing, argument order, recursion, where chains, function   *)
(* values, structs with permuted fields, lists), an optional redefinition  *)
(* inserted after the catalogue, and a generated final expression.  Every  *)
(* program is printed with the value Eval.tla assigns to it.               *)
(***************************************************************************)
EXTENDS Eval, Json

CONSTANTS Tier
VARIABLES stage, seed, prog
vars == <<stage, seed, prog>>

Let(n, e) == [t |-> "let", n |-> n, e |-> e, params |-> << >>, ptxt |-> << >>, body |-> Lit(0), wheres |-> << >>, fields |-> << >>]
Fn(n, params, ptxt, body, wheres) == [t |-> "fn", n |-> n, e |-> Lit(0), params |-> params, ptxt |-> ptxt, body |-> body, wheres |-> wheres, fields |-> << >>]
Struct(n, fields) == [t |-> "struct", n |-> n, e |-> Lit(0), params |-> << >>, ptxt |-> << >>, body |-> Lit(0), wheres |-> << >>, fields |-> fields]
ExprS(e) == [t |-> "expr", n |-> "", e |-> e, params |-> << >>, ptxt |-> << >>, body |-> Lit(0), wheres |-> << >>, fields |-> << >>]

X == Var("x")
Catalogue == <<
  Let("w_a", Lit(1)),
  Let("w_b", Lit(2)),
  Fn("f_inc", <<"x">>, <<"x">>, Op2("add", X, Var("w_a")), << >>),
  Fn("f_sub", <<"x", "y">>, <<"x", "y">>, Op2("sub", X, Op2("mul", Var("y"), Lit(10))), << >>),
  Fn("f_fact", <<"n">>, <<"n">>, IfE(Op2("lt", Var("n"), Lit(1)), Lit(1), Op2("mul", Var("n"), Call("f_fact", <<Op2("sub", Var("n"), Lit(1))>>))), << >>),
  Fn("f_wh", <<"x">>, <<"x">>, Op2("add", Var("y"), Var("z")),
       << [n |-> "y", e |-> Op2("mul", X, Lit(2))], [n |-> "z", e |-> Op2("add", Var("y"), X)] >>),
  Fn("f_cap", << >>, << >>, Op2("add", Op2("mul", Var("w_a"), Lit(100)), Var("w_b")), << >>),
  Let("w_a", Lit(5)),
  Fn("f_twice", <<"f", "x">>, <<"f: Fn[(Scalar) -> Scalar]", "x: Scalar">>, Call("f", <<Call("f", <<X>>)>>), << >>),
  Struct("P", <<"x", "y">>),
  Fn("f_mkp", <<"a", "b">>, <<"a", "b">>, Mk("P", << [f |-> "y", e |-> Var("b")], [f |-> "x", e |-> Var("a")] >>), << >>),
  Fn("f_sel", <<"p">>, <<"p: P">>, Op2("add", Op2("mul", Fld(Var("p"), "x"), Lit(10)), Fld(Var("p"), "y")), << >>),
  Let("w_h", Var("f_inc")),
  Fn("f_outer", <<"x">>, <<"x">>, Op2("mul", Call("f_inc", <<X>>), Lit(2)), << >>),
  Fn("f_shadow", <<"w_b">>, <<"w_b">>, Op2("add", Var("w_b"), Var("w_a")), << >>),
  \* a function-valued parameter named like a global function: inside the body the name is the parameter (innermost binding)
  Fn("f_app", <<"f_inc", "x">>, <<"f_inc: Fn[(Scalar) -> Scalar]", "x: Scalar">>, Op2("add", Op2("mul", Call("f_inc", <<X>>), Lit(1000)), Pipe(X, "f_inc")), << >>)
>>

Variants == << << >>,
               << Fn("f_inc", <<"x">>, <<"x">>, Op2("add", X, Lit(100)), << >>) >>,
               << Let("w_b", Lit(9)) >>,
               << Let("w_h", Var("f_outer")), Fn("f_fact", <<"n">>, <<"n">>, Lit(0), << >>) >> >>

A0 == {Lit(2), Lit(7), Var("w_a"), Var("w_b")}
PVal(a, b) == Mk("P", << [f |-> "y", e |-> b], [f |-> "x", e |-> a] >>)
I1(a) ==   \* integer expressions built around atom a
     { a, Call("f_inc", <<a>>), Call("f_wh", <<a>>), Pipe(a, "f_inc"), Pipe(a, "f_outer"), Call("f_outer", <<a>>),
       Call("f_twice", <<Var("f_inc"), a>>), Call("f_twice", <<Var("w_h"), a>>), Call("w_h", <<a>>), CallV(Var("w_h"), <<a>>),
       Call("f_shadow", <<a>>), Call("f_cap", << >>), Neg(a), Call("f_app", <<Var("f_outer"), a>>), Call("f_app", <<Var("w_h"), a>>), Call("f_fact", <<Lit(3)>>), Call("f_fact", <<Op2("sub", a, Lit(1))>>) }
  \cup { Op2(op, a, b) : op \in {"add", "sub", "mul"}, b \in A0 }
  \cup { Call("f_sub", <<a, b>>) : b \in A0 } \cup { Call("f_sub", <<b, a>>) : b \in A0 }
  \cup { Fld(Call("f_mkp", <<a, b>>), f) : b \in {Lit(7), Var("w_b")}, f \in {"x", "y"} }
  \cup { Call("f_sel", <<PVal(a, b)>>) : b \in {Lit(7), Var("w_b")} }
  \cup { Call("head", <<ListE(<<a, b>>)>>) : b \in {Lit(7)} }
  \cup { Call("len", <<Call("cons", <<a, ListE(<<b, a>>)>>)>>) : b \in {Lit(7)} }
  \cup { Call("head", <<Call("tail", <<ListE(<<Lit(7), a, Lit(2)>>)>>)>>) }
B1(a) == { BoolLit(TRUE), BoolLit(FALSE), Op2("lt", a, Lit(3)), Op2("gt", a, Var("w_b")), Op2("eq", a, Lit(2)), Op2("ne", a, Var("w_a")),
           Not(Op2("lt", a, Lit(3))), Op2("and", Op2("lt", a, Lit(6)), Op2("gt", a, Lit(1))), Op2("or", Op2("eq", a, Lit(7)), BoolLit(FALSE)),
           Op2("eq", ListE(<<a, Lit(1)>>), ListE(<<Var("w_b"), Lit(1)>>)), Op2("eq", PVal(a, Lit(1)), Call("f_mkp", <<Lit(2), Lit(1)>>)) }

Seeds == { [v |-> v, a |-> a] : v \in 1..Len(Variants), a \in A0 }
Finals(s) ==
     I1(s.a) \cup B1(s.a)
  \cup { IfE(c, i, Call("f_inc", <<s.a>>)) : c \in B1(s.a), i \in {Lit(0), Call("f_fact", <<s.a>>)} }
  \cup (IF Tier = "quick" THEN {} ELSE { Op2(op, i, j) : op \in {"add", "sub"}, i \in I1(s.a), j \in I1(Lit(7)) })
  \cup { StrE(<<Fixed("a"), i, Fixed("-"), c, Fixed("z")>>) : i \in {s.a, Call("f_inc", <<s.a>>), Call("f_cap", << >>)}, c \in {BoolLit(TRUE), Op2("lt", s.a, Lit(3))} }
  \cup { ListE(<<i, s.a, Call("f_inc", <<i>>)>>) : i \in {Lit(7), Call("f_sub", <<s.a, Lit(1)>>)} }
  \cup { Call("tail", <<ListE(<<s.a, Lit(7), Var("w_a")>>)>>), Call("cons_end", <<s.a, ListE(<<Lit(7)>>)>>),
         Call("cons", <<s.a, Call("cons_end", <<Lit(1), ListE(<<>>) >>)>>), PVal(s.a, Call("f_inc", <<s.a>>)),
         Call("f_mkp", <<Call("f_inc", <<s.a>>), s.a>>), ListE(<<PVal(s.a, Lit(1)), Call("f_mkp", <<Lit(1), s.a>>)>>),
         Call("head", <<ListE(<< >>)>>), Var("w_h"), Call("f_twice", <<Var("f_outer"), s.a>>) }

Init == stage = 0 /\ seed = [v |-> 1, a |-> Lit(0)] /\ prog = << >>
Next == \/ stage = 0 /\ \E s \in Seeds : seed' = s /\ stage' = 1 /\ UNCHANGED prog
        \/ stage = 1 /\ \E f \in Finals(seed) : prog' = Catalogue \o Variants[seed.v] \o <<ExprS(f)>> /\ stage' = 2 /\ UNCHANGED seed
Spec == Init /\ [][Next]_vars

Fuel == 12
Result == Run(EmptyEnv, prog, 1, Fuel).res

\* statement texts (parameters with their annotations)
StmtText(s) == IF s.t = "fn" THEN "fn " \o s.n \o "(" \o ShowList(s.ptxt, 1) \o ") = " \o ShowE(s.body) \o ShowWheres(s.wheres, 1) ELSE ShowStmt(s)

\* MC on the specification: evaluation is total on the generated programs (a value or a documented run-time error)
EvalTotal == stage = 2 => (Result.k \in {"int", "bool", "str", "list", "struct", "fn"} \/ (Result.k = "err" /\ Result.v \in {"empty list"}))

EmitCase == stage = 2 =>
  PrintT(<<"CASE", ToJson([stmts |-> [i \in 1..Len(prog) |-> StmtText(prog[i])], variant |-> seed.v, res |-> ValJson(Result)])>>)
=============================================================================
