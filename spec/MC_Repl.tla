------------------------------ MODULE MC_Repl ------------------------------
(* Bounded exploration of Repl.tla: every script of <= MaxLen lines over an alphabet of inputs (succeeding and failing at *)
(* every stage) and command lines (well-formed and ill-formed); one CASE line per finished run with the predicted        *)
(* standard output items, number of diagnostics, exit status and the content of every saved file (G direction).           *)
EXTENDS Repl, Json

CONSTANTS MaxLen, Alphabet
vars == <<script, p>>

Inputs == { Let("za", 1), LetRef("zb", "za"), Fn("zc", 2), Expr("za"), Call("zc"), AnsE, PrintS("za"), LetDiv0("zb"), LetTyErr("zb"),
            ParseErr, UnitDef("zb"), DimDef("zc"), Use("mb"), Use("mz") }
InputsSmall == { Let("za", 1), LetRef("zb", "za"), Expr("za"), AnsE, LetDiv0("zb"), ParseErr, Use("mb") }
Commands == { <<"list">>, <<"list", "variables">>, <<"list", "functions">>, <<"list", "units">>, <<"list", "dimensions">>, <<"list", "bogus">>,
              <<"list", "units", "more">>, <<"reset">>, <<"reset", "now">>, <<"save", "f1.nbt">>, <<"save">>, <<"save", "a", "b">>,
              <<"quit">>, <<"exit">>, <<"quit", "now">>, <<"help">>, <<"?">>, <<"help", "commands">>, <<"help", "me">>, <<"info", "za">>, <<"info">>,
              <<"clear">>, <<"clear", "all">> }
CommandsSmall == { <<"list", "variables">>, <<"list", "bogus">>, <<"reset">>, <<"save", "f1.nbt">>, <<"quit">>, <<"help", "me">> }
Lines == CASE Alphabet = "full" -> { InLine(s) : s \in Inputs } \cup { CmdLine(w) : w \in Commands } \cup { BlankLine }
           [] Alphabet = "mid" -> { InLine(s) : s \in InputsSmall } \cup { CmdLine(w) : w \in Commands }
           \* C07's part: successful inputs, `reset` and `save` only
           [] Alphabet = "c07" -> { InLine(s) : s \in { Let("za", 1), LetRef("zb", "za"), Expr("za"), Use("mb") } }
                                  \cup { CmdLine(w) : w \in { <<"reset">>, <<"save", "f1.nbt">>, <<"save">> } }
           [] OTHER -> { InLine(s) : s \in InputsSmall } \cup { CmdLine(w) : w \in CommandsSmall }

ASSUME PrintT(<<"META", ToJson([prelude |-> PreludeText, modules |-> [m \in KnownMods |-> ModText(m)]])>>)

Init == script = << >> /\ p = Boot(<< >>)
\* a script is built line by line; every script is also run (the run of a script does not depend on how it was built)
Next == \/ /\ ~p.exited /\ p.lines = << >> /\ Len(script) < MaxLen /\ p.out = << >> /\ p.cmds = 0 /\ p.hist = << >>
           /\ \E l \in Lines : script' = Append(script, l) /\ p' = Boot(<< >>)
        \/ /\ ~p.exited /\ script # << >> /\ p = Boot(<< >>)
           /\ p' = Boot(script) /\ UNCHANGED script
        \/ /\ p # Boot(<< >>) /\ ReplNext
Spec == Init /\ [][Next]_vars

Done == p.exited
Bounded == \A i \in Ids : p.st.val[i] <= 20 /\ p.st.fnv[i] <= 20
MC_SaveReplayFaithful == SaveReplayFaithful
MC_SavedLinesSucceed == SavedLinesSucceed
MC_StatusFaithful == StatusFaithful
MC_CmdLinesAreCommands == CmdLinesAreCommands

EmitCase == Done =>
   PrintT(<<"CASE", ToJson([lines |-> [i \in 1..Len(script) |-> LineText(script[i])],
                            status |-> p.status, errs |-> p.errs,
                            out |-> [i \in 1..Len(p.out) |-> [t |-> p.out[i].t, n |-> p.out[i].n, what |-> p.out[i].what, names |-> p.out[i].names]],
                            saved |-> [i \in 1..Len(p.saved) |-> [file |-> p.saved[i].file,
                                                                    texts |-> [j \in 1..Len(p.saved[i].stmts) |-> Text(p.saved[i].stmts[j])]]],
                            unread |-> Len(p.lines)])>>)
=============================================================================
