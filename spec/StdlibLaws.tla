----------------------------- MODULE StdlibLaws -----------------------------
(***************************************************************************)
(* C23 - standard-library inverse conversions round-trip.                  *)
(*                                                                         *)
(* Written from the documentation (book/src/prelude/functions/{math,other, *)
(* datetime}.md, book/src/basics/conversions.md), not from the code.       *)
(*                                                                         *)
(* TLC has no reals, so this module contributes                            *)
(*  (1) the LAW TABLE as data: one row per law  outer(inner(x)) = x  with   *)
(*      the text templates, the domain on which the law is claimed (a      *)
(*      rational interval respecting the principal branch), a rational     *)
(*      grid over it and the tolerance class the comparator has to apply;  *)
(*  (2) an integer limb model of instants (day, second of day, microsecond)*)
(*      with the proleptic Gregorian calendar, to write instants as        *)
(*      datetime("...") literals and to state their exact Unix time;       *)
(*  (3) an EXACT integer model of mixed-unit splitting (unit_list) along    *)
(*      chains of units with integer ratios.                               *)
(* It is not an oracle for transcendental values: closeness of             *)
(* outer(inner(x)) to x is judged by the comparator with the tolerance     *)
(* stated here (TolClasses).                                               *)
(***************************************************************************)
EXTENDS Integers, Sequences, TLC

(***************************************************************************)
(* Text templates: <<prefix, suffix>> around an argument text.             *)
(***************************************************************************)
Ap(t, s) == t[1] \o s \o t[2]
Call(f) == <<f \o "(", ")">>
Id == <<"", "">>

\* a grid parameter n/d as Numbat text (an exact integer or an integer quotient: evaluated by one IEEE division)
ParamText(n, d) == IF d = 1 THEN "(" \o ToString(n) \o ")"
                   ELSE "(" \o ToString(n) \o "/" \o ToString(d) \o ")"

\* rational comparison a <= b for <<n, d>> with d > 0 (operands small enough for 32-bit products)
RLe(a, b) == a[1] * b[2] <= b[1] * a[2]

(***************************************************************************)
(* Tolerance classes (the only place where tolerances are stated).         *)
(*                                                                         *)
(* cond    real-valued law outer(inner(x)) = x.  With y = inner(x) carrying *)
(*         a relative error r, outer(y) moves by |outer'(y)| |y| r =       *)
(*         |inner(x) / inner'(x)| r =: A(x) r to first order, and outer's   *)
(*         own result carries a relative error r of |x|.  Hence            *)
(*              |outer(inner(x)) - x| <= Rel * (A(x) + |x|),                *)
(*         Rel = 1e-12 (about 4500 ulp: generous for the handful of        *)
(*         roundings in the two library calls and in prelude functions     *)
(*         that are compositions such as x^(1/3), far below any wrong      *)
(*         constant, branch or unit).  A(x), the amplification |F/F'| of    *)
(*         the inner function F, is named by the row (field amp) and is    *)
(*         what makes the tolerance honest near the branch ends, where     *)
(*         inverse trigonometric functions are ill-conditioned (e.g.       *)
(*         A = |tan x| for asin(sin x)); the domains keep a distance from  *)
(*         the branch ends at which the first-order bound is valid.        *)
(* instant result is an instant t (compared as exact nanosecond counts):   *)
(*         |t' - t| <= 8 * 2^-52 * |t - origin| + res, origin = the epoch  *)
(*         the intermediate number counts from (three f64 conversions of   *)
(*         at most one rounding each and margin 2), res = the resolution   *)
(*         of the documented interface (1 us for Unix time: the count is   *)
(*         truncated to whole microseconds; 1 ns otherwise).               *)
(* ulps    a number that is only re-expressed (Unix time <-> instant, Julian *)
(*         date <-> instant): three f64 conversions of at most one         *)
(*         rounding each, margin 2:  |err| <= 8 * 2^-52 * |x| + 1e-13.     *)
(*         Also for the whole-number Unix times unixtime_s/_ms/_us: being   *)
(*         off by one whole unit is far outside it while |x| < 5.6e14.     *)
(* unit_list: see Split below.  VIOLATION iff the literal law is broken: the *)
(*         parts do not add up to the original within 1e-12 of it, a part  *)
(*         other than the last is not whole, or a part has the wrong sign. *)
(*         The exact Split (whole parts exactly, last part within 1e-9     *)
(*         relative + 1e-12 of the total) is the spec's representation; a  *)
(*         lawful result that differs from it is MODEL-DRIFT only.         *)
(***************************************************************************)
TolClasses == <<
  [name |-> "cond", rel |-> "1e-12", formula |-> "|err| <= rel * (A(x) + |x|), A = |F(x)/F'(x)| for the inner function F"],
  [name |-> "ulps", rel |-> "8*2^-52", formula |-> "|err| <= rel * |x| + 1e-13"],
  [name |-> "instant", rel |-> "8*2^-52", formula |-> "|err| <= rel * |t - origin| + res"] >>

(***************************************************************************)
(* The law table.  kind = "real": the parameter p runs over the grid       *)
(* {from, from+step, .., to} / den plus the extra points, all inside the   *)
(* stated domain [lo, hi] (rationals <<n, d>>); x = arg(p) (arg is the     *)
(* identity, "p <unit>", or 10^p / -10^p for domains spanning many         *)
(* decades), the law is  outer(inner(x)) = x.                              *)
(* amp names the inner function whose amplification |F/F'| the comparator  *)
(* uses; c is the constant of an affine inner function (<<n, d>>).         *)
(* kind = "instant": see InstantLaws.                                      *)
(***************************************************************************)
HalfPiBelow == <<51471, 32768>>   \* 1.5707703 < pi/2 = 1.5707963  (distance 2.6e-5)
PiBelow == <<51470, 16384>>       \* 3.1414795 < pi  = 3.1415927  (distance 1.1e-4)
NegR(a) == <<-a[1], a[2]>>

Row(id, pair, dir, outer, inner, arg, lo, hi, grid, extra, amp, c, dom) ==
  [id |-> id, pair |-> pair, dir |-> dir, outer |-> outer, inner |-> inner, arg |-> arg, lo |-> lo, hi |-> hi,
   grid |-> grid, extra |-> extra, tol |-> "cond", amp |-> amp, c |-> c, dom |-> dom]
G(den, from, to, step) == [den |-> den, from |-> from, to |-> to, step |-> step]
NoC == <<0, 1>>
Pow10 == <<"10^", "">>
NegPow10 == <<"(-10^", ")">>

DegC == <<"(", " °C)">>
ToDegC == <<"(", " -> °C)">>
DegF == <<"(", " °F)">>
ToDegF == <<"(", " -> °F)">>
Kelvin == <<"(", " K)">>

RealLaws == <<
  \* ---- temperature scales (book: other.md "Temperature conversion", conversions.md): x in degrees from absolute zero upwards
  Row("celsius(from_celsius(x))", "celsius", "inv_after_fwd", Call("celsius"), Call("from_celsius"), Id,
      <<-27315, 100>>, <<10000, 1>>, G(4, -1092, 40000, 997), << <<-27315, 100>>, <<0, 1>>, <<1, 1024>>, <<-40, 1>> >>, "affine", <<27315, 100>>,
      "degrees Celsius from absolute zero to 10000"),
  Row("from_celsius(celsius(T))", "celsius", "fwd_after_inv", Call("from_celsius"), Call("celsius"), Kelvin,
      <<0, 1>>, <<10000, 1>>, G(4, 0, 40000, 997), << <<27315, 100>>, <<1, 1024>> >>, "affine", <<-27315, 100>>,
      "kelvin from 0 to 10000"),
  Row("(x °C) -> °C", "celsius", "inv_after_fwd", ToDegC, DegC, Id,
      <<-27315, 100>>, <<10000, 1>>, G(4, -1092, 40000, 1999), << <<-27315, 100>>, <<0, 1>>, <<37, 1>> >>, "affine", <<27315, 100>>,
      "degrees Celsius from absolute zero to 10000 (the `x °C` notation and `-> °C`)"),
  Row("(T -> °C) °C", "celsius", "fwd_after_inv", DegC, ToDegC, Kelvin,
      <<0, 1>>, <<10000, 1>>, G(4, 0, 40000, 1999), << <<27315, 100>> >>, "affine", <<-27315, 100>>,
      "kelvin from 0 to 10000"),
  Row("degree_celsius(from_celsius(x))", "celsius", "inv_after_fwd", Call("degree_celsius"), Call("from_celsius"), Id,
      <<-27315, 100>>, <<10000, 1>>, G(4, -1092, 40000, 3989), << >>, "affine", <<27315, 100>>,
      "degrees Celsius from absolute zero to 10000"),
  Row("fahrenheit(from_fahrenheit(x))", "fahrenheit", "inv_after_fwd", Call("fahrenheit"), Call("from_fahrenheit"), Id,
      <<-45967, 100>>, <<10000, 1>>, G(4, -1838, 40000, 997), << <<-45967, 100>>, <<0, 1>>, <<32, 1>>, <<-40, 1>>, <<212, 1>> >>, "affine", <<45967, 100>>,
      "degrees Fahrenheit from absolute zero to 10000"),
  Row("from_fahrenheit(fahrenheit(T))", "fahrenheit", "fwd_after_inv", Call("from_fahrenheit"), Call("fahrenheit"), Kelvin,
      <<0, 1>>, <<10000, 1>>, G(4, 0, 40000, 997), << <<27315, 100>>, <<1, 1024>> >>, "affine", <<-45967 * 5, 900>>,
      "kelvin from 0 to 10000"),
  Row("(x °F) -> °F", "fahrenheit", "inv_after_fwd", ToDegF, DegF, Id,
      <<-45967, 100>>, <<10000, 1>>, G(4, -1838, 40000, 1999), << <<-45967, 100>>, <<0, 1>>, <<986, 10>> >>, "affine", <<45967, 100>>,
      "degrees Fahrenheit from absolute zero to 10000"),
  Row("(T -> °F) °F", "fahrenheit", "fwd_after_inv", DegF, ToDegF, Kelvin,
      <<0, 1>>, <<10000, 1>>, G(4, 0, 40000, 1999), << <<27315, 100>> >>, "affine", <<-45967 * 5, 900>>,
      "kelvin from 0 to 10000"),
  Row("degree_fahrenheit(from_fahrenheit(x))", "fahrenheit", "inv_after_fwd", Call("degree_fahrenheit"), Call("from_fahrenheit"), Id,
      <<-45967, 100>>, <<10000, 1>>, G(4, -1838, 40000, 3989), << >>, "affine", <<45967, 100>>,
      "degrees Fahrenheit from absolute zero to 10000"),
  \* °C <-> °F through kelvin (book example `25 °C -> °F`): (x °C -> °F) °F -> °C = x
  Row("((x °C -> °F) °F) -> °C", "celsius-fahrenheit", "inv_after_fwd", <<"((", " °F) -> °C)">>, <<"((", " °C) -> °F)">>, Id,
      <<-27315, 100>>, <<10000, 1>>, G(4, -1092, 40000, 1999), << <<-40, 1>>, <<0, 1>>, <<100, 1>> >>, "affine", <<27315, 100>>,
      "degrees Celsius from absolute zero to 10000"),
  Row("((x °F -> °C) °C) -> °F", "celsius-fahrenheit", "fwd_after_inv", <<"((", " °C) -> °F)">>, <<"((", " °F) -> °C)">>, Id,
      <<-45967, 100>>, <<10000, 1>>, G(4, -1838, 40000, 1999), << <<-40, 1>>, <<32, 1>>, <<212, 1>> >>, "affine", <<45967, 100>>,
      "degrees Fahrenheit from absolute zero to 10000"),

  \* ---- Julian date of a number of days (the instant direction is in InstantLaws)
  [Row("julian_date(from_julian_date(x days)) -> days", "julian_date", "fwd_after_inv", <<"(julian_date(", ") -> days)">>, Call("from_julian_date"),
      <<"(", " days)">>, <<0, 1>>, <<5373000, 1>>, G(8, 0, 42984000, 1234567), << <<2451545, 1>>, <<4912587, 2>>, <<1, 8>> >>, "identity", NoC,
      "Julian dates 0 .. 5 373 000 days (4714 BC .. year 9999)") EXCEPT !.tol = "ulps"],

  \* ---- trigonometric functions and their inverses on the principal branches (book: math.md "Trigonometry")
  Row("asin(sin(x))", "sin", "inv_after_fwd", Call("asin"), Call("sin"), Id,
      NegR(HalfPiBelow), HalfPiBelow, G(16, -25, 25, 1), << HalfPiBelow, NegR(HalfPiBelow), <<6433, 4096>>, <<-6433, 4096>>, <<1, 32768>> >>, "sin", NoC,
      "[-pi/2 + 2.6e-5, pi/2 - 2.6e-5]"),
  Row("sin(asin(y))", "sin", "fwd_after_inv", Call("sin"), Call("asin"), Id,
      <<-1, 1>>, <<1, 1>>, G(16, -16, 16, 1), << <<32767, 32768>>, <<-32767, 32768>>, <<1, 32768>> >>, "asin", NoC, "[-1, 1]"),
  Row("acos(cos(x))", "cos", "inv_after_fwd", Call("acos"), Call("cos"), Id,
      <<1, 1024>>, PiBelow, G(16, 1, 50, 1), << <<1, 1024>>, PiBelow, <<25735, 8192>> >>, "cos", NoC,
      "[2^-10, pi - 1.1e-4]"),
  Row("cos(acos(y))", "cos", "fwd_after_inv", Call("cos"), Call("acos"), Id,
      <<-1, 1>>, <<1, 1>>, G(16, -16, 16, 1), << <<32767, 32768>>, <<-32767, 32768>>, <<1, 32768>> >>, "acos", NoC, "[-1, 1]"),
  Row("atan(tan(x))", "tan", "inv_after_fwd", Call("atan"), Call("tan"), Id,
      NegR(HalfPiBelow), HalfPiBelow, G(16, -25, 25, 1), << HalfPiBelow, NegR(HalfPiBelow), <<1, 32768>> >>, "tan", NoC,
      "[-pi/2 + 2.6e-5, pi/2 - 2.6e-5]"),
  Row("tan(atan(y))", "tan", "fwd_after_inv", Call("tan"), Call("atan"), Id,
      <<-1000, 1>>, <<1000, 1>>, G(8, -8000, 8000, 331), << <<1, 32768>>, <<1, 1>>, <<-1, 1>> >>, "atan", NoC, "[-1000, 1000]"),
  Row("tan(atan(10^p))", "tan", "fwd_after_inv", Call("tan"), Call("atan"), Pow10,
      <<-12, 1>>, <<6, 1>>, G(2, -24, 12, 1), << >>, "atan", NoC, "y = 10^p, p in [-12, 6]"),

  \* ---- hyperbolic functions
  Row("asinh(sinh(x))", "sinh", "inv_after_fwd", Call("asinh"), Call("sinh"), Id,
      <<-700, 1>>, <<700, 1>>, G(4, -2800, 2800, 113), << <<1, 32768>>, <<-1, 32768>>, <<1, 4>>, <<700, 1>>, <<-700, 1>> >>, "sinh", NoC, "[-700, 700]"),
  Row("sinh(asinh(10^p))", "sinh", "fwd_after_inv", Call("sinh"), Call("asinh"), Pow10,
      <<-300, 1>>, <<300, 1>>, G(2, -600, 600, 25), << <<0, 1>>, <<1, 2>> >>, "asinh", NoC, "y = 10^p, p in [-300, 300]"),
  Row("sinh(asinh(-10^p))", "sinh", "fwd_after_inv", Call("sinh"), Call("asinh"), NegPow10,
      <<-300, 1>>, <<300, 1>>, G(2, -600, 600, 75), << <<0, 1>>, <<1, 2>> >>, "asinh", NoC, "y = -10^p, p in [-300, 300]"),
  Row("acosh(cosh(x))", "cosh", "inv_after_fwd", Call("acosh"), Call("cosh"), Id,
      <<1, 1024>>, <<700, 1>>, G(4, 1, 2800, 57), << <<1, 1024>>, <<1, 16>>, <<700, 1>> >>, "cosh", NoC, "[2^-10, 700]"),
  Row("cosh(acosh(y))", "cosh", "fwd_after_inv", Call("cosh"), Call("acosh"), Id,
      <<1, 1>>, <<1000, 1>>, G(16, 16, 16000, 333), << <<1, 1>>, <<32769, 32768>>, <<1000, 1>> >>, "acosh", NoC, "[1, 1000]"),
  Row("cosh(acosh(10^p))", "cosh", "fwd_after_inv", Call("cosh"), Call("acosh"), Pow10,
      <<0, 1>>, <<300, 1>>, G(2, 0, 600, 25), << <<1, 8>> >>, "acosh", NoC, "y = 10^p, p in [0, 300]"),
  Row("atanh(tanh(x))", "tanh", "inv_after_fwd", Call("atanh"), Call("tanh"), Id,
      <<-8, 1>>, <<8, 1>>, G(16, -128, 128, 4), << <<1, 32768>>, <<-1, 32768>> >>, "tanh", NoC, "[-8, 8] (tanh x rounds to 1 from x = 19)"),
  Row("tanh(atanh(y))", "tanh", "fwd_after_inv", Call("tanh"), Call("atanh"), Id,
      <<-32767, 32768>>, <<32767, 32768>>, G(16, -15, 15, 1), << <<32767, 32768>>, <<-32767, 32768>>, <<1, 32768>> >>, "atanh", NoC, "[-1 + 2^-15, 1 - 2^-15]"),

  \* ---- exponential function and logarithms (book: math.md "Transcendental functions")
  Row("ln(exp(x))", "exp", "inv_after_fwd", Call("ln"), Call("exp"), Id,
      <<-700, 1>>, <<700, 1>>, G(4, -2800, 2800, 113), << <<0, 1>>, <<1, 32768>>, <<700, 1>>, <<-700, 1>> >>, "exp", NoC, "[-700, 700]"),
  Row("log(exp(x))", "exp", "inv_after_fwd", Call("log"), Call("exp"), Id,
      <<-700, 1>>, <<700, 1>>, G(4, -2800, 2800, 339), << >>, "exp", NoC, "[-700, 700] (log is the documented alias of ln)"),
  Row("exp(ln(y))", "exp", "fwd_after_inv", Call("exp"), Call("ln"), Id,
      <<1, 1024>>, <<1000, 1>>, G(16, 1, 16000, 333), << <<1, 1>>, <<1, 1024>> >>, "ln", NoC, "[2^-10, 1000]"),
  Row("exp(ln(10^p))", "exp", "fwd_after_inv", Call("exp"), Call("ln"), Pow10,
      <<-300, 1>>, <<300, 1>>, G(2, -600, 600, 25), << >>, "ln", NoC, "y = 10^p, p in [-300, 300]"),
  Row("log10(10^x)", "log10", "inv_after_fwd", Call("log10"), <<"(10^", ")">>, Id,
      <<-300, 1>>, <<300, 1>>, G(4, -1200, 1200, 49), << <<0, 1>>, <<1, 32768>> >>, "pow10", NoC, "[-300, 300]"),
  Row("10^log10(y)", "log10", "fwd_after_inv", <<"(10^", ")">>, Call("log10"), Id,
      <<1, 1024>>, <<1000, 1>>, G(16, 1, 16000, 333), << <<1, 1>>, <<100, 1>> >>, "log10", NoC, "[2^-10, 1000]"),
  Row("10^log10(10^p)", "log10", "fwd_after_inv", <<"(10^", ")">>, Call("log10"), Pow10,
      <<-300, 1>>, <<300, 1>>, G(4, -1200, 1200, 49), << >>, "log10", NoC, "y = 10^p, p in [-300, 300]"),
  Row("log2(2^x)", "log2", "inv_after_fwd", Call("log2"), <<"(2^", ")">>, Id,
      <<-1000, 1>>, <<1000, 1>>, G(4, -4000, 4000, 163), << <<0, 1>>, <<1, 32768>> >>, "pow2", NoC, "[-1000, 1000]"),
  Row("2^log2(y)", "log2", "fwd_after_inv", <<"(2^", ")">>, Call("log2"), Id,
      <<1, 1024>>, <<1000, 1>>, G(16, 1, 16000, 333), << <<1, 1>>, <<512, 1>> >>, "log2", NoC, "[2^-10, 1000]"),
  Row("2^log2(10^p)", "log2", "fwd_after_inv", <<"(2^", ")">>, Call("log2"), Pow10,
      <<-300, 1>>, <<300, 1>>, G(4, -1200, 1200, 49), << >>, "log2", NoC, "y = 10^p, p in [-300, 300]"),

  \* ---- roots and powers (book: math.md "Basics": sqrt, cbrt, sqr), also on dimensionful quantities
  Row("sqrt(sqr(x))", "sqrt", "inv_after_fwd", Call("sqrt"), Call("sqr"), Id,
      <<0, 1>>, <<1000, 1>>, G(16, 0, 16000, 333), << <<1, 32768>> >>, "sqr", NoC, "[0, 1000]"),
  Row("sqrt(sqr(10^p))", "sqrt", "inv_after_fwd", Call("sqrt"), Call("sqr"), Pow10,
      <<-150, 1>>, <<150, 1>>, G(4, -600, 600, 25), << >>, "sqr", NoC, "x = 10^p, p in [-150, 150]"),
  Row("sqr(sqrt(y))", "sqrt", "fwd_after_inv", Call("sqr"), Call("sqrt"), Id,
      <<0, 1>>, <<1000, 1>>, G(16, 0, 16000, 333), << <<1, 32768>>, <<2, 1>> >>, "sqrt", NoC, "[0, 1000]"),
  Row("sqr(sqrt(10^p))", "sqrt", "fwd_after_inv", Call("sqr"), Call("sqrt"), Pow10,
      <<-300, 1>>, <<300, 1>>, G(4, -1200, 1200, 49), << >>, "sqrt", NoC, "y = 10^p, p in [-300, 300]"),
  Row("sqrt(sqr(x m))", "sqrt", "inv_after_fwd", Call("sqrt"), Call("sqr"), <<"(", " m)">>,
      <<0, 1>>, <<1000, 1>>, G(16, 0, 16000, 999), << >>, "sqr", NoC, "[0, 1000] metres"),
  Row("sqr(sqrt(y m^2))", "sqrt", "fwd_after_inv", Call("sqr"), Call("sqrt"), <<"(", " m^2)">>,
      <<0, 1>>, <<1000, 1>>, G(16, 0, 16000, 999), << >>, "sqrt", NoC, "[0, 1000] square metres"),
  Row("cbrt(x^3)", "cbrt", "inv_after_fwd", Call("cbrt"), <<"((", ")^3)">>, Id,
      <<-1000, 1>>, <<1000, 1>>, G(16, -16000, 16000, 667), << <<1, 32768>>, <<0, 1>>, <<-3, 1>> >>, "cube", NoC, "[-1000, 1000]"),
  Row("cbrt((10^p)^3)", "cbrt", "inv_after_fwd", Call("cbrt"), <<"((", ")^3)">>, Pow10,
      <<-100, 1>>, <<100, 1>>, G(4, -400, 400, 17), << >>, "cube", NoC, "x = 10^p, p in [-100, 100]"),
  Row("cbrt(y)^3", "cbrt", "fwd_after_inv", <<"((", ")^3)">>, Call("cbrt"), Id,
      <<-1000, 1>>, <<1000, 1>>, G(16, -16000, 16000, 667), << <<1, 32768>>, <<0, 1>>, <<-27, 1>> >>, "cbrt", NoC, "[-1000, 1000]"),
  Row("cbrt(10^p)^3", "cbrt", "fwd_after_inv", <<"((", ")^3)">>, Call("cbrt"), Pow10,
      <<-300, 1>>, <<300, 1>>, G(4, -1200, 1200, 49), << >>, "cbrt", NoC, "y = 10^p, p in [-300, 300]"),
  Row("cbrt((x m)^3)", "cbrt", "inv_after_fwd", Call("cbrt"), <<"((", ")^3)">>, <<"(", " m)">>,
      <<-1000, 1>>, <<1000, 1>>, G(16, -16000, 16000, 1999), << >>, "cube", NoC, "[-1000, 1000] metres"),

  \* ---- math::trigonometry_extra (listed in math.md without description; inverse pairs by name)
  Row("acot(cot(x))", "cot", "inv_after_fwd", Call("acot"), Call("cot"), Id,
      <<1, 1024>>, HalfPiBelow, G(16, 1, 25, 1), << <<1, 1024>>, HalfPiBelow >>, "cot", NoC, "[2^-10, pi/2 - 2.6e-5]"),
  Row("acot(cot(-x))", "cot", "inv_after_fwd", Call("acot"), Call("cot"), <<"(-", ")">>,
      <<1, 1024>>, HalfPiBelow, G(16, 1, 25, 3), << >>, "cot", NoC, "[-pi/2 + 2.6e-5, -2^-10]"),
  Row("cot(acot(y))", "cot", "fwd_after_inv", Call("cot"), Call("acot"), Id,
      <<1, 1024>>, <<1000, 1>>, G(16, 1, 16000, 333), << <<1, 1024>> >>, "acot", NoC, "[2^-10, 1000]"),
  Row("acoth(coth(x))", "coth", "inv_after_fwd", Call("acoth"), Call("coth"), Id,
      <<1, 1024>>, <<8, 1>>, G(16, 1, 128, 3), << <<1, 1024>> >>, "coth", NoC, "[2^-10, 8]"),
  Row("coth(acoth(y))", "coth", "fwd_after_inv", Call("coth"), Call("acoth"), Id,
      <<32769, 32768>>, <<1000, 1>>, G(16, 17, 16000, 333), << <<32769, 32768>> >>, "acoth", NoC, "[1 + 2^-15, 1000]"),
  Row("arcsecant(secant(x))", "secant", "inv_after_fwd", Call("arcsecant"), Call("secant"), Id,
      <<1, 1024>>, HalfPiBelow, G(16, 1, 25, 1), << <<1, 1024>>, HalfPiBelow >>, "secant", NoC, "[2^-10, pi/2 - 2.6e-5]"),
  Row("secant(arcsecant(y))", "secant", "fwd_after_inv", Call("secant"), Call("arcsecant"), Id,
      <<1, 1>>, <<1000, 1>>, G(16, 16, 16000, 333), << <<32769, 32768>> >>, "arcsecant", NoC, "[1, 1000]"),
  Row("acsc(cosecant(x))", "cosecant", "inv_after_fwd", Call("acsc"), Call("cosecant"), Id,
      <<1, 1024>>, HalfPiBelow, G(16, 1, 25, 1), << <<1, 1024>>, HalfPiBelow >>, "cosecant", NoC, "[2^-10, pi/2 - 2.6e-5]"),
  Row("acsc(csc(-x))", "cosecant", "inv_after_fwd", Call("acsc"), Call("csc"), <<"(-", ")">>,
      <<1, 1024>>, HalfPiBelow, G(16, 1, 25, 3), << >>, "cosecant", NoC, "[-pi/2 + 2.6e-5, -2^-10]"),
  Row("cosecant(acsc(y))", "cosecant", "fwd_after_inv", Call("cosecant"), Call("acsc"), Id,
      <<1, 1>>, <<1000, 1>>, G(16, 16, 16000, 333), << <<32769, 32768>> >>, "acsc", NoC, "[1, 1000]"),
  Row("asech(sech(x))", "sech", "inv_after_fwd", Call("asech"), Call("sech"), Id,
      <<1, 1024>>, <<300, 1>>, G(16, 1, 4800, 97), << <<1, 1024>> >>, "sech", NoC, "[2^-10, 300]"),
  Row("sech(asech(y))", "sech", "fwd_after_inv", Call("sech"), Call("asech"), Id,
      <<1, 1024>>, <<1, 1>>, G(32, 1, 32, 1), << <<1, 1024>>, <<32767, 32768>> >>, "asech", NoC, "[2^-10, 1]"),
  Row("acsch(csch(x))", "csch", "inv_after_fwd", Call("acsch"), Call("csch"), Id,
      <<1, 1024>>, <<300, 1>>, G(16, 1, 4800, 97), << <<1, 1024>> >>, "csch", NoC, "[2^-10, 300]"),
  Row("acsch(csch(-x))", "csch", "inv_after_fwd", Call("acsch"), Call("csch"), <<"(-", ")">>,
      <<1, 1024>>, <<300, 1>>, G(16, 1, 4800, 97), << <<1, 1024>> >>, "csch", NoC, "[-300, -2^-10]"),
  Row("csch(acsch(10^p))", "csch", "fwd_after_inv", Call("csch"), Call("acsch"), Pow10,
      <<-100, 1>>, <<100, 1>>, G(2, -200, 200, 9), << >>, "acsch", NoC, "y = 10^p, p in [-100, 100]"),
  Row("csch(acsch(-10^p))", "csch", "fwd_after_inv", Call("csch"), Call("acsch"), NegPow10,
      <<-100, 1>>, <<100, 1>>, G(2, -200, 200, 9), << >>, "acsch", NoC, "y = -10^p, p in [-100, 100]")
>>

\* the parameters of a row: grid numerators over the common denominator, and the extra points
GridParams(r) == { <<r.grid.from + j * r.grid.step, r.grid.den>> : j \in 0..((r.grid.to - r.grid.from) \div r.grid.step) }
ExtraParams(r) == { r.extra[i] : i \in 1..Len(r.extra) }
Params(r) == GridParams(r) \cup ExtraParams(r)

InDomain(r, p) == RLe(r.lo, p) /\ RLe(p, r.hi)

RealCase(r, p) ==
  LET a == Ap(r.arg, ParamText(p[1], p[2])) IN
  [k |-> "real", row |-> r.id, p |-> p, x |-> a, mid |-> Ap(r.inner, a), rt |-> Ap(r.outer, Ap(r.inner, a))]

\* well-formedness of the table itself (MC)
RowOK(r) == /\ r.grid.den > 0 /\ r.grid.step > 0 /\ r.grid.from <= r.grid.to
            /\ RLe(r.lo, r.hi)
            /\ \A p \in Params(r) : p[2] > 0 /\ InDomain(r, p)
            /\ r.dir \in {"inv_after_fwd", "fwd_after_inv"}
            /\ \E t \in 1..Len(TolClasses) : TolClasses[t].name = r.tol
PairsBothWays(tbl) == \A i \in 1..Len(tbl) : \E j \in 1..Len(tbl) : tbl[j].pair = tbl[i].pair /\ tbl[j].dir # tbl[i].dir
UniqueIds(tbl) == \A i, j \in 1..Len(tbl) : tbl[i].id = tbl[j].id => i = j

(***************************************************************************)
(* Instants: <<day, sod, us>> = days since 1970-01-01 (proleptic           *)
(* Gregorian, UTC), second of the day 0..86399, microsecond 0..999999.     *)
(* Civil date <-> day number in pure integer arithmetic (\div is floor     *)
(* division, so negative day numbers need no special casing).              *)
(***************************************************************************)
CivilFromDays(z0) ==
  LET z == z0 + 719468
      era == z \div 146097
      doe == z - era * 146097
      yoe == (doe - doe \div 1460 + doe \div 36524 - doe \div 146096) \div 365
      doy == doe - (365 * yoe + yoe \div 4 - yoe \div 100)
      mp == (5 * doy + 2) \div 153
      d == doy - (153 * mp + 2) \div 5 + 1
      m == IF mp < 10 THEN mp + 3 ELSE mp - 9
      y == yoe + era * 400 + (IF m <= 2 THEN 1 ELSE 0)
  IN <<y, m, d>>

IsLeap(y) == (y % 4 = 0 /\ y % 100 # 0) \/ y % 400 = 0
DaysInMonth(y, m) == IF m = 2 THEN (IF IsLeap(y) THEN 29 ELSE 28)
                     ELSE IF m \in {4, 6, 9, 11} THEN 30 ELSE 31

\* independent definition of the inverse (counting days), used by MC to check CivilFromDays
DaysFromCivil(y0, m, d) ==
  LET y == IF m <= 2 THEN y0 - 1 ELSE y0
      era == y \div 400
      yoe == y - era * 400
      mp == IF m > 2 THEN m - 3 ELSE m + 9
      doy == (153 * mp + 2) \div 5 + d - 1
      doe == yoe * 365 + yoe \div 4 - yoe \div 100 + doy
  IN era * 146097 + doe - 719468

CalendarOK(z) == LET c == CivilFromDays(z) IN
                 /\ c[2] \in 1..12 /\ c[3] \in 1..DaysInMonth(c[1], c[2])
                 /\ DaysFromCivil(c[1], c[2], c[3]) = z
\* consecutive days are consecutive dates
CalendarStep(z) == LET a == CivilFromDays(z)
                       b == CivilFromDays(z + 1) IN
                   IF a[3] < DaysInMonth(a[1], a[2]) THEN b = <<a[1], a[2], a[3] + 1>>
                   ELSE IF a[2] < 12 THEN b = <<a[1], a[2] + 1, 1>> ELSE b = <<a[1] + 1, 1, 1>>

Pad(n, w) == LET s == ToString(n) IN
             IF w = 2 THEN (IF n < 10 THEN "0" \o s ELSE s)
             ELSE IF w = 4 THEN (IF n < 10 THEN "000" \o s ELSE IF n < 100 THEN "00" \o s ELSE IF n < 1000 THEN "0" \o s ELSE s)
             ELSE (IF n < 10 THEN "00000" \o s ELSE IF n < 100 THEN "0000" \o s ELSE IF n < 1000 THEN "000" \o s
                   ELSE IF n < 10000 THEN "00" \o s ELSE IF n < 100000 THEN "0" \o s ELSE s)

\* datetime("YYYY-MM-DD hh:mm:ss.ffffff UTC") for years 1..9999
InstantText(t) ==
  LET c == CivilFromDays(t[1]) IN
  "datetime(\"" \o Pad(c[1], 4) \o "-" \o Pad(c[2], 2) \o "-" \o Pad(c[3], 2) \o " "
     \o Pad(t[2] \div 3600, 2) \o ":" \o Pad((t[2] \div 60) % 60, 2) \o ":" \o Pad(t[2] % 60, 2)
     \o "." \o Pad(t[3], 6) \o " UTC\")"

\* the Unix time of an instant as an exact integer expression of Numbat (f64 arithmetic on integers < 2^53 is exact)
SecondsText(t) == "(" \o ToString(t[1]) \o "*86400 + " \o ToString(t[2]) \o ")"
MillisText(t) == "(" \o SecondsText(t) \o "*1000 + " \o ToString(t[3] \div 1000) \o ")"
MicrosText(t) == "(" \o SecondsText(t) \o "*1000000 + " \o ToString(t[3]) \o ")"

(***************************************************************************)
(* Instant laws.  res: "s" | "ms" | "us" - the instants of the row are     *)
(* whole multiples of that resolution.  The argument is either the instant *)
(* as a datetime literal (arg = "instant") or its Unix time as a number    *)
(* (arg = "s" | "ms" | "us", unit = the unit text appended, "" for the      *)
(* scalar variants).  Day ranges: |Unix microseconds| < 2^53 (exactly      *)
(* representable) <=> |day| <= 104249, i.e. years 1685 .. 2255, for the    *)
(* Unix rows; 0001-01-01 .. 9999-12-29 for the Julian date rows (the last  *)
(* representable instant of the implementation's time library is           *)
(* 9999-12-30T22:00Z).                                                     *)
(***************************************************************************)
ILaw(id, pair, dir, outer, inner, arg, unit, res, tol, origin, tolres, dlo, dhi) ==
  [id |-> id, pair |-> pair, dir |-> dir, outer |-> outer, inner |-> inner, arg |-> arg, unit |-> unit, res |-> res,
   tol |-> tol, origin |-> origin, tolres |-> tolres, dlo |-> dlo, dhi |-> dhi]

UnixLo == -104000
UnixHi == 104000
InstantLaws == <<
  ILaw("unixtime(from_unixtime(n unix_s))", "unixtime", "inv_after_fwd", Call("unixtime"), Call("from_unixtime"), "s", " unix_s", "s", "ulps", "", 0, UnixLo, UnixHi),
  ILaw("unixtime(from_unixtime(n unix_ms)) -> unix_ms", "unixtime", "inv_after_fwd", <<"(unixtime(", ") -> unix_ms)">>, Call("from_unixtime"), "ms", " unix_ms", "ms", "ulps", "", 0, UnixLo, UnixHi),
  ILaw("unixtime(from_unixtime(n unix_µs)) -> unix_µs", "unixtime", "inv_after_fwd", <<"(unixtime(", ") -> unix_µs)">>, Call("from_unixtime"), "us", " unix_µs", "us", "ulps", "", 0, UnixLo, UnixHi),
  ILaw("unixtime(from_unixtime(n unix_us)) -> unix_us", "unixtime", "inv_after_fwd", <<"(unixtime(", ") -> unix_us)">>, Call("from_unixtime"), "us", " unix_us", "us", "ulps", "", 0, UnixLo, UnixHi),
  ILaw("from_unixtime(unixtime(t))", "unixtime", "fwd_after_inv", Call("from_unixtime"), Call("unixtime"), "instant", "", "us", "instant", "unix", 1000, UnixLo, UnixHi),
  ILaw("unixtime_s(from_unixtime_s(n))", "unixtime_s", "inv_after_fwd", Call("unixtime_s"), Call("from_unixtime_s"), "s", "", "s", "ulps", "", 0, UnixLo, UnixHi),
  ILaw("from_unixtime_s(unixtime_s(t))", "unixtime_s", "fwd_after_inv", Call("from_unixtime_s"), Call("unixtime_s"), "instant", "", "s", "instant", "unix", 1000, UnixLo, UnixHi),
  ILaw("unixtime_ms(from_unixtime_ms(n))", "unixtime_ms", "inv_after_fwd", Call("unixtime_ms"), Call("from_unixtime_ms"), "ms", "", "ms", "ulps", "", 0, UnixLo, UnixHi),
  ILaw("from_unixtime_ms(unixtime_ms(t))", "unixtime_ms", "fwd_after_inv", Call("from_unixtime_ms"), Call("unixtime_ms"), "instant", "", "ms", "instant", "unix", 1000, UnixLo, UnixHi),
  ILaw("unixtime_µs(from_unixtime_µs(n))", "unixtime_µs", "inv_after_fwd", Call("unixtime_µs"), Call("from_unixtime_µs"), "us", "", "us", "ulps", "", 0, UnixLo, UnixHi),
  ILaw("from_unixtime_µs(unixtime_µs(t))", "unixtime_µs", "fwd_after_inv", Call("from_unixtime_µs"), Call("unixtime_µs"), "instant", "", "us", "instant", "unix", 1000, UnixLo, UnixHi),
  ILaw("unixtime_us(from_unixtime_us(n))", "unixtime_µs", "inv_after_fwd", Call("unixtime_us"), Call("from_unixtime_us"), "us", "", "us", "ulps", "", 0, UnixLo, UnixHi),
  ILaw("from_unixtime_us(unixtime_us(t))", "unixtime_µs", "fwd_after_inv", Call("from_unixtime_us"), Call("unixtime_us"), "instant", "", "us", "instant", "unix", 1000, UnixLo, UnixHi),
  ILaw("from_julian_date(julian_date(t))", "julian_date", "inv_after_fwd", Call("from_julian_date"), Call("julian_date"), "instant", "", "us", "instant", "julian", 1, -719162, 2932894)
>>

\* deterministic spread of seconds-of-day / microseconds over the day grid (j = grid index)
SodOf(j) == IF j % 5 = 0 THEN 0 ELSE IF j % 5 = 1 THEN 86399 ELSE (j * 7919) % 86400
UsOf(j, res) == IF res = "s" THEN 0
                ELSE IF res = "ms" THEN ((j * 613) % 1000) * 1000
                ELSE IF j % 7 = 0 THEN 999999 ELSE IF j % 7 = 1 THEN 1 ELSE (j * 104729) % 1000000

InstantOf(r, j, n) == LET day == r.dlo + ((r.dhi - r.dlo) * j) \div n IN <<day, SodOf(j), UsOf(j, r.res)>>

InstantCase(r, t) ==
  LET a == IF r.arg = "instant" THEN InstantText(t)
           ELSE "(" \o (IF r.arg = "s" THEN SecondsText(t) ELSE IF r.arg = "ms" THEN MillisText(t) ELSE MicrosText(t)) \o r.unit \o ")" IN
  [k |-> "instant", row |-> r.id, t |-> t, x |-> a, mid |-> Ap(r.inner, a), rt |-> Ap(r.outer, Ap(r.inner, a))]

ILawOK(r) == /\ r.dlo <= r.dhi
             /\ r.arg \in {"instant", "s", "ms", "us"} /\ r.res \in {"s", "ms", "us"}
             /\ r.tol \in {"ulps", "instant"}
             /\ (r.tol = "instant") <=> (r.arg = "instant")
             /\ (r.origin = "unix") => (r.dlo >= -104249 /\ r.dhi <= 104249)

(***************************************************************************)
(* Mixed-unit splitting (book: other.md "Mixed unit conversion":           *)
(* `unit_list`, DMS, DM, feet_and_inches, pounds_and_ounces; conversions.md)*)
(* exactly, over integers.                                                 *)
(*                                                                         *)
(* A chain is a list of units, largest first, with integer ratios:         *)
(* units[i] = ratios[i] * units[i+1].  The input is N / 2^m of the         *)
(* smallest unit (m fraction bits); it is modelled as the integer N over   *)
(* the chain extended by a last ratio 2^m.  Split is successive floor      *)
(* division: the parts are the digits of N in the mixed radix of the       *)
(* chain.  A negative quantity splits into the negated parts of its        *)
(* absolute value (truncation towards zero, as documented for trunc_in).   *)
(***************************************************************************)
Chains == <<
  [id |-> "dhms", units |-> <<"day", "hour", "minute", "second">>, ratios |-> <<24, 60, 60>>],
  [id |-> "hms", units |-> <<"hour", "minute", "second">>, ratios |-> <<60, 60>>],
  [id |-> "mile_yd_ft_in", units |-> <<"mile", "yard", "foot", "inch">>, ratios |-> <<1760, 3, 12>>],
  [id |-> "yd_ft_in", units |-> <<"yard", "foot", "inch">>, ratios |-> <<3, 12>>],
  [id |-> "lb_oz", units |-> <<"pound", "ounce">>, ratios |-> <<16>>],
  [id |-> "dms", units |-> <<"degree", "arcminute", "arcsecond">>, ratios |-> <<60, 60>>],
  [id |-> "week_day_hour", units |-> <<"week", "day", "hour">>, ratios |-> <<7, 24>>],
  [id |-> "gal_pint_cup", units |-> <<"gallon", "pint", "cup">>, ratios |-> <<8, 2>>]
>>
\* the documented shorthands are splits over fixed chains
Shorthands == << [fn |-> "DMS", chain |-> "dms"], [fn |-> "feet_and_inches", chain |-> "ft_in"], [fn |-> "pounds_and_ounces", chain |-> "lb_oz"],
                 [fn |-> "DM", chain |-> "dm"] >>
ShortChains == << [id |-> "ft_in", units |-> <<"foot", "inch">>, ratios |-> <<12>>],
                  [id |-> "dm", units |-> <<"degree", "arcminute">>, ratios |-> <<60>>] >>

RECURSIVE Pow2(_), Weight(_, _)
Pow2(m) == IF m = 0 THEN 1 ELSE 2 * Pow2(m - 1)   \* m small
\* size of units[i] in the smallest unit of the (extended) chain with ratio sequence rs
Weight(rs, i) == IF i > Len(rs) THEN 1 ELSE rs[i] * Weight(rs, i + 1)

RECURSIVE SplitFrom(_, _, _)
SplitFrom(n, rs, i) == IF i > Len(rs) THEN <<n>>
                       ELSE LET w == Weight(rs, i) IN <<n \div w>> \o SplitFrom(n % w, rs, i + 1)
\* digits of the natural number n over the ratios rs: Len(rs) + 1 parts
Split(n, rs) == SplitFrom(n, rs, 1)

RECURSIVE WSum(_, _, _)
WSum(parts, rs, i) == IF i > Len(parts) THEN 0 ELSE parts[i] * Weight(rs, i) + WSum(parts, rs, i + 1)

\* the law of the property on integer-scaled data: the parts add up to the original, every part but the first is
\* below its ratio, nothing is negative
SplitLaw(n, rs, parts) == /\ Len(parts) = Len(rs) + 1
                          /\ WSum(parts, rs, 1) = n
                          /\ \A i \in 1..Len(parts) : parts[i] >= 0
                          /\ \A i \in 2..Len(parts) : parts[i] < rs[i - 1]

\* odometer successor: an independent characterisation of Split(n + 1) from Split(n)
RECURSIVE Succ(_, _, _)
Succ(parts, rs, i) == IF i = 1 THEN [parts EXCEPT ![1] = @ + 1]
                      ELSE IF parts[i] + 1 < rs[i - 1] THEN [parts EXCEPT ![i] = @ + 1]
                      ELSE Succ([parts EXCEPT ![i] = 0], rs, i - 1)
Odometer(n, rs) == Split(n + 1, rs) = Succ(Split(n, rs), rs, Len(rs) + 1)

\* the expected observation for the input sign * N / 2^m of the smallest unit over chain c:
\* whole parts as integers, the last part of the chain as the integer (last * 2^m + fraction), all with the sign
ExtRatios(c, m) == IF m = 0 THEN c.ratios ELSE c.ratios \o <<Pow2(m)>>
Expected(c, m, sign, n) ==
  LET d == Split(n, ExtRatios(c, m))
      k == Len(c.units) IN
  [i \in 1..k |-> sign * (IF i < k THEN d[i] ELSE IF m = 0 THEN d[k] ELSE d[k] * Pow2(m) + d[k + 1])]

\* judgement of an observed exact split (trace validation).  Strict: it IS the expected one (the spec's mixed-unit
\* representation).  Otherwise only the literal law of the property on integer-scaled data: the parts add up to the
\* original, all of them are whole (they are integers here) and none has the wrong sign.  A result that passes the
\* law but not Strict (a part equal to one whole next-larger unit, ...) is a representation difference (MODEL-DRIFT),
\* not a violation of C23.
Judge(c, m, sign, n, parts, strict) ==
  LET k == Len(c.units) IN
  /\ Len(parts) = k
  /\ IF strict THEN parts = Expected(c, m, sign, n)
     ELSE LET abs == [i \in 1..k |-> sign * parts[i]]
              sc == Pow2(m)
              rs == c.ratios IN
          /\ \A i \in 1..k : abs[i] >= 0
          \* over the chain scaled to the unit 2^-m of the smallest unit
          /\ (WSum([i \in 1..k |-> IF i < k THEN abs[i] * sc ELSE abs[k]], rs, 1) = n)
=============================================================================
