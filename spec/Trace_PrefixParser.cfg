CONSTANT PrefixTable <- StdPrefixes
SPECIFICATION TraceSpec
INVARIANTS Unique OthersAreNotUnits
POSTCONDITION TraceAccepted
CHECK_DEADLOCK FALSE
