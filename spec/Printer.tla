------------------------------- MODULE Printer -------------------------------
(***************************************************************************)
(* The ECHO rules of Numbat: how a checked statement is written back       *)
(* (Statement::pretty_print), as a function from typed trees to text, and  *)
(* the READER for that text (Grammar.tla's Parse for expressions, a small  *)
(* statement / type-annotation grammar written from the grammar comment of *)
(* parser.rs for the rest).  Property C15 at the level of the rules:       *)
(*                                                                         *)
(*      Read(Print(t)) = t        the echo means what the input meant      *)
(*                                                                         *)
(* The parenthesisation rules are a TABLE  Bare(variant, context) = the    *)
(* set of operand classes written WITHOUT parentheses in that context      *)
(* (context = parent operator and side).  Two variants:                    *)
(*   "pinned"    the rules as implemented (with_parens, with_parens_liberal*)
(*               and the per-operator closures of pretty_print_binop in    *)
(*               typed_ast.rs; the conversion operator parenthesises a     *)
(*               conditional and, on the right, a conversion; the base of  *)
(*               a field access and the callee of a call go through        *)
(*               with_parens (since the fixes ec9ff21, 199d4b4);           *)
(*               the temperature sugar  x °C ,  x -> °C  counts as a call),*)
(*   "repaired"  the pinned table minus every entry whose printed form     *)
(*               binds less tightly than the context needs (the minimal    *)
(*               set of added parentheses: RepairedBare below), and no     *)
(*               sugar where parentheses cannot help (-(x °C) IS           *)
(*               from_celsius(-x)).                                        *)
(* MC_Printer checks the round trip for every well-sorted tree within the  *)
(* bound: it fails for "pinned" (counterexamples = rule defects) and holds *)
(* for "repaired".                                                         *)
(*                                                                         *)
(* Typed trees (what the checker hands to the printer; cf. Grammar.tla):   *)
(*   <<"num", text>>  <<"id", name>>  <<"bool", v>>                        *)
(*   <<"unit", written, long>>        a unit identifier; echoed with its   *)
(*                                    long prefix and full name            *)
(*   <<"str", parts>>   parts: <<"fix", chars>> | <<"ipl", tree, spec>>    *)
(*                      chars = sequence of 1-character strings (content,  *)
(*                      not escaped), spec = "" or the text ":…"           *)
(*   <<"neg", t>> <<"not", t>> <<"fact", n, t>>  <<op, l, r>>              *)
(*   <<"call", callee, args>>  <<"field", t, name>>  <<"if", c, t, e>>     *)
(*   <<"list", elems>>  <<"mk", StructName, <<<<field, tree>>, ...>>>>     *)
(* x per y, x |> f, x², +x, parentheses and x -> f (f a function) are      *)
(* already gone: they are div, call, pow, x, nothing, call.                *)
(*                                                                         *)
(* Print returns PIECES  [k, v, s]:  token kind and payload (Lexer.tla),   *)
(* and the exact text s; k = "ws" is white space.  Text = all s joined;    *)
(* Toks = the tokens.                                                      *)
(***************************************************************************)
EXTENDS Grammar, Rat, TLC

Pc(k, v, s) == << [k |-> k, v |-> v, s |-> s] >>
WS == Pc("ws", "", " ")
NL == Pc("ws", "", "\n")

RECURSIVE TextOf(_)
TextOf(ps) == IF ps = << >> THEN "" ELSE Head(ps).s \o TextOf(Tail(ps))
RECURSIVE ToksOf(_)
ToksOf(ps) == IF ps = << >> THEN << >>
              ELSE (IF Head(ps).k = "ws" THEN << >> ELSE <<Tok(Head(ps).k, Head(ps).v)>>) \o ToksOf(Tail(ps))

CmpTags == {"lt", "gt", "le", "ge", "eq", "ne"}

-----------------------------------------------------------------------------
(* Spellings the echo uses (each must be a spelling of Lexer.tla's table: SpellingsKnown) *)
OpSpelling(tag) ==
  CASE tag = "add" -> "+" [] tag = "sub" -> "-" [] tag = "mul" -> "×" [] tag = "div" -> "/" [] tag = "pow" -> "^"
    [] tag = "conv" -> "➞" [] tag = "lt" -> "<" [] tag = "gt" -> ">" [] tag = "le" -> "≤" [] tag = "ge" -> "≥"
    [] tag = "eq" -> "==" [] tag = "ne" -> "≠" [] tag = "and" -> "&&" [] tag = "or" -> "||"
OpPiece(tag) == Pc(OpToken(tag).k, "", OpSpelling(tag))

-----------------------------------------------------------------------------
(* Classes of operands and contexts: the index sets of the table *)
TempFromNames == {"from_celsius", "from_fahrenheit"}             \* echoed  x °C
TempToNames   == {"°C", "celsius", "degree_celsius", "°F", "fahrenheit", "degree_fahrenheit"}   \* echoed  x -> °C
TempUnit(n) == IF n \in {"from_celsius", "°C", "celsius", "degree_celsius"} THEN "°C" ELSE "°F"
FromName(n) == IF TempUnit(n) = "°C" THEN "from_celsius" ELSE "from_fahrenheit"

IsCallOf(t, names) == t[1] = "call" /\ t[2][1] = "id" /\ t[2][2] \in names /\ Len(t[3]) = 1
IsFused(t) == t[1] = "mul" /\ t[2][1] = "num" /\ t[3][1] \in {"unit", "id"}     \* 2 metre, 2 x
IsPowU(t) == t[1] = "pow" /\ t[3][1] = "num" /\ t[3][2] \in {"2", "3"}          \* x², x³

Class(t) ==
  CASE t[1] \in {"num", "id", "unit", "bool"} -> "leaf"
    [] t[1] \in {"str", "list", "mk", "field"} -> t[1]
    [] t[1] = "call" -> IF IsCallOf(t, TempFromNames) THEN "tempjux"
                        ELSE IF IsCallOf(t, TempToNames) THEN "tempconv" ELSE "call"
    [] t[1] \in {"neg", "not", "fact", "if", "div", "add", "sub", "conv", "and", "or"} -> t[1]
    [] t[1] \in CmpTags -> "cmp"
    [] t[1] = "mul" -> IF t[2][1] = "num" /\ t[3][1] = "unit" THEN "fused"         \* 2 metre
                       ELSE IF t[2][1] = "num" /\ t[3][1] = "id" THEN "fusedid"    \* 2 x
                       ELSE "mul"
    [] t[1] = "pow" -> IF IsPowU(t) THEN "powu" ELSE "pow"

\* written bare by with_parens
Atomic == {"leaf", "str", "list", "mk", "call", "field", "tempjux", "tempconv"}
Compound == {"neg", "not", "fact", "fused", "fusedid", "mul", "div", "add", "sub", "pow", "powu", "conv", "cmp",
             "and", "or", "if"}
Classes == Atomic \cup Compound

Contexts == {"neg", "not", "fact", "powL", "powuL", "powR", "mulL", "mulR", "divL", "divR", "addL", "addR", "subL", "subR",
             "cmpL", "cmpR", "andL", "andR", "orL", "orR", "convL", "convR", "ifC", "ifT", "ifE",
             "callee", "fieldbase", "tjux", "tconv", "arg"}

(* THE TABLE, as implemented.                                                         *)
(*   with_parens          bare: Atomic                                                *)
(*   with_parens_liberal  bare: Atomic + fused                                        *)
(*   Mul   both sides:    Power and Mul bare, else liberal                            *)
(*   Div   left: Power and Mul bare, else liberal; right: Power bare, else liberal    *)
(*   Add   both sides:    Power, Mul, Add bare, else liberal                          *)
(*   Sub   both sides:    Power, Mul bare, else liberal                               *)
(*   ConvertTo: left: a conditional in parens; right: a conditional or a conversion   *)
(*              in parens; everything else bare (lowest precedence, left-associative) *)
(*   Power, comparisons, &&, ||, unary operators, if: with_parens                     *)
(*   base of a field access, callee of a callable call: with_parens                   *)
(*   arguments, elements, fields, interpolations: bare                                *)
(*   temperature sugar: with_parens_liberal                                           *)
Products == {"fused", "fusedid", "mul"}
Powers == {"pow", "powu"}
PinnedBare(ctx) ==
  CASE ctx \in {"neg", "not", "fact", "powL", "powuL", "powR", "cmpL", "cmpR", "andL", "andR", "orL", "orR",
                "ifC", "ifT", "ifE"} -> Atomic
    [] ctx \in {"mulL", "mulR", "divL"} -> Atomic \cup Products \cup Powers
    [] ctx = "divR" -> Atomic \cup {"fused"} \cup Powers
    [] ctx \in {"addL", "addR"} -> Atomic \cup Products \cup Powers \cup {"add"}
    [] ctx \in {"subL", "subR"} -> Atomic \cup Products \cup Powers
    [] ctx \in {"tjux", "tconv"} -> Atomic \cup {"fused"}
    [] ctx = "convL" -> Classes \ {"if"}
    [] ctx = "convR" -> Classes \ {"if", "conv"}
    [] ctx \in {"callee", "fieldbase"} -> Atomic
    [] ctx = "arg" -> Classes

\* grammar level (Grammar.tla: LevelOf) at which each class is PRINTED
PrintedLevel(c) ==
  CASE c \in {"leaf", "str", "list", "mk"} -> 17
    [] c \in {"call", "field"} -> 16
    [] c = "powu" -> 15
    [] c = "fact" -> 14
    [] c = "pow"  -> 13
    [] c \in {"fused", "fusedid", "tempjux"} -> 12      \* juxtaposition
    [] c = "neg"  -> 11
    [] c \in {"mul", "div"} -> 9
    [] c \in {"add", "sub"} -> 8
    [] c = "cmp"  -> 7
    [] c = "not"  -> 6
    [] c = "and"  -> 5
    [] c = "or"   -> 4
    [] c \in {"conv", "tempconv"} -> 3
    [] c = "if"   -> 2
\* least level the grammar accepts in each context (Grammar.tla: LeftMin / RightMin / Body)
MinLevel(ctx) ==
  CASE ctx = "neg" -> 11 [] ctx = "not" -> 6 [] ctx = "fact" -> 15 [] ctx = "powL" -> 14 [] ctx = "powuL" -> 16
    [] ctx = "powR" -> 13 [] ctx \in {"mulL", "divL"} -> 9 [] ctx \in {"mulR", "divR"} -> 10
    [] ctx \in {"addL", "subL"} -> 8 [] ctx \in {"addR", "subR"} -> 9 [] ctx = "cmpL" -> 7 [] ctx = "cmpR" -> 8
    [] ctx = "andL" -> 5 [] ctx = "andR" -> 6 [] ctx = "orL" -> 4 [] ctx = "orR" -> 5
    [] ctx = "convL" -> 3 [] ctx = "convR" -> 4 [] ctx = "ifC" -> 3 [] ctx \in {"ifT", "ifE"} -> 2
    [] ctx \in {"callee", "fieldbase"} -> 16 [] ctx = "tjux" -> 12 [] ctx = "tconv" -> 3 [] ctx = "arg" -> 1

\* a × (b × c) and a + (b + c) are deliberately echoed without parentheses (re-association; the
\* repository's own tests pin "2*(3*4)" -> "2 × 3 × 4"); the round trip is stated up to that.
Reassociates(ctx, c) == (ctx = "mulR" /\ c = "mul") \/ (ctx = "addR" /\ c = "add")

RepairedBare(ctx) == { c \in PinnedBare(ctx) : PrintedLevel(c) >= MinLevel(ctx) \/ Reassociates(ctx, c) }

Bare(v, ctx) == IF v = "pinned" THEN PinnedBare(ctx) ELSE RepairedBare(ctx)

\* the entries in which the two tables differ: <<context, class>>
TableDiff == { <<ctx, c>> \in Contexts \X Classes : c \in PinnedBare(ctx) /\ c \notin RepairedBare(ctx) }

\* sugar is given up where parentheses cannot help: -(x °C) is read as from_celsius(-x)
UseSugar(v, ctx, t) == v = "pinned" \/ ~(ctx = "neg" /\ IsCallOf(t, TempFromNames))

-----------------------------------------------------------------------------
(* String literals *)
EscapeChar(c) ==
  CASE c = "\n" -> "\\n" [] c = "\r" -> "\\r" [] c = "\t" -> "\\t" [] c = "\"" -> "\\\""
    [] c = "{" -> "{{" [] c = "}" -> "}}" [] c = "\\" -> "\\\\" [] OTHER -> c
RECURSIVE EscapeText(_)
EscapeText(cs) == IF cs = << >> THEN "" ELSE EscapeChar(Head(cs)) \o EscapeText(Tail(cs))
\* the reader's side: one escaped unit -> the character (documented escapes of string literals)
UnescapeUnit(u) ==
  CASE u = "\\n" -> "\n" [] u = "\\r" -> "\r" [] u = "\\t" -> "\t" [] u = "\\\"" -> "\"" [] u = "{{" -> "{"
    [] u = "}}" -> "}" [] u = "\\\\" -> "\\" [] OTHER -> u
\* characters that need an escape: written raw they end the literal, open an interpolation or start an escape
NeedsEscape == {"\n", "\r", "\t", "\"", "{", "}", "\\"}
EscapeSound == \A c \in NeedsEscape \cup {"a", " ", "'", "%"} : UnescapeUnit(EscapeChar(c)) = c /\ (c \in NeedsEscape => EscapeChar(c) # c)

-----------------------------------------------------------------------------
(* Print: expressions *)
LPp == Pc("lp", "", "(")
RPp == Pc("rp", "", ")")
CommaSp == Pc("comma", "", ",") \o WS
RECURSIVE BangPieces(_)
BangPieces(n) == IF n = 0 THEN << >> ELSE Pc("bang", "", "!") \o BangPieces(n - 1)

CtxL(tag) == IF tag \in CmpTags THEN "cmpL" ELSE tag \o "L"
CtxR(tag) == IF tag \in CmpTags THEN "cmpR" ELSE tag \o "R"

RECURSIVE PrintE(_, _, _), Opr(_, _, _), PrintSeq(_, _), PrintParts(_, _), PrintFields(_, _)
\* t as an operand in context ctx
Opr(v, ctx, t) ==
  LET c == IF UseSugar(v, ctx, t) THEN Class(t) ELSE "call" IN
  IF c \in Bare(v, ctx) THEN PrintE(v, ctx, t) ELSE LPp \o PrintE(v, ctx, t) \o RPp
PrintSeq(v, s) == IF s = << >> THEN << >>
                  ELSE IF Len(s) = 1 THEN Opr(v, "arg", s[1])
                  ELSE Opr(v, "arg", s[1]) \o CommaSp \o PrintSeq(v, Tail(s))
\* the inside of a string literal: fixed text escaped, interpolations in braces
PrintParts(v, ps) ==
  IF ps = << >> THEN << >>
  ELSE LET p == Head(ps) IN
       (IF p[1] = "fix" THEN Pc("strtext", "", EscapeText(p[2]))
        ELSE Pc("stropen", "", "{") \o Opr(v, "arg", p[2])
             \o (IF p[3] = "" THEN << >> ELSE Pc("strspec", p[3], p[3])) \o Pc("strclose", "", "}"))
       \o PrintParts(v, Tail(ps))
PrintFields(v, fs) ==
  IF fs = << >> THEN << >>
  ELSE Pc("id", fs[1][1], fs[1][1]) \o Pc("colon", "", ":") \o WS \o Opr(v, "arg", fs[1][2])
       \o (IF Len(fs) = 1 THEN << >> ELSE CommaSp \o PrintFields(v, Tail(fs)))
\* (ctx is only needed to decide whether sugar may be used for t itself)
PrintE(v, ctx, t) ==
  CASE t[1] = "num"  -> Pc("num", t[2], t[2])
    [] t[1] = "id"   -> Pc("id", t[2], t[2])
    [] t[1] = "unit" -> Pc("id", t[3], t[3])
    [] t[1] = "bool" -> Pc("bool", t[2], t[2])
    [] t[1] = "str"  -> Pc("strq", "", "\"") \o PrintParts(v, t[2]) \o Pc("strq", "", "\"")
    [] t[1] = "neg"  -> Pc("minus", "", "-") \o Opr(v, "neg", t[2])
    [] t[1] = "not"  -> Pc("bang", "", "!") \o Opr(v, "not", t[2])
    [] t[1] = "fact" -> Opr(v, "fact", t[3]) \o BangPieces(t[2])
    [] IsFused(t)    -> PrintE(v, "arg", t[2]) \o WS \o PrintE(v, "arg", t[3])
    [] IsPowU(t)     -> Opr(v, "powuL", t[2]) \o Pc("uexp", t[3][2], UExpSpelling(t[3][2]))
    [] t[1] = "pow" /\ ~IsPowU(t) -> Opr(v, "powL", t[2]) \o OpPiece("pow") \o Opr(v, "powR", t[3])
    [] t[1] \in BinaryTags \ {"pow"} /\ ~IsFused(t) ->
         Opr(v, CtxL(t[1]), t[2]) \o WS \o OpPiece(t[1]) \o WS \o Opr(v, CtxR(t[1]), t[3])
    [] t[1] = "call" ->
         IF IsCallOf(t, TempFromNames) /\ UseSugar(v, ctx, t)
         THEN Opr(v, "tjux", t[3][1]) \o WS \o Pc("id", TempUnit(t[2][2]), TempUnit(t[2][2]))
         ELSE IF IsCallOf(t, TempToNames)
         THEN Opr(v, "tconv", t[3][1]) \o WS \o Pc("arrow", "", "->") \o WS \o Pc("id", TempUnit(t[2][2]), TempUnit(t[2][2]))
         ELSE Opr(v, "callee", t[2]) \o LPp \o PrintSeq(v, t[3]) \o RPp
    [] t[1] = "field" -> Opr(v, "fieldbase", t[2]) \o Pc("dot", "", ".") \o Pc("id", t[3], t[3])
    [] t[1] = "if"   -> Pc("if", "", "if") \o WS \o Opr(v, "ifC", t[2]) \o WS \o Pc("then", "", "then") \o WS
                        \o Opr(v, "ifT", t[3]) \o WS \o Pc("else", "", "else") \o WS \o Opr(v, "ifE", t[4])
    [] t[1] = "list" -> Pc("lb", "", "[") \o PrintSeq(v, t[2]) \o Pc("rb", "", "]")
    [] t[1] = "mk"   -> Pc("id", t[2], t[2]) \o WS \o Pc("lbrace", "", "{")
                        \o (IF t[3] = << >> THEN << >> ELSE WS \o PrintFields(v, t[3]) \o WS) \o Pc("rbrace", "", "}")

PrintExpr(v, t) == Opr(v, "arg", t)

-----------------------------------------------------------------------------
(* Lexical soundness of the pieces: spellings are in Lexer.tla's table, and two pieces that  *)
(* touch do not need a separator (Lexer.tla part 2).                                          *)
WordLike(p) == p.k \in {"num", "id", "bool", "if", "then", "else", "per", "kw"} \/ (p.k = "arrow" /\ p.s = "to")
TableKinds == { Spellings[i].k : i \in 1..Len(Spellings) }
SpellingKnown(p) == p.k \in TableKinds => \E i \in 1..Len(Spellings) : Spellings[i].k = p.k /\ Spellings[i].s = p.s
SpellingsKnown(ps) == \A i \in 1..Len(ps) : SpellingKnown(ps[i])
\* every fixed piece the printer can emit, once (the spelling table is the same for every tree)
FixedPieces == LPp \o RPp \o CommaSp \o BangPieces(1) \o Pc("minus", "", "-") \o Pc("dot", "", ".") \o Pc("lb", "", "[") \o Pc("rb", "", "]")
               \o Pc("if", "", "if") \o Pc("then", "", "then") \o Pc("else", "", "else") \o Pc("arrow", "", "->")
               \o OpPiece("add") \o OpPiece("sub") \o OpPiece("mul") \o OpPiece("div") \o OpPiece("pow") \o OpPiece("conv")
               \o OpPiece("lt") \o OpPiece("gt") \o OpPiece("le") \o OpPiece("ge") \o OpPiece("eq") \o OpPiece("ne")
               \o OpPiece("and") \o OpPiece("or") \o Pc("uexp", "2", UExpSpelling("2")) \o Pc("uexp", "3", UExpSpelling("3"))
PrinterSpellingsKnown == SpellingsKnown(FixedPieces)
Separated(ps) == \A i \in 1..(Len(ps) - 1) :
                   (ps[i].k # "ws" /\ ps[i + 1].k # "ws" /\ ps[i].k \notin {"strtext"} /\ ps[i + 1].k \notin {"strtext"})
                   => ~NeedSep([s |-> ps[i].s, w |-> WordLike(ps[i])], [s |-> ps[i + 1].s, w |-> WordLike(ps[i + 1])])

-----------------------------------------------------------------------------
(* Reading the echo: expressions.                                                             *)
(* Grammar.tla does not model strings and struct instantiations; both are bracket structures  *)
(* around complete expressions, exactly like the arguments of a call, and are read through    *)
(* the call rule:   " … {  ->  $str (      } … {  ->  ,       } … "  ->  )                  *)
(*                  Name {  ->  $mk:Name (     field :  ->  nothing     }  ->  )              *)
(* (a format specifier is dropped; the texts between the pieces and the field names are      *)
(* compared separately: SideTexts).  Skeleton works on pieces.                                *)
RECURSIVE Skel(_, _)
\* stack: one entry per open bracket: "lit0" / "lit1" (inside a string literal, no / some interpolation seen),
\* "ipl" (inside an interpolation), "mk" (struct braces), "o" (parentheses, list brackets)
Top(stack) == IF stack = << >> THEN "" ELSE Head(stack)
Skel(ps, stack) ==
  IF ps = << >> THEN << >>
  ELSE LET p == Head(ps)
           r == Tail(ps)
       IN
       CASE p.k \in {"ws", "strtext", "strspec"} -> Skel(r, stack)
         [] p.k = "strq" /\ Top(stack) \notin {"lit0", "lit1"} -> <<Tok("id", "$str"), Tok("lp", "")>> \o Skel(r, <<"lit0">> \o stack)
         [] p.k = "strq" /\ Top(stack) \in {"lit0", "lit1"} -> <<Tok("rp", "")>> \o Skel(r, Tail(stack))
         [] p.k = "stropen" -> (IF Top(stack) = "lit1" THEN <<Tok("comma", "")>> ELSE << >>)
                               \o Skel(r, <<"ipl", "lit1">> \o Tail(stack))
         [] p.k = "strclose" -> Skel(r, Tail(stack))
         [] p.k = "lbrace" -> <<Tok("lp", "")>> \o Skel(r, <<"mk">> \o stack)
         [] p.k = "rbrace" -> <<Tok("rp", "")>> \o Skel(r, Tail(stack))
         [] p.k = "id" /\ r # << >> /\ Head(r).k = "colon" /\ Top(stack) = "mk" -> Skel(Tail(r), stack)        \* field :
         [] p.k = "id" /\ Len(r) >= 2 /\ r[1].k = "ws" /\ r[2].k = "lbrace" -> <<Tok("id", "$mk:" \o p.v)>> \o Skel(r, stack)
         [] p.k \in {"lp", "lb"} -> <<Tok(p.k, p.v)>> \o Skel(r, <<"o">> \o stack)
         [] p.k \in {"rp", "rb"} /\ stack # << >> -> <<Tok(p.k, p.v)>> \o Skel(r, Tail(stack))
         [] OTHER -> <<Tok(p.k, p.v)>> \o Skel(r, stack)
Skeleton(ps) == Skel(ps, << >>)

\* what the prefix transformer and the checker make of the parsed tree: the sugar read back, the
\* aliases of the temperature functions identified
RECURSIVE Elab(_), ElabSeq(_)
ElabSeq(s) == IF s = << >> THEN << >> ELSE <<Elab(Head(s))>> \o ElabSeq(Tail(s))
IsTempProduct(p) == p[1] = "mul" /\ p[3][1] = "id" /\ p[3][2] \in TempToNames
Elab(p) ==
  CASE p[1] \in {"num", "id", "bool"} -> p
    [] p[1] = "neg" -> IF IsTempProduct(p[2])                              \* -5 °C is from_celsius(-5)
                       THEN <<"call", <<"id", FromName(p[2][3][2])>>, << <<"neg", Elab(p[2][2])>> >> >>
                       ELSE <<"neg", Elab(p[2])>>
    [] p[1] = "not" -> <<"not", Elab(p[2])>>
    [] p[1] = "fact" -> <<"fact", p[2], Elab(p[3])>>
    [] p[1] = "mul" -> IF IsTempProduct(p) THEN <<"call", <<"id", FromName(p[3][2])>>, <<Elab(p[2])>> >>
                       ELSE <<"mul", Elab(p[2]), Elab(p[3])>>
    [] p[1] = "conv" -> IF p[3][1] = "id" /\ p[3][2] \in TempToNames        \* x -> f, f a function, is f(x)
                        THEN <<"call", <<"id", TempUnit(p[3][2])>>, <<Elab(p[2])>> >>
                        ELSE <<"conv", Elab(p[2]), Elab(p[3])>>
    [] p[1] \in BinaryTags -> <<p[1], Elab(p[2]), Elab(p[3])>>
    [] p[1] = "call" -> <<"call", IF p[2][1] = "id" /\ p[2][2] \in TempToNames THEN <<"id", TempUnit(p[2][2])>> ELSE Elab(p[2]),
                          ElabSeq(p[3])>>
    [] p[1] = "field" -> <<"field", Elab(p[2]), p[3]>>
    [] p[1] = "if" -> <<"if", Elab(p[2]), Elab(p[3]), Elab(p[4])>>
    [] p[1] = "list" -> <<"list", ElabSeq(p[2])>>

\* the same view of a typed tree
RECURSIVE View(_), ViewSeq(_), IplTrees(_), FieldTrees(_)
ViewSeq(s) == IF s = << >> THEN << >> ELSE <<View(Head(s))>> \o ViewSeq(Tail(s))
IplTrees(ps) == IF ps = << >> THEN << >> ELSE (IF Head(ps)[1] = "ipl" THEN <<View(Head(ps)[2])>> ELSE << >>) \o IplTrees(Tail(ps))
FieldTrees(fs) == IF fs = << >> THEN << >> ELSE <<View(Head(fs)[2])>> \o FieldTrees(Tail(fs))
View(t) ==
  CASE t[1] \in {"num", "id", "bool"} -> t
    [] t[1] = "unit" -> <<"id", t[3]>>
    [] t[1] = "str" -> <<"call", <<"id", "$str">>, IplTrees(t[2])>>
    [] t[1] \in {"neg", "not"} -> <<t[1], View(t[2])>>
    [] t[1] = "fact" -> <<"fact", t[2], View(t[3])>>
    [] t[1] \in BinaryTags -> <<t[1], View(t[2]), View(t[3])>>
    [] t[1] = "call" -> <<"call", IF t[2][1] = "id" /\ t[2][2] \in TempToNames THEN <<"id", TempUnit(t[2][2])>> ELSE View(t[2]),
                          ViewSeq(t[3])>>
    [] t[1] = "field" -> <<"field", View(t[2]), t[3]>>
    [] t[1] = "if" -> <<"if", View(t[2]), View(t[3]), View(t[4])>>
    [] t[1] = "list" -> <<"list", ViewSeq(t[2])>>
    [] t[1] = "mk" -> <<"call", <<"id", "$mk:" \o t[2]>>, FieldTrees(t[3])>>

\* products and sums re-associated to the left
RECURSIVE LeftAssoc(_), LeftRoot(_, _, _), LeftSeq(_)
LeftRoot(tag, l, r) == IF r[1] = tag THEN LeftRoot(tag, LeftRoot(tag, l, r[2]), r[3]) ELSE <<tag, l, r>>
LeftSeq(s) == IF s = << >> THEN << >> ELSE <<LeftAssoc(Head(s))>> \o LeftSeq(Tail(s))
LeftAssoc(t) ==
  CASE t[1] \in {"num", "id", "bool", "REJECT"} -> t
    [] t[1] \in {"neg", "not"} -> <<t[1], LeftAssoc(t[2])>>
    [] t[1] = "fact" -> <<"fact", t[2], LeftAssoc(t[3])>>
    [] t[1] \in {"mul", "add"} -> LeftRoot(t[1], LeftAssoc(t[2]), LeftAssoc(t[3]))
    [] t[1] \in BinaryTags -> <<t[1], LeftAssoc(t[2]), LeftAssoc(t[3])>>
    [] t[1] = "call" -> <<"call", LeftAssoc(t[2]), LeftSeq(t[3])>>
    [] t[1] = "field" -> <<"field", LeftAssoc(t[2]), t[3]>>
    [] t[1] = "if" -> <<"if", LeftAssoc(t[2]), LeftAssoc(t[3]), LeftAssoc(t[4])>>
    [] t[1] = "list" -> <<"list", LeftSeq(t[2])>>

\* the texts and names that the skeleton leaves out, in order of appearance
RECURSIVE SideTexts(_)
SideTexts(ps) == IF ps = << >> THEN << >>
                 ELSE (IF Head(ps).k \in {"strtext", "strspec"} THEN <<Head(ps).s>>
                       ELSE IF Head(ps).k = "id" /\ Tail(ps) # << >> /\ Head(Tail(ps)).k = "colon" THEN <<Head(ps).s>>
                       ELSE << >>) \o SideTexts(Tail(ps))

ReadExpr(ps) == LET p == Parse(Skeleton(ps)) IN IF p = REJECT THEN REJECT ELSE Elab(p)

\* the echo of t reads back as t (up to re-association of products and sums)
\* (ps: the pieces of the echo of t)
PiecesReadBack(ps, t) == Separated(ps) /\ LeftAssoc(ReadExpr(ps)) = LeftAssoc(View(t))
ExprRoundTrip(v, t) == PiecesReadBack(PrintExpr(v, t), t)
\* ... and without the allowance
ExprRoundTripExact(v, t) == ReadExpr(PrintExpr(v, t)) = View(t)

\* the typed tree that reading the echo gives back when the round trip holds: a product a × (b × c) is echoed as the
\* sequence a × b × c of its factors, which is read from the left (likewise sums); everything else is unchanged.
\* The factors of a product are its operands that are not themselves products echoed with × (a fused product
\* 2 metre / 2 x  is written by juxtaposition, which binds tighter than ×: it is ONE factor).
RECURSIVE LeftAssocT(_), Operands(_, _), FoldLeft(_, _, _), LeftSeqT(_), LeftPartsT(_), LeftFieldsT(_)
Chains(tag, t) == t[1] = tag /\ ~IsFused(t)
Operands(tag, t) == IF Chains(tag, t) THEN Operands(tag, t[2]) \o Operands(tag, t[3]) ELSE <<LeftAssocT(t)>>
FoldLeft(tag, acc, rest) == IF rest = << >> THEN acc ELSE FoldLeft(tag, <<tag, acc, Head(rest)>>, Tail(rest))
LeftSeqT(s) == IF s = << >> THEN << >> ELSE <<LeftAssocT(Head(s))>> \o LeftSeqT(Tail(s))
LeftPartsT(ps) == IF ps = << >> THEN << >>
                  ELSE <<IF Head(ps)[1] = "ipl" THEN <<"ipl", LeftAssocT(Head(ps)[2]), Head(ps)[3]>> ELSE Head(ps)>> \o LeftPartsT(Tail(ps))
LeftFieldsT(fs) == IF fs = << >> THEN << >> ELSE << <<Head(fs)[1], LeftAssocT(Head(fs)[2])>> >> \o LeftFieldsT(Tail(fs))
LeftAssocT(t) ==
  CASE t[1] \in {"num", "id", "unit", "bool"} -> t
    [] t[1] = "str" -> <<"str", LeftPartsT(t[2])>>
    [] t[1] \in {"neg", "not"} -> <<t[1], LeftAssocT(t[2])>>
    [] t[1] = "fact" -> <<"fact", t[2], LeftAssocT(t[3])>>
    [] t[1] \in {"mul", "add"} /\ Chains(t[1], t) -> LET ops == Operands(t[1], t) IN FoldLeft(t[1], Head(ops), Tail(ops))
    [] t[1] = "mul" /\ IsFused(t) -> t
    [] t[1] \in BinaryTags \ {"mul", "add"} -> <<t[1], LeftAssocT(t[2]), LeftAssocT(t[3])>>
    [] t[1] = "call" -> <<"call", LeftAssocT(t[2]), LeftSeqT(t[3])>>
    [] t[1] = "field" -> <<"field", LeftAssocT(t[2]), t[3]>>
    [] t[1] = "if" -> <<"if", LeftAssocT(t[2]), LeftAssocT(t[3]), LeftAssocT(t[4])>>
    [] t[1] = "list" -> <<"list", LeftSeqT(t[2])>>
    [] t[1] = "mk" -> <<"mk", t[2], LeftFieldsT(t[3])>>
\* the echo of the echo (given that the echo reads back): the text the fixpoint clause of C15 compares with
SecondEcho(v, t) == PrintExpr(v, LeftAssocT(t))
Reassociated(t) == LeftAssocT(t) # t
\* LeftAssocT mirrors the reader exactly: (given that the echo ps of t reads back) what is read is the view of LeftAssocT(t)
MirrorsReader(ps, t) == ReadExpr(ps) = View(LeftAssocT(t))

\* the table entries (context, class) at which the echo of t was written bare by "pinned" and is parenthesised by "repaired"
RECURSIVE UsedDiff(_, _), UsedDiffSeq(_), UsedDiffParts(_), UsedDiffFields(_)
Hit(ctx, t) == IF <<ctx, Class(t)>> \in TableDiff THEN {<<ctx, Class(t)>>} ELSE {}
UsedDiffSeq(s) == IF s = << >> THEN {} ELSE UsedDiff("arg", Head(s)) \cup UsedDiffSeq(Tail(s))
UsedDiffParts(ps) == IF ps = << >> THEN {} ELSE (IF Head(ps)[1] = "ipl" THEN UsedDiff("arg", Head(ps)[2]) ELSE {}) \cup UsedDiffParts(Tail(ps))
UsedDiffFields(fs) == IF fs = << >> THEN {} ELSE UsedDiff("arg", Head(fs)[2]) \cup UsedDiffFields(Tail(fs))
UsedDiff(ctx, t) ==
  Hit(ctx, t) \cup
  (CASE t[1] \in {"num", "id", "unit", "bool"} -> {}
     [] t[1] = "str" -> UsedDiffParts(t[2])
     [] t[1] \in {"neg", "not"} -> UsedDiff(t[1], t[2])
     [] t[1] = "fact" -> UsedDiff("fact", t[3])
     [] IsFused(t) -> {}
     [] IsPowU(t) -> UsedDiff("powuL", t[2])
     [] t[1] = "pow" /\ ~IsPowU(t) -> UsedDiff("powL", t[2]) \cup UsedDiff("powR", t[3])
     [] t[1] \in BinaryTags \ {"pow"} /\ ~IsFused(t) -> UsedDiff(CtxL(t[1]), t[2]) \cup UsedDiff(CtxR(t[1]), t[3])
     [] t[1] = "call" -> IF IsCallOf(t, TempFromNames) THEN UsedDiff("tjux", t[3][1]) \cup (IF ctx = "neg" THEN {<<"neg", "tempjux">>} ELSE {})
                         ELSE IF IsCallOf(t, TempToNames) THEN UsedDiff("tconv", t[3][1])
                         ELSE UsedDiff("callee", t[2]) \cup UsedDiffSeq(t[3])
     [] t[1] = "field" -> UsedDiff("fieldbase", t[2])
     [] t[1] = "if" -> UsedDiff("ifC", t[2]) \cup UsedDiff("ifT", t[3]) \cup UsedDiff("ifE", t[4])
     [] t[1] = "list" -> UsedDiffSeq(t[2])
     [] t[1] = "mk" -> UsedDiffFields(t[3]))

-----------------------------------------------------------------------------
(* STATEMENTS.                                                                                *)
(* Typed statements (what Statement::pretty_print receives):                                  *)
(*   <<"sexpr", e>>                         (procedure calls print(..) etc. are calls)        *)
(*   <<"slet", name, rt, e>>                                                                  *)
(*   <<"sfn", name, tparams, params, ret, body, wheres>>                                      *)
(*        tparams: <<name, isDim>>...   params: <<name, rt>>...   ret: rt                     *)
(*        body: <<"some", e>> | <<"none">>     wheres: <<name, rt, e>>...                     *)
(*   <<"sunit", decorators, name, rt, body>>                                                  *)
(*   <<"sdim", name, <<T, ...>>>>                                                             *)
(*   <<"sstruct", name, tparams, <<<<field, rt>>, ...>>>>                                     *)
(* rt, the "readable type" echoed after the colon:                                            *)
(*   <<"ann", T>>              the user's annotation, echoed by the annotation printer        *)
(*   <<"inf", q, alts, T>>     inferred: q = quantified variables <<name, isDim>>... (echoed  *)
(*                             as `forall` prefix for let), alts = the registry's names of    *)
(*                             the dimension (all of them are echoed, joined by " or "),      *)
(*                             T echoed by the inferred-type printer if there is no name      *)
(*   <<"implicit", D>>         a base unit without annotation: its own new dimension D        *)
(* Types T:  <<"tid", n>> <<"tapp", n, <<T..>>>> <<"tone">> <<"tmul", a, b>> <<"tdiv", a, b>> *)
(*   <<"tpow", a, n, d>> <<"tbool">> <<"tstring">> <<"tlist", T>> <<"tfn", <<T..>>, T>>       *)
(*   <<"tvec", <<<<name, n, d>>, ...>>>>  a dimension as the checker holds it (factor list)   *)
(* Decorators: <<"metric_prefixes">> <<"binary_prefixes">> <<"abbreviation">>                 *)
(*   <<"aliases", <<<<name, accepts>>, ...>>>> (accepts "" | short | long | both | none)      *)
(*   <<"name", chars>> <<"url", chars>> <<"description", chars>>                              *)
(* Variant "pinned" = as implemented (since cb8c768, 30f8317, eb926bd: decorator strings      *)
(* quoted and escaped like string literals, fractional exponents of annotations in            *)
(* parentheses, type parameters of struct definitions echoed); "repaired" = in addition no    *)
(* annotation where none can be written (polymorphic let, implicit dimension), one name for   *)
(* a dimension with several, and exponents of annotations spelled as inferred types spell     *)
(* them (so that the echo of the echo is the same text).                                      *)
None == <<"none">>
Kw(w) == Pc("kw", w, w)
Colon == Pc("colon", "", ":")
Assign == Pc("assign", "", "=")
IdP(n) == Pc("id", n, n)
NumP(n) == Pc("num", ToString(n), ToString(n))

RECURSIVE Join(_, _)
\* pieces of a sequence of piece sequences, separated by sep
Join(seqs, sep) == IF seqs = << >> THEN << >> ELSE IF Len(seqs) = 1 THEN seqs[1] ELSE seqs[1] \o sep \o Join(Tail(seqs), sep)

\* n/d as the annotation printer writes an exponent (Display of a rational: "2", "1/2", "-1/2")
RatPieces(n, d) == (IF n < 0 THEN Pc("minus", "", "-") ELSE << >>) \o NumP(Abs(n)) \o (IF d = 1 THEN << >> ELSE Pc("div", "", "/") \o NumP(d))

\* an exponent as inferred types show it: nothing for 1, a Unicode superscript for other integers, ^(n/d)
ExponentPieces(n, d) == IF d # 1 THEN Pc("pow", "", "^") \o LPp \o RatPieces(n, d) \o RPp
                        ELSE IF n = 1 THEN << >>
                        ELSE Pc("uexp", ToString(n), UExpSpelling(ToString(n)))
RECURSIVE PrintAnn(_, _), PrintAnnW(_, _), PrintAnnSeq(_, _)
PrintAnnSeq(v, Ts) == [i \in 1..Len(Ts) |-> PrintAnn(v, Ts[i])]
PrintAnnW(v, T) == IF T[1] \in {"tmul", "tdiv"} THEN LPp \o PrintAnn(v, T) \o RPp ELSE PrintAnn(v, T)
PrintAnn(v, T) ==
  CASE T[1] = "tid" -> IdP(T[2])
    [] T[1] = "tapp" -> IdP(T[2]) \o Pc("lt", "", "<") \o Join(PrintAnnSeq(v, T[3]), CommaSp) \o Pc("gt", "", ">")
    [] T[1] = "tone" -> Pc("num", "1", "1")
    [] T[1] = "tmul" -> PrintAnn(v, T[2]) \o WS \o Pc("mul", "", "×") \o WS \o PrintAnn(v, T[3])
    [] T[1] = "tdiv" -> PrintAnn(v, T[2]) \o WS \o Pc("div", "", "/") \o WS \o PrintAnnW(v, T[3])
    [] T[1] = "tpow" ->
         IF v = "pinned"
         THEN PrintAnnW(v, T[2]) \o Pc("pow", "", "^")
              \o (IF T[3] > 0 /\ T[4] = 1 THEN RatPieces(T[3], T[4]) ELSE LPp \o RatPieces(T[3], T[4]) \o RPp)   \* X^2  X^(1/2)  X^(-2)
         ELSE PrintAnnW(v, T[2]) \o ExponentPieces(T[3], T[4])                                        \* as inferred types are echoed
    [] T[1] = "tbool" -> IdP("Bool")
    [] T[1] = "tstring" -> IdP("String")
    [] T[1] = "tlist" -> IdP("List") \o Pc("lt", "", "<") \o PrintAnn(v, T[2]) \o Pc("gt", "", ">")
    [] T[1] = "tfn" -> IdP("Fn") \o Pc("lb", "", "[") \o LPp \o Join(PrintAnnSeq(v, T[2]), CommaSp) \o RPp \o WS
                       \o Pc("arrow", "", "->") \o WS \o PrintAnn(v, T[3]) \o Pc("rb", "", "]")

\* the inferred-type printer: a factor list as  A² × B / (C × D^(1/2))
FactorPieces(f) == IdP(f[1]) \o ExponentPieces(f[2], f[3])
Inverted(f) == <<f[1], -f[2], f[3]>>
TimesSep == WS \o Pc("mul", "", "×") \o WS
FactorsPieces(fs) == Join([i \in 1..Len(fs) |-> FactorPieces(fs[i])], TimesSep)
RECURSIVE PrintInf(_)
PrintInfSeq(Ts) == [i \in 1..Len(Ts) |-> PrintInf(Ts[i])]
PrintInf(T) ==
  CASE T[1] = "tvec" ->
         LET pos == SelectSeq(T[2], LAMBDA f : f[2] > 0)
             neg == SelectSeq(T[2], LAMBDA f : f[2] <= 0)
             inv == [i \in 1..Len(neg) |-> Inverted(neg[i])]
         IN IF T[2] = << >> THEN IdP("Scalar")
            ELSE IF pos = << >> THEN FactorsPieces(neg)
            ELSE IF neg = << >> THEN FactorsPieces(pos)
            ELSE IF Len(neg) = 1 THEN FactorsPieces(pos) \o WS \o Pc("div", "", "/") \o WS \o FactorsPieces(inv)
            ELSE FactorsPieces(pos) \o WS \o Pc("div", "", "/") \o WS \o LPp \o FactorsPieces(inv) \o RPp
    [] T[1] = "tlist" -> IdP("List") \o Pc("lt", "", "<") \o PrintInf(T[2]) \o Pc("gt", "", ">")
    [] T[1] = "tfn" -> IdP("Fn") \o Pc("lb", "", "[") \o LPp \o Join(PrintInfSeq(T[2]), CommaSp) \o RPp \o WS
                       \o Pc("arrow", "", "->") \o WS \o PrintInf(T[3]) \o Pc("rb", "", "]")
    [] OTHER -> PrintAnn("pinned", T)          \* names, Bool, String, struct instances

TParamPieces(tps) == IF tps = << >> THEN << >>
                     ELSE Pc("lt", "", "<")
                          \o Join([i \in 1..Len(tps) |-> IdP(tps[i][1]) \o (IF tps[i][2] THEN Colon \o WS \o IdP("Dim") ELSE << >>)], Pc("comma", "", ", "))
                          \o Pc("gt", "", ">")
\* the readable type; << >> if nothing is echoed
RtPieces(v, rt, quantifiers) ==
  CASE rt[1] = "ann" -> PrintAnn(v, rt[2])
    [] rt[1] = "implicit" -> IF v = "pinned" THEN IdP(rt[2]) ELSE << >>
    [] rt[1] = "inf" ->
         IF quantifiers /\ rt[2] # << >>
         THEN IF v = "pinned"
              THEN IdP("forall") \o Join([i \in 1..Len(rt[2]) |-> WS \o IdP(rt[2][i][1]) \o (IF rt[2][i][2] THEN Colon \o WS \o IdP("Dim") ELSE << >>) \o Pc("dot", "", ".")], << >>)
                   \o WS \o (IF rt[3] # << >> THEN IdP(rt[3][1]) ELSE PrintInf(rt[4]))
              ELSE << >>
         ELSE IF rt[3] = << >> THEN PrintInf(rt[4])
         ELSE IF v = "pinned" THEN Join([i \in 1..Len(rt[3]) |-> IdP(rt[3][i])], WS \o IdP("or") \o WS)
         ELSE IdP(rt[3][1])
ColonRt(v, rt, quantifiers) == LET p == RtPieces(v, rt, quantifiers) IN IF p = << >> THEN << >> ELSE Colon \o WS \o p

QuotedPieces(cs) == Pc("strq", "", "\"") \o (IF cs = << >> THEN << >> ELSE Pc("strtext", "", EscapeText(cs))) \o Pc("strq", "", "\"")
RECURSIVE RawText(_)
RawText(cs) == IF cs = << >> THEN "" ELSE Head(cs) \o RawText(Tail(cs))
DecoratorPieces(v, d) ==
  (CASE d[1] \in {"metric_prefixes", "binary_prefixes", "abbreviation"} -> Pc("deco", d[1], "@" \o d[1])
     [] d[1] = "aliases" -> Pc("deco", "aliases", "@aliases") \o LPp
                            \o Join([i \in 1..Len(d[2]) |-> IdP(d[2][i][1]) \o (IF d[2][i][2] = "" THEN << >> ELSE Colon \o WS \o IdP(d[2][i][2]))], Pc("comma", "", ", "))
                            \o RPp
     [] d[1] \in {"name", "url", "description"} ->
          Pc("deco", d[1], "@" \o d[1]) \o LPp \o QuotedPieces(d[2]) \o RPp)        \* quoted and escaped like a string literal (cb8c768)
  \o NL
RECURSIVE DecoratorsPieces(_, _)
DecoratorsPieces(v, ds) == IF ds = << >> THEN << >> ELSE DecoratorPieces(v, Head(ds)) \o DecoratorsPieces(v, Tail(ds))

RECURSIVE WheresPieces(_, _, _)
WheresPieces(v, ws, first) ==
  IF ws = << >> THEN << >>
  ELSE NL \o (IF first THEN Pc("ws", "", "  ") \o Kw("where") ELSE Pc("ws", "", "    ") \o Kw("and")) \o WS \o IdP(ws[1][1])
       \o ColonRt(v, ws[1][2], FALSE) \o WS \o Assign \o WS \o PrintExpr(v, ws[1][3]) \o WheresPieces(v, Tail(ws), FALSE)

PrintStmt(v, s) ==
  CASE s[1] = "sexpr" -> PrintExpr(v, s[2])
    [] s[1] = "slet" -> Kw("let") \o WS \o IdP(s[2]) \o ColonRt(v, s[3], TRUE) \o WS \o Assign \o WS \o PrintExpr(v, s[4])
    [] s[1] = "sfn" -> Kw("fn") \o WS \o IdP(s[2]) \o TParamPieces(s[3]) \o LPp
                       \o Join([i \in 1..Len(s[4]) |-> IdP(s[4][i][1]) \o ColonRt(v, s[4][i][2], FALSE)], Pc("comma", "", ", ")) \o RPp
                       \o WS \o Pc("arrow", "", "->") \o WS \o RtPieces(v, s[5], FALSE)
                       \o (IF s[6] = None THEN << >> ELSE WS \o Assign \o WS \o PrintExpr(v, s[6][2]))
                       \o WheresPieces(v, s[7], TRUE)
    [] s[1] = "sunit" -> DecoratorsPieces(v, s[2]) \o Kw("unit") \o WS \o IdP(s[3]) \o ColonRt(v, s[4], FALSE)
                         \o (IF s[5] = None THEN << >> ELSE WS \o Assign \o WS \o PrintExpr(v, s[5][2]))
    [] s[1] = "sdim" -> Kw("dimension") \o WS \o IdP(s[2])
                        \o (IF s[3] = << >> THEN << >> ELSE WS \o Assign \o WS \o Join(PrintAnnSeq(v, s[3]), WS \o Assign \o WS))
    [] s[1] = "sstruct" -> Kw("struct") \o WS \o IdP(s[2]) \o TParamPieces(s[3]) \o WS \o Pc("lbrace", "", "{")
                           \o (IF s[4] = << >> THEN << >>
                               ELSE WS \o Join([i \in 1..Len(s[4]) |-> IdP(s[4][i][1]) \o Colon \o WS \o RtPieces(v, s[4][i][2], FALSE)], CommaSp) \o WS)
                           \o Pc("rbrace", "", "}")

-----------------------------------------------------------------------------
\*  Reading statements (grammar comment of parser.rs):
\*    variable_decl  ::= "let" identifier (":" type_annotation)? "=" expression
\*    function_decl  ::= "fn" identifier type_params? "(" (identifier (":" type_annotation)?
\*                       ("," ...)*)? ")" ("->" type_annotation)? ("=" expression)?
\*                       ("where" identifier (":" type_annotation)? "=" expression
\*                        ("and" identifier (":" type_annotation)? "=" expression)*)?
\*    type_params    ::= "<" identifier (":" "Dim")? ("," ...)* ">"
\*    unit_decl      ::= decorator* "unit" identifier (":" dimension_expr)? ("=" expression)?
\*    decorator      ::= "@" name ("(" ... ")")?        string arguments are string literals
\*    dimension_decl ::= "dimension" identifier ("=" dimension_expr)*
\*    struct_decl    ::= "struct" identifier type_params? "{" (identifier ":" type_annotation
\*                       ("," ...)*)? "}"
\*    type_annotation::= "Bool" | "String" | "List" "<" type_annotation ">"
\*                     | "Fn" "[" "(" (type_annotation ("," ...)*)? ")" "->" type_annotation "]"
\*                     | dimension_expr
\*    dimension_expr ::= dim_power (("×"|"*"|"/") dim_power)*
\*    dim_power      ::= dim_primary ("^" dim_exponent | unicode_exponent)?
\*    dim_exponent   ::= integer | "-" dim_exponent | "(" dim_exponent ("/" dim_exponent)? ")"
\*    dim_primary    ::= identifier ("<" type_annotation ("," ...)* ">")? | "1"
\*                     | "(" dimension_expr ")"
IntOf(v) == CASE v = "0" -> 0 [] v = "1" -> 1 [] v = "2" -> 2 [] v = "3" -> 3 [] v = "4" -> 4 [] v = "5" -> 5
              [] v = "6" -> 6 [] v = "7" -> 7 [] v = "8" -> 8 [] v = "9" -> 9 [] v = "10" -> 10 [] v = "12" -> 12 [] OTHER -> -1
UIntOf(v) == CASE v = "-1" -> -1 [] v = "-2" -> -2 [] v = "-3" -> -3 [] v = "-4" -> -4 [] v = "-5" -> -5 [] v = "-6" -> -6
               [] v = "-7" -> -7 [] v = "-8" -> -8 [] v = "-9" -> -9 [] OTHER -> IntOf(v)
IdIs(ts, w) == K(ts) = "id" /\ Head(ts).v = w
KwIs(ts, w) == K(ts) = "kw" /\ Head(ts).v = w

RECURSIVE TyAnn(_), TyList(_, _, _), DimFactor(_), DimFactorLoop(_, _), DimPower(_), DimExponent(_), DimPrimary(_)
TyList(close, acc, ts) ==
  LET e == TyAnn(ts) IN
  IF ~e.ok THEN Fail
  ELSE IF K(e.rest) = "comma" THEN TyList(close, Append(acc, e.tree), Tail(e.rest))
  ELSE IF K(e.rest) = close THEN Ok(Append(acc, e.tree), Tail(e.rest))
  ELSE Fail
TyAnn(ts) ==
  IF IdIs(ts, "Bool") THEN Ok(<<"tbool">>, Tail(ts))
  ELSE IF IdIs(ts, "String") THEN Ok(<<"tstring">>, Tail(ts))
  ELSE IF IdIs(ts, "List") /\ K(Tail(ts)) = "lt"
       THEN LET e == TyAnn(Tail(Tail(ts))) IN
            IF e.ok /\ K(e.rest) = "gt" THEN Ok(<<"tlist", e.tree>>, Tail(e.rest)) ELSE Fail
  ELSE IF IdIs(ts, "Fn") /\ Len(ts) >= 4 /\ ts[2].k = "lb" /\ ts[3].k = "lp"
       THEN LET r3 == SubSeq(ts, 4, Len(ts))
                p == IF K(r3) = "rp" THEN Ok(<< >>, Tail(r3)) ELSE TyList("rp", << >>, r3)
            IN IF ~p.ok \/ K(p.rest) # "arrow" THEN Fail
               ELSE LET r == TyAnn(Tail(p.rest)) IN
                    IF r.ok /\ K(r.rest) = "rb" THEN Ok(<<"tfn", p.tree, r.tree>>, Tail(r.rest)) ELSE Fail
  ELSE DimFactor(ts)
DimFactor(ts) == LET p == DimPower(ts) IN IF p.ok THEN DimFactorLoop(p.tree, p.rest) ELSE Fail
DimFactorLoop(left, ts) ==
  IF K(ts) \in {"mul", "div"}
  THEN LET q == DimPower(Tail(ts)) IN
       IF q.ok THEN DimFactorLoop(<<IF K(ts) = "mul" THEN "tmul" ELSE "tdiv", left, q.tree>>, q.rest) ELSE Fail
  ELSE Ok(left, ts)
DimPower(ts) ==
  LET p == DimPrimary(ts) IN
  IF ~p.ok THEN Fail
  ELSE IF K(p.rest) = "pow"
       THEN LET e == DimExponent(Tail(p.rest)) IN IF e.ok THEN Ok(<<"tpow", p.tree, e.tree[1], e.tree[2]>>, e.rest) ELSE Fail
  ELSE IF K(p.rest) = "uexp" THEN Ok(<<"tpow", p.tree, UIntOf(Head(p.rest).v), 1>>, Tail(p.rest))
  ELSE p
DimExponent(ts) ==
  IF K(ts) = "num" /\ IntOf(Head(ts).v) >= 0 THEN Ok(R(IntOf(Head(ts).v)), Tail(ts))
  ELSE IF K(ts) = "minus" THEN LET e == DimExponent(Tail(ts)) IN IF e.ok THEN Ok(RNeg(e.tree), e.rest) ELSE Fail
  ELSE IF K(ts) = "lp"
       THEN LET a == DimExponent(Tail(ts)) IN
            IF ~a.ok THEN Fail
            ELSE IF K(a.rest) = "rp" THEN Ok(a.tree, Tail(a.rest))
            ELSE IF K(a.rest) = "div"
                 THEN LET b == DimExponent(Tail(a.rest)) IN
                      IF b.ok /\ K(b.rest) = "rp" /\ ~RIsZero(b.tree) THEN Ok(RDiv(a.tree, b.tree), Tail(b.rest)) ELSE Fail
            ELSE Fail
  ELSE Fail
DimPrimary(ts) ==
  IF K(ts) = "id"
  THEN IF K(Tail(ts)) = "lt"
       THEN LET a == TyList("gt", << >>, Tail(Tail(ts))) IN IF a.ok THEN Ok(<<"tapp", Head(ts).v, a.tree>>, a.rest) ELSE Fail
       ELSE Ok(<<"tid", Head(ts).v>>, Tail(ts))
  ELSE IF K(ts) = "num" /\ Head(ts).v = "1" THEN Ok(<<"tone">>, Tail(ts))
  ELSE IF K(ts) = "lp"
       THEN LET e == DimFactor(Tail(ts)) IN IF e.ok /\ K(e.rest) = "rp" THEN Ok(e.tree, Tail(e.rest)) ELSE Fail
  ELSE Fail

\* (":" type_annotation)?   tree = the type or None
OptAnn(ts) == IF K(ts) = "colon" THEN TyAnn(Tail(ts)) ELSE Ok(None, ts)

RECURSIVE TParams(_, _), FnParams(_, _), Wheres(_, _), Decorators(_, _), Aliases(_, _), DimDefs(_, _), StructFields(_, _)
\* after "<":  identifier (":" "Dim")? ("," ...)* ">"
TParams(acc, ts) ==
  IF K(ts) # "id" THEN Fail
  ELSE LET dim == K(Tail(ts)) = "colon" /\ IdIs(Tail(Tail(ts)), "Dim")
           r == IF dim THEN Tail(Tail(Tail(ts))) ELSE Tail(ts)
           acc2 == Append(acc, <<Head(ts).v, dim>>)
       IN IF K(r) = "comma" THEN TParams(acc2, Tail(r)) ELSE IF K(r) = "gt" THEN Ok(acc2, Tail(r)) ELSE Fail
OptTParams(ts) == IF K(ts) = "lt" THEN TParams(<< >>, Tail(ts)) ELSE Ok(<< >>, ts)
\* after "(":  (identifier (":" type)? ("," ...)*)? ")"
FnParams(acc, ts) ==
  IF K(ts) = "rp" /\ acc = << >> THEN Ok(acc, Tail(ts))
  ELSE IF K(ts) # "id" THEN Fail
  ELSE LET a == OptAnn(Tail(ts)) IN
       IF ~a.ok THEN Fail
       ELSE LET acc2 == Append(acc, <<Head(ts).v, a.tree>>) IN
            IF K(a.rest) = "comma" THEN FnParams(acc2, Tail(a.rest)) ELSE IF K(a.rest) = "rp" THEN Ok(acc2, Tail(a.rest)) ELSE Fail
\* after "where" / "and":  identifier (":" type)? "=" expression ("and" ...)*
Wheres(acc, ts) ==
  IF K(ts) # "id" THEN Fail
  ELSE LET a == OptAnn(Tail(ts)) IN
       IF ~a.ok \/ K(a.rest) # "assign" THEN Fail
       ELSE LET e == Expression("doc", Tail(a.rest)) IN
            IF ~e.ok THEN Fail
            ELSE LET acc2 == Append(acc, <<Head(ts).v, a.tree, Elab(e.tree)>>) IN
                 IF KwIs(e.rest, "and") THEN Wheres(acc2, Tail(e.rest)) ELSE Ok(acc2, e.rest)
\* after "(":  identifier (":" identifier)? ("," ...)* ")"
Aliases(acc, ts) ==
  IF K(ts) # "id" THEN Fail
  ELSE LET withp == K(Tail(ts)) = "colon" /\ K(Tail(Tail(ts))) = "id"
           r == IF withp THEN Tail(Tail(Tail(ts))) ELSE Tail(ts)
           acc2 == Append(acc, <<Head(ts).v, IF withp THEN ts[3].v ELSE "">>)
       IN IF K(r) = "comma" THEN Aliases(acc2, Tail(r)) ELSE IF K(r) = "rp" THEN Ok(acc2, Tail(r)) ELSE Fail
\* decorator*   (a string literal is, in the skeleton, the empty call  $str ( ) )
Decorators(acc, ts) ==
  IF K(ts) # "deco" THEN Ok(acc, ts)
  ELSE LET n == Head(ts).v
           r == Tail(ts)
       IN IF n \in {"metric_prefixes", "binary_prefixes", "abbreviation"} THEN Decorators(Append(acc, <<n>>), r)
          ELSE IF n = "aliases" /\ K(r) = "lp"
               THEN LET a == Aliases(<< >>, Tail(r)) IN IF a.ok THEN Decorators(Append(acc, <<"aliases", a.tree>>), a.rest) ELSE Fail
          ELSE IF n \in {"name", "url", "description"} /\ Len(r) >= 5 /\ r[1].k = "lp" /\ r[2] = Tok("id", "$str")
                  /\ r[3].k = "lp" /\ r[4].k = "rp" /\ r[5].k = "rp"
               THEN Decorators(Append(acc, <<n>>), SubSeq(r, 6, Len(r)))
          ELSE Fail
DimDefs(acc, ts) ==
  IF ts = << >> THEN Ok(acc, ts)
  ELSE IF K(ts) # "assign" THEN Fail
  ELSE LET e == DimFactor(Tail(ts)) IN IF e.ok THEN DimDefs(Append(acc, e.tree), e.rest) ELSE Fail
\* after "{":  (identifier ":" type ("," ...)*)? "}"
StructFields(acc, ts) ==
  IF K(ts) = "rbrace" /\ acc = << >> THEN Ok(acc, Tail(ts))
  ELSE IF K(ts) # "id" \/ K(Tail(ts)) # "colon" THEN Fail
  ELSE LET a == TyAnn(Tail(Tail(ts))) IN
       IF ~a.ok THEN Fail
       ELSE LET acc2 == Append(acc, <<Head(ts).v, a.tree>>) IN
            IF K(a.rest) = "comma" THEN StructFields(acc2, Tail(a.rest)) ELSE IF K(a.rest) = "rbrace" THEN Ok(acc2, Tail(a.rest)) ELSE Fail

\* ("=" expression)? then the end / the where clauses
OptBody(ts) == IF K(ts) = "assign" THEN LET e == Expression("doc", Tail(ts)) IN IF e.ok THEN Ok(<<"some", Elab(e.tree)>>, e.rest) ELSE Fail
               ELSE Ok(None, ts)

ReadLet(ts) ==
  IF K(ts) # "id" THEN REJECT
  ELSE LET a == OptAnn(Tail(ts)) IN
       IF ~a.ok \/ K(a.rest) # "assign" THEN REJECT
       ELSE LET e == Expression("doc", Tail(a.rest)) IN
            IF e.ok /\ e.rest = << >> THEN <<"slet", Head(ts).v, a.tree, Elab(e.tree)>> ELSE REJECT
ReadFn(ts) ==
  IF K(ts) # "id" THEN REJECT
  ELSE LET tp == OptTParams(Tail(ts)) IN
       IF ~tp.ok \/ K(tp.rest) # "lp" THEN REJECT
       ELSE LET pa == FnParams(<< >>, Tail(tp.rest)) IN
            IF ~pa.ok THEN REJECT
            ELSE LET rt == IF K(pa.rest) = "arrow" THEN TyAnn(Tail(pa.rest)) ELSE Ok(None, pa.rest) IN
                 IF ~rt.ok THEN REJECT
                 ELSE LET b == OptBody(rt.rest) IN
                      IF ~b.ok THEN REJECT
                      ELSE LET w == IF KwIs(b.rest, "where") THEN Wheres(<< >>, Tail(b.rest)) ELSE Ok(<< >>, b.rest) IN
                           IF w.ok /\ w.rest = << >> THEN <<"sfn", Head(ts).v, tp.tree, pa.tree, rt.tree, b.tree, w.tree>> ELSE REJECT
ReadUnit(ts) ==
  LET d == Decorators(<< >>, ts) IN
  IF ~d.ok \/ ~KwIs(d.rest, "unit") \/ K(Tail(d.rest)) # "id" THEN REJECT
  ELSE LET a == OptAnn(Tail(Tail(d.rest))) IN
       IF ~a.ok THEN REJECT
       ELSE LET b == OptBody(a.rest) IN
            IF b.ok /\ b.rest = << >> THEN <<"sunit", d.tree, d.rest[2].v, a.tree, b.tree>> ELSE REJECT
ReadDim(ts) ==
  IF K(ts) # "id" THEN REJECT
  ELSE LET d == DimDefs(<< >>, Tail(ts)) IN IF d.ok THEN <<"sdim", Head(ts).v, d.tree>> ELSE REJECT
ReadStruct(ts) ==
  IF K(ts) # "id" THEN REJECT
  ELSE LET tp == OptTParams(Tail(ts)) IN
       IF ~tp.ok \/ K(tp.rest) # "lbrace" THEN REJECT
       ELSE LET f == StructFields(<< >>, Tail(tp.rest)) IN
            IF f.ok /\ f.rest = << >> THEN <<"sstruct", Head(ts).v, tp.tree, f.tree>> ELSE REJECT

ReadStmt(ps) ==
  IF ps # << >> /\ Head(ps).k = "kw" /\ Head(ps).v = "struct" THEN ReadStruct(Tail(ToksOf(ps)))
  ELSE LET ts == Skeleton(ps) IN
       IF KwIs(ts, "let") THEN ReadLet(Tail(ts))
       ELSE IF KwIs(ts, "fn") THEN ReadFn(Tail(ts))
       ELSE IF KwIs(ts, "unit") \/ K(ts) = "deco" THEN ReadUnit(ts)
       ELSE IF KwIs(ts, "dimension") THEN ReadDim(Tail(ts))
       ELSE LET e == Expression("doc", ts) IN IF e.ok /\ e.rest = << >> THEN <<"sexpr", Elab(e.tree)>> ELSE REJECT

-----------------------------------------------------------------------------
(* What a statement means: types are compared by what they denote (a dimension expression     *)
(* denotes a vector of rational exponents over the names it mentions).                        *)
RECURSIVE Atoms(_), AtomsSeq(_)
AtomsSeq(Ts) == IF Ts = << >> THEN {} ELSE Atoms(Head(Ts)) \cup AtomsSeq(Tail(Ts))
Atoms(T) ==
  CASE T[1] = "tid" -> IF T[2] = "Scalar" THEN {} ELSE {T[2]}
    [] T[1] = "tapp" -> {T[2]} \cup AtomsSeq(T[3])
    [] T[1] \in {"tone", "tbool", "tstring", "none"} -> {}
    [] T[1] \in {"tmul", "tdiv"} -> Atoms(T[2]) \cup Atoms(T[3])
    [] T[1] = "tpow" -> Atoms(T[2])
    [] T[1] = "tlist" -> Atoms(T[2])
    [] T[1] = "tfn" -> AtomsSeq(T[2]) \cup Atoms(T[3])
    [] T[1] = "tvec" -> { T[2][i][1] : i \in 1..Len(T[2]) }
DimLike(T) == T[1] \in {"tid", "tone", "tmul", "tdiv", "tpow", "tvec"}
RECURSIVE DimVec(_, _), SumFactors(_, _)
SumFactors(fs, B) == IF fs = << >> THEN VZero(B)
                     ELSE VAdd([b \in B |-> IF b = fs[1][1] THEN Norm(fs[1][2], fs[1][3]) ELSE R(0)], SumFactors(Tail(fs), B))
DimVec(T, B) ==
  CASE T[1] = "tid" -> [b \in B |-> IF b = T[2] THEN R(1) ELSE R(0)]
    [] T[1] = "tone" -> VZero(B)
    [] T[1] = "tmul" -> VAdd(DimVec(T[2], B), DimVec(T[3], B))
    [] T[1] = "tdiv" -> VSub(DimVec(T[2], B), DimVec(T[3], B))
    [] T[1] = "tpow" -> VScale(DimVec(T[2], B), Norm(T[3], T[4]))
    [] T[1] = "tvec" -> SumFactors(T[2], B)
RECURSIVE TyEq(_, _)
TyEq(a, b) ==
  IF DimLike(a) /\ DimLike(b) THEN LET B == Atoms(a) \cup Atoms(b) IN DimVec(a, B) = DimVec(b, B)
  ELSE IF a[1] # b[1] THEN FALSE
  ELSE CASE a[1] \in {"tbool", "tstring"} -> TRUE
         [] a[1] = "tlist" -> TyEq(a[2], b[2])
         [] a[1] = "tfn" -> Len(a[2]) = Len(b[2]) /\ (\A i \in 1..Len(a[2]) : TyEq(a[2][i], b[2][i])) /\ TyEq(a[3], b[3])
         [] a[1] = "tapp" -> a[2] = b[2] /\ Len(a[3]) = Len(b[3]) /\ \A i \in 1..Len(a[3]) : TyEq(a[3][i], b[3][i])
         [] OTHER -> FALSE

\* the annotation that was read (or None) is a correct way of writing rt; scope = the type names that resolve
RtReadBack(T, rt, scope) ==
  CASE rt[1] = "ann" -> T # None /\ Atoms(T) \subseteq scope /\ TyEq(T, rt[2])
    [] rt[1] = "implicit" -> T = None
    [] rt[1] = "inf" -> IF rt[2] # << >> THEN T = None                         \* no syntax for a polymorphic annotation
                        ELSE /\ T # None /\ Atoms(T) \subseteq scope
                             /\ IF rt[3] # << >> THEN \E i \in 1..Len(rt[3]) : T = <<"tid", rt[3][i]>> ELSE TyEq(T, rt[4])
TParamNames(tps) == { tps[i][1] : i \in 1..Len(tps) }
SameExpr(e, t) == LeftAssoc(e) = LeftAssoc(View(t))
DecoratorView(d) == IF d[1] \in {"name", "url", "description"} THEN <<d[1]>> ELSE d

\* the statement r that was read means what s meant; known = the type names defined in the session
StmtReadBack(r, s, known) ==
  /\ r # REJECT
  /\ r[1] = s[1]
  /\ CASE s[1] = "sexpr" -> SameExpr(r[2], s[2])
       [] s[1] = "slet" -> r[2] = s[2] /\ RtReadBack(r[3], s[3], known) /\ SameExpr(r[4], s[4])
       [] s[1] = "sfn" ->
            LET scope == known \cup TParamNames(r[3]) IN
            /\ r[2] = s[2] /\ r[3] = s[3]
            /\ Len(r[4]) = Len(s[4]) /\ \A i \in 1..Len(s[4]) : r[4][i][1] = s[4][i][1] /\ RtReadBack(r[4][i][2], s[4][i][2], scope)
            /\ RtReadBack(r[5], s[5], scope)
            /\ (r[6] = None) = (s[6] = None) /\ (s[6] # None => SameExpr(r[6][2], s[6][2]))
            /\ Len(r[7]) = Len(s[7])
            /\ \A i \in 1..Len(s[7]) : r[7][i][1] = s[7][i][1] /\ RtReadBack(r[7][i][2], s[7][i][2], scope) /\ SameExpr(r[7][i][3], s[7][i][3])
       [] s[1] = "sunit" ->
            /\ Len(r[2]) = Len(s[2]) /\ \A i \in 1..Len(s[2]) : r[2][i] = DecoratorView(s[2][i])
            /\ r[3] = s[3] /\ RtReadBack(r[4], s[4], known)
            /\ (r[5] = None) = (s[5] = None) /\ (s[5] # None => SameExpr(r[5][2], s[5][2]))
       [] s[1] = "sdim" -> r[2] = s[2] /\ Len(r[3]) = Len(s[3]) /\ \A i \in 1..Len(s[3]) : AtomsSeq(r[3]) \subseteq known /\ TyEq(r[3][i], s[3][i])
       [] s[1] = "sstruct" ->
            LET scope == known \cup TParamNames(r[3]) IN
            /\ r[2] = s[2] /\ r[3] = s[3] /\ Len(r[4]) = Len(s[4])
            /\ \A i \in 1..Len(s[4]) : r[4][i][1] = s[4][i][1] /\ RtReadBack(r[4][i][2], s[4][i][2], scope)

\* the statement that reading the echo gives back (given that it reads back as r): the annotations that were
\* read take the place of the inferred types
RtAgain(T, rt) == IF T = None THEN rt ELSE <<"ann", T>>
Reread(s, r) ==
  CASE s[1] = "sexpr" -> <<"sexpr", LeftAssocT(s[2])>>
    [] s[1] = "slet" -> <<"slet", s[2], RtAgain(r[3], s[3]), LeftAssocT(s[4])>>
    [] s[1] = "sfn" -> <<"sfn", s[2], s[3], [i \in 1..Len(s[4]) |-> <<s[4][i][1], RtAgain(r[4][i][2], s[4][i][2])>>],
                         RtAgain(r[5], s[5]), IF s[6] = None THEN None ELSE <<"some", LeftAssocT(s[6][2])>>,
                         [i \in 1..Len(s[7]) |-> <<s[7][i][1], RtAgain(r[7][i][2], s[7][i][2]), LeftAssocT(s[7][i][3])>>]>>
    [] s[1] = "sunit" -> <<"sunit", s[2], s[3], RtAgain(r[4], s[4]), IF s[5] = None THEN None ELSE <<"some", LeftAssocT(s[5][2])>>>>
    [] s[1] = "sdim" -> <<"sdim", s[2], r[3]>>
    [] s[1] = "sstruct" -> s

StmtRoundTrip(v, s, known) == LET ps == PrintStmt(v, s) IN Separated(ps) /\ StmtReadBack(ReadStmt(ps), s, known)
=============================================================================
