---------------------------- MODULE Trace_Quantity ----------------------------
(***************************************************************************)
(* J direction for C11 / C12: events recorded from the real evaluator are  *)
(* judged against the law tables.                                          *)
(*  cmp event: r = << a==b, b==a, a!=b, b!=a, a<b, b>a, a<=b, b>=a,        *)
(*                    a>b, b<a, a>=b, b<=a >>, nan = one operand is NaN    *)
(*  add event: the structural facts the comparator extracted:              *)
(*     sameunit (a+b and b+a carry the same unit), samevalue (same value), *)
(*     antisym (a-b and b-a: same unit, values negated), exempt (units of  *)
(*     equal size, or both operands zero), den (denotations agree within   *)
(*     tolerance - judged by the comparator)                               *)
(***************************************************************************)
EXTENDS Naturals, Sequences, TLC, Json, IOUtils

VARIABLES l, tr
vars == <<l, tr>>

CmpLaws(e) ==
  LET r == e.r IN
  /\ r[1] = r[2]                       \* == symmetric
  /\ r[3] = ~r[1] /\ r[4] = ~r[2]      \* != is the negation of ==
  /\ r[5] = r[6]                       \* a < b  iff  b > a
  /\ r[7] = r[8]                       \* a <= b iff  b >= a
  /\ r[9] = r[10]                      \* a > b  iff  b < a
  /\ r[11] = r[12]                     \* a >= b iff  b <= a
  /\ IF e.nan
     THEN ~r[5] /\ ~r[6] /\ ~r[7] /\ ~r[8] /\ ~r[9] /\ ~r[10] /\ ~r[11] /\ ~r[12]   \* every ordering with NaN is false
     ELSE \* exactly one of a<b, a==b, a>b
          (IF r[5] THEN 1 ELSE 0) + (IF r[1] THEN 1 ELSE 0) + (IF r[9] THEN 1 ELSE 0) = 1

AddLaws(e) ==
  /\ e.den                                        \* a+b and b+a denote the same; a-b = -(b-a)
  /\ ~e.exempt => (e.sameunit /\ e.samevalue /\ e.antisym)

\* simp event (C05): facts about the raw (unsimplified) value and the displayed value of the same expression
\*   samedim: same base-unit vector (exact); samemag: same magnitude in base units (comparator, rel 1e-9);
\*   explicit: the value comes from an explicit conversion; identical: displayed unit and value = raw unit and value;
\*   texts: string interpolation and print show the displayed value
SimpLaws(e) == /\ e.samedim /\ e.samemag /\ e.texts
               /\ e.explicit => e.identical

Judge(e) == IF e.ev = "cmp" THEN CmpLaws(e) ELSE IF e.ev = "add" THEN AddLaws(e)
            ELSE IF e.ev = "simp" THEN SimpLaws(e) ELSE FALSE

TraceInit == l = 1 /\ tr = ndJsonDeserialize(IOEnv.TRACE)
\* every event is judged; an event that breaks its law table is reported (line number) and skipped,
\* so that one violation does not hide the rest of the trace
TraceNext == /\ l <= Len(tr)
             /\ (IF Judge(tr[l]) THEN TRUE ELSE PrintT(<<"BAD", ToJson([line |-> l])>>))
             /\ l' = l + 1 /\ UNCHANGED tr
TraceSpec == TraceInit /\ [][TraceNext]_vars
TraceAccepted ==
    LET n == Len(ndJsonDeserialize(IOEnv.TRACE))
        d == TLCGet("stats").diameter - 1
    IN IF d = n THEN TRUE ELSE PrintT(<<"REJECTED", ToJson([matched |-> d, total |-> n])>>) /\ FALSE
=============================================================================
