------------------------------- MODULE MC_VM -------------------------------
(***************************************************************************)
(* C09, model checking of the compiler + VM model against the reference    *)
(* evaluator: for every generated program p (the programs of MC_Eval plus  *)
(* a few more shapes that stress what only the compiled form has: stack    *)
(* slots of globals defined after calls, nested jumps, three parameters,   *)
(* strings that begin/end with an interpolation)                           *)
(*     RunVM(Compile(p)) = Run(p)            (VmAgrees, reported)          *)
(*     all jumps are patched, forward, on instruction boundaries            *)
(*     every Return in the root frame leaves exactly the globals so far     *)
(*     frames are balanced at the end, no instruction without a rule        *)
(* The same states print the CASE lines of the G direction (EmitCase of    *)
(* MC_Eval) and the compiled code (CODE / CATCODE) that c09.py compares    *)
(* with the bytecode decoded from the real VM.                             *)
(***************************************************************************)
EXTENDS MC_Eval, VM

CONSTANT SelfRef   \* also generate programs in which a recursive function passes ITSELF as a function value
VARIABLE rep       \* report about the compiled program of the current state (computed once per state)
vvars == <<stage, seed, prog, rep>>

Fn3 == Fn("f_three", <<"x", "y", "z">>, <<"x", "y", "z">>,
          Op2("add", Op2("add", Op2("mul", X, Lit(100)), Op2("mul", Var("y"), Lit(10))), Var("z")), << >>)
\* tails: statements after the catalogue (and the redefinition variant); the last one is the final expression
XTails(s) ==
  LET a == s.a IN
  {  \* globals defined after calls: their slots must be where the compiler thinks they are
     << Let("w_c", Call("f_inc", <<a>>)), Let("w_d", Call("f_sub", <<Var("w_c"), a>>)),
        ExprS(Op2("add", Op2("mul", Var("w_c"), Lit(100)), Var("w_d"))) >>,
     << Let("w_c", Call("f_wh", <<a>>)), Let("w_d", ListE(<<Var("w_c"), Call("f_sub", <<a, Var("w_c")>>)>>)),
        ExprS(ListE(<<Var("w_c"), Call("head", <<Var("w_d")>>), a>>)) >>,
     << Let("w_c", IfE(Op2("lt", a, Lit(3)), Call("f_fact", <<a>>), Call("f_inc", <<a>>))), Let("w_a", Var("w_c")),
        ExprS(Op2("sub", Call("f_inc", <<Var("w_c")>>), Var("w_a"))) >>,
     \* an expression statement in the middle (its value is dropped), then a definition
     << ExprS(Call("f_sub", <<a, Lit(1)>>)), Let("w_c", Call("f_twice", <<Var("f_inc"), a>>)), ExprS(Op2("mul", Var("w_c"), Var("w_b"))) >>,
     \* three parameters, distinct arguments
     << Fn3, ExprS(Call("f_three", <<a, Lit(7), Var("w_b")>>)) >>,
     << Fn3, ExprS(Call("f_three", <<Call("f_inc", <<a>>), Call("f_sub", <<a, Lit(1)>>), Neg(a)>>)) >>,
     \* nested conditionals (jump patching inside both branches)
     << ExprS(IfE(Op2("lt", a, Lit(3)), IfE(Op2("gt", a, Var("w_b")), Lit(1), Lit(2)), IfE(Op2("eq", a, Lit(7)), Lit(3), Call("f_inc", <<a>>)))) >>,
     << ExprS(Op2("add", IfE(Op2("lt", a, Lit(3)), Lit(10), Lit(20)), IfE(Op2("gt", a, Lit(3)), a, Call("f_fact", <<Lit(3)>>)))) >>,
     \* a conditional and a where chain inside a function defined after the catalogue; a parameter shadowing a global
     << Fn("f_abs", <<"w_a">>, <<"w_a">>, IfE(Op2("lt", Var("w_a"), Var("z")), Neg(Var("w_a")), Op2("add", Var("w_a"), Var("w_b"))),
           << [n |-> "z", e |-> Op2("sub", Var("w_b"), Var("w_b"))] >>),
        ExprS(ListE(<<Call("f_abs", <<Neg(a)>>), Call("f_abs", <<a>>), Var("w_a")>>)) >>,
     \* strings that begin and end with an interpolation, a string interpolated into a string
     << ExprS(StrE(<<Call("f_inc", <<a>>), Fixed("b"), a>>)) >>,
     << Let("w_s", StrE(<<a, Fixed("|")>>)), ExprS(StrE(<<Var("w_s"), Op2("lt", a, Lit(3)), Fixed("c"), Var("w_s")>>)) >>,
     \* struct built in declared order, nested in a list, field of a struct passed through a function value
     << ExprS(Mk("P", << [f |-> "x", e |-> a], [f |-> "y", e |-> Call("f_inc", <<a>>)] >>)) >>,
     << ExprS(Fld(Call("head", <<ListE(<<PVal(a, Lit(7)), PVal(Lit(7), a)>>)>>), "y")) >>,
     << Let("w_c", Var("f_mkp")), ExprS(Call("f_sel", <<Call("w_c", <<a, Var("w_b")>>)>>)) >> }
  \cup (IF SelfRef
        THEN { << Fn("f_ap", <<"f", "x">>, <<"f: Fn[(Scalar) -> Scalar]", "x: Scalar">>, Call("f", <<X>>), << >>),
                  Fn("f_self", <<"n">>, <<"n: Scalar">>,
                     IfE(Op2("lt", Var("n"), Lit(1)), a, Call("f_ap", <<Var("f_self"), Op2("sub", Var("n"), Lit(1))>>)), << >>),
                  ExprS(Op2("add", Call("f_self", <<Lit(2)>>), Lit(1))) >> }
        ELSE {})

VInit == Init /\ rep = << >>
CodeJson(code) == [j \in 1..Len(code) |-> [o |-> code[j].o, op |-> code[j].op, a |-> code[j].a]]
ChunkJson(ch) == [i |-> ch.i, n |-> ch.n, code |-> CodeJson(ch.code)]
ConstJson(cs) == [j \in 1..Len(cs) |-> [i |-> cs[j].i, tx |-> ShowV(cs[j].tv)]]
\* everything about the program of a state is computed once, when the state is generated
VReport(pr, nprefix) ==
  LET p == Compile(pr)
      vm == RunVM(p, 5000)
      want == Run(EmptyEnv, pr, 1, Fuel).res
      pre == Compile(SubSeq(pr, 1, nprefix))
      k == Len(pre.chunks) IN
  [jumps |-> JumpsForward(p), closed |-> ChunksClosed(p), halt |-> vm.halt, rootok |-> vm.rootok,
   balanced |-> RunBalanced(p, vm), steps |-> vm.steps,
   agrees |-> IF vm.halt = "error" \/ IsErr(want) THEN vm.halt = "error" /\ IsErr(want) /\ RunValue(vm) = want
              ELSE RunValue(vm).k = want.k /\ ValJson(RunValue(vm)) = ValJson(want),
   got |-> ValJson(RunValue(vm)), want |-> ValJson(want), wantk |-> want.k, wantv |-> IF IsErr(want) THEN want.v ELSE "",
   \* <main>, the chunks and constants after those of the catalogue (+ variant) - for the comparison with the decoded bytecode
   main |-> CodeJson(p.chunks[1].code), extra |-> [c \in 1..(Len(p.chunks) - k) |-> ChunkJson(p.chunks[k + c])],
   consts |-> ConstJson(SubSeq(p.consts, Len(pre.consts) + 1, Len(p.consts)))]
NCat(v) == Len(Catalogue) + Len(Variants[v])
VNext == /\ \/ Next
            \/ stage = 1 /\ \E t \in XTails(seed) : prog' = Catalogue \o Variants[seed.v] \o t /\ stage' = 2 /\ UNCHANGED seed
         /\ rep' = IF stage' = 2 THEN VReport(prog', NCat(seed'.v)) ELSE << >>
VSpec == VInit /\ [][VNext]_vvars

\* ------------------------------------------------------------------ MC
\* (EvalTotal of MC_Eval on the value computed for rep)
EvalTotalV == stage = 2 => (rep.wantk \in {"int", "bool", "str", "list", "struct", "fn"} \/ (rep.wantk = "err" /\ rep.wantv \in {"empty list"}))
JumpsAreForward == stage = 2 => (rep.jumps /\ rep.closed)
RootReturnHeight == stage = 2 => rep.rootok
FramesBalanced == stage = 2 => rep.balanced
VmTotal == stage = 2 => rep.halt \in {"", "error"}
StmtTexts == [i \in 1..Len(prog) |-> StmtText(prog[i])]
\* RunVM(Compile(p)) = Run(p): a difference is printed (c09.py classifies it - the model of the VM resolves a function
\* VALUE by name at call time exactly as vm.rs does, which is the known late-binding finding) and counted
VmAgrees == stage = 2 =>
  (rep.agrees \/ PrintT(<<"VMDIFF", ToJson([stmts |-> StmtTexts, variant |-> seed.v, res |-> rep.want, vm |-> rep.got, halt |-> rep.halt])>>))

\* ------------------------------------------------------------- G and drift
\* the CASE line of MC_Eval!EmitCase (same fields) plus the compiled code of the program
EmitCaseV == stage = 2 =>
  PrintT(<<"CASE", ToJson([stmts |-> StmtTexts, variant |-> seed.v, res |-> rep.want, steps |-> rep.steps,
                           main |-> rep.main, extra |-> rep.extra, consts |-> rep.consts])>>)
\* the chunks of the catalogue (+ variant), once per seed
EmitCatCode == stage = 1 =>
  LET p == Compile(Catalogue \o Variants[seed.v]) IN
  PrintT(<<"CATCODE", ToJson([variant |-> seed.v, chunks |-> [c \in 1..Len(p.chunks) |-> ChunkJson(p.chunks[c])], consts |-> ConstJson(p.consts)])>>)
=============================================================================
