---------------------------- MODULE PrefixParser ----------------------------
(***************************************************************************)
(* Unit names, aliases and prefixes (property C13).                        *)
(*                                                                         *)
(* The rule is taken from the book (book/src/advanced/unit-definitions.md):*)
(*   - a unit declared with @metric_prefixes / @binary_prefixes may be     *)
(*     written with metric / binary prefixes;                              *)
(*   - the unit name and every alias declared `long` (the default) accept  *)
(*     the long spelling of a prefix (milli, kilo, kibi ...), aliases      *)
(*     declared `short` accept the short spelling (m, k, Ki ...), `both`   *)
(*     accept either, `none` accept no prefix;                             *)
(*   - a prefixed name denotes prefix factor x unit.                       *)
(* A *reading* of an identifier is a way to split it into a prefix         *)
(* spelling (possibly empty) and a unit alias that accepts that spelling.  *)
(* Readings(id) below is the SET of all readings - it is a definition, not *)
(* an algorithm; the property is that this set never has two elements and  *)
(* that the implementation's resolution returns its element.               *)
(*                                                                         *)
(* The state machine (units / others / AddUnit / AddOther / AddShadowing)  *)
(* has the shape of numbat's PrefixParser: `units`, `other_identifiers`,   *)
(* `ensure_name_is_available`.  ParseMirror re-states the first-match loop *)
(* of the implementation (insertion order of units, table order of         *)
(* prefixes); the invariant ResolveOK says that loop computes the unique   *)
(* reading, i.e. that iteration order can never matter.                    *)
(*                                                                         *)
(* Text is a sequence of characters.  A character is a one-character       *)
(* string, or a token "U+XXXX" for a non-ASCII character.                  *)
(*                                                                         *)
(* Assumption made explicit: the specification speaks about *identifiers*. *)
(* That a displayed text such as "m" followed by the arcsecond sign is     *)
(* handed to name resolution as ONE identifier is a fact about the lexer   *)
(* (not documented, hence not stated here); the conformance harness        *)
(* observes it on the real reader and the check reports where it fails.    *)
(***************************************************************************)
EXTENDS Integers, Sequences, FiniteSets, TLC

Chars(s) == [i \in 1..Len(s) |-> SubSeq(s, i, i)]
RECURSIVE Str(_)
Str(cs) == IF cs = << >> THEN "" ELSE Head(cs) \o Str(Tail(cs))
Range(f) == { f[x] : x \in DOMAIN f }

-----------------------------------------------------------------------------
(* The prefix table: SI prefixes (SI brochure, 9th edition incl. the 2022    *)
(* additions ronna/quetta/ronto/quecto; the symbol of micro may be typed as  *)
(* MICRO SIGN U+00B5, GREEK SMALL LETTER MU U+03BC or the letter u) and the  *)
(* binary prefixes of IEC 80000-13 (plus robi/quebi).  The first short       *)
(* spelling is the one used in output.                                       *)
Pfx(long, shorts, kind, exp) == [long |-> Chars(long), shorts |-> shorts, kind |-> kind, exp |-> exp]
One(s) == << Chars(s) >>
StdPrefixes == <<
    Pfx("quecto", One("q"), "metric", -30),  Pfx("ronto", One("r"), "metric", -27),
    Pfx("yocto", One("y"), "metric", -24),   Pfx("zepto", One("z"), "metric", -21),
    Pfx("atto", One("a"), "metric", -18),    Pfx("femto", One("f"), "metric", -15),
    Pfx("pico", One("p"), "metric", -12),    Pfx("nano", One("n"), "metric", -9),
    Pfx("micro", << <<"U+00B5">>, <<"U+03BC">>, <<"u">> >>, "metric", -6),
    Pfx("milli", One("m"), "metric", -3),    Pfx("centi", One("c"), "metric", -2),
    Pfx("deci", One("d"), "metric", -1),     Pfx("deca", One("da"), "metric", 1),
    Pfx("hecto", One("h"), "metric", 2),     Pfx("kilo", One("k"), "metric", 3),
    Pfx("mega", One("M"), "metric", 6),      Pfx("giga", One("G"), "metric", 9),
    Pfx("tera", One("T"), "metric", 12),     Pfx("peta", One("P"), "metric", 15),
    Pfx("exa", One("E"), "metric", 18),      Pfx("zetta", One("Z"), "metric", 21),
    Pfx("yotta", One("Y"), "metric", 24),    Pfx("ronna", One("R"), "metric", 27),
    Pfx("quetta", One("Q"), "metric", 30),
    Pfx("kibi", One("Ki"), "binary", 10),    Pfx("mebi", One("Mi"), "binary", 20),
    Pfx("gibi", One("Gi"), "binary", 30),    Pfx("tebi", One("Ti"), "binary", 40),
    Pfx("pebi", One("Pi"), "binary", 50),    Pfx("exbi", One("Ei"), "binary", 60),
    Pfx("zebi", One("Zi"), "binary", 70),    Pfx("yobi", One("Yi"), "binary", 80),
    Pfx("robi", One("Ri"), "binary", 90),    Pfx("quebi", One("Qi"), "binary", 100) >>

\* a reduced table for deep model checking: enough to reach one-letter, two-letter and long collisions
\* ("m"+"m", "d"+"am" = "da"+"m", "k"+"ibim" = "kibi"+"m", "G"+"im" = "Gi"+"m", "m"+"illim" = "milli"+"m")
ReducedPrefixes == <<
    Pfx("milli", One("m"), "metric", -3),    Pfx("", One("d"), "metric", -1),
    Pfx("", One("da"), "metric", 1),         Pfx("kilo", One("k"), "metric", 3),
    Pfx("", One("G"), "metric", 9),          Pfx("kibi", One("Ki"), "binary", 10),
    Pfx("", One("Gi"), "binary", 30) >>

\* A prefix *form* is one spelling: [text, form \in {"long","short"}, kind \in {"metric","binary"}, exp].
\* FormsOf flattens a table, keeping its order (long spelling, then the short ones).
EntryForms(e) ==
    (IF e.long = << >> THEN << >> ELSE << [text |-> e.long, form |-> "long", kind |-> e.kind, exp |-> e.exp] >>)
    \o [i \in 1..Len(e.shorts) |-> [text |-> e.shorts[i], form |-> "short", kind |-> e.kind, exp |-> e.exp]]
RECURSIVE FormsOf(_)
FormsOf(t) == IF t = << >> THEN << >> ELSE EntryForms(Head(t)) \o FormsOf(Tail(t))

\* The table as used below: T.seq = the forms in table order, T.at = the same forms indexed by their text.
\* (A spelling belongs to exactly one prefix: WellFormed.)
TableOf(t) == LET fs == FormsOf(t) IN
    [seq |-> fs, at |-> [x \in { fs[i].text : i \in 1..Len(fs) } |-> fs[CHOOSE i \in 1..Len(fs) : fs[i].text = x]]]
WellFormed(T) == /\ \A i, j \in 1..Len(T.seq) : T.seq[i].text = T.seq[j].text => i = j
                 /\ \A i \in 1..Len(T.seq) : T.seq[i].text # << >>

NoForm == [text |-> << >>, form |-> "none", kind |-> "metric", exp |-> 0]

-----------------------------------------------------------------------------
(* Readings.  U: alias |-> [unit, short, long, metric, binary]; T: prefix table (TableOf). *)

\* does an alias declared with `info` accept the prefix form f ?
AcceptsForm(info, f) ==
    \/ f.form = "none"
    \/ /\ \/ f.form = "short" /\ info.short
          \/ f.form = "long" /\ info.long
       /\ \/ f.kind = "metric" /\ info.metric
          \/ f.kind = "binary" /\ info.binary

FirstK(id, k) == SubSeq(id, 1, k)
AfterK(id, k) == SubSeq(id, k + 1, Len(id))

\* the prefix form spelled `head` (the empty head is "no prefix")
IsSpelling(T, head) == head = << >> \/ head \in DOMAIN T.at
FormAt(T, head) == IF head = << >> THEN NoForm ELSE T.at[head]

\* All unit readings of an identifier: every way to cut it into a prefix spelling (possibly empty) followed by an
\* alias that accepts that spelling.  A reading is [kind, exp, alias, unit] = prefix (kind, 10^exp or 2^exp) x unit.
UnitReadingsIn(U, T, id) ==
    { [kind |-> FormAt(T, FirstK(id, k)).kind, exp |-> FormAt(T, FirstK(id, k)).exp,
       alias |-> AfterK(id, k), unit |-> U[AfterK(id, k)].unit]
      : k \in { j \in 0..(Len(id) - 1) : /\ AfterK(id, j) \in DOMAIN U
                                         /\ IsSpelling(T, FirstK(id, j))
                                         /\ AcceptsForm(U[AfterK(id, j)], FormAt(T, FirstK(id, j))) } }

\* an identifier bound as something else (variable, function, parameter) is that thing, not a unit
ReadingsIn(U, O, T, id) == IF id \in O THEN {} ELSE UnitReadingsIn(U, T, id)

\* spellings of prefix (kind, exp) in the given form, as indices into T.seq
SpellingsOf(T, kind, exp, form) ==
    { i \in 1..Len(T.seq) : T.seq[i].kind = kind /\ T.seq[i].exp = exp /\ T.seq[i].form = form }
\* output spelling: the first one in table order
Spelling(T, kind, exp, form) ==
    LET s == SpellingsOf(T, kind, exp, form) IN T.seq[CHOOSE i \in s : \A j \in s : i <= j].text

\* Display rule: a prefixed unit is written with its canonical alias `canon`; the short spelling of the prefix is
\* used iff that alias accepts short prefixes.
ShowForm(U, canon) == IF U[canon].short THEN "short" ELSE "long"
ShowText(U, T, kind, exp, canon) == Spelling(T, kind, exp, ShowForm(U, canon)) \o canon

-----------------------------------------------------------------------------
(* The state machine *)

CONSTANT PrefixTable      \* the table in force (StdPrefixes or ReducedPrefixes)

VARIABLES units,    \* alias |-> [unit, short, long, metric, binary]
          order,    \* aliases in insertion order (used by ParseMirror only)
          others,   \* identifiers bound as something else than a unit
          shadow,   \* history variable: the subset of `others` that came in through AddShadowing
          pf        \* TableOf(PrefixTable), constant (kept in a variable: TLC would recompute a definition per use)

pvars == <<units, order, others, shadow, pf>>

Reserved == { Chars("_"), Chars("ans") }

UnitReadings(id) == UnitReadingsIn(units, pf, id)
Readings(id) == ReadingsIn(units, others, pf, id)

\* ensure_name_is_available
Available(name, clashWithOthers) ==
    /\ name \notin Reserved
    /\ clashWithOthers => name \notin others
    /\ Readings(name) = {}

\* the prefix forms an alias declared with `info` accepts (indices into pf.seq)
FormsAccepted(info) == { i \in 1..Len(pf.seq) : AcceptsForm(info, pf.seq[i]) }
\* every spelling the alias answers to
NamesClaimed(a, info) == {a} \cup { pf.seq[i].text \o a : i \in FormsAccepted(info) }

CanAddUnit(a, info) == \A n \in NamesClaimed(a, info) : Available(n, TRUE)
CanAddOther(x) == Available(x, FALSE)
CanAddShadowing(x) == x \notin Reserved

PInit == /\ Assert(WellFormed(TableOf(PrefixTable)), "a prefix spelling occurs twice in the table")
         /\ units = << >>
         /\ order = << >>
         /\ others = {}
         /\ shadow = {}
         /\ pf = TableOf(PrefixTable)

AddUnit(a, info) == /\ CanAddUnit(a, info)
                    /\ units' = [x \in DOMAIN units \cup {a} |-> IF x = a THEN info ELSE units[x]]
                    /\ order' = Append(order, a)
                    /\ UNCHANGED <<others, shadow, pf>>

AddOther(x) == /\ CanAddOther(x)
               /\ others' = others \cup {x}
               /\ UNCHANGED <<units, order, shadow, pf>>

AddShadowing(x) == /\ CanAddShadowing(x)
                   /\ others' = others \cup {x}
                   /\ shadow' = shadow \cup {x}
                   /\ UNCHANGED <<units, order, pf>>

-----------------------------------------------------------------------------
(* The implementation's resolution loop, re-stated: a shadowing/other identifier first, then an exact match, then  *)
(* the first unit in insertion order whose name is a suffix and for which some prefix form (in table order) fits.  *)
(* Returns a sequence of zero or one reading.                                                                       *)
EndsWith(id, a) == Len(a) <= Len(id) /\ AfterK(id, Len(id) - Len(a)) = a
FitsAt(a, j, id) == /\ pf.seq[j].text = FirstK(id, Len(id) - Len(a))
                    /\ AcceptsForm(units[a], pf.seq[j])
Least(S) == CHOOSE i \in S : \A j \in S : i <= j
ParseMirror(id) ==
    IF id \in others THEN << >>
    ELSE IF id \in DOMAIN units
         THEN << [kind |-> NoForm.kind, exp |-> NoForm.exp, alias |-> id, unit |-> units[id].unit] >>
    ELSE LET us == { i \in 1..Len(order) : EndsWith(id, order[i]) /\ \E j \in 1..Len(pf.seq) : FitsAt(order[i], j, id) } IN
         IF us = {} THEN << >>
         ELSE LET a == order[Least(us)]
                  f == pf.seq[Least({ j \in 1..Len(pf.seq) : FitsAt(a, j, id) })]
              IN << [kind |-> f.kind, exp |-> f.exp, alias |-> a, unit |-> units[a].unit] >>

AsSeq01(S) == IF S = {} THEN << >> ELSE << CHOOSE r \in S : TRUE >>

-----------------------------------------------------------------------------
(* Properties.  Every identifier that has a reading at all is a spelling claimed by some alias, so it suffices to  *)
(* quantify over those (plus the other identifiers).                                                                *)
Spellings == UNION { NamesClaimed(a, units[a]) : a \in DOMAIN units } \cup others

ReadingOf(a, f) == [kind |-> f.kind, exp |-> f.exp, alias |-> a, unit |-> units[a].unit]

\* no identifier has two readings - not even one hidden behind a shadowing binding
Unique == \A id \in Spellings : Cardinality(UnitReadings(id)) <= 1

\* every alias with every prefix form it accepts denotes exactly that prefix times that unit (unless shadowed)
AcceptedDenotes ==
    \A a \in DOMAIN units : \A i \in FormsAccepted(units[a]) :
        (pf.seq[i].text \o a) \notin others => Readings(pf.seq[i].text \o a) = { ReadingOf(a, pf.seq[i]) }

\* the first-match loop returns the reading (so iteration order is immaterial)
ResolveOK == \A id \in Spellings : ParseMirror(id) = AsSeq01(Readings(id))

\* a name bound by a global definition (not by shadowing) is never also a unit
OthersAreNotUnits == \A x \in others \ shadow : UnitReadings(x) = {}

\* a displayed prefixed unit reads back as the same prefixed unit (one alias per unit in the abstract machine: the
\* canonical alias is the alias itself)
ShowReadsBack ==
    \A a \in DOMAIN units : \A i \in FormsAccepted(units[a]) :
        LET f == pf.seq[i] IN
        SpellingsOf(pf, f.kind, f.exp, ShowForm(units, a)) # {} =>
            LET txt == ShowText(units, pf, f.kind, f.exp, a) IN
            txt \notin others => Readings(txt) = { ReadingOf(a, f) }

\* a global addition never changes what an identifier already meant
ReadingsStable ==
    [][ shadow' = shadow =>
          \A id \in Spellings : UnitReadings(id) # {} => UnitReadings(id)' = UnitReadings(id) ]_pvars

PTypeOK == /\ DOMAIN units = Range(order)
           /\ shadow \subseteq others
           /\ \A a \in DOMAIN units : units[a].short \in BOOLEAN /\ units[a].long \in BOOLEAN
=============================================================================
