------------------------------ MODULE Quantity ------------------------------
(***************************************************************************)
(* Quantities with written units (C04, C11, C12, C05, C21) on top of       *)
(* Units.tla.  A written unit is a sequence of factors [u, pk, pe, e];     *)
(* a quantity is [lit (decimal text), unit].  Conversion, addition and     *)
(* comparison are stated by their meaning (denotation) and, for            *)
(* conversion, additionally step by step as the implementation does it     *)
(* (cancellation of common factors), so that TLC can check that both agree.*)
(***************************************************************************)
EXTENDS Units, Sequences

\* written unit -> [vec, mono]
RECURSIVE WUnitDen(_, _, _)
WUnitDen(clo, fs, i) ==
  IF i > Len(fs) THEN [vec |-> Emp, mono |-> Emp]
  ELSE LET f == fs[i]
           r == WUnitDen(clo, fs, i + 1) IN
       [vec |-> MAdd(MScale(clo[f.u].vec, f.e), r.vec),
        mono |-> MAdd(MScale(MAdd(clo[f.u].mono, PrefixMono(f.pk, f.pe)), f.e), r.mono)]

\* key of a factor for merging: same unit and same prefix
SameKey(f, g) == f.u = g.u /\ f.pk = g.pk /\ f.pe = g.pe

\* canonical form of a written unit as a function key -> exponent (order-free, zero exponents dropped)
KeyOf(f) == <<f.u, f.pk, f.pe>>
Canon(fs) == LET keys == {KeyOf(fs[i]) : i \in 1..Len(fs)}
                 RECURSIVE SumExp(_, _)
                 SumExp(k, i) == IF i > Len(fs) THEN R(0)
                                 ELSE RAdd(IF KeyOf(fs[i]) = k THEN fs[i].e ELSE R(0), SumExp(k, i + 1))
             IN Clean([k \in keys |-> SumExp(k, 1)])

\* ---- conversion: meaning
\* q -> U : unit = U as written; magnitude = lit * F(q.unit) / F(U)
ConvertDen(clo, lit, qunit, target) ==
  LET a == WUnitDen(clo, qunit, 1)
      b == WUnitDen(clo, target, 1) IN
  [compatible |-> a.vec = b.vec,
   unit |-> Canon(target),
   mono |-> MAdd(One("n:" \o lit), MAdd(a.mono, MNeg(b.mono)))]

\* ---- display of a conversion result (C04: "displayed in exactly U, as a multiple of U when U has a magnitude
\* other than 1").  The display target is a property of the LAST conversion only: converting again - even into the
\* same unit, even a zero - displays the plain value in the new unit.
DisplayTarget(targetLit) == IF targetLit = "1" THEN "none" ELSE targetLit
RECURSIVE ChainDisplayTarget(_)
ChainDisplayTarget(lits) == IF lits = << >> THEN "none" ELSE DisplayTarget(lits[Len(lits)])

\* ---- conversion: the implementation's procedure (quantity.rs convert_to), symbolically:
\* common factors (same unit, same prefix, same exponent sign) are cancelled with min/max exponent,
\* the rest goes through base units
MinR(a, b) == IF a[1] * b[2] <= b[1] * a[2] THEN a ELSE b
MaxR(a, b) == IF a[1] * b[2] >= b[1] * a[2] THEN a ELSE b
Pos(r) == r[1] > 0
NegR(r) == r[1] < 0
CommonOf(cq, ct) ==
  Clean([k \in DOMAIN cq \cap DOMAIN ct |->
           IF Pos(cq[k]) /\ Pos(ct[k]) THEN MinR(cq[k], ct[k])
           ELSE IF NegR(cq[k]) /\ NegR(ct[k]) THEN MaxR(cq[k], ct[k]) ELSE R(0)])
\* denotation of a canonical unit (key -> exponent)
CanonDen(clo, c) ==
  LET RECURSIVE Go(_)
      Go(ks) == IF ks = {} THEN [vec |-> Emp, mono |-> Emp]
                ELSE LET k == CHOOSE x \in ks : TRUE
                         r == Go(ks \ {k}) IN
                     [vec |-> MAdd(MScale(clo[k[1]].vec, c[k]), r.vec),
                      mono |-> MAdd(MScale(MAdd(clo[k[1]].mono, PrefixMono(k[2], k[3])), c[k]), r.mono)]
  IN Go(DOMAIN c)
ConvertStepwise(clo, lit, qunit, target) ==
  LET cq == Canon(qunit)
      ct == Canon(target)
      common == CommonOf(cq, ct)
      tred == MAdd(ct, MNeg(common))
      qred == MAdd(cq, MNeg(common))
      tb == CanonDen(clo, tred)
      qb == CanonDen(clo, qred) IN
  [compatible |-> qb.vec = tb.vec,
   mono |-> MAdd(One("n:" \o lit), MAdd(qb.mono, MNeg(tb.mono)))]

\* TLC checks: the stepwise procedure denotes the same as the plain definition
ConvertAgree(clo, lit, qunit, target) ==
  LET a == ConvertDen(clo, lit, qunit, target)
      b == ConvertStepwise(clo, lit, qunit, target) IN
  a.compatible = b.compatible /\ (a.compatible => a.mono = b.mono)

=============================================================================
