CONSTANTS ZoneMode = "hash"
          Emit = FALSE
SPECIFICATION Spec
INVARIANTS TablesOk ArithLaws DiffLaws TzLaw FmtLaw EmitCase EmitMeta
CHECK_DEADLOCK FALSE
