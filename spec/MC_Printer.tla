----------------------------- MODULE MC_Printer -----------------------------
(***************************************************************************)
(* C15: ALL well-sorted typed expression trees with at most MaxNodes nodes *)
(* over all unary / binary operators, conditionals, calls, callable calls, *)
(* lists, struct instantiation, field access, strings with interpolation   *)
(* and the temperature sugar, with leaves from a small typed universe.     *)
(*                                                                         *)
(* MC (a property of the echo RULES, Printer.tla):                         *)
(*   CheckAndEmit   Read(Print(Variant, t)) = t  up to re-association of   *)
(*                  products and sums, the pieces are spelled as Lexer.tla *)
(*                  says and need no separator where they touch.           *)
(*                  Variant = "pinned": TLC reports a counterexample (the  *)
(*                  implemented table has defective entries);              *)
(*                  Variant = "repaired": holds.                           *)
(* G: the same invariant (CheckAndEmit) prints, for every tree, the input  *)
(*    text (fully parenthesised, ASCII), the echo predicted by the pinned  *)
(*    and by the repaired rules, whether each reads back (spec level), the *)
(*    table entries that make the two echoes differ, whether the echo      *)
(*    re-associates and, if so, the predicted echo of the echo.            *)
(* Configurations: MC_Printer_repaired.cfg (holds), MC_Printer_pinned.cfg  *)
(* (TLC reports the first counterexample); the check generates its own.    *)
(*                                                                         *)
(* Trees are enumerated in Polish notation: ps = the constructors chosen   *)
(* so far, need = the sorts of the operands still missing.                 *)
(* Sorts (n scalar, d Length, x other dimension, tk Temperature, b Bool,   *)
(* st struct, f function, l list, s string) only steer the generator       *)
(* towards programs the type checker accepts; whether a tree is accepted   *)
(* is decided by the real type checker (rejected = skipped).               *)
(***************************************************************************)
EXTENDS Printer, Json

CONSTANTS MaxNodes,   \* most nodes per tree
          Variant,    \* "pinned" | "repaired": the table the invariant is stated for
          Wide        \* FALSE: the quick alphabet; TRUE: more leaves and comparison operators

\* a constructor: the operator, the sort of the result, the sorts of the operands
C(op, r, a) == [op |-> op, r |-> r, a |-> a]
\* sorts: n scalar, d Length, x some other dimension, tk Temperature, b Bool, st struct, f function, l list, s string
QuickCons == {
  C("n2", "n", << >>), C("n5", "n", << >>), C("um", "d", << >>), C("vl", "d", << >>),
  C("bt", "b", << >>), C("vs", "st", << >>), C("fsqr", "f", << >>), C("sa", "s", << >>),
  \* scalars
  C("neg", "n", <<"n">>), C("fact1", "n", <<"n">>), C("sqr", "n", <<"n">>), C("toc", "n", <<"tk">>),
  C("mul", "n", <<"n", "n">>), C("div", "n", <<"n", "n">>), C("add", "n", <<"n", "n">>), C("sub", "n", <<"n", "n">>),
  C("pow", "n", <<"n", "n">>), C("conv", "n", <<"n", "n">>), C("div", "n", <<"d", "d">>),
  C("if", "n", <<"b", "n", "n">>), C("slen", "n", <<"s">>), C("callf", "n", <<"f", "n">>),
  \* lengths
  C("neg", "d", <<"d">>), C("mul", "d", <<"n", "d">>), C("mul", "d", <<"d", "n">>), C("div", "d", <<"d", "n">>),
  C("add", "d", <<"d", "d">>), C("sub", "d", <<"d", "d">>), C("conv", "d", <<"d", "d">>),
  C("if", "d", <<"b", "d", "d">>), C("fld", "d", <<"st">>), C("head", "d", <<"l">>),
  \* other dimensions
  C("pow", "x", <<"d", "n">>), C("mul", "x", <<"d", "d">>), C("div", "x", <<"n", "d">>), C("sqr", "x", <<"d">>),
  C("neg", "x", <<"x">>), C("mul", "x", <<"n", "x">>), C("mul", "x", <<"x", "n">>), C("pow", "x", <<"tk", "n">>),
  \* temperatures
  C("fromc", "tk", <<"n">>), C("neg", "tk", <<"tk">>), C("mul", "tk", <<"n", "tk">>), C("conv", "tk", <<"tk", "tk">>),
  \* booleans
  C("not", "b", <<"b">>), C("lt", "b", <<"n", "n">>), C("lt", "b", <<"d", "d">>), C("eq", "b", <<"n", "n">>),
  C("and", "b", <<"b", "b">>), C("or", "b", <<"b", "b">>), C("if", "b", <<"b", "b", "b">>),
  \* structs, functions, lists, strings
  C("mk", "st", <<"d">>), C("if", "st", <<"b", "st", "st">>), C("if", "f", <<"b", "f", "f">>),
  C("list1", "l", <<"d">>), C("ipl", "s", <<"d">>) }
WideCons == QuickCons \cup {
  C("n3", "n", << >>), C("vx", "n", << >>), C("ucm", "d", << >>), C("fact2", "n", <<"n">>), C("tocel", "n", <<"tk">>),
  C("gt", "b", <<"n", "n">>), C("le", "b", <<"d", "d">>), C("ge", "b", <<"n", "n">>), C("ne", "b", <<"d", "d">>), C("eq", "b", <<"d", "d">>),
  C("list2", "l", <<"d", "d">>), C("list1", "l", <<"n">>), C("iplf", "s", <<"n">>), C("ipl", "s", <<"n">>),
  C("add", "tk", <<"tk", "tk">>), C("if", "tk", <<"b", "tk", "tk">>), C("div", "x", <<"x", "d">>) }
Cons == IF Wide THEN WideCons ELSE QuickCons
ConsOf(sort) == { c \in Cons : c.r = sort }
StartSorts == {"n", "d", "x", "tk", "b", "st", "l", "s"}

VARIABLES ps, need
vars == <<ps, need>>

Init == /\ ps = << >>
        /\ need \in { <<s>> : s \in StartSorts }
\* a conditional has four nodes by itself: trees that contain one may have one node more, so that a conditional
\* still occurs as an operand of every binary operator within the bound
Bound(s, c) == IF c.op = "if" \/ \E i \in 1..Len(s) : s[i].op = "if" THEN MaxNodes + 1 ELSE MaxNodes
Next == /\ need # << >>
        /\ \E c \in ConsOf(Head(need)) :
             /\ Len(ps) + Len(need) + Len(c.a) <= Bound(ps, c)   \* the tree can still be completed
             /\ ps' = Append(ps, c)
             /\ need' = c.a \o Tail(need)
Spec == Init /\ [][Next]_vars

-----------------------------------------------------------------------------
\* the typed universe (defined by Setup in the session before the cases run)
Setup == << "struct Zqp { a: Length }",
            "let zqs = Zqp { a: 3 m }",
            "let zql = 4 m",
            "let zqx = 5" >>

Num(v) == <<"num", v>>
Id(v) == <<"id", v>>
Call1(f, x) == <<"call", Id(f), <<x>>>>

\* decode the constructor sequence from position i: [t |-> typed tree, n |-> next position]
RECURSIVE Dec(_, _)
Dec(s, i) ==
  LET c == s[i].op
      ar == Len(s[i].a)
  IN
  IF ar = 0 THEN
     [t |-> CASE c = "n2" -> Num("2") [] c = "n3" -> Num("3") [] c = "n5" -> Num("5")
              [] c = "um" -> <<"unit", "m", "metre">> [] c = "ucm" -> <<"unit", "cm", "centimetre">>
              [] c = "us" -> <<"unit", "s", "second">>
              [] c = "vx" -> Id("zqx") [] c = "vl" -> Id("zql") [] c = "bt" -> <<"bool", "true">>
              [] c = "vs" -> Id("zqs") [] c = "fsqr" -> Id("sqr")
              [] c = "sa" -> <<"str", << <<"fix", <<"a">>>> >> >>,
      n |-> i + 1]
  ELSE LET a == Dec(s, i + 1) IN
  IF ar = 1 THEN
     [t |-> CASE c \in {"neg", "not"} -> <<c, a.t>>
              [] c = "fact1" -> <<"fact", 1, a.t>> [] c = "fact2" -> <<"fact", 2, a.t>>
              [] c = "sqr" -> Call1("sqr", a.t) [] c = "fromc" -> Call1("from_celsius", a.t)
              [] c = "toc" -> Call1("°C", a.t) [] c = "tocel" -> Call1("celsius", a.t)
              [] c = "fld" -> <<"field", a.t, "a">>
              [] c = "head" -> Call1("head", a.t) [] c = "slen" -> Call1("str_length", a.t)
              [] c = "mk" -> <<"mk", "Zqp", << <<"a", a.t>> >> >>
              [] c = "list1" -> <<"list", <<a.t>>>>
              [] c = "ipl" -> <<"str", << <<"fix", <<"x">>>>, <<"ipl", a.t, "">>, <<"fix", <<"y">>>> >> >>
              [] c = "iplf" -> <<"str", << <<"ipl", a.t, ":.2f">> >> >>,
      n |-> a.n]
  ELSE LET b == Dec(s, a.n) IN
  IF ar = 2 THEN
     [t |-> CASE c = "callf" -> <<"call", a.t, <<b.t>>>>
              [] c = "list2" -> <<"list", <<a.t, b.t>>>>
              [] OTHER -> <<c, a.t, b.t>>,
      n |-> b.n]
  ELSE LET d == Dec(s, b.n) IN
     [t |-> <<"if", a.t, b.t, d.t>>, n |-> d.n]

Tree == Dec(ps, 1).t

-----------------------------------------------------------------------------
\* the input: ASCII, every operand that is not a leaf in parentheses, no sugar
AsciiOp(tag) ==
  CASE tag = "add" -> "+" [] tag = "sub" -> "-" [] tag = "mul" -> "*" [] tag = "div" -> "/" [] tag = "pow" -> "^"
    [] tag = "conv" -> "->" [] tag = "lt" -> "<" [] tag = "gt" -> ">" [] tag = "le" -> "<=" [] tag = "ge" -> ">="
    [] tag = "eq" -> "==" [] tag = "ne" -> "!=" [] tag = "and" -> "&&" [] tag = "or" -> "||"
RECURSIVE In(_), InOp(_), InSeq(_), InParts(_), BangText(_)
BangText(n) == IF n = 0 THEN "" ELSE "!" \o BangText(n - 1)
InOp(t) == IF t[1] \in {"num", "id", "unit", "bool", "str", "list", "mk"} \/ (t[1] = "call" /\ t[2][1] = "id")
           THEN In(t) ELSE "(" \o In(t) \o ")"
InSeq(s) == IF s = << >> THEN "" ELSE IF Len(s) = 1 THEN In(s[1]) ELSE In(s[1]) \o ", " \o InSeq(Tail(s))
InParts(p) == IF p = << >> THEN ""
              ELSE (IF Head(p)[1] = "fix" THEN EscapeText(Head(p)[2]) ELSE "{" \o In(Head(p)[2]) \o Head(p)[3] \o "}") \o InParts(Tail(p))
In(t) ==
  CASE t[1] \in {"num", "id", "bool"} -> t[2]
    [] t[1] = "unit" -> t[2]
    [] t[1] = "str" -> "\"" \o InParts(t[2]) \o "\""
    [] t[1] = "neg" -> "-" \o InOp(t[2])
    [] t[1] = "not" -> "!" \o InOp(t[2])
    [] t[1] = "fact" -> InOp(t[3]) \o BangText(t[2])
    [] t[1] \in BinaryTags -> InOp(t[2]) \o " " \o AsciiOp(t[1]) \o " " \o InOp(t[3])
    [] t[1] = "call" -> InOp(t[2]) \o "(" \o InSeq(t[3]) \o ")"
    [] t[1] = "field" -> InOp(t[2]) \o "." \o t[3]
    [] t[1] = "if" -> "if " \o InOp(t[2]) \o " then " \o InOp(t[3]) \o " else " \o InOp(t[4])
    [] t[1] = "list" -> "[" \o InSeq(t[2]) \o "]"
    [] t[1] = "mk" -> t[2] \o " { " \o t[3][1][1] \o ": " \o In(t[3][1][2]) \o " }"

-----------------------------------------------------------------------------
RoundTripInv == need = << >> => ExprRoundTrip(Variant, Tree)

DiffSeq(S) == LET RECURSIVE Lst(_)
                  Lst(X) == IF X = {} THEN << >> ELSE LET e == CHOOSE x \in X : TRUE IN <<e[1] \o "/" \o e[2]>> \o Lst(X \ {e})
              IN Lst(S)

\* MC and G in one evaluation per tree (bound with \A over singletons: LET would re-evaluate per use)
CheckAndEmit == need = << >> =>
  \A t \in {Tree} : \A pp \in {PrintExpr("pinned", t)} : \A pr \in {PrintExpr("repaired", t)} :
  \A okp \in {PiecesReadBack(pp, t)} : \A okr \in {IF pr = pp THEN okp ELSE PiecesReadBack(pr, t)} :
  \A ra \in {Reassociated(t)} :
  \A p2 \in {IF ra THEN SecondEcho("pinned", t) ELSE pp} : \A r2 \in {IF ra THEN SecondEcho("repaired", t) ELSE pr} :
     /\ PrintT(<<"CASE", ToJson([i |-> In(t), p |-> TextOf(pp), r |-> IF pr = pp THEN "=" ELSE TextOf(pr),
                                 ok |-> okp, okr |-> okr, d |-> DiffSeq(UsedDiff("arg", t)), ra |-> ra,
                                 p2 |-> IF p2 = pp THEN "=" ELSE TextOf(p2), r2 |-> IF r2 = pr THEN "=" ELSE TextOf(r2)])>>)
     \* the echo reads back (up to re-association), as exactly the tree LeftAssocT(t); the echo of that tree is a fixpoint
     /\ (IF Variant = "pinned" THEN okp ELSE okr)
     /\ (okp => MirrorsReader(pp, t)) /\ (okr /\ pr # pp => MirrorsReader(pr, t))
     /\ (ra => LeftAssocT(LeftAssocT(t)) = LeftAssocT(t))

\* the table itself, for the report
TableSeq(S) == DiffSeq(S)
ASSUME EscapeSound
ASSUME PrinterSpellingsKnown
ASSUME PrintT(<<"META", ToJson([setup |-> Setup, tablediff |-> TableSeq(TableDiff)])>>)
=============================================================================
