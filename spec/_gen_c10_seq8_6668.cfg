CONSTANTS MaxLen = 5
          Alpha = 8
SPECIFICATION Spec
INVARIANTS ReadingsAgreeInv ParenNeutral EmitCase
CHECK_DEADLOCK FALSE
