---------------------------- MODULE MC_TotalitySeq ----------------------------
(***************************************************************************)
(* C08, G (i): EVERY token sequence of length <= MaxLen over sub-alphabets  *)
(* (quick: alphabets 1-4 in one run; thorough: each of the 7 with its bound) *)
(* of a token alphabet that spans the whole language surface:               *)
(*   numbers (0, 2, the huge 1e309), identifiers (an unknown one, the unit  *)
(*   m, the function sin), arithmetic operators, factorial, parentheses,    *)
(*   list brackets, ->, comma, if/then/else, booleans, comparisons, let,    *)
(*   fn, unit, dimension, struct, use, =, :, braces, strings (plain and     *)
(*   with an interpolation), field dot, Unicode exponent, |>, per, %, ?,    *)
(*   decorator @, comment #, newline.                                       *)
(* (the sequence generator of MC_Grammar.tla, with concrete texts)          *)
(*                                                                         *)
(* For each sequence TLC prints one CASE line: the text (tokens separated   *)
(* by one blank; the harness also submits it without the blanks) and the    *)
(* prediction:                                                              *)
(*   req   the REQUIRED outcome set - Totality!GoodOutcomes, for every      *)
(*         sequence (printed once, META)                                    *)
(*   p     for sequences that consist of expression tokens only, the        *)
(*         verdict of the documented grammar (Grammar.tla): "rej" - the     *)
(*         input is outside the grammar, so the pipeline must stop in       *)
(*         stage 1 with a resolver (parse) error; "acc" - it must get past  *)
(*         the parser; "na" - statement-level tokens, not modelled there    *)
(* The harness pushes every text through the WHOLE pipeline in a fresh      *)
(* prelude-free session and in a prelude-loaded session, rendering          *)
(* included (nv-robust).                                                    *)
(***************************************************************************)
EXTENDS Totality, Grammar, TLC, Json

CONSTANTS MaxLen,     \* longest sequence
          Alpha       \* index of the sub-alphabet, or 0 for all of them with their own bounds (MaxLenOf)

\* token: text, kind of Grammar.tla ("" = not an expression token), value
T(t, k, v) == [t |-> t, k |-> k, v |-> v]
Num(t)  == T(t, "num", t)
Id(t)   == T(t, "id", t)
Op(t, k) == T(t, k, "")
St(t)   == T(t, "", "")

Alphabets == <<
  \* 1 the expression core (20 tokens)
  << Num("0"), Num("2"), Num("1e309"), Id("zq"), Id("m"), Id("sin"),
     Op("+", "plus"), Op("-", "minus"), Op("*", "mul"), Op("/", "div"), Op("^", "pow"), Op("!", "bang"),
     Op("(", "lp"), Op(")", "rp"), Op("[", "lb"), Op("]", "rb"), Op("->", "arrow"), Op(",", "comma"),
     St("="), St("\"s\"") >>,
  \* 2 definitions (15 tokens)
  << St("let"), St("fn"), St("unit"), St("dimension"), St("struct"), St("use"), Id("zq"), Id("m"), Num("2"),
     St("="), St(":"), St("{"), St("}"), Op("(", "lp"), Op(")", "rp") >>,
  \* 3 conditionals, logic, strings (10 tokens)
  << Op("if", "if"), Op("then", "then"), Op("else", "else"), T("true", "bool", "true"), Id("zq"), Num("2"),
     Op("<", "lt"), Op("&&", "and"), Op("!", "bang"), St("\"a{2}b\"") >>,
  \* 4 lexical neighbourhood: dot, Unicode exponent, |>, per, %, typed hole, decorator, comment, newline (12 tokens)
  << Num("2"), Id("zq"), Id("m"), St("."), T("²", "uexp", "2"), Op("|>", "apply"), Op("per", "per"), St("%"),
     St("?"), St("@"), St("#"), St("\n") >>,
  \* 5-7 (thorough tier: one token longer) 12-token sub-alphabets of the expression core:
  \* 5 calls, conversions, powers and factorials
  << Num("0"), Id("zq"), Id("m"), Id("sin"), Op("+", "plus"), Op("*", "mul"), Op("^", "pow"), Op("!", "bang"),
     Op("(", "lp"), Op(")", "rp"), Op("->", "arrow"), Op(",", "comma") >>,
  \* 6 lists, strings, the huge number, division and unary minus
  << Num("2"), Num("1e309"), Id("m"), Op("-", "minus"), Op("/", "div"), Op("^", "pow"), Op("(", "lp"), Op(")", "rp"),
     Op("[", "lb"), Op("]", "rb"), Op(",", "comma"), St("\"s\"") >>,
  \* 7 operators only, with = and ->
  << Num("0"), Num("2"), Id("zq"), Id("m"), Op("+", "plus"), Op("-", "minus"), Op("*", "mul"), Op("/", "div"),
     Op("^", "pow"), Op("!", "bang"), St("="), Op("->", "arrow") >> >>

NAlpha == Len(Alphabets)
NQuick == 4          \* Alpha = 0: the first four alphabets in one run

RECURSIVE Join(_)
Join(ts) == IF ts = << >> THEN "" ELSE IF Len(ts) = 1 THEN ts[1].t ELSE ts[1].t \o " " \o Join(Tail(ts))

ExprOnly(ts) == \A i \in 1..Len(ts) : ts[i].k # ""
GToks(ts) == [i \in 1..Len(ts) |-> Tok(ts[i].k, ts[i].v)]
Pred(ts) == IF ~ExprOnly(ts) THEN "na" ELSE IF Parse(GToks(ts)) = REJECT THEN "rej" ELSE "acc"

\* bound of alphabet a when all are run together (Alpha = 0): MaxLen for the expression core, one less for the others
MaxLenOf(a) == IF Alpha = 0 /\ a # 1 THEN MaxLen - 1 ELSE MaxLen

VARIABLES al, ks
svars == <<al, ks, vars>>

\* (the pipeline machine of Totality.tla is not run here: its variables stay in the initial state)
SInit == /\ al \in (IF Alpha = 0 THEN 1..NQuick ELSE {Alpha})
         /\ ks = << >>
         /\ Init
SNext == /\ Len(ks) < MaxLenOf(al)
         /\ \E i \in 1..Len(Alphabets[al]) : ks' = Append(ks, Alphabets[al][i])
         /\ UNCHANGED <<al, vars>>
SSpec == SInit /\ [][SNext]_svars

\* the required outcome of every sequence is the same set; what TLC contributes per sequence is the text and the
\* stage prediction
EmitCase == ks # << >> => PrintT(<<"CASE", ToJson([a |-> al, t |-> Join(ks), p |-> Pred(ks)])>>)

Meta == [req |-> GoodOutcomes, alphabets |-> [a \in 1..NAlpha |-> [i \in 1..Len(Alphabets[a]) |-> Alphabets[a][i].t]]]
ASSUME PrintT(<<"META", ToJson(Meta)>>)
=============================================================================
