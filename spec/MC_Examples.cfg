CONSTANTS RollbackImports = TRUE
          Depth = 2
SPECIFICATION Spec
INVARIANTS ExampleTotal FailedCloneIsParent Verdicts
PROPERTIES CloneIndependent SameAsSubmit
CHECK_DEADLOCK FALSE
