CONSTANTS RollbackImports = TRUE
          Depth = 2
SPECIFICATION Spec
INVARIANTS ExampleTotal Verdicts
PROPERTIES CloneIndependent SameAsSubmit FailedCloneIsParent
CHECK_DEADLOCK FALSE
