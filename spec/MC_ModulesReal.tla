--------------------------- MODULE MC_ModulesReal ---------------------------
(***************************************************************************)
(* C17 on the module graph of the real standard library.  The data module  *)
(* _gen_ModuleGraph is written by lib/checks/c17.py from the harness dump  *)
(* of the current tree:                                                    *)
(*   RealUses  << direct uses of module 1, ... >>  (indices, textual order)*)
(*   RealOwn   << [v, f, un, d |-> set of interned names the module itself *)
(*                defines: variables, functions, unit names, dimensions] >>*)
(*   Queries   << top-level `use` sequences (indices) >> : the ordered     *)
(*             pairs and the random subset orders the harness executed     *)
(* For every query TLC evaluates the inlining rule of Modules.tla on the   *)
(* real graph, checks the C17 properties of the rule there, and prints the *)
(* prediction: modules in order of entry (= Resolver::imported_modules),   *)
(* modules in order of definition, and the size of the union of the OWN    *)
(* name sets over the loaded modules, per kind (card) together with the    *)
(* sum of the sizes (sum # card: two loaded modules define the same name,  *)
(* which would make the result depend on the import order).                *)
(* Queries are visited along a binary heap numbering so that the workers   *)
(* share them.                                                             *)
(***************************************************************************)
EXTENDS Modules, _gen_ModuleGraph, Json

VARIABLES i,    \* number of the query of this state (0: none)
          db    \* the tables (constant; a variable because TLC re-evaluates definitions on every reference)
vars == <<i, db>>

Init == /\ i = 0
        /\ db = [u |-> RealUses, own |-> RealOwn, q |-> Queries, B |-> Bodies(RealUses), rp |-> ReachTable(RealUses)]
Next == /\ \E j \in {2 * i + 1, 2 * i + 2} : j <= Len(db.q) /\ i' = j
        /\ UNCHANGED db
Spec == Init /\ [][Next]_vars

Rev(t) == [j \in 1..Len(t) |-> t[Len(t) + 1 - j]]
RECURSIVE SumCard(_, _)
SumCard(f, S) == IF S = {} THEN 0 ELSE LET x == CHOOSE x \in S : TRUE IN Cardinality(f[x]) + SumCard(f, S \ {x})

\* the real graph has no cycles, every used module exists, own-name tables cover every module
GraphOk == (i = 0) => /\ Acyclic(db.u)
                      /\ \A m \in DOMAIN db.u : Rng(db.u[m]) \subseteq DOMAIN db.u
                      /\ DOMAIN db.own = DOMAIN db.u

RuleProps == (i >= 1) =>
   LET t == db.q[i] IN
   \E r \in {RunB(db.B, t)} :
      /\ Loaded(db.u, t, r)
      /\ Once(r)
      /\ DepsFirst(db.rp, r)
      /\ SplitEq(db.B, t, r)
      /\ Reimport(db.B, r)
      /\ (Len(t) <= 3 => OrderIndep(db.B, t, r))
      /\ LET r2 == RunB(db.B, Rev(t)) IN r2.err = "" /\ Rng(r2.post) = Rng(r.post)

EmitCase == (i >= 1) =>
   LET t == db.q[i] IN
   \E r \in {RunB(db.B, t)} :
   \E L \in {Rng(r.post)} :
     PrintT(<<"CASE", ToJson([q |-> i, err |-> r.err, pre |-> r.pre, post |-> r.post,
        nv |-> Cardinality(UNION {db.own[m].v : m \in L}),  sv |-> SumCard([m \in L |-> db.own[m].v], L),
        nf |-> Cardinality(UNION {db.own[m].f : m \in L}),  sf |-> SumCard([m \in L |-> db.own[m].f], L),
        nu |-> Cardinality(UNION {db.own[m].un : m \in L}), su |-> SumCard([m \in L |-> db.own[m].un], L),
        nd |-> Cardinality(UNION {db.own[m].d : m \in L}),  sd |-> SumCard([m \in L |-> db.own[m].d], L)])>>)
=============================================================================
