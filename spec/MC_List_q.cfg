CONSTANTS NH = 3
          Elems = {1, 2}
          MaxLen = 3
SPECIFICATION Spec
INVARIANTS TypeOK Refines EqOk EndIsLen RcOk NoPanic
PROPERTY Isolation
CHECK_DEADLOCK FALSE
