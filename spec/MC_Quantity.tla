----------------------------- MODULE MC_Quantity -----------------------------
(***************************************************************************)
(* Pair generator for C04 / C11 / C12 over the dumped unit table: every    *)
(* ordered pair (k, j) of written forms of the same dimension, plus        *)
(* compound units sharing factors (the case the implementation's           *)
(* cancellation heuristic exists for).  Prints the exact expectation of    *)
(* `lit k -> j` and checks that the stepwise conversion procedure denotes  *)
(* the same as the definition.                                             *)
(***************************************************************************)
EXTENDS Quantity, _gen_UnitTable, Json, SequencesExt

VARIABLES stage, i, cs, clo
vars == <<stage, i, cs, clo>>

F(k) == Forms[k]
W1(k) == << [u |-> F(k).u, pk |-> F(k).pk, pe |-> F(k).pe, e |-> R(1)] >>
WMul(a, b) == a \o b
WInv(a) == [x \in 1..Len(a) |-> [a[x] EXCEPT !.e = RNeg(@)]]
WPow(a, r) == [x \in 1..Len(a) |-> [a[x] EXCEPT !.e = RMul(@, r)]]
SameDimForms(k) == {x \in PairPartners : clo[F(x).u].vec = clo[F(k).u].vec}

NoCase == [cls |-> "", qtext |-> "", ttext |-> "", qunit |-> << >>, target |-> << >>]
\* compound sources/targets: k/p -> j/p, k*p -> j*p, k^2 -> j^2, k/p -> j/p2 (p, p2 same dimension)
Compound(k, j) ==
     { [cls |-> "quot-common", qtext |-> F(k).text \o "/" \o F(p).text, ttext |-> F(j).text \o "/" \o F(p).text,
        qunit |-> WMul(W1(k), WInv(W1(p))), target |-> WMul(W1(j), WInv(W1(p)))] : p \in Partners2 }
  \cup { [cls |-> "prod-common", qtext |-> F(k).text \o "*" \o F(p).text, ttext |-> F(p).text \o "*" \o F(j).text,
        qunit |-> WMul(W1(k), W1(p)), target |-> WMul(W1(p), W1(j))] : p \in Partners2 }
  \cup { [cls |-> "square", qtext |-> F(k).text \o "^2", ttext |-> F(j).text \o "^2",
        qunit |-> WPow(W1(k), R(2)), target |-> WPow(W1(j), R(2))] }
  \cup { [cls |-> "same-unit-power", qtext |-> F(k).text \o "^3/" \o F(k).text, ttext |-> F(j).text \o "*" \o F(k).text,
        qunit |-> WMul(WPow(W1(k), R(3)), WInv(W1(k))), target |-> WMul(W1(j), W1(k))] }

Completions(k) ==
     { [cls |-> "pair", qtext |-> F(k).text, ttext |-> F(j).text, qunit |-> W1(k), target |-> W1(j)] : j \in SameDimForms(k) }
  \cup UNION { Compound(k, j) : j \in {x \in SameDimForms(k) : x \in CompoundPartners /\ k \in CompoundPartners} }

Init == stage = 0 /\ i = 0 /\ cs = NoCase /\ clo = [u \in DOMAIN UnitDef |-> Closure(UnitDef, u)]
Next == \/ stage = 0 /\ \E k \in 1..Len(Forms) : i' = k /\ stage' = 1 /\ UNCHANGED <<cs, clo>>
        \/ stage = 1 /\ \E c \in Completions(i) : cs' = c /\ stage' = 2 /\ UNCHANGED <<i, clo>>
Spec == Init /\ [][Next]_vars

\* MC (C04): cancellation of common factors never changes the meaning of a conversion
StepwiseAgrees == stage = 2 => ConvertAgree(clo, "3", cs.qunit, cs.target)
\* MC (C04): round trip and transitivity hold symbolically
RoundTrip == stage = 2 =>
   LET a == ConvertDen(clo, "3", cs.qunit, cs.target)
       mback == MAdd(a.mono, MAdd(WUnitDen(clo, cs.target, 1).mono, MNeg(WUnitDen(clo, cs.qunit, 1).mono))) IN
   a.compatible /\ mback = One("n:3")

WUnitJson(c) == LET ks == SetToSeq(DOMAIN c) IN [x \in 1..Len(ks) |-> [u |-> ks[x][1], pk |-> ks[x][2], pe |-> ks[x][3], e |-> c[ks[x]]]]

EmitCase == stage = 2 =>
  LET a == ConvertDen(clo, "3", cs.qunit, cs.target) IN
  PrintT(<<"CASE", ToJson([cls |-> cs.cls, q |-> cs.qtext, t |-> cs.ttext,
                           r |-> F(CHOOSE x \in SameDimForms(i) : \A y \in SameDimForms(i) : x <= y).text, unit |-> WUnitJson(a.unit), mono |-> MonoJson(a.mono),
                           qmono |-> MonoJson(WUnitDen(clo, cs.qunit, 1).mono), tmono |-> MonoJson(WUnitDen(clo, cs.target, 1).mono)])>>)
=============================================================================
